package channelappend

// C29 — Send results are aligned, ordered and idempotent (slice: the pure batch-shaping helpers of
// the append effect).
//
// appendEffect.run composes, for one append effect:
//
//	active, inactive := activeAppendItems(e.items)
//	batch := newIdempotentAppendBatch(active)            // fast path guarded by hasCoalescibleIdempotentItems
//	res, err := appender.AppendBatch(appendRequest(target, batch.items, ...))
//	completions = inactive ++ batch.expandCompletions(appendResultCompletions(batch.items, res))
//
// and the writer completes completion.item.future at completion.item.Index with completion.result,
// handing only `committed` completions to post-commit work. The harness calls exactly these helpers,
// with the appender's answer replaced by an arbitrary AppendBatchResult.
//
// "Same logical send" is the code's own definition (sameLogicalSend): equal FromUID, ClientMsgNo and
// payload bytes, with both FromUID and ClientMsgNo non-empty (sends without a key are never
// coalesced). A reused key with a DIFFERENT payload is not coalesced here: it is submitted as its own
// message and receives the appender's own answer for it; rejecting it is the store's job
// (payload-hash checked idempotency index) and outside this slice.

import (
	"context"
	"errors"
	"time"

	"github.com/WuKongIM/WuKongIM/internal/zzsym"
)

// c29Ctx is a context whose only observable behaviour is Err().
type c29Ctx struct{ err error }

func (c c29Ctx) Deadline() (time.Time, bool) { return time.Time{}, false }
func (c c29Ctx) Done() <-chan struct{}        { return nil }
func (c c29Ctx) Err() error                   { return c.err }
func (c c29Ctx) Value(any) any                { return nil }

var _ context.Context = c29Ctx{}

func c29N(quick, thorough int) int {
	max := quick
	if zzsym.Thorough() {
		max = thorough
	}
	return 1 + zzsym.Choice("n", max)
}

// c29Classes: the send commands an item is drawn from. They are concrete (the executor needs a
// concrete slot in the 256-entry probe table of hasCoalescibleIdempotentItems, whose index is the
// low byte of an FNV-64a fingerprint of all three fields), and chosen so that every relation between
// two sends occurs: identical, same key with another payload, another client message number,
// another sender, no sender, no client message number, and a DIFFERENT send whose fingerprint falls
// into the same probe-table slot as class 0 (forcing linear probing).
const c29Classes = 7

func c29Command(class int) SendCommand {
	var cmd SendCommand
	cmd.Payload = []byte{1}
	switch class {
	case 0:
		cmd.FromUID, cmd.ClientMsgNo = "u", "m"
	case 1:
		cmd.FromUID, cmd.ClientMsgNo = "u", "m"
		cmd.Payload = []byte{2}
	case 2:
		cmd.FromUID, cmd.ClientMsgNo = "u", "n"
	case 3:
		cmd.FromUID, cmd.ClientMsgNo = "v", "m"
	case 4:
		cmd.ClientMsgNo = "m"
	case 5:
		cmd.FromUID = "u"
	default:
		cmd.FromUID, cmd.ClientMsgNo = "m", "5" // fingerprint & 255 equals that of class 0
	}
	return cmd
}

// c29Item: one prepared send of a chosen class; the caller-visible identity (Index, MessageID) is
// per position.
func c29Item(index int) preparedSend {
	return c29ItemOf(index, zzsym.Choice("item.class", c29Classes))
}

// c29ItemPayloads: thorough only: the class's payload, or empty, or extended to two bytes.
func c29ItemPayloads(index int) preparedSend {
	it := c29Item(index)
	switch zzsym.Choice("item.payload", 3) {
	case 1:
		it.Command.Payload = nil
	case 2:
		it.Command.Payload = append(it.Command.Payload, 9)
	}
	return it
}

func c29ItemOf(index int, class int) preparedSend {
	cmd := c29Command(class)
	cmd.MessageID = zzsym.U64("item.messageId")
	cmd.ChannelID = "c"
	cmd.ChannelType = 2
	return preparedSend{Index: index, Command: cmd, ServerTimestampMS: 1, serverAllocatedMessageID: true}
}

func c29Keyed(p preparedSend) bool { return p.Command.FromUID != "" && p.Command.ClientMsgNo != "" }

func c29BytesEq(a, b []byte) bool {
	if len(a) != len(b) {
		return false
	}
	eq := true
	for i := range a {
		if a[i] != b[i] {
			eq = false
		}
	}
	return eq
}

// c29SameKey: same sender and client message number (both present).
func c29SameKey(a, b preparedSend) bool {
	return c29Keyed(a) && c29Keyed(b) && a.Command.FromUID == b.Command.FromUID && a.Command.ClientMsgNo == b.Command.ClientMsgNo
}

// c29SameSend: the same logical send: same key and same payload.
func c29SameSend(a, b preparedSend) bool {
	return c29SameKey(a, b) && c29BytesEq(a.Command.Payload, b.Command.Payload)
}

// c29Owners: own[j] = the first position holding the same logical send as j (j itself if none).
func c29Owners(items []preparedSend) []int {
	own := make([]int, len(items))
	for j := range items {
		own[j] = j
		for i := j - 1; i >= 0; i-- {
			if c29SameSend(items[i], items[j]) {
				own[j] = own[i]
			}
		}
	}
	return own
}

// c29Result: an arbitrary appender answer for `unique` request messages: arbitrary ids and sequences;
// quick: a vector one short, exact or one too long with at most one item-local error; thorough: every
// length 0..unique+1 and every subset of failing positions, every error class.
func c29Result(unique int, classes bool) AppendBatchResult {
	var n int
	if zzsym.Thorough() {
		n = zzsym.Choice("res.len", unique+2)
	} else {
		n = unique + zzsym.Choice("res.len", 3) - 1
		zzsym.Assume(n >= 0)
	}
	res := AppendBatchResult{Items: make([]AppendBatchItemResult, n)}
	for i := range res.Items {
		res.Items[i].MessageID = zzsym.U64("res.messageId")
		res.Items[i].MessageSeq = zzsym.U64("res.messageSeq")
	}
	if zzsym.Thorough() {
		for i := range res.Items {
			if classes {
				res.Items[i].Err = c29Err("res.err")
			} else if zzsym.Choice("res.fails", 2) == 1 {
				res.Items[i].Err = ErrAppendFailed
			}
		}
	} else if n > 0 {
		if at := zzsym.Choice("res.errAt", n+1); at < n {
			res.Items[at].Err = ErrAppendFailed
			if classes {
				if e := c29Err("res.err"); e != nil {
					res.Items[at].Err = e
				}
			}
		}
	}
	return res
}

func c29Err(name string) error {
	switch zzsym.Choice(name, 4) {
	case 0:
		return nil
	case 1:
		return ErrChannelNotFound
	case 2:
		return ErrNotLeader
	default:
		return errors.New("c29: store failure")
	}
}

// ---------------------------------------------------------------- entries

// Harness_C29_Coalesce: n sends, all live. newIdempotentAppendBatch + appendResultCompletions +
// expandCompletions against an arbitrary appender answer.
func Harness_C29_Coalesce() {
	// quick: 1..3 items of all 7 classes, plus 4 items of 3 classes (a send, the same key with another
	// payload, another key) so that a second duplicate group after a first one occurs (A A B B);
	// thorough: 1..4 items of all classes (1..2 items also with empty and two-byte payloads).
	n := c29N(4, 4)
	items := make([]preparedSend, n)
	for i := range items {
		if n == 4 && !zzsym.Thorough() {
			items[i] = c29ItemOf(i, zzsym.Choice("item.class3", 3))
		} else if n <= 2 && zzsym.Thorough() {
			items[i] = c29ItemPayloads(i)
		} else {
			items[i] = c29Item(i)
		}
	}
	own := c29Owners(items)
	pairExists := false
	uniqueWant := 0
	for j := range own {
		if own[j] != j {
			pairExists = true
		} else {
			uniqueWant++
		}
	}

	for i := 0; i < n; i++ {
		for j := i + 1; j < n; j++ {
			if c29Keyed(items[i]) && c29Keyed(items[j]) && !c29SameSend(items[i], items[j]) &&
				logicalSendFingerprint(items[i].Command)&(appendIdempotencyStackTableSize-1) == logicalSendFingerprint(items[j].Command)&(appendIdempotencyStackTableSize-1) {
				zzsym.Reach("probe-slot-collision")
			}
		}
	}

	// (1) the fast-path guard never misses a coalescible pair
	has := hasCoalescibleIdempotentItems(items)
	if pairExists {
		zzsym.Reach("coalescible-pair")
		zzsym.Assert(has, "hasCoalescibleIdempotentItems missed a coalescible pair (fast path would skip coalescing)")
	} else {
		zzsym.Reach("no-coalescible-pair")
	}

	// (2) the storage request holds every logical send exactly once, in submission order
	batch := newIdempotentAppendBatch(items)
	zzsym.Assert(len(batch.items) == uniqueWant, "storage request does not hold exactly one message per logical send")
	if len(batch.items) != uniqueWant {
		return
	}
	rank := make([]int, n) // rank[j]: position of j's owner in the storage request
	k := 0
	for j := range items {
		if own[j] == j {
			zzsym.Assert(batch.items[k].Index == j, "storage request is not in submission order of first occurrences")
			rank[j] = k
			k++
		} else {
			rank[j] = rank[own[j]]
		}
	}
	if batch.ownerByItem == nil {
		zzsym.Reach("fast-path")
		zzsym.Assert(!pairExists, "coalescing skipped although a coalescible pair exists")
	} else {
		zzsym.Reach("coalesced")
		zzsym.Assert(len(batch.ownerByItem) == n && len(batch.original) == n, "owner table does not cover every caller")
		for i := 0; i < n; i++ {
			for j := i + 1; j < n; j++ {
				if batch.ownerByItem[i] == batch.ownerByItem[j] {
					zzsym.Assert(c29SameSend(items[i], items[j]), "two sends that are not the same logical send were coalesced")
				}
				if c29SameKey(items[i], items[j]) && !c29SameSend(items[i], items[j]) {
					zzsym.Reach("same-key-different-payload")
					zzsym.Assert(batch.ownerByItem[i] != batch.ownerByItem[j], "a reused key with a different payload was coalesced with the earlier send")
				}
			}
		}
	}

	// (3) arbitrary appender answer, expanded back to the callers
	res := c29Result(len(batch.items), false)
	out := batch.expandCompletions(appendResultCompletions(batch.items, res))
	zzsym.Assert(len(out) == n, "not exactly one completion per input position")
	if len(out) != n {
		return
	}
	committed := make([]int, n) // per owner: number of committed completions
	for j := range out {
		c := out[j]
		zzsym.Assert(c.item.Index == j && c.item.Command.MessageID == items[j].Command.MessageID &&
			c.item.Command.FromUID == items[j].Command.FromUID && c.item.Command.ClientMsgNo == items[j].Command.ClientMsgNo,
			"completion at a position is not for that position's item")
		r := rank[j]
		switch {
		case r >= len(res.Items):
			zzsym.Reach("result-missing")
			zzsym.Assert(c.result.Err == ErrAppendResultMissing && !c.committed, "missing appender result must complete the item with ErrAppendResultMissing")
			// (an item result with Err set is a failure whatever Result.Reason says: ReasonSuccess is the zero value)
			zzsym.Assert(c.result.Result.MessageID == 0 && c.result.Result.MessageSeq == 0, "missing appender result carries a message id or sequence")
		case res.Items[r].Err != nil:
			zzsym.Reach("result-error")
			zzsym.Assert(!c.committed && c.result.Result.Reason != ReasonSuccess, "failed append reported as a committed or successful send")
			zzsym.Assert(c.result.Result.MessageID == 0 && c.result.Result.MessageSeq == 0, "failed append carries a message id or sequence")
			zzsym.Assert(c.traceErr == res.Items[r].Err, "failed append lost its error")
		default:
			zzsym.Reach("result-success")
			zzsym.Assert(c.result.Err == nil && c.result.Result.Reason == ReasonSuccess, "successful append not reported as success")
			zzsym.Assert(c.result.Result.MessageID == res.Items[r].MessageID && c.result.Result.MessageSeq == res.Items[r].MessageSeq,
				"completion does not carry the id and sequence the appender returned for this logical send")
			zzsym.Assert(c.committed == (own[j] == j), "exactly the first caller of a logical send must be marked committed")
		}
		if c.committed {
			committed[own[j]]++
		}
		if own[j] != j {
			zzsym.Reach("duplicate-caller")
			o := out[own[j]]
			zzsym.Assert(c.result.Result == o.result.Result && c.result.Err == o.result.Err,
				"a duplicate caller does not share the owner's message id, sequence and outcome")
		}
	}
	for j := range out {
		if own[j] == j {
			ok := rank[j] < len(res.Items) && res.Items[rank[j]].Err == nil
			want := 0
			if ok {
				want = 1
			}
			zzsym.Assert(committed[j] == want, "a logical send must be committed exactly once when appended, never otherwise")
		}
	}
	zzsym.Observe("coalesce", uint64(n), uint64(len(batch.items)), zzsym.B2U(has), zzsym.B2U(batch.ownerByItem == nil), uint64(len(res.Items)))
}

// Harness_C29_ResultAlignment: appendResultCompletions alone, no duplicates: position i of the
// request gets position i of the answer.
func Harness_C29_ResultAlignment() {
	n := c29N(3, 4)
	items := make([]preparedSend, n)
	for i := range items {
		items[i] = preparedSend{Index: i, Command: SendCommand{MessageID: zzsym.U64("item.messageId")}}
	}
	res := c29Result(n, true)
	m := len(res.Items)
	out := appendResultCompletions(items, res)
	zzsym.Reach("aligned")
	zzsym.Assert(len(out) == n, "appendResultCompletions: not one completion per request message")
	if len(out) != n {
		return
	}
	for i := range out {
		c := out[i]
		zzsym.Assert(c.item.Index == i && c.item.Command.MessageID == items[i].Command.MessageID, "appendResultCompletions: completion is for another item")
		switch {
		case i >= m:
			zzsym.Assert(c.result.Err == ErrAppendResultMissing && c.traceErr == ErrAppendResultMissing && !c.committed, "short answer: item must fail with ErrAppendResultMissing")
		case res.Items[i].Err != nil:
			want := ReasonSystemError
			if res.Items[i].Err == ErrChannelNotFound {
				want = ReasonChannelNotExist
			} else if res.Items[i].Err == ErrNotLeader {
				want = ReasonNodeNotMatch
			}
			zzsym.Assert(c.result.Err == nil && c.result.Result.Reason == want && c.result.Result.MessageID == 0 && c.result.Result.MessageSeq == 0 && !c.committed,
				"item-local append error must map to its reason without id, sequence or commit")
			zzsym.Assert(c.traceErr == res.Items[i].Err, "item-local append error lost")
		default:
			zzsym.Assert(c.committed && c.result.Err == nil && c.result.Result.Reason == ReasonSuccess &&
				c.result.Result.MessageID == res.Items[i].MessageID && c.result.Result.MessageSeq == res.Items[i].MessageSeq &&
				c.appended.MessageID == res.Items[i].MessageID && c.appended.MessageSeq == res.Items[i].MessageSeq,
				"successful item must carry its own id and sequence and be committed")
		}
	}
	zzsym.Observe("aligned", uint64(n), uint64(m))
}

// Known finding C29-F1: when items 0 and 1 of the effect have both already failed, activeAppendItems
// returns item 0 among the live items as well (the "prefix not copied yet" test `active == nil` is
// still true after copying the EMPTY prefix at item 0, so the prefix items[:1] is copied at item 1).
// The executor stops an entry after 8 violations, known or not, so the pattern is excluded (Assume)
// from the ordinary entries and exercised alone in Harness_C29_KnownLeadingDead.

// c29Partition: activeAppendItems on n items whose contexts are absent, live or failed.
func c29Partition(leadingDead bool) {
	n := c29N(4, 5)
	items := make([]preparedSend, n)
	dead := make([]bool, n)
	errs := make([]error, n)
	for i := range items {
		items[i] = preparedSend{Index: i, Command: SendCommand{MessageID: zzsym.U64("item.messageId")}}
		kind := zzsym.Choice("item.ctx", 3)
		if leadingDead && i < 2 {
			kind = 2
		}
		switch kind {
		case 0: // no context
		case 1:
			items[i].Context = c29Ctx{}
		default:
			errs[i] = errors.New("c29: caller gave up")
			items[i].Context = c29Ctx{err: errs[i]}
			dead[i] = true
		}
	}
	f1 := n >= 2 && dead[0] && dead[1]
	zzsym.Assume(f1 == leadingDead)
	active, inactive := activeAppendItems(items)
	zzsym.Reach("partition")
	ai, ii := 0, 0
	for i := range items {
		if dead[i] {
			zzsym.Reach("dead-item")
			zzsym.Assert(ii < len(inactive), "a failed item got no completion")
			if ii >= len(inactive) {
				return
			}
			c := inactive[ii]
			zzsym.Assert(c.item.Index == i && c.item.Command.MessageID == items[i].Command.MessageID, "inactive completions out of order or for another item")
			zzsym.Assert(c.result.Err == errs[i] && c.traceErr == errs[i] && !c.committed && c.result.Result == (SendResult{}), "inactive completion must carry the item's own context error and nothing else")
			ii++
		} else {
			zzsym.Reach("live-item")
			zzsym.Assert(ai < len(active), "a live item was dropped from the append")
			if ai >= len(active) {
				return
			}
			zzsym.AssertKnown(active[ai].Index == i && active[ai].Command.MessageID == items[i].Command.MessageID, "active items out of order or not the submitted item", "C29-F1", f1)
			ai++
		}
	}
	zzsym.AssertKnown(ai == len(active) && ii == len(inactive), "partition invented an item", "C29-F1", f1)
	zzsym.Observe("partition", uint64(n), uint64(len(active)), uint64(len(inactive)))
}

// c29Pipeline: the three helpers composed as in appendEffect.run (used for the known-finding inputs;
// the ordinary inputs go through the real appendEffect.run in Harness_C29_RunEffect), with failed
// items and duplicates mixed: every submitted position receives exactly one completion, for its own item, and an item
// whose caller already gave up is never appended.
func c29Pipeline(leadingDead bool) {
	n := c29N(3, 4)
	items := make([]preparedSend, n)
	for i := range items {
		if zzsym.Thorough() {
			items[i] = c29Item(i)
		} else {
			// quick: identical / same key with another payload / no key
			items[i] = c29ItemOf(i, [3]int{0, 1, 4}[zzsym.Choice("item.class3", 3)])
		}
		if (leadingDead && i < 2) || zzsym.Choice("item.dead", 2) == 1 {
			items[i].Context = c29Ctx{err: errors.New("c29: caller gave up")}
		}
	}
	f1 := n >= 2 && items[0].Context != nil && items[1].Context != nil
	zzsym.Assume(f1 == leadingDead)
	active, inactive := activeAppendItems(items)
	var all []appendItemCompletion
	all = append(all, inactive...)
	if len(active) > 0 {
		batch := newIdempotentAppendBatch(active)
		res := c29Result(len(batch.items), false)
		all = append(all, batch.expandCompletions(appendResultCompletions(batch.items, res))...)
	}
	zzsym.Reach("pipeline")
	zzsym.AssertKnown(len(all) == n, "pipeline: number of completions differs from number of submitted items", "C29-F1", f1)
	seen := make([]int, n)
	for _, c := range all {
		idx := c.item.Index
		zzsym.Assert(idx >= 0 && idx < n, "pipeline: completion for an unknown position")
		if idx < 0 || idx >= n {
			return
		}
		seen[idx]++
		zzsym.Assert(c.item.Command.MessageID == items[idx].Command.MessageID, "pipeline: completion carries another position's item")
	}
	for i := range seen {
		zzsym.AssertKnown(seen[i] == 1, "pipeline: a position did not receive exactly one completion", "C29-F1", f1 && i == 0)
	}
	// an abandoned item is completed with an error and is not part of the storage request
	for _, a := range active {
		zzsym.AssertKnown(a.Context == nil, "pipeline: an item whose caller gave up is appended to storage", "C29-F1", f1 && a.Index == 0)
	}
	zzsym.Observe("pipeline", uint64(n), uint64(len(active)), uint64(len(inactive)))
}

// Harness_C29_ActivePartition: activeAppendItems splits the batch into live items (returned in
// order) and already-failed items (completed in order with their own context error).
func Harness_C29_ActivePartition() { c29Partition(false) }

// Harness_C29_KnownLeadingDeadPartition / ...Pipeline: the same obligations on exactly the inputs of
// known finding C29-F1 (items 0 and 1 both already failed).
func Harness_C29_KnownLeadingDeadPartition() { c29Partition(true) }

func Harness_C29_KnownLeadingDeadPipeline() { c29Pipeline(true) }

// ---------------------------------------------------------------- the real append effect

// c29Appender is the Appender port: it records the storage request and answers with an arbitrary
// item-aligned result (or a batch error that is not ErrAppendFailed, so no recovery lookup runs).
type c29Appender struct {
	calls    int
	req      AppendBatchRequest
	res      AppendBatchResult
	batchErr error
}

func (a *c29Appender) AppendBatch(_ context.Context, req AppendBatchRequest) (AppendBatchResult, error) {
	a.calls++
	a.req = req
	if zzsym.Choice("appender.fails", 4) == 3 {
		a.batchErr = ErrNotLeader
		return AppendBatchResult{}, a.batchErr
	}
	a.res = c29Result(len(req.Messages), false)
	return a.res, nil
}

// Harness_C29_RunEffect: appendEffect.run itself (active filter, coalescing, request building, result
// expansion) against the fake appender: what reaches storage and what every caller is told.
func Harness_C29_RunEffect() {
	n := c29N(3, 3)
	items := make([]preparedSend, n)
	for i := range items {
		if zzsym.Thorough() {
			items[i] = c29Item(i)
		} else {
			items[i] = c29ItemOf(i, [3]int{0, 1, 4}[zzsym.Choice("item.class3", 3)])
		}
		if zzsym.Choice("item.dead", 2) == 1 {
			items[i].Context = c29Ctx{err: errors.New("c29: caller gave up")}
		}
	}
	// known finding C29-F1 (two leading failed items) is exercised in Harness_C29_KnownLeadingDead*
	zzsym.Assume(!(n >= 2 && items[0].Context != nil && items[1].Context != nil))
	app := &c29Appender{}
	effect := appendEffect{target: AuthorityTarget{ChannelID: ChannelID{ID: "c", Type: 2}, Epoch: 3, LeaderEpoch: 4}, key: "k", seq: zzsym.U64("effect.seq"), items: items}
	ev := effect.run(nil, appendPorts{appender: app})
	zzsym.Reach("effect-ran")
	zzsym.Assert(ev.key == effect.key && ev.seq == effect.seq, "completion event is for another effect")

	// live items and their owners, by the harness's own reading
	var live []preparedSend
	for _, it := range items {
		if it.Context == nil {
			live = append(live, it)
		}
	}
	own := c29Owners(live)
	unique := 0
	for j := range own {
		if own[j] == j {
			unique++
		}
	}
	if len(live) == 0 {
		zzsym.Reach("nothing-live")
		zzsym.Assert(app.calls == 0, "append issued although no item is live")
	} else {
		zzsym.Assert(app.calls == 1, "exactly one storage append per effect")
		zzsym.Assert(len(app.req.Messages) == unique, "storage request does not hold exactly one message per live logical send")
		zzsym.Assert(app.req.ExpectedEpoch == 3 && app.req.ExpectedLeaderEpoch == 4 && app.req.ChannelID == effect.target.ChannelID, "storage request not fenced with the effect's authority target")
		if len(app.req.Messages) != unique {
			return
		}
		k := 0
		for j := range live {
			if own[j] == j {
				m := app.req.Messages[k]
				zzsym.Assert(m.MessageID == live[j].Command.MessageID && m.FromUID == live[j].Command.FromUID && m.ClientMsgNo == live[j].Command.ClientMsgNo &&
					c29BytesEq(m.Payload, live[j].Command.Payload), "storage request message is not the first caller's send, in submission order")
				k++
			}
		}
	}

	// one completion per submitted position
	zzsym.Assert(len(ev.items) == n, "number of completions differs from number of submitted items")
	seen := make([]int, n)
	byIndex := make([]appendItemCompletion, n)
	for _, c := range ev.items {
		idx := c.item.Index
		zzsym.Assert(idx >= 0 && idx < n, "completion for an unknown position")
		if idx < 0 || idx >= n {
			return
		}
		seen[idx]++
		byIndex[idx] = c
		zzsym.Assert(c.item.Command.MessageID == items[idx].Command.MessageID, "completion carries another position's item")
	}
	for i := range seen {
		zzsym.Assert(seen[i] == 1, "a position did not receive exactly one completion")
		if seen[i] != 1 {
			return
		}
	}
	// what each caller is told
	rank := make([]int, len(live))
	k := 0
	for j := range live {
		if own[j] == j {
			rank[j] = k
			k++
		} else {
			rank[j] = rank[own[j]]
		}
	}
	lj := 0
	for i := range items {
		c := byIndex[i]
		if items[i].Context != nil {
			zzsym.Reach("abandoned-item")
			zzsym.Assert(c.result.Err != nil && !c.committed, "an item whose caller gave up was appended or reported as sent")
			continue
		}
		j := lj
		lj++
		switch {
		case app.batchErr != nil:
			zzsym.Reach("batch-error")
			zzsym.Assert(c.result.Err == app.batchErr && !c.committed, "batch append error must fail every live item with that error")
		case rank[j] >= len(app.res.Items):
			zzsym.Assert(c.result.Err == ErrAppendResultMissing && !c.committed, "missing appender result must complete the item with ErrAppendResultMissing")
		case app.res.Items[rank[j]].Err != nil:
			zzsym.Assert(!c.committed && c.result.Result.Reason != ReasonSuccess && c.result.Result.MessageID == 0 && c.result.Result.MessageSeq == 0,
				"failed append reported as a committed or successful send")
		default:
			zzsym.Reach("sent")
			r := app.res.Items[rank[j]]
			zzsym.Assert(c.result.Err == nil && c.result.Result.Reason == ReasonSuccess && c.result.Result.MessageID == r.MessageID && c.result.Result.MessageSeq == r.MessageSeq,
				"caller is not told the id and sequence the appender returned for its logical send")
			zzsym.Assert(c.committed == (own[j] == j), "exactly the first caller of a logical send must be marked committed")
			if own[j] != j {
				zzsym.Reach("retried-send")
			}
		}
	}
	zzsym.Observe("run", uint64(n), uint64(len(live)), uint64(unique), uint64(app.calls), uint64(len(ev.items)))
}

// ---------------------------------------------------------------- ordered completion drain

// Harness_C29_OrderedDrain: append effects of one channel complete in any order; the writer applies
// recordAppendCompletion then pops until empty (applyAppendCompletion). Completions must be applied in
// append-sequence order, each exactly once, so results of one channel are delivered in submission
// order whatever the append latencies were.
func Harness_C29_OrderedDrain() {
	k := 3
	if zzsym.Thorough() {
		k = 4
	}
	base := zzsym.U64("base")
	zzsym.Assume(base < 1<<62)
	s := &channelState{nextAppendSeq: base + uint64(k), nextAppendDrainSeq: base}
	remaining := make([]int, k)
	for i := range remaining {
		remaining[i] = i
	}
	recorded := make([]bool, k)
	next := 0 // number of completions applied so far
	for len(remaining) > 0 {
		pick := zzsym.Choice("finish", len(remaining))
		i := remaining[pick]
		remaining = append(remaining[:pick:pick], remaining[pick+1:]...)
		s.recordAppendCompletion(appendCompletedEvent{key: "k", seq: base + uint64(i), duration: time.Duration(i + 1)})
		recorded[i] = true
		for {
			ev, ok := s.popNextAppendCompletion()
			if !ok {
				break
			}
			zzsym.Assert(next < k, "more completions applied than append effects issued")
			if next >= k {
				return
			}
			zzsym.Assert(ev.seq == base+uint64(next) && ev.duration == time.Duration(next+1), "append completions applied out of append-sequence order")
			zzsym.Assert(recorded[next], "a completion was applied before its append finished")
			next++
		}
		// nothing applicable may be left waiting
		if next < k {
			zzsym.Assert(!recorded[next], "the next in-order completion is recorded but was not applied")
		}
	}
	zzsym.Reach("drained")
	zzsym.Assert(next == k, "an append completion was lost")
	zzsym.Assert(!s.hasReadyAppendCompletion && s.completedAppends == nil && s.nextAppendDrainSeq == base+uint64(k), "drain state not clean after all completions")
	// a stale (already applied) completion is ignored
	s.recordAppendCompletion(appendCompletedEvent{seq: base})
	_, again := s.popNextAppendCompletion()
	zzsym.Assert(!again, "an already applied completion was applied twice")
	zzsym.Observe("drain", uint64(k), uint64(next))
}
