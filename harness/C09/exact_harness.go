package message

import (
	"context"

	"github.com/WuKongIM/WuKongIM/internal/zzsym"
	"github.com/WuKongIM/WuKongIM/pkg/db/internal/engine"
	channel "github.com/WuKongIM/WuKongIM/pkg/db/message/channelcompat"
	"github.com/WuKongIM/WuKongIM/pkg/quorumlog"
)

// C09 on the exact-proposal log (the production write path of the channel runtime): rows, secondary
// indexes, the proposal manifest under both of its keys (by last offset, by command), one entry
// identity per row and the committed watermark are written by StoreAppendBatch (exact append, one or
// two adjacent proposals per call, through the commit coordinator) and by ReplaceRecoverySuffix
// (divergent suffix removed and replacement installed), and removed by ChannelStore.Truncate. After a
// stop at any commit boundary and a restart, LoadDurableRecovery (= LoadDurableFrontier plus entry
// probes) must succeed - it fails closed on a missing tail proof or a watermark above the log end -
// and everything must be the reference after a prefix of the operations.
//
// Digests are SHA-256 values (an abstract injective function in the executor, the real hash
// natively): the harness never fixes digest bytes, it only compares what the store returns with what
// the real quorumlog.SealProposalManifest derived. Command ids and message ids are key material and
// are concrete.

const (
	c09Epoch = uint64(7)
	c09Fence = uint64(1)
)

// c09Prop is one sealed proposal of the reference log.
type c09Prop struct {
	cmd     byte
	man     DurableProposalManifest
	entries []quorumlog.EntryIdentity
	recs    []c07Rec
	records []channel.Record
}

// c09ERef is the reference state: the chained proposals and the committed watermark.
type c09ERef struct {
	props []c09Prop
	hasCP bool
	hw    uint64
}

func (r *c09ERef) clone() *c09ERef {
	c := *r
	c.props = append([]c09Prop(nil), r.props...)
	return &c
}

func (r *c09ERef) leo() uint64 {
	if len(r.props) == 0 {
		return 0
	}
	return r.props[len(r.props)-1].man.LastOffset
}

func (r *c09ERef) tail() quorumlog.EntryIdentity {
	if len(r.props) == 0 {
		return quorumlog.EntryIdentity{}
	}
	p := r.props[len(r.props)-1]
	return p.entries[len(p.entries)-1]
}

func (r *c09ERef) rows() []c07Rec {
	var out []c07Rec
	for _, p := range r.props {
		out = append(out, p.recs...)
	}
	return out
}

// keep returns the reference cut after the last proposal ending at or below through.
func (r *c09ERef) keep(through uint64) *c09ERef {
	c := r.clone()
	c.props = nil
	for _, p := range r.props {
		if p.man.LastOffset <= through {
			c.props = append(c.props, p)
		}
	}
	return c
}

type c09Exact struct {
	st       *ChannelStore
	view     *c07Store
	ref      *c09ERef
	cmds     []byte   // every command id ever offered
	ids      []uint64 // every message id ever offered
	nextID   uint64
	nextCmd  byte
	nextTerm uint64
	issued   int
}

// propose seals a proposal of count records chained to prev at base, with a fresh command id, fresh
// message ids and fresh (sender, client number) pairs, through the real SealProposalManifest.
func (e *c09Exact) propose(base uint64, prev quorumlog.EntryIdentity, count int) c09Prop {
	e.nextCmd++
	e.nextTerm++
	p := c09Prop{cmd: e.nextCmd}
	man := DurableProposalManifest{
		Version: quorumlog.ProposalManifestVersion, ChannelEpoch: c09Epoch, LeaderTerm: e.nextTerm, FenceVersion: c09Fence,
		BaseOffset: base, LastOffset: base + uint64(count), PreviousTerm: prev.LeaderTerm, PreviousIndex: base, PreviousDigest: prev.Digest,
	}
	man.CommandID[0] = p.cmd
	qrecs := make([]quorumlog.Record, count)
	for i := 0; i < count; i++ {
		e.nextID++
		r := c07Rec{seq: base + uint64(i) + 1, id: e.nextID, uid: c09NewSender, cno: c09ClientNos[e.issued], payload: byte(e.nextID), ts: 1000 + int64(e.nextID)}
		e.issued++
		e.ids = append(e.ids, r.id)
		rec := c09CompatRecord(r)
		rec.Epoch = c09Epoch
		p.recs = append(p.recs, r)
		p.records = append(p.records, rec)
		qrecs[i] = quorumlog.Record{ID: r.id, Epoch: c09Epoch, FromUID: r.uid, ClientMsgNo: r.cno, ServerTimestampMS: r.ts, Payload: []byte{r.payload}}
	}
	sealed, entries, ok := quorumlog.SealProposalManifest(man, qrecs)
	zzsym.Assert(ok, "c09: SealProposalManifest refused a valid chained proposal")
	p.man, p.entries = sealed, entries
	e.cmds = append(e.cmds, p.cmd)
	return p
}

func (p *c09Prop) item(st *ChannelStore, committed uint64, serverIDs bool) AppendBatchItem {
	return AppendBatchItem{
		Store: st, Records: p.records, Committed: committed, ServerAllocatedMessageIDs: serverIDs,
		ExactBaseOffset: true, ExpectedBaseOffset: p.man.BaseOffset, Proposal: p.man,
	}
}

// c09ExactSeeded: fresh database; proposals P1 (rows 1..2) and P2 (row 3) appended through
// StoreAppendBatch, the second with Committed = 2.
func c09ExactSeeded() *c09Exact {
	s0, _ := c07FreshStore()
	zzsym.Assert(s0.log.Close() == nil && s0.db.Close() == nil, "c09: close after creation failed")
	_, st, view := c09OpenCompat()
	e := &c09Exact{st: st, view: view, ref: &c09ERef{}, nextID: 100}
	for i, count := range [2]int{2, 1} {
		p := e.propose(e.ref.leo(), e.ref.tail(), count)
		committed := uint64(0)
		if i == 1 {
			committed = 2
		}
		res := StoreAppendBatch(context.Background(), []AppendBatchItem{p.item(st, committed, true)})
		zzsym.Assert(len(res) == 1 && res[0].Err == nil && res[0].Outcome == quorumlog.AppendOutcomeDurable && res[0].LastOffset == p.man.LastOffset,
			"c09: exact seed append failed")
		e.ref.props = append(e.ref.props, p)
		if committed > 0 {
			e.ref.hasCP, e.ref.hw = true, committed
		}
	}
	zzsym.Assert(e.checkEqual(st, view, e.ref), "c09: the seeded exact log differs from the reference")
	engine.ZZCrashTrack(c09Path)
	return e
}

// ---------------------------------------------------------------- comparison

// concreteMatch decides, from concrete observations only (log end, watermark, command id of every
// entry), which reference a store can be; the full comparison follows in checkEqual.
func (e *c09Exact) concreteMatch(st *ChannelStore, r *c09ERef) bool {
	leo, err := st.LEOWithError()
	if err != nil || leo != r.leo() {
		return false
	}
	cp, cerr := st.LoadCheckpoint()
	if r.hasCP {
		if cerr != nil || cp.HW != r.hw {
			return false
		}
	} else if cerr == nil {
		return false
	}
	for _, p := range r.props {
		for _, en := range p.entries {
			got, present, gerr := loadDurableEntryIdentityFrom(st.log.db.engine, st.log.key, en.Index)
			if gerr != nil || !present || got.CommandID[0] != p.cmd {
				return false
			}
		}
	}
	return true
}

// checkEqual: everything observable equals the reference - the exact frontier (LoadDurableRecovery
// must succeed: tail proof present, watermark within the log), every entry identity in 1..LEO+1,
// every proposal by command id (offered and absent ones not found), the rows and their indexes.
func (e *c09Exact) checkEqual(st *ChannelStore, view *c07Store, r *c09ERef) bool {
	ctx := context.Background()
	leo := r.leo()
	indexes := make([]uint64, leo+1)
	for i := range indexes {
		indexes[i] = uint64(i + 1)
	}
	rec, err := st.LoadDurableRecovery(ctx, indexes)
	zzsym.Assert(err == nil, "C09 (exact): LoadDurableRecovery fails on the store (missing tail proof, watermark above the log end, or unpaired proposal index)")
	if err != nil || len(rec.Entries) != len(indexes) {
		return false
	}
	ok := zzsym.B2U(rec.LEO == leo) & zzsym.B2U(rec.Committed == r.hw) & zzsym.B2U(rec.TailIdentity == r.tail())
	if len(r.props) > 0 {
		ok &= zzsym.B2U(rec.Manifest == r.props[len(r.props)-1].man)
	} else {
		ok &= zzsym.B2U(rec.Manifest == (DurableProposalManifest{}))
	}
	_, cperr := st.LoadCheckpoint()
	ok &= zzsym.B2U((cperr == nil) == r.hasCP)
	pos := 0
	for _, p := range r.props {
		for _, en := range p.entries {
			ok &= zzsym.B2U(rec.Entries[pos].Present) & zzsym.B2U(rec.Entries[pos].Identity == en)
			pos++
		}
	}
	ok &= zzsym.B2U(!rec.Entries[pos].Present)
	// no orphaned entry identity or proposal above the log end (the probe API does not look there)
	for _, idx := range [2]uint64{leo + 1, leo + 2} {
		_, above, aerr := loadDurableEntryIdentityFrom(st.log.db.engine, st.log.key, idx)
		_, pabove, perr := loadDurableProposalFrom(st.log.db.engine, encodeProposalByLastKey(st.log.key, idx))
		ok &= zzsym.B2U(aerr == nil && !above) & zzsym.B2U(perr == nil && !pabove)
	}
	for _, cmd := range e.cmds {
		var id quorumlog.CommandID
		id[0] = cmd
		var want *c09Prop
		for i := range r.props {
			if r.props[i].cmd == cmd {
				want = &r.props[i]
			}
		}
		got, present, perr := st.LoadDurableProposal(ctx, id, 8, 1<<20)
		if want == nil {
			ok &= zzsym.B2U(perr == nil && !present)
		} else {
			ok &= zzsym.B2U(perr == nil && present) & zzsym.B2U(got.Manifest == want.man) & zzsym.B2U(len(got.Records) == len(want.records))
		}
	}
	rows := r.rows()
	msgs, rerr := view.log.Read(ctx, 0, ReadOptions{})
	ok &= zzsym.B2U(rerr == nil && len(msgs) == len(rows))
	for i := 0; i < len(msgs) && i < len(rows); i++ {
		ok &= zzsym.B2U(c07SameMessage(msgs[i], rows[i]))
	}
	for _, id := range e.ids {
		var holder c07Rec
		held := false
		for _, row := range rows {
			if row.id == id {
				holder, held = row, true
			}
		}
		m, present, ierr := view.log.GetByMessageID(ctx, id)
		ok &= zzsym.B2U(ierr == nil && present == held)
		if held && present {
			ok &= zzsym.B2U(c07SameMessage(m, holder))
		}
	}
	for i := 0; i < e.issued; i++ {
		var holder c07Rec
		held := false
		for _, row := range rows {
			if row.cno == c09ClientNos[i] {
				holder, held = row, true
			}
		}
		hit, present, lerr := view.log.LookupIdempotency(ctx, IdempotencyKey{FromUID: c09NewSender, ClientMsgNo: c09ClientNos[i]})
		ok &= zzsym.B2U(lerr == nil && present == held)
		if held && present {
			ok &= zzsym.B2U(hit.MessageSeq == holder.seq && hit.MessageID == holder.id)
		}
	}
	other, oerr := view.db.Channel(c07OtherKey, c07OtherID)
	if oerr == nil {
		oleo, olerr := other.LEO(ctx)
		ok &= zzsym.B2U(olerr == nil && oleo == 1) & zzsym.B2U(other.Close() == nil)
	} else {
		ok = 0
	}
	return ok == 1
}

// ---------------------------------------------------------------- operations

const (
	c09eAppendOne = iota
	c09eAppendTwo
	c09eReplace
	c09eTruncate
	c09eCheckpointHW
	c09eKindCount
)

type c09EOp struct {
	kind      int
	props     []c09Prop
	committed uint64
	keep      uint64
	serverIDs bool
}

// boundaries returns the admissible cut points: proposal boundaries at or above the watermark.
func (r *c09ERef) boundaries() []uint64 {
	var out []uint64
	if r.hw == 0 {
		out = append(out, 0)
	}
	for _, p := range r.props {
		if p.man.LastOffset >= r.hw {
			out = append(out, p.man.LastOffset)
		}
	}
	return out
}

func (e *c09Exact) choose(kind int, step string) c09EOp {
	r := e.ref
	op := c09EOp{kind: kind}
	switch kind {
	case c09eAppendOne:
		count := 1 + zzsym.Choice(step+".count", 2)
		op.props = []c09Prop{e.propose(r.leo(), r.tail(), count)}
		op.serverIDs = zzsym.Choice(step+".serverids", 2) == 1
		// Committed: 0 (no watermark write) or anything from the current watermark to the new log end
		if zzsym.Choice(step+".cp", 2) == 1 {
			op.committed = c09Pos(step+".committed", r.hw, r.leo()+uint64(count))
		}
	case c09eAppendTwo:
		p1 := e.propose(r.leo(), r.tail(), 1)
		p2 := e.propose(p1.man.LastOffset, p1.entries[0], 1)
		op.props = []c09Prop{p1, p2}
		op.serverIDs = true
		if zzsym.Choice(step+".cp", 2) == 1 {
			op.committed = c09Pos(step+".committed", r.hw, p2.man.LastOffset)
		}
	case c09eReplace:
		bs := r.boundaries()
		zzsym.Assume(len(bs) > 0)
		op.keep = bs[zzsym.Choice(step+".keep", len(bs))]
		kept := r.keep(op.keep)
		if zzsym.Choice(step+".replacement", 2) == 1 {
			op.props = []c09Prop{e.propose(kept.leo(), kept.tail(), 1+zzsym.Choice(step+".count", 2))}
		}
		end := op.keep
		if len(op.props) > 0 {
			end = op.props[0].man.LastOffset
		}
		op.committed = c09Pos(step+".committed", r.hw, end)
	case c09eTruncate:
		bs := r.boundaries()
		zzsym.Assume(len(bs) > 0)
		op.keep = bs[zzsym.Choice(step+".to", len(bs))]
	case c09eCheckpointHW:
		op.committed = r.hw + uint64(zzsym.Choice(step+".hw", int(r.leo()-r.hw)+1))
	}
	return op
}

// run: nil = reported durable.
func (op *c09EOp) run(e *c09Exact) error {
	ctx := context.Background()
	switch op.kind {
	case c09eAppendOne, c09eAppendTwo:
		items := make([]AppendBatchItem, len(op.props))
		for i := range op.props {
			items[i] = op.props[i].item(e.st, op.committed, op.serverIDs)
		}
		if len(items) == 2 {
			// only the last item of the call carries the watermark beyond the first proposal's end
			if items[0].Committed > op.props[0].man.LastOffset {
				items[0].Committed = op.props[0].man.LastOffset
			}
		}
		results := StoreAppendBatch(ctx, items)
		for i, res := range results {
			if res.Err != nil {
				return res.Err
			}
			zzsym.Assert(res.Outcome == quorumlog.AppendOutcomeDurable && res.LastOffset == op.props[i].man.LastOffset, "C09 (exact): an exact append without error is not reported Durable at the proposal's last offset")
		}
		return nil
	case c09eReplace:
		cur, err := e.st.LoadDurableFrontier(ctx)
		if err != nil {
			return err
		}
		req := ReplaceRecoverySuffixRequest{Expected: cur, KeepThrough: op.keep, Committed: op.committed}
		for _, p := range op.props {
			req.Proposals = append(req.Proposals, RecoveryProposal{Manifest: p.man, Records: p.records})
		}
		res, err := e.st.ReplaceRecoverySuffix(ctx, req)
		if err == nil {
			zzsym.Assert(res.Outcome == quorumlog.AppendOutcomeDurable, "C09 (exact): ReplaceRecoverySuffix without error is not reported Durable")
		}
		return err
	case c09eTruncate:
		return e.st.Truncate(op.keep)
	default:
		return e.st.StoreCheckpointHWMonotonic(ctx, op.committed)
	}
}

func (op *c09EOp) model(r *c09ERef) {
	switch op.kind {
	case c09eAppendOne, c09eAppendTwo:
		r.props = append(r.props, op.props...)
		if op.committed > r.hw {
			r.hasCP, r.hw = true, op.committed
		}
	case c09eReplace:
		k := r.keep(op.keep)
		r.props = append(k.props, op.props...)
		r.hasCP, r.hw = true, op.committed
	case c09eTruncate:
		r.props = r.keep(op.keep).props
	default:
		if op.committed > r.hw || !r.hasCP {
			r.hasCP, r.hw = true, op.committed
		}
	}
}

// c09ExactHistory: as c09History, on the exact-proposal log.
func c09ExactHistory(n int, kinds func(i int) int) {
	e := c09ExactSeeded()
	refs := []*c09ERef{e.ref.clone()}
	k := zzsym.Choice("crash.k", n+2)
	engine.ZZCrashArm(c09Path, k)
	floor := 0
	for i := 0; i < n; i++ {
		step := "s" + string(rune('0'+i))
		op := e.choose(kinds(i), step)
		before, _ := engine.ZZCrashCommits(c09Path)
		err := op.run(e)
		after, _ := engine.ZZCrashCommits(c09Path)
		next := e.ref.clone()
		op.model(next)
		refs = append(refs, next)
		if engine.ZZCrashDead(c09Path) {
			zzsym.Reach("c09e-stopped-inside-an-operation")
			zzsym.Assert(err != nil, "C09 (exact): an operation whose engine commit did not happen reported success")
			break
		}
		zzsym.Assert(err == nil, "c09: a valid exact operation fails without a crash")
		if after > before {
			floor = i + 1
		}
		e.ref = next
	}
	if !engine.ZZCrashDead(c09Path) {
		applied, _ := engine.ZZCrashCommits(c09Path)
		zzsym.Assume(k == applied)
		zzsym.Reach("c09e-stopped-between-operations")
	}
	applied, durable := engine.ZZCrashCommits(c09Path)
	keep := zzsym.Choice("crash.keep", applied-durable+1)
	lost := engine.ZZCrashRestart(c09Path, keep)
	_, st2, view2 := c09OpenCompat()
	match := -1
	for j := len(refs) - 1; j >= 0; j-- {
		if match < 0 && e.concreteMatch(st2, refs[j]) {
			match = j
		}
	}
	zzsym.Assert(match >= 0, "C09 atomicity (exact): the recovered log end / watermark / entry identities are not those of the reference after any prefix of the issued operations")
	zzsym.Assert(match >= floor, "C09 durability (exact): an operation that returned nil before the stop is absent after the restart")
	if match < 0 {
		return
	}
	zzsym.Assert(e.checkEqual(st2, view2, refs[match]), "C09 atomicity (exact): the recovered store differs from the reference after the selected prefix (rows, indexes, proposal manifests, entry identities or watermark partly present)")
	if zzsym.Thorough() {
		// the recovered store accepts the next exact proposal chained to the recovered tail
		e.st, e.view, e.ref = st2, view2, refs[match].clone()
		p := e.propose(e.ref.leo(), e.ref.tail(), 1)
		res := StoreAppendBatch(context.Background(), []AppendBatchItem{p.item(st2, 0, false)})
		zzsym.Assert(len(res) == 1 && res[0].Err == nil && res[0].Outcome == quorumlog.AppendOutcomeDurable, "C09 (exact): the recovered store refuses the next exact proposal chained to its tail")
		e.ref.props = append(e.ref.props, p)
		zzsym.Assert(e.checkEqual(st2, view2, e.ref), "C09 (exact): the exact append after recovery is not stored at the recovered log end")
	}
	zzsym.Observe("c09e", uint64(k), uint64(floor), uint64(match), uint64(lost), refs[match].leo(), refs[match].hw)
}

// Harness_C09_ExactAppend: StoreAppendBatch with one exact proposal (1..2 records, with and without
// the watermark, allocator-proof ids or full validation) and with two adjacent proposals in one call.
func Harness_C09_ExactAppend() {
	c09AllPositions = true
	defer func() { c09AllPositions = false }()
	c09ExactHistory(1, func(int) int { return zzsym.Choice("kind", 2) })
}

// Harness_C09_ExactReplace: ReplaceRecoverySuffix (every admissible KeepThrough, with and without a
// replacement proposal, every admissible Committed), ChannelStore.Truncate at every proposal boundary
// and StoreCheckpointHWMonotonic on the exact log.
func Harness_C09_ExactReplace() {
	c09AllPositions = true
	defer func() { c09AllPositions = false }()
	c09ExactHistory(1, func(int) int { return c09eReplace + zzsym.Choice("kind", 3) })
}

// Harness_C09_ExactPrefix: histories of 2 exact operations (thorough only).
func Harness_C09_ExactPrefix() {
	c09ExactHistory(2, func(i int) int { return zzsym.Choice("s"+string(rune('0'+i))+".kind", c09eKindCount) })
}

// Harness_C09_DiscardForRestore: the restore-failure cleanup is paged BY DESIGN (row pages, then one
// range delete of the channel partition): its intermediate state - rows and index entries gone, system
// records (watermark, proposal manifests, entry identities) still there - is not a prefix state, and
// the code documents the operation as cleanup before the cluster is activated. What is decided here is
// the protection the design relies on: stopped at any commit boundary and restarted, the channel is
// either untouched, or empty, or FAILS CLOSED (LoadDurableFrontier refuses it: watermark above the log
// end / missing tail proof) and a repeated DiscardForRestore completes to the empty state.
func Harness_C09_DiscardForRestore() {
	e := c09ExactSeeded()
	before := e.ref.clone()
	k := zzsym.Choice("crash.k", 4)
	engine.ZZCrashArm(c09Path, k)
	err := e.st.DiscardForRestore(context.Background())
	if engine.ZZCrashDead(c09Path) {
		zzsym.Assert(err != nil, "C09 (discard): DiscardForRestore reported success although a commit did not happen")
	} else {
		applied, _ := engine.ZZCrashCommits(c09Path)
		zzsym.Assume(k == applied)
		zzsym.Assert(err == nil, "c09: DiscardForRestore fails without a crash")
	}
	applied, durable := engine.ZZCrashCommits(c09Path)
	lost := engine.ZZCrashRestart(c09Path, zzsym.Choice("crash.keep", applied-durable+1))
	zzsym.Assert(err != nil || lost == 0, "C09 durability (discard): a completed DiscardForRestore is partly lost at a power loss")
	_, st2, view2 := c09OpenCompat()
	empty := &c09ERef{}
	switch {
	case e.concreteMatch(st2, before):
		zzsym.Reach("c09d-untouched")
		zzsym.Assert(err != nil, "C09 durability (discard): DiscardForRestore returned nil but the channel is still there after the restart")
		zzsym.Assert(e.checkEqual(st2, view2, before), "C09 (discard): the channel was not discarded but differs from the state before")
	case applied == 0 || err == nil:
		zzsym.Reach("c09d-empty")
		zzsym.Assert(e.checkEqual(st2, view2, empty), "C09 (discard): after the last commit of DiscardForRestore the channel is not empty")
	default:
		zzsym.Reach("c09d-half-discarded")
		_, ferr := st2.LoadDurableFrontier(context.Background())
		zzsym.Assert(ferr != nil, "C09 (discard): a half-discarded channel (rows gone, system records present) is served as a valid durable frontier")
		zzsym.Assert(st2.DiscardForRestore(context.Background()) == nil, "C09 (discard): DiscardForRestore cannot be repeated on a half-discarded channel")
		zzsym.Assert(e.checkEqual(st2, view2, empty), "C09 (discard): repeating DiscardForRestore on a half-discarded channel does not empty it")
	}
	zzsym.Observe("c09d", uint64(k), uint64(applied), uint64(lost))
}
