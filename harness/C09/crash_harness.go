package message

import (
	"context"

	"github.com/WuKongIM/WuKongIM/internal/zzsym"
	"github.com/WuKongIM/WuKongIM/pkg/db/internal/engine"
)

// C09 (slice) - crash atomicity of the channel store mutations, decided for the part that is
// WuKongIM's own responsibility. The REAL MessageDB / ChannelLog code runs on the in-memory engine
// overlay (harness/_memengine), whose crash model implements the documented contract of the engine
// underneath as an axiom: (A1) a batch commit is atomic, (A2) commits become durable in commit
// order, (A3) a commit with sync=true that returned nil is durable and so is every commit before it;
// un-synced commits may be lost as a suffix at a power loss, a process kill loses nothing committed.
//
// Every path: fresh database, seeded log (through the real code), then the operation(s) under test
// with a crash point armed at the k-th engine commit from now (the commit fails as if the process
// died just before it was applied; every later engine call fails). Then the "restart": a new engine
// store with content = content before + the durable commits + keep of the un-synced tail commits
// (keep = all of them: process kill; fewer: power loss), reopened by the real code (NewDB, Channel,
// recoverLEO) and compared with the reference sequential log of harness/C07 (c07CheckAgainst: rows,
// point reads, scans, message-id / idempotency / sender indexes, checkpoint, retention state, LEO,
// bystander channel) - against the reference before the operation or after it.

const c09Path = c07StorePath

// c09Clone copies a reference log.
func c09Clone(m *c07Ref) *c07Ref {
	c := *m
	c.rows = append([]c07Rec(nil), m.rows...)
	c.ids = append([]uint64(nil), m.ids...)
	return &c
}

// c09NewSender is the sender of every record appended after the seed; its client message numbers
// are issued in order, so appended records never collide with stored (sender, client number) pairs.
const c09NewSender = "c"

var c09ClientNos = [10]string{"p", "q", "r", "s", "t", "u", "v", "w", "m", "n"}

// c09Env is the per-path harness state: the live store, the reference log, and the (sender, client
// number) pairs issued after the seed (checked in addition to the four pairs c07CheckAgainst covers).
type c09Env struct {
	s      *c07Store
	m      *c07Ref
	issued int
}

func (e *c09Env) newRecord() c07Rec {
	e.m.nextID++
	e.m.nextTS++
	r := c07Rec{id: e.m.nextID, uid: c09NewSender, cno: c09ClientNos[e.issued], payload: byte(e.m.nextID), ts: e.m.nextTS}
	e.issued++
	e.m.ids = append(e.m.ids, r.id)
	return r
}

// c09Seed: four appended rows (pairs a/x, b/x, a/y, b/y) and a checkpoint with HW=2: rows 1..2
// committed, rows 3..4 an uncommitted suffix. Executed through the real code and compared.
func c09Seed(s *c07Store, m *c07Ref) {
	pairs := [4][2]int{{0, 0}, {1, 0}, {0, 1}, {1, 1}}
	for i, p := range pairs {
		m.nextID++
		m.nextTS++
		r := c07Rec{id: m.nextID, uid: c07Senders[p[0]], cno: c07ClientNos[p[1]], payload: byte(m.nextID), ts: m.nextTS}
		m.ids = append(m.ids, r.id)
		res, err := s.log.Append(context.Background(), []Record{c07ToRecord(r)}, AppendOptions{})
		zzsym.Assert(err == nil && res.BaseSeq == uint64(i+1), "c09: seed append failed")
		m.leo++
		r.seq = m.leo
		m.rows = append(m.rows, r)
	}
	cp := Checkpoint{Epoch: 1, HW: 2}
	zzsym.Assert(s.log.StoreCheckpoint(context.Background(), cp) == nil, "c09: seed checkpoint failed")
	m.hasCP, m.cp = true, cp
	c07CheckAgainst(s, m)
}

func c09Seeded() *c09Env {
	s, m := c07FreshStore()
	c09Seed(s, m)
	engine.ZZCrashTrack(c09Path)
	return &c09Env{s: s, m: m}
}

// ---------------------------------------------------------------- operations

const (
	c09Append1 = iota
	c09Append2
	c09ApplyFetch
	c09ApplyFetchCP
	c09Truncate
	c09Trim
	c09Checkpoint
	c09CheckpointPlain
	c09KindCount
)

// c09Op is one mutation: what is sent to the real API, and its effect on the reference log.
type c09Op struct {
	kind    int
	recs    []c07Rec
	cp      Checkpoint
	from    uint64
	through uint64
}

// c09Choose fixes the operation of the given kind on the current reference state; positions are
// chosen over every admissible value (the caller contracts of harness/C07: truncation only above the
// checkpointed HW, trim only through min(HW, LEO), checkpoints monotonic with HW <= LEO, follower
// apply at base LEO+1 with fresh pairs).
func (e *c09Env) choose(kind int, step string) c09Op {
	m := e.m
	op := c09Op{kind: kind}
	switch kind {
	case c09Append1:
		op.recs = []c07Rec{e.newRecord()}
	case c09Append2:
		op.recs = []c07Rec{e.newRecord(), e.newRecord()}
	case c09ApplyFetch:
		op.recs = []c07Rec{e.newRecord()}
	case c09ApplyFetchCP:
		op.recs = []c07Rec{e.newRecord()}
		op.cp = Checkpoint{Epoch: m.cp.Epoch + 1, LogStartOffset: m.cp.LogStartOffset, HW: m.leo + 1}
	case c09Truncate:
		low := m.cp.HW + 1
		if low <= m.physical {
			low = m.physical + 1
		}
		zzsym.Assume(low <= m.leo+1)
		op.from = low + uint64(zzsym.Choice(step+".from", int(m.leo+2-low)))
		// known finding C07-F2 (ChannelLog.TruncateFrom after a prefix trim does not clamp the retention
		// state's RetainedMaxSeq) is C07's, assumed away here exactly as in harness/C07
		zzsym.Assume(!m.trimmed || op.from > m.leo)
	case c09Trim:
		high := m.cp.HW
		if m.leo < high {
			high = m.leo
		}
		zzsym.Assume(high >= 1)
		op.through = 1 + uint64(zzsym.Choice(step+".through", int(high)))
	case c09Checkpoint, c09CheckpointPlain:
		hw := m.cp.HW + uint64(zzsym.Choice(step+".hw", int(m.leo-m.cp.HW)+1))
		op.cp = Checkpoint{Epoch: m.cp.Epoch + 1, LogStartOffset: m.cp.LogStartOffset, HW: hw}
	}
	return op
}

// run sends the operation to the real ChannelLog; nil = reported durable.
func (op *c09Op) run(s *c07Store, m *c07Ref) error {
	ctx := context.Background()
	switch op.kind {
	case c09Append1, c09Append2:
		records := make([]Record, len(op.recs))
		for i, r := range op.recs {
			records[i] = c07ToRecord(r)
		}
		_, err := s.log.Append(ctx, records, AppendOptions{Mode: AppendStrict})
		return err
	case c09ApplyFetch:
		_, err := s.log.ApplyFetch(ctx, ApplyFetchRequest{BaseSeq: m.leo + 1, Records: []Record{c07ToRecord(op.recs[0])}})
		return err
	case c09ApplyFetchCP:
		cp := op.cp
		_, err := s.log.ApplyFetch(ctx, ApplyFetchRequest{BaseSeq: m.leo + 1, Records: []Record{c07ToRecord(op.recs[0])}, Checkpoint: &cp})
		return err
	case c09Truncate:
		return s.log.TruncateFrom(ctx, op.from)
	case c09Trim:
		_, err := s.log.TrimPrefixThrough(ctx, op.through)
		return err
	case c09Checkpoint:
		return s.log.StoreCheckpointMonotonic(ctx, op.cp, op.cp.HW, m.leo)
	default:
		return s.log.StoreCheckpoint(ctx, op.cp)
	}
}

// model applies the operation to the reference log.
func (op *c09Op) model(m *c07Ref) {
	switch op.kind {
	case c09Append1, c09Append2, c09ApplyFetch, c09ApplyFetchCP:
		for _, r := range op.recs {
			m.leo++
			r.seq = m.leo
			m.rows = append(m.rows, r)
		}
		if op.kind == c09ApplyFetchCP {
			m.hasCP, m.cp = true, op.cp
		}
	case c09Truncate:
		if op.from > m.leo {
			return
		}
		kept := m.rows[:0:0]
		for _, r := range m.rows {
			if r.seq < op.from {
				kept = append(kept, r)
			}
		}
		m.rows = kept
		m.leo = op.from - 1
	case c09Trim:
		kept := m.rows[:0:0]
		for _, r := range m.rows {
			if r.seq > op.through {
				kept = append(kept, r)
			}
		}
		m.rows = kept
		m.trimmed = true
		if op.through > m.physical {
			m.physical = op.through
		}
	default:
		m.hasCP, m.cp = true, op.cp
	}
}

// ---------------------------------------------------------------- recovered store vs. references

// c09Matches is the cheap discriminator that selects WHICH reference the recovered store is compared
// with in full: log end, retained row identities, checkpoint and retention boundary.
func c09Matches(s *c07Store, m *c07Ref) bool {
	ctx := context.Background()
	leo, err := s.log.LEO(ctx)
	if err != nil || leo != m.leo {
		return false
	}
	msgs, err := s.log.Read(ctx, 0, ReadOptions{})
	if err != nil || len(msgs) != len(m.rows) {
		return false
	}
	for i := range msgs {
		if msgs[i].MessageID != m.rows[i].id || msgs[i].MessageSeq != m.rows[i].seq {
			return false
		}
	}
	cp, ok, err := s.log.LoadCheckpoint(ctx)
	if err != nil || ok != m.hasCP || (ok && cp != m.cp) {
		return false
	}
	st, ok, err := s.log.LoadRetentionState(ctx)
	if err != nil || ok != m.trimmed || (ok && st.PhysicalRetentionThroughSeq != m.physical) {
		return false
	}
	return true
}

// c09CheckRecovered: the full comparison of the recovered store with the selected reference, plus
// what the property names explicitly: recovered log end = last stored row (or the retained boundary
// once the tail was trimmed away), committed watermark <= log end, and the index entries of the
// records appended after the seed.
func (e *c09Env) checkRecovered(s *c07Store, m *c07Ref) {
	c07CheckAgainst(s, m)
	ctx := context.Background()
	leo, lerr := s.log.LEO(ctx)
	msgs, rerr := s.log.Read(ctx, 0, ReadOptions{})
	st, okRS, serr := s.log.LoadRetentionState(ctx)
	end := uint64(0)
	if len(msgs) > 0 {
		end = msgs[len(msgs)-1].MessageSeq
	} else if okRS {
		end = st.RetainedMaxSeq
	}
	zzsym.Assert(lerr == nil && rerr == nil && serr == nil && leo == end, "C09: the recovered log end is not the last stored row (or the retained boundary of a fully trimmed log)")
	cp, okCP, cerr := s.log.LoadCheckpoint(ctx)
	zzsym.Assert(cerr == nil && (!okCP || cp.HW <= leo), "C09: the recovered committed watermark exceeds the recovered log end")
	extraOK := true
	for i := 0; i < e.issued; i++ {
		cno := c09ClientNos[i]
		hit, ok, herr := s.log.LookupIdempotency(ctx, IdempotencyKey{FromUID: c09NewSender, ClientMsgNo: cno})
		holder, held := m.pairHolder(c09NewSender, cno)
		if herr != nil || ok != held {
			extraOK = false
		} else if held && !(hit.MessageSeq == holder.seq && hit.MessageID == holder.id) {
			extraOK = false
		}
	}
	var last uint64
	for _, r := range m.rows {
		if r.uid == c09NewSender {
			last = r.seq
		}
	}
	got, ok, gerr := s.log.GetLastSenderMessageSeq(ctx, c09NewSender, ^uint64(0))
	if gerr != nil || ok != (last != 0) || (ok && got != last) {
		extraOK = false
	}
	zzsym.Assert(extraOK, "C09: idempotency / sender index of an appended record disagrees with the recovered rows (index entry without row, or row without index entry)")
}

// c09Restart: the stop and the restart. The un-synced tail of the commits applied so far survives
// up to a chosen length (all of it = process kill, less = power loss); the recovered engine store is
// reopened through the real code.
func c09Restart() (*c07Store, int) {
	applied, durable := engine.ZZCrashCommits(c09Path)
	keep := zzsym.Choice("crash.keep", applied-durable+1)
	lost := engine.ZZCrashRestart(c09Path, keep)
	return c07OpenStore(), lost
}

// c09History: n operations in sequence on the seeded log, crash point at the k-th commit, restart,
// and the three obligations:
//
//	atomicity  - the recovered store equals the reference log after some PREFIX of the issued
//	             operations, where the operation in flight at the crash counts entirely or not at all
//	             (n = 1: entirely before or entirely after the operation);
//	durability - that prefix includes every operation that returned nil before the stop;
//	no false report - an operation whose commit did not happen does not return nil.
//
// kinds(i) chooses the kind of the i-th operation.
func c09History(n int, kinds func(i int) int) {
	e := c09Seeded()
	refs := []*c07Ref{c09Clone(e.m)}
	// crash point: before the (k+1)-th commit from now. Every operation of the unchanged tree performs at
	// most one commit, so k = n means "after the last operation returned"; one more value is offered so
	// that an operation performing two commits is also stopped between them and after them.
	k := zzsym.Choice("crash.k", n+2)
	engine.ZZCrashArm(c09Path, k)
	reported := 0 // operations that returned nil: all of them are documented durable
	for i := 0; i < n; i++ {
		step := "s" + string(rune('0'+i))
		op := e.choose(kinds(i), step)
		err := op.run(e.s, e.m)
		next := c09Clone(e.m)
		next.ids = e.m.ids
		op.model(next)
		refs = append(refs, next)
		if engine.ZZCrashDead(c09Path) {
			zzsym.Reach("c09-stopped-inside-an-operation")
			zzsym.Assert(err != nil, "C09: an operation whose engine commit did not happen reported success")
			break
		}
		zzsym.Assert(err == nil, "c09: a valid operation fails without a crash")
		reported = i + 1
		e.m = next
	}
	if !engine.ZZCrashDead(c09Path) {
		// the armed crash point lies beyond the commits of the history: it is the stop after the last
		// operation returned; keep one representative k
		applied, _ := engine.ZZCrashCommits(c09Path)
		zzsym.Assume(k == applied)
		zzsym.Reach("c09-stopped-between-operations")
	}
	for i := range refs {
		refs[i].ids = e.m.ids // every id ever offered, also by the operation in flight
	}
	s2, lost := c09Restart()
	match := -1
	for j := len(refs) - 1; j >= 0; j-- {
		if match < 0 && c09Matches(s2, refs[j]) {
			match = j
		}
	}
	zzsym.Assert(match >= 0, "C09 atomicity: the recovered store is not the reference log after any prefix of the issued operations (an operation is partly present)")
	zzsym.Assert(match >= reported, "C09 durability: an operation that returned nil before the stop is absent after the restart")
	if match < 0 {
		return
	}
	if match == len(refs)-1 {
		zzsym.Reach("c09-recovered-with-last-operation")
	} else {
		zzsym.Reach("c09-recovered-without-last-operation")
	}
	e.checkRecovered(s2, refs[match])
	if zzsym.Thorough() {
		// the recovered store accepts the next append at the recovered log end
		e.m = c09Clone(refs[match])
		op := e.choose(c09Append1, "after")
		zzsym.Assert(op.run(s2, e.m) == nil, "C09: the recovered store refuses the next append")
		op.model(e.m)
		e.checkRecovered(s2, e.m)
	}
	zzsym.Observe("c09", uint64(k), uint64(reported), uint64(match), uint64(lost), refs[match].leo, refs[match].cp.HW)
}

func c09One(kind int) { c09History(1, func(int) int { return kind }) }

// Harness_C09_Append: strict leader append of 1 and of 2 records.
func Harness_C09_Append() { c09One(zzsym.Choice("kind", 2)) }

// Harness_C09_ApplyFetch: follower apply of one record, without and with a checkpoint in the batch.
func Harness_C09_ApplyFetch() { c09One(c09ApplyFetch + zzsym.Choice("kind", 2)) }

// Harness_C09_TruncateFrom: suffix truncation from every admissible sequence (HW+1 .. LEO+1).
func Harness_C09_TruncateFrom() { c09One(c09Truncate) }

// Harness_C09_TrimPrefixThrough: prefix trim through every admissible sequence (1 .. HW).
func Harness_C09_TrimPrefixThrough() { c09One(c09Trim) }

// Harness_C09_StoreCheckpoint: StoreCheckpointMonotonic and StoreCheckpoint, every HW in old HW .. LEO.
func Harness_C09_StoreCheckpoint() { c09One(c09Checkpoint + zzsym.Choice("kind", 2)) }

// Harness_C09_Prefix: every history of 2 (3 thorough) operations over all kinds, stopped at every
// commit boundary.
func Harness_C09_Prefix() {
	n := 2
	if zzsym.Thorough() {
		n = 3
	}
	c09History(n, func(i int) int { return zzsym.Choice("s"+string(rune('0'+i))+".kind", c09KindCount) })
}
