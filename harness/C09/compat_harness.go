package message

import (
	"context"

	"github.com/WuKongIM/WuKongIM/internal/zzsym"
	"github.com/WuKongIM/WuKongIM/pkg/db/internal/engine"
	channel "github.com/WuKongIM/WuKongIM/pkg/db/message/channelcompat"
)

// C09 on the compatibility layer: the real Engine / ChannelStore of compat.go (the API the channel
// runtime uses) on the in-memory engine and the synchronous commit coordinator overlay
// (harness/_synccommit: one request per physical batch, committed with Commit(true) exactly as the
// real coordinator's commitFunc does). It adds what ChannelLog alone cannot show:
//   - appends and follower applies that travel through the commit coordinator lanes,
//   - the two-step retention protocol (AdoptRetentionBoundary, then TrimMessagesThrough), whose
//     intermediate state (boundary adopted, rows not yet removed) is a legitimate prefix state,
//   - ChannelStore.Truncate (which clamps the retention state, unlike ChannelLog.TruncateFrom),
//   - the ONE mutation of the store that is deliberately committed without sync:
//     StoreCommittedDispatchCursor ("persists replay progress"; its durable variants are
//     AdvanceCommittedDispatchCursorDurable / ConfirmCommittedDispatchCursorDurable). It is excluded
//     from the durability obligation and makes the power-loss model non-trivial: it may be lost, but
//     only as a suffix, and not once a later synced commit returned.

const c09Cursor = "d"

// c09X is the reference state of the compatibility store: the reference log of harness/C07 (rows,
// log end, checkpoint, ids) plus the full retention state and the dispatch cursor.
type c09X struct {
	ref       *c07Ref
	hasRet    bool
	local     uint64 // adopted boundary
	physical  uint64 // rows <= physical are removed
	retained  uint64 // log end floor
	hasCursor bool
	cursor    uint64
}

func (x *c09X) clone() *c09X {
	c := *x
	c.ref = c09Clone(x.ref)
	return &c
}

type c09Compat struct {
	eng    *Engine
	st     *ChannelStore
	view   *c07Store // the same lease, for the ChannelLog read API
	x      *c09X
	issued int
}

func c09OpenCompat() (*Engine, *ChannelStore, *c07Store) {
	eng, err := Open(c09Path)
	zzsym.Assert(err == nil && eng != nil, "c09: compat engine open failed")
	st, err := eng.ForChannel(channel.ChannelKey(c07ChanKey), channel.ChannelID{ID: c07ChanID.ID, Type: c07ChanID.Type})
	zzsym.Assert(err == nil && st != nil, "c09: ForChannel failed")
	return eng, st, &c07Store{eng: eng.engine, db: eng.db, log: st.log}
}

func c09CompatRecord(r c07Rec) channel.Record {
	rec, err := compatibilityRecordFromRow(messageRow{
		MessageID: r.id, ClientMsgNo: r.cno, FromUID: r.uid, ChannelID: c07ChanID.ID, ChannelType: c07ChanID.Type,
		Payload: []byte{r.payload}, ServerTimestampMS: r.ts,
	})
	zzsym.Assert(err == nil, "c09: compat record encoding failed")
	return rec
}

func (e *c09Compat) newRecord() c07Rec {
	m := e.x.ref
	m.nextID++
	m.nextTS++
	r := c07Rec{id: m.nextID, uid: c09NewSender, cno: c09ClientNos[e.issued], payload: byte(m.nextID), ts: m.nextTS}
	e.issued++
	m.ids = append(m.ids, r.id)
	return r
}

// c09CompatSeeded: fresh database with the bystander channel, then through the compat API four
// appended rows (a/x, b/x, a/y, b/y) and a checkpoint HW=2.
func c09CompatSeeded() *c09Compat {
	s0, m := c07FreshStore()
	zzsym.Assert(s0.log.Close() == nil && s0.db.Close() == nil, "c09: close after creation failed")
	eng, st, view := c09OpenCompat()
	pairs := [4][2]int{{0, 0}, {1, 0}, {0, 1}, {1, 1}}
	for i, p := range pairs {
		m.nextID++
		m.nextTS++
		r := c07Rec{id: m.nextID, uid: c07Senders[p[0]], cno: c07ClientNos[p[1]], payload: byte(m.nextID), ts: m.nextTS}
		m.ids = append(m.ids, r.id)
		base, err := st.Append([]channel.Record{c09CompatRecord(r)})
		zzsym.Assert(err == nil && base == uint64(i), "c09: compat seed append failed")
		m.leo++
		r.seq = m.leo
		m.rows = append(m.rows, r)
	}
	zzsym.Assert(st.StoreCheckpoint(channel.Checkpoint{Epoch: 1, HW: 2}) == nil, "c09: compat seed checkpoint failed")
	m.hasCP, m.cp = true, Checkpoint{Epoch: 1, HW: 2}
	c07CheckAgainst(view, m)
	engine.ZZCrashTrack(c09Path)
	return &c09Compat{eng: eng, st: st, view: view, x: &c09X{ref: m}}
}

// ---------------------------------------------------------------- operations

const (
	c09xAppend = iota
	c09xApplyFetchHW
	c09xTruncate
	c09xAdopt
	c09xTrim
	c09xCheckpointHW
	c09xCursorStore   // committed WITHOUT sync: not reported durable
	c09xCursorAdvance // AdvanceCommittedDispatchCursorDurable
	c09xCursorConfirm // ConfirmCommittedDispatchCursorDurable
	c09xKindCount
	// c09xTrimPaged: TrimMessagesThroughLimit with MaxMessages = 1, the multi-batch retention trim (one
	// row and one commit per call). Used by Harness_C09_CompatRetention only.
	c09xTrimPaged = c09xKindCount
)

type c09XOp struct {
	kind int
	rec  c07Rec
	hw   uint64
	to   uint64
	seq  uint64
}

// durableKind: every mutation but the plain cursor store is documented durable on return.
func (op *c09XOp) durableKind() bool { return op.kind != c09xCursorStore }

// choose fixes the operation on the current reference state under the caller contracts: truncation
// never below the committed watermark or the adopted boundary; boundaries adopted only through
// min(HW, LEO) (pkg/channel/reactor retentionTrimDecision); trims only through the adopted
// boundary; watermark <= log end; cursors only within the log.
func (e *c09Compat) choose(kind int, step string) c09XOp {
	x := e.x
	m := x.ref
	op := c09XOp{kind: kind}
	switch kind {
	case c09xAppend:
		op.rec = e.newRecord()
	case c09xApplyFetchHW:
		op.rec = e.newRecord()
		op.hw = c09Pos(step+".hw", m.cp.HW, m.leo+1)
	case c09xTruncate:
		low := m.cp.HW
		if low < x.local {
			low = x.local
		}
		zzsym.Assume(low <= m.leo)
		op.to = low + uint64(zzsym.Choice(step+".to", int(m.leo-low)+1))
	case c09xAdopt:
		high := m.cp.HW
		if m.leo < high {
			high = m.leo
		}
		zzsym.Assume(high >= 1)
		op.to = 1 + uint64(zzsym.Choice(step+".through", int(high)))
	case c09xTrim, c09xTrimPaged:
		zzsym.Assume(x.hasRet && x.local >= 1)
		op.to = 1 + uint64(zzsym.Choice(step+".through", int(x.local)))
	case c09xCheckpointHW:
		op.hw = m.cp.HW + uint64(zzsym.Choice(step+".hw", int(m.leo-m.cp.HW)+1))
	case c09xCursorStore, c09xCursorAdvance:
		zzsym.Assume(m.leo >= 1)
		op.seq = c09Pos(step+".seq", 1, m.leo)
		if kind == c09xCursorAdvance {
			zzsym.Assume(!x.hasCursor || op.seq >= x.cursor)
		}
	case c09xCursorConfirm:
		zzsym.Assume(x.hasCursor)
		op.seq = x.cursor
	}
	return op
}

// c09Pos chooses a position in lo..hi: every value in the entries that set c09AllPositions, the two
// ends otherwise (the longer prefix histories).
var c09AllPositions bool

func c09Pos(name string, lo, hi uint64) uint64 {
	if c09AllPositions || hi-lo < 2 {
		return lo + uint64(zzsym.Choice(name, int(hi-lo)+1))
	}
	if zzsym.Choice(name, 2) == 1 {
		return hi
	}
	return lo
}

func (op *c09XOp) run(e *c09Compat) error {
	ctx := context.Background()
	m := e.x.ref
	switch op.kind {
	case c09xAppend:
		_, err := e.st.Append([]channel.Record{c09CompatRecord(op.rec)})
		return err
	case c09xApplyFetchHW:
		hw := op.hw
		_, err := e.st.StoreApplyFetch(channel.ApplyFetchStoreRequest{PreviousCommittedHW: m.cp.HW, Records: []channel.Record{c09CompatRecord(op.rec)}, CheckpointHW: &hw})
		return err
	case c09xTruncate:
		return e.st.Truncate(op.to)
	case c09xAdopt:
		return e.st.AdoptRetentionBoundary(ctx, op.to, c09Cursor)
	case c09xTrim:
		return e.st.TrimMessagesThrough(ctx, op.to)
	case c09xTrimPaged:
		res, err := e.st.TrimMessagesThroughLimit(ctx, op.to, RetentionTrimOptions{MaxMessages: 1})
		if err == nil {
			pending := 0
			for _, r := range m.rows {
				if r.seq <= op.to {
					pending++
				}
			}
			zzsym.Assert(res.More == (pending > 1) && res.Deleted == c09Min(pending, 1), "c09: a paged trim reports a wrong page (Deleted / More)")
		}
		return err
	case c09xCheckpointHW:
		return e.st.StoreCheckpointHWMonotonic(ctx, op.hw)
	case c09xCursorStore:
		return e.st.StoreCommittedDispatchCursor(c09Cursor, op.seq)
	case c09xCursorAdvance:
		return e.st.AdvanceCommittedDispatchCursorDurable(c09Cursor, op.seq)
	default:
		_, err := e.st.ConfirmCommittedDispatchCursorDurable(c09Cursor, op.seq)
		return err
	}
}

func c09Min(a, b int) int {
	if a < b {
		return a
	}
	return b
}

func c09Max(a, b uint64) uint64 {
	if a > b {
		return a
	}
	return b
}

// model applies the documented effect of the operation to the reference state.
func (op *c09XOp) model(x *c09X) {
	m := x.ref
	switch op.kind {
	case c09xAppend, c09xApplyFetchHW:
		m.leo++
		r := op.rec
		r.seq = m.leo
		m.rows = append(m.rows, r)
		if op.kind == c09xApplyFetchHW && op.hw > m.cp.HW {
			m.cp.HW = op.hw
		}
	case c09xTruncate:
		if op.to == m.leo {
			return
		}
		kept := m.rows[:0:0]
		for _, r := range m.rows {
			if r.seq <= op.to {
				kept = append(kept, r)
			}
		}
		m.rows = kept
		m.leo = op.to
		if x.hasRet && x.retained > op.to {
			x.retained = op.to
		}
	case c09xAdopt:
		x.hasRet = true
		x.local = c09Max(x.local, op.to)
		x.retained = c09Max(x.retained, c09Max(m.leo, op.to))
		if !x.hasCursor || x.cursor < x.local {
			x.hasCursor, x.cursor = true, x.local
		}
	case c09xTrim:
		kept := m.rows[:0:0]
		for _, r := range m.rows {
			if r.seq > op.to {
				kept = append(kept, r)
			}
		}
		m.rows = kept
		x.physical = c09Max(x.physical, op.to)
		x.retained = c09Max(x.retained, m.leo)
	case c09xTrimPaged:
		// one page: the lowest retained row at or below the boundary goes; the physical boundary follows
		// the deleted row, and reaches the requested boundary once nothing at or below it is left
		pending := 0
		for _, r := range m.rows {
			if r.seq <= op.to {
				pending++
			}
		}
		if pending > 1 {
			x.physical = c09Max(x.physical, m.rows[0].seq)
			m.rows = append([]c07Rec(nil), m.rows[1:]...)
		} else {
			if pending == 1 {
				m.rows = append([]c07Rec(nil), m.rows[1:]...)
			}
			x.physical = c09Max(x.physical, op.to)
		}
		x.retained = c09Max(x.retained, m.leo)
	case c09xCheckpointHW:
		if op.hw > m.cp.HW {
			m.cp.HW = op.hw
		}
	case c09xCursorStore:
		if !x.hasCursor || x.cursor < op.seq {
			x.hasCursor, x.cursor = true, op.seq
		}
	case c09xCursorAdvance:
		x.hasCursor, x.cursor = true, op.seq
	}
}

// ---------------------------------------------------------------- comparison

// c09XEqual compares everything observable of a (re)opened compat store with a reference state:
// log end (both APIs), every point read in 1..LEO+1, the forward scan, the message-id index for
// every id ever offered, the idempotency and sender indexes for the seed pairs and every issued
// pair, checkpoint, the three fields of the retention state, the dispatch cursor, the bystander
// channel. Everything is concrete on a path, so the result is an ordinary boolean.
func c09XEqual(st *ChannelStore, view *c07Store, x *c09X, issued int) bool {
	ctx := context.Background()
	m := x.ref
	leo, err := view.log.LEO(ctx)
	cleo, cerr := st.LEOWithError()
	if err != nil || cerr != nil || leo != m.leo || cleo != m.leo {
		return false
	}
	// the cheap discriminating observations first: a candidate that is not the recovered state is
	// usually rejected here
	cp, okCP, cperr := view.log.LoadCheckpoint(ctx)
	if cperr != nil || okCP != m.hasCP || (okCP && cp != m.cp) {
		return false
	}
	rs, okRS, rserr := view.log.LoadRetentionState(ctx)
	if rserr != nil || okRS != x.hasRet {
		return false
	}
	if okRS && (rs.LocalRetentionThroughSeq != x.local || rs.PhysicalRetentionThroughSeq != x.physical || rs.RetainedMaxSeq != x.retained) {
		return false
	}
	cur, okCur, curerr := st.LoadCommittedDispatchCursor(c09Cursor)
	if curerr != nil || okCur != x.hasCursor || (okCur && cur != x.cursor) {
		return false
	}
	for seq := uint64(1); seq <= m.leo+1; seq++ {
		msg, ok, gerr := view.log.GetBySeq(ctx, seq)
		want, present := m.rowAt(seq)
		if gerr != nil || ok != present || (present && !c07SameMessage(msg, want)) {
			return false
		}
	}
	msgs, rerr := view.log.Read(ctx, 0, ReadOptions{})
	if rerr != nil || len(msgs) != len(m.rows) {
		return false
	}
	for i := range msgs {
		if !c07SameMessage(msgs[i], m.rows[i]) {
			return false
		}
	}
	for _, id := range m.ids {
		var holder c07Rec
		held := false
		for _, r := range m.rows {
			if r.id == id {
				holder, held = r, true
			}
		}
		msg, ok, ierr := view.log.GetByMessageID(ctx, id)
		if ierr != nil || ok != held || (held && !c07SameMessage(msg, holder)) {
			return false
		}
	}
	pairOK := func(uid, cno string) bool {
		hit, ok, lerr := view.log.LookupIdempotency(ctx, IdempotencyKey{FromUID: uid, ClientMsgNo: cno})
		holder, held := m.pairHolder(uid, cno)
		if lerr != nil || ok != held {
			return false
		}
		return !held || (hit.MessageSeq == holder.seq && hit.MessageID == holder.id && hit.Offset == holder.seq-1)
	}
	for _, uid := range c07Senders {
		for _, cno := range c07ClientNos {
			if !pairOK(uid, cno) {
				return false
			}
		}
	}
	for i := 0; i < issued; i++ {
		if !pairOK(c09NewSender, c09ClientNos[i]) {
			return false
		}
	}
	for _, uid := range [3]string{c07Senders[0], c07Senders[1], c09NewSender} {
		var last uint64
		for _, r := range m.rows {
			if r.uid == uid {
				last = r.seq
			}
		}
		got, ok, serr := view.log.GetLastSenderMessageSeq(ctx, uid, ^uint64(0))
		if serr != nil || ok != (last != 0) || (ok && got != last) {
			return false
		}
	}
	other, oerr := view.db.Channel(c07OtherKey, c07OtherID)
	if oerr != nil {
		return false
	}
	omsg, ook, ogerr := other.GetBySeq(ctx, 1)
	oleo, olerr := other.LEO(ctx)
	if ogerr != nil || !ook || omsg.MessageID != c07OtherFirst || olerr != nil || oleo != 1 || other.Close() != nil {
		return false
	}
	return true
}

// c09CompatHistory: n compat operations in sequence, crash point at the k-th commit, restart with a
// chosen surviving part of the un-synced tail, and the three obligations of c09History; here the
// recovered store is compared in full (c09XEqual) with EVERY candidate prefix state.
func c09CompatHistory(n int, kinds func(i int) int, onLost func(), checkLive bool) {
	e := c09CompatSeeded()
	if checkLive {
		zzsym.Assert(c09XEqual(e.st, e.view, e.x, e.issued), "c09: the seeded compat store differs from the reference state")
	}
	refs := []*c09X{e.x.clone()}
	k := zzsym.Choice("crash.k", n+2)
	engine.ZZCrashArm(c09Path, k)
	floor := 0 // the recovered prefix must include the operations up to here
	for i := 0; i < n; i++ {
		step := "s" + string(rune('0'+i))
		op := e.choose(kinds(i), step)
		before, _ := engine.ZZCrashCommits(c09Path)
		err := op.run(e)
		after, _ := engine.ZZCrashCommits(c09Path)
		next := e.x.clone()
		op.model(next)
		refs = append(refs, next)
		if engine.ZZCrashDead(c09Path) {
			zzsym.Reach("c09x-stopped-inside-an-operation")
			zzsym.Assert(err != nil, "C09: a compat operation whose engine commit did not happen reported success")
			break
		}
		zzsym.Assert(err == nil, "c09: a valid compat operation fails without a crash")
		if checkLive {
			zzsym.Assert(c09XEqual(e.st, e.view, next, e.issued), "c09: a completed compat operation does not have its documented effect on the live store")
		}
		if op.durableKind() && after > before {
			// reported durable AND it wrote something (an operation that had nothing to write promises nothing
			// about earlier un-synced commits)
			floor = i + 1
		}
		e.x = next
	}
	if !engine.ZZCrashDead(c09Path) {
		applied, _ := engine.ZZCrashCommits(c09Path)
		zzsym.Assume(k == applied)
		zzsym.Reach("c09x-stopped-between-operations")
	}
	for i := range refs {
		refs[i].ref.ids = e.x.ref.ids
	}
	applied, durable := engine.ZZCrashCommits(c09Path)
	keep := zzsym.Choice("crash.keep", applied-durable+1)
	lost := engine.ZZCrashRestart(c09Path, keep)
	if lost > 0 && onLost != nil {
		onLost()
	}
	_, st2, view2 := c09OpenCompat()
	match := -1
	for j := len(refs) - 1; j >= 0; j-- {
		if match < 0 && c09XEqual(st2, view2, refs[j], e.issued) {
			match = j
		}
	}
	zzsym.Assert(match >= 0, "C09 atomicity (compat): the recovered store is not the reference state after any prefix of the issued operations (an operation is partly present)")
	zzsym.Assert(match >= floor, "C09 durability (compat): an operation documented durable that returned nil before the stop is absent after the restart")
	if match < 0 {
		return
	}
	ctx := context.Background()
	leo, _ := st2.LEOWithError()
	cp, okCP, _ := view2.log.LoadCheckpoint(ctx)
	zzsym.Assert(!okCP || cp.HW <= leo, "C09 (compat): the recovered committed watermark exceeds the recovered log end")
	if zzsym.Thorough() {
		e.st, e.view, e.x = st2, view2, refs[match].clone()
		op := e.choose(c09xAppend, "after")
		zzsym.Assert(op.run(e) == nil, "C09 (compat): the recovered store refuses the next append")
		op.model(e.x)
		zzsym.Assert(c09XEqual(e.st, e.view, e.x, e.issued), "C09 (compat): the append after recovery does not land at the recovered log end")
	}
	zzsym.Observe("c09x", uint64(k), uint64(floor), uint64(match), uint64(lost), refs[match].ref.leo, refs[match].ref.cp.HW, refs[match].cursor)
}

// Harness_C09_CompatSingle: every single compat operation (Append and StoreApplyFetch through the
// commit coordinator lanes, Truncate, AdoptRetentionBoundary, StoreCheckpointHWMonotonic, the three
// cursor writes) stopped before / after its commit.
func Harness_C09_CompatSingle() {
	c09AllPositions = true
	defer func() { c09AllPositions = false }()
	kinds := [8]int{c09xAppend, c09xApplyFetchHW, c09xTruncate, c09xAdopt, c09xCheckpointHW, c09xCursorStore, c09xCursorAdvance}
	c09CompatHistory(1, func(int) int { return kinds[zzsym.Choice("kind", 7)] }, func() {
		zzsym.Reach("c09x-power-loss-dropped-the-unsynced-cursor-store")
	}, true)
}

// Harness_C09_CompatRetention: the two-step retention protocol. AdoptRetentionBoundary(through),
// then TrimMessagesThrough(t <= through) or one page of the multi-batch trim
// (TrimMessagesThroughLimit, MaxMessages 1), then one more operation (2 thorough) including further
// pages, stopped at every commit boundary: the state "boundary adopted, rows not yet removed" is a prefix state, a trim is
// all or nothing (rows, index entries, physical boundary, log-end floor).
func Harness_C09_CompatRetention() {
	c09AllPositions = true
	defer func() { c09AllPositions = false }()
	n := 3
	if zzsym.Thorough() {
		n = 4
	}
	c09CompatHistory(n, func(i int) int {
		switch i {
		case 0:
			return c09xAdopt
		case 1:
			return c09xTrim + (c09xTrimPaged-c09xTrim)*zzsym.Choice("s1.paged", 2)
		}
		tail := [6]int{c09xTruncate, c09xAppend, c09xTrim, c09xTrimPaged, c09xAdopt, c09xCheckpointHW}
		return tail[zzsym.Choice("s"+string(rune('0'+i))+".kind", 6)]
	}, nil, true)
}

// Harness_C09_CompatPrefix: every history of 2 compat operations over all kinds, including the
// un-synced cursor store, stopped at every commit boundary, with every surviving part of the
// un-synced tail. Quick: positions sampled at the two ends of their range; thorough: 2 operations with
// every position, and 3 operations with end-sampled positions.
func Harness_C09_CompatPrefix() {
	n, live := 2, false
	if zzsym.Thorough() {
		if zzsym.Choice("mode", 2) == 0 {
			c09AllPositions, live = true, true
			defer func() { c09AllPositions = false }()
		} else {
			n = 3
		}
	}
	c09CompatHistory(n, func(i int) int { return zzsym.Choice("s"+string(rune('0'+i))+".kind", c09xKindCount) }, func() {
		zzsym.Reach("c09x-power-loss-dropped-an-unsynced-suffix")
	}, live)
}
