package wire

import (
	"encoding/binary"
	"errors"

	"github.com/WuKongIM/WuKongIM/internal/zzsym"
	"github.com/WuKongIM/WuKongIM/pkg/transport/internal/core"
)

// Harness_C26_DecodeGate: DecodeHeader accepts exactly the well-formed headers, and
// re-encoding an accepted header reproduces the input bytes.
func Harness_C26_DecodeGate() {
	b := zzsym.Bytes("b", HeaderSize)
	max := zzsym.Int("max")
	h, err := DecodeHeader(b, max)
	wellFormed := binary.BigEndian.Uint16(b[0:]) == Magic && b[2] == Version && b[3] == 0 &&
		binary.BigEndian.Uint32(b[20:]) == 0 &&
		b[4] >= uint8(core.FrameKindData) && b[4] <= uint8(core.FrameKindControl) &&
		b[5] >= uint8(core.PriorityRaft) && b[5] <= uint8(core.PriorityBulk) &&
		max >= 0 && uint64(binary.BigEndian.Uint32(b[16:])) <= uint64(max)
	if err != nil {
		zzsym.Reach("rejected")
		zzsym.Assert(!wellFormed, "a well-formed header was rejected")
		zzsym.Assert(h == Header{}, "rejected header must decode to the zero Header")
		zzsym.Assert(errors.Is(err, core.ErrInvalidFrame) || errors.Is(err, core.ErrMsgTooLarge) || errors.Is(err, core.ErrInvalidPriority), "rejection error class")
		return
	}
	zzsym.Reach("accepted")
	zzsym.Assert(wellFormed, "a malformed header was accepted")
	zzsym.Assert(max >= 0 && uint64(h.BodyLen) <= uint64(max), "accepted body length exceeds maxBodyBytes")
	enc := EncodeHeader(h)
	same := true
	for i := 0; i < HeaderSize; i++ {
		if enc[i] != b[i] {
			same = false
		}
	}
	zzsym.Assert(same, "EncodeHeader(DecodeHeader(b)) != b")
	n, lerr := bodyLenToInt(h.BodyLen)
	zzsym.Assert(lerr == nil && n >= 0 && n <= max, "bodyLenToInt negative or beyond max")
	zzsym.Observe("hdr", uint64(h.Kind), uint64(h.Priority), uint64(h.ServiceID), h.RequestID, uint64(h.BodyLen))
}

// Harness_C26_EncodeDecode: every valid Header round-trips through EncodeHeader/DecodeHeader.
func Harness_C26_EncodeDecode() {
	h := Header{
		Kind:      core.FrameKind(zzsym.U8("kind")),
		Priority:  core.Priority(zzsym.U8("prio")),
		ServiceID: zzsym.U16("svc"),
		RequestID: zzsym.U64("req"),
		BodyLen:   zzsym.U32("len"),
	}
	max := zzsym.Int("max")
	zzsym.Assume(h.Kind.Valid() && h.Priority.Valid())
	zzsym.Assume(max >= 0 && uint64(h.BodyLen) <= uint64(max))
	enc := EncodeHeader(h)
	got, err := DecodeHeader(enc[:], max)
	zzsym.Reach("roundtrip")
	zzsym.Assert(err == nil, "valid header rejected after encode")
	zzsym.Assert(got == h, "DecodeHeader(EncodeHeader(h)) != h")
	zzsym.Observe("enc", uint64(enc[4]), uint64(enc[5]), uint64(enc[16]), uint64(enc[19]))
}

// Harness_C26_ShortHeader: fewer than HeaderSize bytes are always rejected, never read out of range.
func Harness_C26_ShortHeader() {
	n := zzsym.Choice("n", HeaderSize)
	b := zzsym.Bytes("b", n)
	_, err := DecodeHeader(b, zzsym.Int("max"))
	zzsym.Reach("short")
	zzsym.Assert(err != nil && errors.Is(err, core.ErrInvalidFrame), "short header accepted")
}
