package rpc

import (
	"errors"

	"github.com/WuKongIM/WuKongIM/internal/zzsym"
)

// Sequential slice of C26's correlation clause on the real PendingTable: whatever the request ids
// (also ids sharing a shard) and whatever the order of Store / Complete / Delete / FailAll, a response
// completed under id X is delivered to the channel stored under X and to no other channel, at most
// once; a deleted (timed out / cancelled) request receives nothing; after FailAll every pending and
// every later caller gets the terminal error. Concurrency (the select race inside Conn.Call, the
// reader goroutine) is outside.

func c26Drain(ch chan Response) (Response, bool) {
	select {
	case r := <-ch:
		return r, true
	default:
		return Response{}, false
	}
}

// Harness_C26_PendingCorrelation: two in-flight calls with symbolic ids, then a symbolic sequence of
// 3 (thorough 4) table operations over ids {a, b, c}.
func Harness_C26_PendingCorrelation() {
	shards := []int{1, 16, 3}[zzsym.Choice("shards", 3)] // 3 is not a power of two: falls back to 16
	p := NewPendingTable(shards)
	// ids: the upper 60 bits are arbitrary; the shard-selecting low bits are one of two classes per id,
	// so that ids share a shard or not (a symbolic shard index would be enumerated 16-fold per id)
	ids := [3]uint64{zzsym.U64("id.a"), zzsym.U64("id.b"), zzsym.U64("id.c")}
	zzsym.Assume(ids[0]&15 == 0)
	zzsym.Assume(ids[1]&15 == uint64(5*zzsym.Choice("class.b", 2)))
	zzsym.Assume(ids[2]&15 == uint64(5*zzsym.Choice("class.c", 2)))
	zzsym.Assume(ids[0] != ids[1] && ids[0] != ids[2] && ids[1] != ids[2])
	chans := [3]chan Response{make(chan Response, 1), make(chan Response, 1), make(chan Response, 1)}
	// reference: which ids are pending, what each channel must hold
	pending := [3]bool{}
	var want [3][]byte // payload tag expected in the channel (nil = nothing)
	var wantErr [3]bool
	closed := false
	terminal := errors.New("closed")
	p.Store(ids[0], chans[0])
	p.Store(ids[1], chans[1])
	pending[0], pending[1] = true, true
	steps := 3
	if zzsym.Thorough() {
		steps = 4
	}
	for s := 0; s < steps; s++ {
		step := "s" + string(rune('0'+s))
		k := zzsym.Choice(step+".id", 3)
		switch zzsym.Choice(step+".op", 4) {
		case 0: // response frame for id k arrives
			tag := []byte{byte(16*s + k + 1)}
			got := p.Complete(ids[k], Response{Payload: tag})
			zzsym.Assert(got == pending[k], "Complete reports an id as pending that is not (or the reverse)")
			if pending[k] {
				pending[k] = false
				if want[k] == nil && !wantErr[k] {
					want[k] = tag
				}
			}
		case 1: // the caller of id k timed out / was cancelled
			p.Delete(ids[k])
			pending[k] = false
		case 2: // a new call registers id k on its own channel (only if that channel is idle and empty)
			if pending[k] || want[k] != nil || wantErr[k] {
				continue
			}
			p.Store(ids[k], chans[k])
			if closed {
				wantErr[k] = true
			} else {
				pending[k] = true
			}
		default: // connection loss
			p.FailAll(terminal)
			closed = true
			for i := range pending {
				if pending[i] {
					pending[i] = false
					if want[i] == nil && !wantErr[i] {
						wantErr[i] = true
					}
				}
			}
		}
		n := 0
		for i := range pending {
			if pending[i] {
				n++
			}
		}
		zzsym.Assert(p.Len() == n, "the table holds a different number of pending requests than were stored and not completed, deleted or failed")
	}
	zzsym.Reach("pending-history")
	for i := range chans {
		r, ok := c26Drain(chans[i])
		switch {
		case want[i] != nil:
			zzsym.Assert(ok && r.Err == nil && len(r.Payload) == 1 && r.Payload[0] == want[i][0], "a call did not receive exactly its own response")
		case wantErr[i]:
			zzsym.Assert(ok && r.Err == terminal && r.Payload == nil, "a call pending at connection loss (or issued after it) did not receive the terminal error")
		default:
			zzsym.Assert(!ok, "a call received a response nobody completed for its request id (another call's response)")
		}
		_, again := c26Drain(chans[i])
		zzsym.Assert(!again, "a call received two responses")
	}
}
