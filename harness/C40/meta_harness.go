package meta

import (
	"github.com/WuKongIM/WuKongIM/internal/zzsym"
)

// ---- inputs ----

var c40EventTypes = []string{
	EventTypeStreamOpen, EventTypeStreamDelta, EventTypeStreamSnapshot,
	EventTypeStreamClose, EventTypeStreamError, EventTypeStreamCancel, EventTypeStreamFinish,
}

// c40Statuses: the four statuses the reducer writes plus an empty / unknown one (a row written by an
// older version); "closed", "error" and "cancelled" are the terminal ones.
var c40Statuses = []string{EventStatusOpen, EventStatusClosed, EventStatusError, EventStatusCancelled, "", "paused"}

// c40Payloads: the reducer hands the event payload to encoding/json directly (no seam), so payloads are
// chosen from concrete literals, which the executor's encoding/json model evaluates exactly: empty,
// not JSON, a text delta, a non-text delta, a terminal payload with snapshot / end reason / error text.
var c40Payloads = [][]byte{
	nil,
	[]byte("x"),
	[]byte(`{"kind":"text","delta":"b"}`),
	[]byte(`{"kind":"blob","delta":"b"}`),
	[]byte(`{"snapshot":{"kind":"text","text":"s"},"end_reason":2,"error":"boom"}`),
	[]byte(`{"snapshot":null,"end_reason":7}`),
}

var c40Snapshots = [][]byte{nil, []byte(`{"kind":"text","text":"a"}`), []byte("y")}

// c40ID: a symbolic event id: one byte; in the thorough tier 0..2 bytes unless fixed (the history entry
// fixes the length, where it would multiply with the 7^4 type sequences).
func c40ID(name string, fixed bool) string {
	if zzsym.Thorough() && !fixed {
		return zzsym.String(name, zzsym.Choice(name+".len", 3))
	}
	return zzsym.String(name, 1)
}

func c40IsTerminalType(t string) bool {
	return t == EventTypeStreamClose || t == EventTypeStreamError || t == EventTypeStreamCancel || t == EventTypeStreamFinish
}

func c40IsTerminalStatus(s string) bool {
	return s == EventStatusClosed || s == EventStatusError || s == EventStatusCancelled
}

// c40Event: a normalised append (what normalizeMessageEventAppend lets through): fixed message key,
// symbolic event id / timestamps, type chosen from types, payload chosen from payloads (only for the
// event types whose reduction reads the payload); stream.finish lives in its own lane.
func c40Event(p string, types []string, payloads [][]byte) MessageEventAppend {
	return c40EventID(p, types, payloads, false)
}

func c40EventID(p string, types []string, payloads [][]byte, fixedID bool) MessageEventAppend {
	ev := MessageEventAppend{
		ChannelID: "c", ChannelType: 2, ClientMsgNo: "m",
		EventID:    c40ID(p+".id", fixedID),
		EventKey:   EventKeyDefault,
		EventType:  types[zzsym.Choice(p+".type", len(types))],
		Visibility: VisibilityPublic,
		OccurredAt: zzsym.I64(p + ".occurredAt"),
		UpdatedAt:  zzsym.I64(p + ".updatedAt"),
	}
	if ev.EventType == EventTypeStreamFinish {
		ev.EventKey = EventKeyFinish
	}
	if len(payloads) > 0 && ev.EventType != EventTypeStreamOpen && ev.EventType != EventTypeStreamFinish {
		ev.Payload = payloads[zzsym.Choice(p+".payload", len(payloads))]
	}
	return ev
}

// c40State: a stored lane row for ev's lane: status chosen from statuses, snapshot from snapshots,
// sequence / last event id / timestamps symbolic.
func c40State(p string, ev MessageEventAppend, statuses []string, snapshots [][]byte) MessageEventState {
	st := MessageEventState{
		ChannelID: ev.ChannelID, ChannelType: ev.ChannelType, ClientMsgNo: ev.ClientMsgNo, EventKey: ev.EventKey,
		Status:          statuses[zzsym.Choice(p+".status", len(statuses))],
		LastMsgEventSeq: zzsym.U64(p + ".lastSeq"),
		LastEventID:     c40ID(p+".lastID", false),
		LastEventType:   EventTypeStreamDelta,
		LastVisibility:  VisibilityPublic,
		LastOccurredAt:  zzsym.I64(p + ".lastOccurredAt"),
		EndReason:       zzsym.U8(p + ".endReason"),
		UpdatedAt:       zzsym.I64(p + ".updatedAt"),
	}
	if len(snapshots) > 0 {
		st.SnapshotPayload = snapshots[zzsym.Choice(p+".snapshot", len(snapshots))]
	}
	return st
}

var c40OpenStatuses = []string{EventStatusOpen, "", "paused"}

func c40SameBytes(a, b []byte) bool {
	if len(a) != len(b) {
		return false
	}
	for i := range a {
		if a[i] != b[i] {
			return false
		}
	}
	return true
}

// c40SameState: field by field (SnapshotPayload by content; nil and empty are the same stored value).
func c40SameState(a, b MessageEventState) bool {
	return a.ChannelID == b.ChannelID && a.ChannelType == b.ChannelType && a.ClientMsgNo == b.ClientMsgNo &&
		a.EventKey == b.EventKey && a.Status == b.Status && a.LastMsgEventSeq == b.LastMsgEventSeq &&
		a.LastEventID == b.LastEventID && a.LastEventType == b.LastEventType && a.LastVisibility == b.LastVisibility &&
		a.LastOccurredAt == b.LastOccurredAt && c40SameBytes(a.SnapshotPayload, b.SnapshotPayload) &&
		a.EndReason == b.EndReason && a.Error == b.Error && a.UpdatedAt == b.UpdatedAt
}

// ---- one reducer step on an arbitrary stored projection ----

// Harness_C40_ReduceStep: reduceMessageEventAppend on an arbitrary stored lane state / message cursor and
// an arbitrary event.
func Harness_C40_ReduceStep() {
	ev := c40Event("ev", c40EventTypes, c40Payloads)
	stateExists := zzsym.Choice("stateExists", 2) == 1
	cursorExists := zzsym.Choice("cursorExists", 2) == 1
	var state MessageEventState
	if stateExists {
		var snapshots [][]byte
		if ev.EventType == EventTypeStreamDelta || zzsym.Thorough() {
			snapshots = c40Snapshots // only the delta reduction reads the stored snapshot
		}
		state = c40State("state", ev, c40Statuses, snapshots)
	}
	var cursor MessageEventCursor
	if cursorExists {
		cursor = MessageEventCursor{ChannelID: ev.ChannelID, ChannelType: ev.ChannelType, ClientMsgNo: ev.ClientMsgNo,
			LastMsgEventSeq: zzsym.U64("cursor.lastSeq"), UpdatedAt: zzsym.I64("cursor.updatedAt")}
	}
	base := cursor.LastMsgEventSeq // zero when the message has no cursor row yet

	next, nextCursor, applied, result := reduceMessageEventAppend(state, stateExists, cursor, cursorExists, ev)

	skip := stateExists && (state.LastEventID == ev.EventID || c40IsTerminalStatus(state.Status))
	zzsym.Assert(applied == !skip, "applied iff the lane is not terminal and the event id is not the lane's last event id")
	zzsym.Assert(result.EventID == ev.EventID && result.ChannelID == ev.ChannelID && result.ClientMsgNo == ev.ClientMsgNo, "result names another event")
	if !applied {
		zzsym.Reach("step-not-applied")
		zzsym.Assert(c40SameState(next, state), "a skipped event changed the lane state")
		zzsym.Assert(nextCursor == cursor, "a skipped event moved the cursor")
		zzsym.Assert(result.MsgEventSeq == state.LastMsgEventSeq && result.Status == state.Status && result.EventKey == state.EventKey,
			"a skipped event does not report the stored sequence / status")
		zzsym.Assert(c40SameState(result.State, state), "a skipped event reports a state that is not the stored one")
		zzsym.Observe("skipped", result.MsgEventSeq, zzsym.B2U(c40IsTerminalStatus(state.Status)))
		return
	}
	zzsym.Reach("step-applied")
	zzsym.Assert(nextCursor.LastMsgEventSeq == base+1, "cursor did not advance by exactly one")
	zzsym.Assert(next.LastMsgEventSeq == base+1, "state sequence is not cursor+1")
	zzsym.Assert(result.MsgEventSeq == base+1 && result.State.LastMsgEventSeq == base+1, "result sequence is not cursor+1")
	if base != ^uint64(0) {
		zzsym.Assert(nextCursor.LastMsgEventSeq > base, "durable event sequence did not increase")
	}
	zzsym.Assert(next.LastEventID == ev.EventID && next.LastEventType == ev.EventType, "applied event is not recorded as the lane's last event")
	zzsym.Assert(next.ChannelID == ev.ChannelID && next.ChannelType == ev.ChannelType && next.ClientMsgNo == ev.ClientMsgNo && next.EventKey == ev.EventKey,
		"lane key changed")
	zzsym.Assert(nextCursor.ChannelID == ev.ChannelID && nextCursor.ChannelType == ev.ChannelType && nextCursor.ClientMsgNo == ev.ClientMsgNo,
		"cursor key changed")
	zzsym.Assert(next.UpdatedAt == ev.UpdatedAt && nextCursor.UpdatedAt == ev.UpdatedAt && next.LastOccurredAt == ev.OccurredAt, "timestamps not taken from the event")
	zzsym.Assert(result.Status == next.Status && result.EventKey == next.EventKey, "result does not describe the new state")
	switch ev.EventType {
	case EventTypeStreamClose, EventTypeStreamFinish:
		zzsym.Reach("step-closed")
		zzsym.Assert(next.Status == EventStatusClosed, "close / finish does not close the lane")
	case EventTypeStreamError:
		zzsym.Assert(next.Status == EventStatusError, "error event does not set the error status")
	case EventTypeStreamCancel:
		zzsym.Assert(next.Status == EventStatusCancelled, "cancel event does not set the cancelled status")
	case EventTypeStreamDelta, EventTypeStreamSnapshot:
		zzsym.Assert(next.Status == EventStatusOpen, "delta / snapshot does not leave the lane open")
	default:
		want := EventStatusOpen
		if stateExists {
			want = state.Status
		}
		zzsym.Assert(next.Status == want, "open event changed the status of an existing lane")
	}
	zzsym.Assert(c40IsTerminalStatus(next.Status) == c40IsTerminalType(ev.EventType), "terminal status iff terminal event")
	// the real predicate agrees with the harness's reading of "terminal"
	zzsym.Assert(isMessageEventTerminal(next.Status) == c40IsTerminalStatus(next.Status), "isMessageEventTerminal disagrees")
	if ev.EventType == EventTypeStreamSnapshot {
		zzsym.Assert(c40SameBytes(next.SnapshotPayload, ev.Payload), "snapshot event does not replace the snapshot payload")
	}
	zzsym.Observe("applied", next.LastMsgEventSeq, uint64(len(next.SnapshotPayload)), uint64(next.EndReason), uint64(len(next.Error)), uint64(len(next.Status)))
}

// ---- terminal is final ----

// Harness_C40_TerminalIsFinal: apply a terminal event to an arbitrary non-terminal lane, then any second
// event to the same lane: the second one is not applied, and the status, sequence and cursor stay.
func Harness_C40_TerminalIsFinal() {
	e1 := c40Event("e1", []string{EventTypeStreamClose, EventTypeStreamError, EventTypeStreamCancel, EventTypeStreamFinish}, [][]byte{nil, c40Payloads[4]})
	stateExists := zzsym.Choice("stateExists", 2) == 1
	var state MessageEventState
	if stateExists {
		state = c40State("state", e1, c40OpenStatuses, nil)
		zzsym.Assume(state.LastEventID != e1.EventID)
	}
	cursor := MessageEventCursor{ChannelID: e1.ChannelID, ChannelType: e1.ChannelType, ClientMsgNo: e1.ClientMsgNo,
		LastMsgEventSeq: zzsym.U64("cursor.lastSeq"), UpdatedAt: zzsym.I64("cursor.updatedAt")}
	s1, c1, applied1, r1 := reduceMessageEventAppend(state, stateExists, cursor, true, e1)
	zzsym.Assert(applied1 && c40IsTerminalStatus(s1.Status) && r1.Status == s1.Status, "terminal event did not finalise the lane")

	var p2 [][]byte
	if zzsym.Thorough() {
		p2 = c40Payloads
	}
	e2 := c40Event("e2", c40EventTypes, p2)
	e2.EventKey = e1.EventKey // same lane, whatever the type
	s2, c2, applied2, r2 := reduceMessageEventAppend(s1, true, c1, true, e2)
	zzsym.Reach("after-terminal")
	zzsym.Assert(!applied2, "an event was applied to a finalised lane")
	zzsym.Assert(c40SameState(s2, s1) && s2.Status == s1.Status, "a finalised lane changed")
	zzsym.Assert(c2 == c1, "an event on a finalised lane moved the cursor")
	zzsym.Assert(r2.Status == s1.Status && r2.MsgEventSeq == s1.LastMsgEventSeq, "event on a finalised lane does not report the final status / sequence")
	zzsym.Observe("final", s2.LastMsgEventSeq, uint64(len(s2.Status)), c2.LastMsgEventSeq)
}

// ---- a short history from an empty projection ----

// c40Rows is what AppendMessageEvent keeps for ONE message: the lane rows (two lanes: "main" and the
// finish lane), the cursor row and the applied-event rows (event id -> recorded sequence/status). The
// harness keeps them in plain variables the way Shard.AppendMessageEvent / Batch.AppendMessageEvent do
// with the three tables: look the event id up in the applied rows first, otherwise load lane + cursor,
// reduce, and store lane + cursor + applied row only when the reducer applied the event.
type c40Rows struct {
	lane       [2]MessageEventState
	laneExists [2]bool
	cursor     MessageEventCursor
	cursorOK   bool
	applied    []MessageEventApplied
}

func c40Lane(key string) int {
	if key == EventKeyFinish {
		return 1
	}
	return 0
}

func (r *c40Rows) append(ev MessageEventAppend) (MessageEventAppendResult, bool) {
	for _, a := range r.applied {
		if a.EventID == ev.EventID {
			l := c40Lane(a.EventKey)
			return messageEventAppendResultFromApplied(ev, a, r.lane[l], r.laneExists[l]), false
		}
	}
	l := c40Lane(ev.EventKey)
	next, nextCursor, didApply, result := reduceMessageEventAppend(r.lane[l], r.laneExists[l], r.cursor, r.cursorOK, ev)
	if !didApply {
		return result, false
	}
	r.lane[l], r.laneExists[l] = next, true
	r.cursor, r.cursorOK = nextCursor, true
	r.applied = append(r.applied, messageEventAppliedFromResult(ev, result))
	return result, true
}

// Harness_C40_History: 3 (thorough 4) events with symbolic ids and chosen types, from an empty
// projection. After every step: the cursor equals the number of applied events (so it only grows, by
// one per applied event, and every applied event got a distinct sequence); a repeated event id is not
// applied again and reports the sequence recorded the first time; a finalised lane never changes.
func Harness_C40_History() {
	steps := 3
	if zzsym.Thorough() {
		steps = 4
	}
	var rows c40Rows
	var ids []string
	var seqs []uint64
	var finalStatus [2]string
	var finalSeq [2]uint64
	count := uint64(0)
	for i := 0; i < steps; i++ {
		ev := c40EventID("ev", c40EventTypes, nil, true)
		before := rows.cursor.LastMsgEventSeq
		seen := -1
		for j, id := range ids {
			if id == ev.EventID && seen < 0 {
				seen = j
			}
		}
		res, applied := rows.append(ev)
		if seen >= 0 {
			zzsym.Reach("history-replayed-id")
			zzsym.Assert(!applied, "a replayed event id was applied twice")
			zzsym.Assert(res.MsgEventSeq == seqs[seen], "a replayed event id does not report its recorded sequence")
			zzsym.Assert(rows.cursor.LastMsgEventSeq == before, "a replayed event id moved the cursor")
		}
		if applied {
			count++
			zzsym.Assert(rows.cursor.LastMsgEventSeq == before+1 && res.MsgEventSeq == before+1, "applied event did not take the next sequence")
			ids = append(ids, ev.EventID)
			seqs = append(seqs, res.MsgEventSeq)
		} else {
			zzsym.Assert(rows.cursor.LastMsgEventSeq == before, "an event that was not applied moved the cursor")
		}
		zzsym.Assert(rows.cursor.LastMsgEventSeq == count, "cursor is not the number of applied events")
		for l := 0; l < 2; l++ {
			if finalStatus[l] != "" {
				zzsym.Reach("history-lane-final")
				zzsym.Assert(rows.lane[l].Status == finalStatus[l] && rows.lane[l].LastMsgEventSeq == finalSeq[l], "a finalised lane changed later")
			} else if rows.laneExists[l] && c40IsTerminalStatus(rows.lane[l].Status) {
				finalStatus[l], finalSeq[l] = rows.lane[l].Status, rows.lane[l].LastMsgEventSeq
			}
			if rows.laneExists[l] {
				zzsym.Assert(rows.lane[l].LastMsgEventSeq <= rows.cursor.LastMsgEventSeq && rows.lane[l].LastMsgEventSeq >= 1, "lane sequence beyond the cursor")
			}
		}
	}
	zzsym.Observe("history", count, rows.cursor.LastMsgEventSeq, rows.lane[0].LastMsgEventSeq, rows.lane[1].LastMsgEventSeq)
}

// ---- replay answer ----

// Harness_C40_ResultFromApplied: messageEventAppendResultFromApplied answers a replayed event id from
// the applied row: recorded sequence, status and lane, whatever the lane row looks like now; the full
// lane row is attached only when it still describes this very event.
func Harness_C40_ResultFromApplied() {
	ev := c40Event("ev", []string{EventTypeStreamDelta, EventTypeStreamFinish}, nil)
	applied := MessageEventApplied{
		ChannelID: ev.ChannelID, ChannelType: ev.ChannelType, ClientMsgNo: ev.ClientMsgNo, EventID: ev.EventID,
		EventKey:    []string{EventKeyDefault, EventKeyFinish}[zzsym.Choice("applied.lane", 2)],
		MsgEventSeq: zzsym.U64("applied.seq"),
		Status:      c40Statuses[zzsym.Choice("applied.status", len(c40Statuses))],
		UpdatedAt:   zzsym.I64("applied.updatedAt"),
	}
	stateExists := zzsym.Choice("stateExists", 2) == 1
	var state MessageEventState
	if stateExists {
		state = c40State("state", ev, []string{EventStatusOpen, EventStatusClosed}, [][]byte{nil, c40Snapshots[1]})
		state.EventKey = applied.EventKey
	}
	res := messageEventAppendResultFromApplied(ev, applied, state, stateExists)
	zzsym.Reach("from-applied")
	zzsym.Assert(res.MsgEventSeq == applied.MsgEventSeq, "replay does not return the recorded sequence")
	zzsym.Assert(res.Status == applied.Status && res.EventKey == applied.EventKey && res.EventID == ev.EventID, "replay does not return the recorded status / lane / id")
	zzsym.Assert(res.State.LastMsgEventSeq == applied.MsgEventSeq && res.State.LastEventID == ev.EventID && res.State.EventKey == applied.EventKey,
		"replay attaches a state of another event")
	if stateExists && state.LastEventID == ev.EventID && state.LastMsgEventSeq == applied.MsgEventSeq {
		zzsym.Reach("from-applied-current")
		zzsym.Assert(c40SameState(res.State, state), "replay of the lane's current event does not attach the stored lane row")
	} else {
		zzsym.Assert(res.State.Status == applied.Status, "replay of an older event attaches a status that was not recorded")
	}
	zzsym.Observe("fromApplied", res.MsgEventSeq, uint64(len(res.Status)), res.State.LastMsgEventSeq)
}

// Harness_C40_AppliedRoundTrip: the applied row written for an applied event (messageEventAppliedFromResult)
// makes a later replay of the same id report exactly what the first application reported.
func Harness_C40_AppliedRoundTrip() {
	ev := c40Event("ev", c40EventTypes, [][]byte{nil, c40Payloads[4]})
	cursor := MessageEventCursor{ChannelID: ev.ChannelID, ChannelType: ev.ChannelType, ClientMsgNo: ev.ClientMsgNo, LastMsgEventSeq: zzsym.U64("cursor.lastSeq")}
	next, _, didApply, first := reduceMessageEventAppend(MessageEventState{}, false, cursor, true, ev)
	zzsym.Assert(didApply, "first event of a lane not applied")
	row := messageEventAppliedFromResult(ev, first)
	zzsym.Assert(row.EventID == ev.EventID && row.MsgEventSeq == first.MsgEventSeq && row.Status == first.Status && row.EventKey == first.EventKey && row.UpdatedAt == ev.UpdatedAt,
		"applied row does not record the result")
	// replay while the lane still shows this event
	again := messageEventAppendResultFromApplied(ev, row, next, true)
	zzsym.Reach("roundtrip")
	zzsym.Assert(again.MsgEventSeq == first.MsgEventSeq && again.Status == first.Status && again.EventKey == first.EventKey && c40SameState(again.State, first.State),
		"immediate replay differs from the first answer")
	// replay after the lane moved on (another event id, next sequence)
	moved := next
	moved.LastEventID = c40ID("other.id", false)
	moved.LastMsgEventSeq = zzsym.U64("other.seq")
	zzsym.Assume(moved.LastEventID != ev.EventID)
	later := messageEventAppendResultFromApplied(ev, row, moved, true)
	zzsym.Assert(later.MsgEventSeq == first.MsgEventSeq && later.Status == first.Status && later.EventKey == first.EventKey, "later replay differs from the recorded sequence / status")
	zzsym.Observe("roundtrip", first.MsgEventSeq, again.MsgEventSeq, later.MsgEventSeq)
}
