package cluster

import (
	"context"
	"encoding/json"
	"errors"

	"github.com/WuKongIM/WuKongIM/internal/zzsym"
	"github.com/WuKongIM/WuKongIM/pkg/cluster/propose"
	metadb "github.com/WuKongIM/WuKongIM/pkg/db/meta"
)

// Fourth clause of C40 (slice): a stream.finish that would drop cached, non-durable deltas fails
// (ErrMessageEventStreamCacheMiss) instead of writing a completed projection. The gate of the real
// Node.appendMessageEventFinishLocal is run on a Node whose only live parts are the real stream
// cache and a recording proposer: "wrote a completed projection" = the proposer was reached.

type c40Proposer struct{ calls int }

var errC40Proposed = errors.New("c40: durable proposal reached")

func (p *c40Proposer) Propose(context.Context, propose.Request) error {
	p.calls++
	return errC40Proposed
}

func (p *c40Proposer) ProposeResult(context.Context, propose.Request) ([]byte, error) {
	p.calls++
	return nil, errC40Proposed
}

// c40FinishPayloads: finish payloads as concrete literals (the code hands them to encoding/json) with
// the ground truth "carries a usable snapshot of its own" (a JSON object whose snapshot member is
// neither absent, null nor empty).
var c40FinishPayloads = []struct {
	payload  string
	snapshot bool
}{
	{``, false},
	{`x`, false},
	{`{}`, false},
	{`{"end_reason":3}`, false},
	{`{"snapshot":null,"end_reason":3}`, false},
	{`{"snapshot": null }`, false},
	{`{"snapshot":{"kind":"text","text":"s"},"end_reason":2}`, true},
	{`{"snapshot":"s"}`, true},
	{`{"snapshot":0}`, true},
	{`[1]`, false},
}

func c40Finish(payload string) metadb.MessageEventAppend {
	return metadb.MessageEventAppend{ChannelID: "c", ChannelType: 2, ClientMsgNo: "m", EventID: "f1", EventKey: metadb.EventKeyFinish,
		EventType: metadb.EventTypeStreamFinish, Payload: []byte(payload), OccurredAt: 5, UpdatedAt: 5}
}

// Harness_C40_FinishFailsClosed: cache state in {lost / never filled, one open lane with a cached
// delta, one lane already terminal}; finish payload from the catalogue.
func Harness_C40_FinishFailsClosed() {
	p := &c40Proposer{}
	n := &Node{}
	n.messageEventStreamCache = newMessageEventStreamCache(8)
	n.proposer = p
	n.started.Store(true)
	cache := zzsym.Choice("cache", 3)
	if cache >= 1 {
		_, err := n.messageEventStreamCache.appendCached(metadb.MessageEventAppend{ChannelID: "c", ChannelType: 2, ClientMsgNo: "m", EventID: "d1",
			EventKey: metadb.EventKeyDefault, EventType: metadb.EventTypeStreamDelta, Payload: []byte(`{"kind":"text","delta":"b"}`), OccurredAt: 1, UpdatedAt: 1})
		zzsym.Assert(err == nil, "caching a delta fails")
	}
	if cache == 2 {
		// the lane was closed durably and marked terminal in the cache: nothing cache-only is left
		ev := metadb.MessageEventAppend{ChannelID: "c", ChannelType: 2, ClientMsgNo: "m", EventID: "c1", EventKey: metadb.EventKeyDefault,
			EventType: metadb.EventTypeStreamClose, OccurredAt: 2, UpdatedAt: 2}
		n.messageEventStreamCache.markTerminalPersisted(ev, metadb.MessageEventAppendResult{EventKey: metadb.EventKeyDefault, Status: metadb.EventStatusClosed, MsgEventSeq: 1})
	}
	pick := c40FinishPayloads[zzsym.Choice("payload", len(c40FinishPayloads))]
	_, err := n.appendMessageEventFinishLocal(context.Background(), c40Finish(pick.payload))
	zzsym.Reach("finish-decided")
	open := cache == 1
	if !open && !pick.snapshot {
		zzsym.Reach("finish-must-fail-closed")
		zzsym.Assert(errors.Is(err, ErrMessageEventStreamCacheMiss) && p.calls == 0,
			"a finish with no cached open lane and no snapshot of its own was written (or failed with another error) instead of failing closed with a cache miss")
	} else {
		zzsym.Reach("finish-may-proceed")
		zzsym.Assert(!errors.Is(err, ErrMessageEventStreamCacheMiss) && p.calls == 1, "a finish that loses nothing was refused as a cache miss (or proposed more than once)")
	}
	zzsym.Observe("finish", uint64(p.calls), zzsym.B2U(err != nil))
}

// Harness_C40_SnapshotSitesAgree: the gate's notion of "the payload has a snapshot" and the merge
// that injects the cached snapshot agree: merging a cached snapshot S into payload P keeps P's own
// snapshot exactly when the gate says P has one, and otherwise carries S.
func Harness_C40_SnapshotSitesAgree() {
	pick := c40FinishPayloads[zzsym.Choice("payload", len(c40FinishPayloads))]
	cached := []string{`{"kind":"text","text":"a"}`, `"y"`}[zzsym.Choice("cached", 2)]
	has := messageEventPayloadHasSnapshot([]byte(pick.payload))
	zzsym.Assert(has == pick.snapshot, "messageEventPayloadHasSnapshot disagrees with the payload's content (null / empty / absent snapshot counted as present, or the reverse)")
	merged := mergeMessageEventTerminalPayload([]byte(pick.payload), []byte(cached))
	body := map[string]json.RawMessage{}
	zzsym.Assert(json.Unmarshal(merged, &body) == nil, "the merged terminal payload is not a JSON object")
	snap := string(body["snapshot"])
	zzsym.Reach("merged")
	if has {
		own := map[string]json.RawMessage{}
		zzsym.Assume(json.Unmarshal([]byte(pick.payload), &own) == nil)
		zzsym.Assert(snap == string(own["snapshot"]), "the merge replaced a snapshot the payload carried itself")
	} else {
		zzsym.Assert(snap == cached, "the merge dropped the cached snapshot although the payload has none of its own")
	}
	zzsym.Assert(messageEventPayloadHasSnapshot(merged), "the merged payload is not recognised as carrying a snapshot")
}
