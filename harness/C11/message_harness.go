package message

import (
	"bytes"
	"context"
	"encoding/binary"
	"hash/crc32"

	"github.com/WuKongIM/WuKongIM/internal/zzsym"
	"github.com/WuKongIM/WuKongIM/pkg/db/internal/engine"
)

// C11, message side. The REAL MessageDB / ChannelLog (append, checkpoint, trim: harness/C07's helpers)
// builds a channel log on the in-memory engine overlay; the real backup stream writer and both importers
// run on it. The restored store is compared with C07's reference model cut at
// the exported committed watermark (every public read: rows, message-id index, (sender, client number)
// index, sender index, checkpoint, retention state) and byte for byte with the source rows.

const (
	c11MsgDst      = "c11-msg-dst"
	c11MsgHashSlot = uint16(7)
)

// c11MsgOps: C07's store operations, called through this table (their zzsym.Reach labels belong to C07's
// entries; an indirect call keeps them out of the statically required witnesses of the C11 entries,
// which offer only some of the operations in the quick tier).
var c11MsgOps = []func(s *c07Store, m *c07Ref, step string){c07StoreCheckpoint, c07Trim}

// c11MsgSource builds the source: bystander channel, rows 1..3 with HW=2 (row 3 is an uncommitted
// suffix), then one more operation chosen per path among the first `histories` of: none; retention
// (watermark advanced to the log end 3, then a physical prefix trim through 1, 2 or 3); checkpoint (HW 2
// or 3); one more uncommitted row. A trim while an uncommitted suffix exists is candidate finding C11-F2
// (isolated in Harness_C11_MsgRestoreTrimmedSuffix_KnownF2) and is not offered here.
func c11MsgSource(histories int) (*c07Store, *c07Ref) {
	s, m := c07FreshStore()
	c07Seed(s, m)
	switch zzsym.Choice("history", histories) {
	case 0:
	case 1:
		c11MsgOps[0](s, m, "h.cp")
		zzsym.Assume(m.cp.HW == m.leo)
		c11MsgOps[1](s, m, "h")
	case 2:
		c11MsgOps[0](s, m, "h")
	default:
		m.nextID++
		m.nextTS++
		r := c07Rec{id: m.nextID, uid: "b", cno: "y", payload: c07Payload("h.payload", m.nextID), ts: m.nextTS}
		m.ids = append(m.ids, r.id)
		res, err := s.log.Append(context.Background(), []Record{c07ToRecord(r)}, AppendOptions{Mode: AppendStrict})
		zzsym.Assert(err == nil && res.BaseSeq == m.leo+1, "message source: append of a fresh row fails")
		m.leo++
		r.seq = m.leo
		m.rows = append(m.rows, r)
	}
	return s, m
}

func c11MsgCuts(m *c07Ref) []BackupChannelCut {
	return []BackupChannelCut{{Key: c07ChanKey, ID: c07ChanID, Checkpoint: m.cp}}
}

// c11MsgExport runs the real stream writer (the goroutine body behind OpenBackupSnapshot) on a pinned view.
func c11MsgExport(eng *engine.DB, cuts []BackupChannelCut, withStats bool) ([]byte, BackupSnapshotStats) {
	ctx := context.Background()
	view, err := eng.NewSnapshot()
	zzsym.Assert(err == nil, "message export: engine snapshot failed")
	channels, err := normalizeBackupChannelCuts(cuts)
	zzsym.Assert(err == nil, "message export: channel cuts refused")
	var stats BackupSnapshotStats
	var counts []uint64
	if withStats {
		stats, counts, err = inspectMessageBackupSnapshot(ctx, view, c11MsgHashSlot, channels)
		zzsym.Assert(err == nil, "message export: inspection of a healthy channel fails")
	}
	var buf bytes.Buffer
	err = writeMessageBackupSnapshot(ctx, &buf, view, c11MsgHashSlot, channels, counts)
	zzsym.Assert(err == nil, "message export: stream writer fails on a healthy channel")
	zzsym.Assert(view.Close() == nil, "message export: snapshot close failed")
	return buf.Bytes(), stats
}

// c11MsgTarget: a restore target that already holds the unrelated bystander channel.
func c11MsgTarget() *c07Store {
	eng, err := engine.Open(c11MsgDst, engine.Options{})
	zzsym.Assert(err == nil, "message restore: engine open failed")
	db := NewDB(eng)
	other, err := db.Channel(c07OtherKey, c07OtherID)
	zzsym.Assert(err == nil, "message restore: bystander channel cannot be acquired")
	_, err = other.Append(context.Background(), []Record{{ID: c07OtherFirst, FromUID: "a", ClientMsgNo: "x", Payload: []byte{'o'}, ServerTimestampMS: 5}}, AppendOptions{})
	zzsym.Assert(err == nil && other.Close() == nil, "message restore: bystander append failed")
	return &c07Store{eng: eng, db: db}
}

func c11MsgImport(t *c07Store, variant int, data []byte) (BackupSnapshotStats, error) {
	if variant == 0 {
		return t.db.ImportBackupSnapshot(context.Background(), data)
	}
	return t.db.ImportBackupSnapshotReader(context.Background(), bytes.NewReader(data), int64(len(data)))
}

// c11MsgCommitted: the reference log cut at the exported committed watermark.
func c11MsgCommitted(m *c07Ref) *c07Ref {
	r := &c07Ref{leo: m.cp.HW, physical: m.physical, trimmed: m.trimmed, hasCP: true, cp: m.cp, ids: m.ids}
	for _, row := range m.rows {
		if row.seq <= m.cp.HW {
			r.rows = append(r.rows, row)
		}
	}
	return r
}

func c11MsgSameBytes(a, b []byte) bool {
	if len(a) != len(b) {
		return false
	}
	same := true
	for i := range a {
		if a[i] != b[i] {
			same = false
		}
	}
	return same
}

func c11MsgSameDump(ka, va, kb, vb [][]byte) bool {
	if len(ka) != len(kb) {
		return false
	}
	same := true
	for i := range ka {
		if !c11MsgSameBytes(ka[i], kb[i]) || !c11MsgSameBytes(va[i], vb[i]) {
			same = false
		}
	}
	return same
}

// c11MsgSubset: every row of the restored store exists byte for byte in the source store, and no
// message row of the restored channel lies above hw.
func c11MsgSubset(hw uint64) bool {
	dk, dv := engine.ZZDump(c11MsgDst)
	sk, sv := engine.ZZDump(c07StorePath)
	ok := true
	for i := range dk {
		found := false
		for j := range sk {
			if len(sk[j]) == len(dk[i]) && len(sv[j]) == len(dv[i]) && c11MsgSameBytes(sk[j], dk[i]) && c11MsgSameBytes(sv[j], dv[i]) {
				found = true
			}
		}
		if !found {
			ok = false
		}
		if seq, _, valid := decodeMessageRowKey(c07ChanKey, dk[i]); valid && seq > hw {
			ok = false
		}
	}
	return ok
}

// c11MsgCheckRestored compares everything observable of the restored channel with the committed prefix.
func c11MsgCheckRestored(t *c07Store, m *c07Ref) {
	log, err := t.db.Channel(c07ChanKey, c07ChanID)
	zzsym.Assert(err == nil && log != nil, "message restore: the restored channel cannot be opened")
	t.log = log
	c07CheckAgainst(t, c11MsgCommitted(m))
	zzsym.Assert(log.Close() == nil, "message restore: lease close failed")
	t.log = nil
	zzsym.Assert(c11MsgSubset(m.cp.HW), "message restore: the restored store holds a row that the source does not hold byte for byte, or a message row above the exported watermark")
}

// ------------------------------------------------------------------ 1. round trip (+ plain double import)

// Harness_C11_MsgRoundTrip: export the channel at its checkpoint (with and without the pre-computed
// statistics: same bytes), import with either importer into a target holding another channel: the
// restored channel equals the committed prefix of the source (identity and idempotency data of every
// committed message, nothing above the watermark, retention and checkpoint rows), a second import of the
// same stream changes nothing, and the re-export of the restored channel is byte-identical.
func Harness_C11_MsgRoundTrip() {
	s, m := c11MsgSource(4)
	cuts := c11MsgCuts(m)
	data, stats := c11MsgExport(s.eng, cuts, true)
	plain, _ := c11MsgExport(s.eng, cuts, false)
	zzsym.Assert(c11MsgSameBytes(plain, data), "message export: the stream depends on whether statistics were pre-computed")
	committed := c11MsgCommitted(m)
	var maxID uint64
	for _, r := range committed.rows {
		if r.id > maxID {
			maxID = r.id
		}
	}
	zzsym.Assert(stats.HashSlot == c11MsgHashSlot && stats.ChannelCount == 1 && stats.MessageCount == uint64(len(committed.rows)) && stats.MaxMessageID == maxID,
		"message export: statistics differ from the committed retained rows")

	t := c11MsgTarget()
	variant := zzsym.Choice("import", 2)
	got, err := c11MsgImport(t, variant, data)
	zzsym.Reach("msg-imported")
	zzsym.Assert(err == nil, "message restore: import of an unmodified stream fails")
	zzsym.Assert(got == stats, "message restore: import statistics differ from the export statistics")
	c11MsgCheckRestored(t, m)
	k1, v1 := engine.ZZDump(c11MsgDst)

	_, err = c11MsgImport(t, zzsym.Choice("again", 2), data)
	zzsym.Assert(err == nil, "message restore: a second import of the same stream fails")
	k2, v2 := engine.ZZDump(c11MsgDst)
	zzsym.Assert(c11MsgSameDump(k1, v1, k2, v2), "message restore: a second import of the same stream changes the store")

	again, _ := c11MsgExport(t.eng, cuts, false)
	zzsym.Assert(c11MsgSameBytes(again, data), "message restore: re-export of the restored channel differs from the first export")
	zzsym.Observe("msg-roundtrip", uint64(len(data)), stats.MessageCount, stats.MaxMessageID, m.cp.HW, m.leo)
}

// ------------------------------------------------------------------ 2. retry after a partial attempt

func c11MsgRawDelete(eng *engine.DB, key []byte) {
	b := eng.NewBatch()
	zzsym.Assume(b.Delete(key) == nil)
	zzsym.Assume(b.Commit(true) == nil)
	zzsym.Assume(b.Close() == nil)
}

// Harness_C11_MsgRetry: an import that stopped part-way, followed by a retry with either importer,
// converges to the store of an undisturbed import. Partial states (produced from a complete import by
// deleting rows below the message layer): everything but the first (catalog / checkpoint / system)
// batch missing - the crash point between the importer's metadata batch and its message batches; the
// message row families from some committed sequence on missing; one arbitrary row of the channel missing.
func Harness_C11_MsgRetry() {
	s, m := c11MsgSource(c11MsgTier(2, 4))
	cuts := c11MsgCuts(m)
	data, _ := c11MsgExport(s.eng, cuts, false)
	t := c11MsgTarget()
	_, err := c11MsgImport(t, zzsym.Choice("first", 2), data)
	zzsym.Assert(err == nil, "message restore: first import fails")
	k1, v1 := engine.ZZDump(c11MsgDst)
	part := encodeMessageChannelPartitionPrefix(c07ChanKey)
	sysPrefix := encodeMessageSystemAllPrefix(c07ChanKey)
	var candidates [][]byte // rows of the channel written by the importer's message batches
	for _, key := range k1 {
		if bytes.HasPrefix(key, part) && !bytes.HasPrefix(key, sysPrefix) {
			candidates = append(candidates, key)
		}
	}
	zzsym.Assume(len(candidates) >= 2) // (a fully trimmed channel carries no message rows: nothing to lose)
	dropped := 0
	switch zzsym.Choice("partial", 3) {
	case 0:
		for _, key := range candidates {
			c11MsgRawDelete(t.eng, key)
			dropped++
		}
	case 1:
		from := 1 + uint64(zzsym.Choice("from", int(m.cp.HW)))
		for _, key := range candidates {
			if seq, _, valid := decodeMessageRowKey(c07ChanKey, key); valid && seq >= from {
				c11MsgRawDelete(t.eng, key)
				dropped++
			}
		}
	default:
		i := zzsym.Choice("victim", 8)
		zzsym.Assume(i < len(candidates))
		c11MsgRawDelete(t.eng, candidates[i])
		dropped++
	}
	_, err = c11MsgImport(t, zzsym.Choice("second", 2), data)
	zzsym.Reach("msg-retried")
	zzsym.Assert(err == nil, "message restore: retried import fails")
	k2, v2 := engine.ZZDump(c11MsgDst)
	zzsym.Assert(c11MsgSameDump(k1, v1, k2, v2), "message restore: a retried import does not converge to the store of an undisturbed import")
	c11MsgCheckRestored(t, m)
	zzsym.Observe("msg-retry", uint64(len(candidates)), uint64(dropped))
}

func c11MsgTier(quick, thorough int) int {
	if zzsym.Thorough() {
		return thorough
	}
	return quick
}

// ------------------------------------------------------------------ 3. rejection

func c11MsgReseal(body []byte) []byte {
	out := append([]byte(nil), body...)
	return binary.BigEndian.AppendUint32(out, crc32.ChecksumIEEE(body))
}

func c11MsgRejected(err error, beforeK, beforeV [][]byte) {
	zzsym.Assert(err != nil, "a corrupted, truncated or malformed message stream was accepted")
	afterK, afterV := engine.ZZDump(c11MsgDst)
	zzsym.Assert(c11MsgSameDump(beforeK, beforeV, afterK, afterV), "a rejected message stream changed the target store (partially applied)")
}

// Harness_C11_MsgCorrupt_ExactCRC: real CRC-32. One byte of the stream (positions of every kind: header,
// channel key, checkpoint, system entry, message row, checksum; every position in the thorough tier)
// replaced by ANY other value, the stream cut at a point, or followed by one extra byte: both
// importers refuse it and the target (holding another channel) is untouched.
func Harness_C11_MsgCorrupt_ExactCRC() {
	s, m := c11MsgSource(c11MsgTier(2, 4))
	data, _ := c11MsgExport(s.eng, c11MsgCuts(m), false)
	t := c11MsgTarget()
	beforeK, beforeV := engine.ZZDump(c11MsgDst)
	n := len(data)
	mutated := append([]byte(nil), data...)
	switch zzsym.Choice("damage", 3) {
	case 0:
		pos := 0
		if zzsym.Thorough() {
			pos = zzsym.Choice("pos", n)
		} else {
			positions := []int{0, 4, 7, 11, 13, 20, 30, 45, n / 3, n / 2, 2 * n / 3, n - 20, n - 5, n - 4, n - 2, n - 1}
			pos = positions[zzsym.Choice("pos", len(positions))]
		}
		v := zzsym.U8("value")
		zzsym.Assume(v != mutated[pos])
		mutated[pos] = v
	case 1:
		if zzsym.Thorough() {
			mutated = mutated[:zzsym.Choice("cut", n)]
		} else {
			cuts := []int{0, 3, 11, 12, 15, 16, 40, n / 2, n - 9, n - 5, n - 4, n - 1}
			mutated = mutated[:cuts[zzsym.Choice("cut", len(cuts))]]
		}
	default:
		mutated = append(mutated, zzsym.U8("extra"))
	}
	_, err := c11MsgImport(t, zzsym.Choice("import", 2), mutated)
	zzsym.Reach("msg-corrupt-offered")
	c11MsgRejected(err, beforeK, beforeV)
	zzsym.Observe("msg-corrupt", uint64(n), uint64(len(mutated)), zzsym.B2U(err != nil))
}

// Harness_C11_MsgRejectMalformed: streams that are malformed although their checksum is valid, offered to the
// streaming importer (ImportBackupSnapshotReader validates the complete stream before applying anything):
// wrong magic / version, a channel count above the channels present, trailing bytes, the channel area cut
// short, a checkpoint watermark below a carried message sequence. Refused, target untouched.
func Harness_C11_MsgRejectMalformed() {
	s, m := c11MsgSource(c11MsgTier(2, 4))
	data, _ := c11MsgExport(s.eng, c11MsgCuts(m), false)
	t := c11MsgTarget()
	beforeK, beforeV := engine.ZZDump(c11MsgDst)
	body := append([]byte(nil), data[:len(data)-4]...)
	const headerLen = 4 + 2 + 2 + 4
	switch zzsym.Choice("defect", 6) {
	case 0:
		i := zzsym.Choice("magic.byte", 4)
		v := zzsym.U8("magic.value")
		zzsym.Assume(v != body[i])
		body[i] = v
	case 1:
		v := zzsym.U16("version")
		zzsym.Assume(v != messageBackupSnapshotVersion)
		binary.BigEndian.PutUint16(body[4:6], v)
	case 2:
		extra := uint32(1 + zzsym.Choice("channels.extra", 2))
		binary.BigEndian.PutUint32(body[8:12], 1+extra)
	case 3:
		n := 1 + zzsym.Choice("trailing", 2)
		for i := 0; i < n; i++ {
			body = append(body, zzsym.U8("trailing.byte"))
		}
	case 4:
		area := len(body) - headerLen
		cut := 0
		if zzsym.Thorough() {
			cut = zzsym.Choice("cut", area)
		} else {
			cuts := []int{0, 1, 7, 8, 9, 33, 34, area / 2, area - 10, area - 2, area - 1}
			cut = cuts[zzsym.Choice("cut", len(cuts))]
		}
		body = body[:headerLen+cut]
	default:
		// checkpoint {epoch, log start, HW} follows key, id and type: lower HW below the last carried sequence
		zzsym.Assume(m.cp.HW >= 1 && len(c11MsgCommitted(m).rows) >= 1)
		off := headerLen + 1 + len(c07ChanKey) + 1 + len(c07ChanID.ID) + 1
		zzsym.Assert(binary.BigEndian.Uint64(body[off+16:off+24]) == m.cp.HW, "malformed: checkpoint offset computed wrongly (harness)")
		binary.BigEndian.PutUint64(body[off+8:off+16], 0)
		binary.BigEndian.PutUint64(body[off+16:off+24], m.cp.HW-1)
	}
	_, err := c11MsgImport(t, 1, c11MsgReseal(body))
	zzsym.Reach("msg-malformed-offered")
	c11MsgRejected(err, beforeK, beforeV)
	zzsym.Observe("msg-malformed", uint64(len(body)), zzsym.B2U(err != nil))
}

// Harness_C11_MsgRestoreTrimmedSuffix_KnownF2 (NOT registered in check.json: candidate finding C11-F2).
// Source: rows 1..3, checkpoint HW=2 (row 3 uncommitted), physical prefix trim through 1. The trim stores
// RetentionState.RetainedMaxSeq = 3 (the log end at trim time); the exporter copies the retention row
// verbatim although it exports message rows only through HW=2; after the restore the channel's LEO is
// max(last row, RetainedMaxSeq) = 3 although row 3 was never exported: the restored log claims an end above
// the exported committed watermark, and the next append lands at sequence 4, leaving a hole at 3.
func Harness_C11_MsgRestoreTrimmedSuffix_KnownF2() {
	s, m := c07FreshStore()
	c07Seed(s, m)
	ctx := context.Background()
	_, err := s.log.TrimPrefixThrough(ctx, 1)
	zzsym.Assert(err == nil, "known-f2: trim failed")
	data, _ := c11MsgExport(s.eng, c11MsgCuts(m), false)
	t := c11MsgTarget()
	_, err = c11MsgImport(t, zzsym.Choice("import", 2), data)
	zzsym.Assert(err == nil, "known-f2: import failed")
	log, err := t.db.Channel(c07ChanKey, c07ChanID)
	zzsym.Assert(err == nil, "known-f2: restored channel cannot be opened")
	leo, lerr := log.LEO(ctx)
	_, present, _ := log.GetBySeq(ctx, 3)
	zzsym.Reach("msg-known-f2-restored")
	zzsym.Assert(!present, "known-f2: an uncommitted row was restored")
	zzsym.AssertKnown(lerr == nil && leo == m.cp.HW, "message restore: the restored log end lies above the exported committed watermark", "C11-F2", true)
	zzsym.Observe("msg-known-f2", leo, m.cp.HW)
}
