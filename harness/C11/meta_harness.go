package meta

import (
	"bytes"
	"context"
	"encoding/binary"
	"hash/crc32"
	"time"

	"github.com/WuKongIM/WuKongIM/internal/zzsym"
	"github.com/WuKongIM/WuKongIM/pkg/db/internal/engine"
	"github.com/WuKongIM/WuKongIM/pkg/db/internal/keycodec"
)

// C11, metadata side. The REAL meta DB (compat WriteBatch, snapshot exporters, bulk and streaming
// importers) runs on the in-memory engine overlay (harness/_memengine) and the synchronous commit
// overlay (harness/_synccommit). Stores are compared byte for byte through engine.ZZDump.

// c11Ctx is a context that is never cancelled (the executor's context model has no Err method).
type c11Ctx struct{}

func (c11Ctx) Deadline() (time.Time, bool) { return time.Time{}, false }
func (c11Ctx) Done() <-chan struct{}       { return nil }
func (c11Ctx) Err() error                  { return nil }
func (c11Ctx) Value(any) any               { return nil }

var _ context.Context = c11Ctx{}

const (
	c11Src = "c11-src"
	c11Dst = "c11-dst"
)

// symbolic field values stay below 0x40 so that every column keeps a one-byte varint (shapes are concrete)
func c11Small(name string) int64 { return int64(zzsym.U8(name) & 0x3f) }

// c11Concrete makes every field value a constant (entries with the exact CRC, where a symbolic byte
// inside the checksummed stream costs a 256-way table multiplexer per following byte).
var c11Concrete bool

func c11Field(name string, konst int64) int64 {
	if c11Concrete {
		return konst
	}
	return c11Small(name)
}

func c11Open(path string) *DB {
	db, err := Open(path)
	zzsym.Assume(err == nil)
	return db
}

func c11Commit(wb *WriteBatch) {
	zzsym.Assume(wb.Commit() == nil)
	zzsym.Assume(wb.Close() == nil)
}

// c11Populate fills the source store through the real WriteBatch: hash slot 1 (always exported) with
// rows of nine tables incl. two secondary indexes, hash slot 3 (exported in the two-slot sets) and the
// bystander hash slot 2, which is never exported and must never appear in a restored store. One extra
// command on hash slot 1 is chosen per path among the first `extras` of: none, delete the channel (rows,
// subscribers, index), a second user, remove a subscriber, unbind the plugin.
func c11Populate(db *DB, extras int) {
	wb := db.NewWriteBatch()
	zzsym.Assume(wb.UpsertUser(1, User{UID: "u1", Token: "t1", DeviceFlag: c11Field("u1.flag", 1), DeviceLevel: c11Field("u1.level", 2)}) == nil)
	zzsym.Assume(wb.UpsertDevice(1, Device{UID: "u1", DeviceFlag: 1, Token: "d1", DeviceLevel: c11Field("d1.level", 1)}) == nil)
	zzsym.Assume(wb.UpsertChannel(1, Channel{ChannelID: "g1", ChannelType: 2, Ban: c11Field("g1.ban", 0), SendBan: c11Field("g1.sendban", 1)}) == nil)
	zzsym.Assume(wb.AddSubscribers(1, "g1", 2, []string{"u1", "u2"}) == nil)
	zzsym.Assume(wb.UpsertUserChannelMembership(1, UserChannelMembership{UID: "u1", ChannelID: "g1", ChannelType: 2,
		JoinSeq: uint64(c11Field("m1.join", 3)), ReadSeq: uint64(c11Field("m1.read", 4)), UpdatedAt: 7}) == nil)
	zzsym.Assume(wb.UpsertChannelRuntimeMeta(1, ChannelRuntimeMeta{ChannelID: "g1", ChannelType: 2, ChannelEpoch: uint64(1 + c11Field("r1.epoch", 1)),
		LeaderEpoch: 1, Replicas: []uint64{1, 2}, ISR: []uint64{1, 2}, Leader: 1, MinISR: 1, Status: 1}) == nil)
	zzsym.Assume(wb.UpsertChannelLatest(1, ChannelLatest{ChannelID: "g1", ChannelType: 2, LastMessageID: 11, LastMessageSeq: uint64(1 + c11Field("l1.seq", 5)),
		LastAt: 9, FromUID: "u1", ClientMsgNo: "c1", Payload: []byte{byte(c11Field("l1.payload", 'p'))}, UpdatedAt: 9}) == nil)
	zzsym.Assume(wb.BindPluginUser(1, PluginUserBinding{UID: "u1", PluginNo: "p1", CreatedAtMS: 5, UpdatedAtMS: 6}) == nil)
	zzsym.Assume(wb.UpsertHashSlotMigrationState(HashSlotMigrationState{HashSlot: 1, SourceSlot: 1, TargetSlot: 2, Phase: 1, FenceIndex: uint64(c11Field("mig.fence", 8))}) == nil)
	// hash slot 3
	zzsym.Assume(wb.UpsertUser(3, User{UID: "u3", Token: "t3", DeviceFlag: c11Field("u3.flag", 2), DeviceLevel: 1}) == nil)
	zzsym.Assume(wb.UpsertChannel(3, Channel{ChannelID: "g3", ChannelType: 2}) == nil)
	// bystander hash slot 2
	zzsym.Assume(wb.UpsertUser(2, User{UID: "u9", Token: "t9", DeviceFlag: 1, DeviceLevel: 1}) == nil)
	zzsym.Assume(wb.UpsertChannel(2, Channel{ChannelID: "g9", ChannelType: 2, Ban: 1}) == nil)
	zzsym.Assume(wb.AddSubscribers(2, "g9", 2, []string{"u9"}) == nil)
	zzsym.Assume(wb.SetSlotAppliedIndex(1, 42) == nil) // global row: never part of a hash-slot snapshot
	c11Commit(wb)

	// a second committed batch: one more command over the rows written above
	wb = db.NewWriteBatch()
	switch zzsym.Choice("extra", extras) {
	case 0:
	case 1:
		zzsym.Assume(wb.DeleteChannel(1, "g1", 2) == nil)
	case 2:
		zzsym.Assume(wb.UpsertUser(1, User{UID: "u2", Token: "t2", DeviceFlag: c11Field("u2.flag", 3), DeviceLevel: 1}) == nil)
	case 3:
		zzsym.Assume(wb.RemoveSubscribers(1, "g1", 2, []string{"u2"}) == nil)
	default:
		zzsym.Assume(wb.UnbindPluginUser(1, "u1", "p1") == nil)
	}
	c11Commit(wb)
}

// c11PopulateTiny: one user row in hash slot 1 and one in the bystander hash slot 2 (payload of about
// 70 bytes: every byte position is enumerated by the corruption entries).
func c11PopulateTiny(db *DB) {
	wb := db.NewWriteBatch()
	zzsym.Assume(wb.UpsertUser(1, User{UID: "u1", Token: "t", DeviceFlag: 1, DeviceLevel: 2}) == nil)
	zzsym.Assume(wb.UpsertUser(2, User{UID: "u9", Token: "t", DeviceFlag: 1, DeviceLevel: 1}) == nil)
	c11Commit(wb)
}

// c11PopulateTarget: a restore target that already holds (different) rows in hash slots 1, 2 and 3, so that
// "untouched" and "stale rows are replaced" are observable.
func c11PopulateTarget(db *DB) {
	wb := db.NewWriteBatch()
	zzsym.Assume(wb.UpsertUser(1, User{UID: "u1", Token: "old", DeviceFlag: 9, DeviceLevel: 9}) == nil)
	zzsym.Assume(wb.UpsertUser(1, User{UID: "stale", Token: "s", DeviceFlag: 1, DeviceLevel: 1}) == nil)
	zzsym.Assume(wb.UpsertChannel(1, Channel{ChannelID: "gstale", ChannelType: 2, Disband: 1}) == nil)
	zzsym.Assume(wb.AddSubscribers(1, "gstale", 2, []string{"stale"}) == nil)
	zzsym.Assume(wb.UpsertUser(2, User{UID: "keep", Token: "k", DeviceFlag: 2, DeviceLevel: 2}) == nil)
	zzsym.Assume(wb.UpsertChannel(2, Channel{ChannelID: "gkeep", ChannelType: 2}) == nil)
	zzsym.Assume(wb.UpsertUser(3, User{UID: "stale3", Token: "s", DeviceFlag: 1, DeviceLevel: 1}) == nil)
	zzsym.Assume(wb.SetSlotAppliedIndex(1, 7) == nil)
	c11Commit(wb)
}

func c11SameRows(ka, va, kb, vb [][]byte) bool {
	if len(ka) != len(kb) {
		return false
	}
	same := true
	for i := range ka {
		if len(ka[i]) != len(kb[i]) || len(va[i]) != len(vb[i]) {
			return false
		}
		for j := range ka[i] {
			if ka[i][j] != kb[i][j] {
				same = false
			}
		}
		for j := range va[i] {
			if va[i][j] != vb[i][j] {
				same = false
			}
		}
	}
	return same
}

func c11SameBytes(a, b []byte) bool {
	if len(a) != len(b) {
		return false
	}
	same := true
	for i := range a {
		if a[i] != b[i] {
			same = false
		}
	}
	return same
}

func c11HashSlots(set []uint16) []HashSlot {
	out := make([]HashSlot, 0, len(set))
	for _, hs := range set {
		out = append(out, HashSlot(hs))
	}
	return out
}

// c11KeySlot decodes the hash slot, key space and table id of a meta key straight from the key layout
// [domain][partition kind][hash slot, 2 bytes BE][space][table id, 4 bytes BE]... (independent of the
// span helpers used by the code under test). ok=false: not a hash-slot key (global rows).
func c11KeySlot(key []byte) (hashSlot uint16, space byte, table uint32, ok bool) {
	if len(key) < 9 || key[0] != byte(keycodec.DomainMeta) || key[1] != byte(keycodec.PartitionHashSlot) {
		return 0, 0, 0, false
	}
	return uint16(key[2])<<8 | uint16(key[3]), key[4], binary.BigEndian.Uint32(key[5:9]), true
}

func c11InSet(hashSlot uint16, set []uint16) bool {
	for _, hs := range set {
		if hs == hashSlot {
			return true
		}
	}
	return false
}

// c11Rows splits the committed rows of the store under path into those of the hash slots in set
// (any row, index or system key of these hash slots) and all the others.
func c11Rows(path string, set []uint16) (inK, inV, outK, outV [][]byte) {
	ks, vs := engine.ZZDump(path)
	for i := range ks {
		if hs, _, _, ok := c11KeySlot(ks[i]); ok && c11InSet(hs, set) {
			inK, inV = append(inK, ks[i]), append(inV, vs[i])
		} else {
			outK, outV = append(outK, ks[i]), append(outV, vs[i])
		}
	}
	return
}

// c11BackupRows: rows of the hash slots in set that the semantic backup format carries (everything but
// the runtime-meta, channel-migration and hash-slot-migration tables and their indexes).
func c11BackupRows(path string, set []uint16) (keys, values [][]byte) {
	ks, vs := engine.ZZDump(path)
	for i := range ks {
		hs, space, table, ok := c11KeySlot(ks[i])
		if !ok || !c11InSet(hs, set) {
			continue
		}
		if space != byte(keycodec.SpaceSystem) && (table == TableIDChannelRuntimeMeta || table == TableIDChannelMigration || table == TableIDHashSlotMigration) {
			continue
		}
		keys, values = append(keys, ks[i]), append(values, vs[i])
	}
	return
}

// c11ExportSet: the exported hash-slot set; {1}, or {1,3} given in either order.
func c11ExportSet(sets int) (request []uint16, normalized []uint16) {
	switch zzsym.Choice("set", sets) {
	case 0:
		return []uint16{1}, []uint16{1}
	case 1:
		return []uint16{3, 1}, []uint16{1, 3}
	default:
		return []uint16{1, 3}, []uint16{1, 3}
	}
}

// c11Stream runs the real streaming snapshot writer (the body of the goroutine behind
// OpenHashSlotSnapshot / OpenBackupHashSlotSnapshot) on a pinned engine snapshot into a buffer.
func c11Stream(db *DB, set []uint16, backupOnly bool) []byte {
	normalized, err := normalizeSnapshotHashSlots(set)
	zzsym.Assert(err == nil, "stream: hash-slot set refused")
	view, err := db.MetaDB().engine.NewSnapshot()
	zzsym.Assert(err == nil, "stream: engine snapshot failed")
	var buf bytes.Buffer
	err = writeHashSlotSnapshotStream(c11Ctx{}, &buf, view, normalized, backupOnly)
	zzsym.Assert(err == nil, "stream: snapshot writer failed")
	zzsym.Assert(view.Close() == nil, "stream: snapshot close failed")
	return buf.Bytes()
}

const (
	c11ImportBulk = iota
	c11ImportBulkPreserve
	c11ImportReader
	c11ImportRestore // VerifyBackupHashSlotSnapshotReader + ImportHashSlotSnapshotReaderForRestoreWithStats (node restore sequence)
	c11ImportVariants
)

// c11Import hands data to one of the real importers, claiming the hash-slot set `set`.
func c11Import(db *DB, variant int, set []uint16, data []byte) error {
	ctx := c11Ctx{}
	switch variant {
	case c11ImportBulk:
		return db.ImportHashSlotSnapshot(ctx, SlotSnapshot{HashSlots: set, Data: data})
	case c11ImportBulkPreserve:
		return db.ImportHashSlotSnapshotPreservingMigrationMeta(ctx, SlotSnapshot{HashSlots: set, Data: data})
	case c11ImportReader:
		return db.MetaDB().ImportHashSlotSnapshotReader(ctx, set, bytes.NewReader(data), int64(len(data)))
	default:
		reader := bytes.NewReader(data)
		stats, err := VerifyBackupHashSlotSnapshotReader(ctx, set, reader, int64(len(data)))
		if err != nil {
			return err
		}
		got, err := db.ImportHashSlotSnapshotReaderForRestoreWithStats(ctx, set, reader, int64(len(data)), false)
		if err == nil {
			zzsym.Assert(got.EntryCount == stats.EntryCount, "restore import reports another entry count than the verification pass")
		}
		return err
	}
}

// ------------------------------------------------------------------ 1. round trip

// Harness_C11_MetaRoundTrip: export {1} / {1,3} of a populated store (bulk exporter and streaming
// writer must produce the same bytes), import into a FRESH store with each of the four importers:
// the rows of the exported hash slots are byte-identical, nothing else exists in the restored store,
// and the re-export of the restored store is byte-identical to the first export.
func Harness_C11_MetaRoundTrip() {
	engine.ZZResetStores()
	ctx := c11Ctx{}
	src := c11Open(c11Src)
	c11Populate(src, 5)
	request, set := c11ExportSet(3)
	snap, err := src.ExportHashSlotSnapshot(ctx, request)
	zzsym.Assert(err == nil, "export of a populated hash slot fails")
	zzsym.Assert(len(snap.HashSlots) == len(set) && snap.HashSlots[0] == set[0] && snap.HashSlots[len(set)-1] == set[len(set)-1], "export does not name the normalized hash-slot set")
	streamed := c11Stream(src, request, false)
	zzsym.Assert(c11SameBytes(streamed, snap.Data), "streaming snapshot writer and bulk exporter produce different bytes")
	sk, sv, _, _ := c11Rows(c11Src, set)
	zzsym.Assert(snap.Stats.EntryCount == len(sk) && snap.Stats.Bytes == len(snap.Data), "export statistics differ from the exported rows")

	dst := c11Open(c11Dst)
	err = c11Import(dst, zzsym.Choice("import", c11ImportVariants), snap.HashSlots, snap.Data)
	zzsym.Reach("meta-imported")
	zzsym.Assert(err == nil, "import of an unmodified export into a fresh store fails")
	dk, dv := engine.ZZDump(c11Dst)
	zzsym.Assert(len(sk) >= 3, "round trip: almost nothing exported")
	zzsym.Assert(c11SameRows(sk, sv, dk, dv), "restored store is not exactly the exported hash-slot rows (row missing, changed, or a row of another hash slot / a global row present)")
	again, err := dst.ExportHashSlotSnapshot(ctx, set)
	zzsym.Assert(err == nil && c11SameBytes(again.Data, snap.Data), "re-export of the restored store differs from the first export")
	zzsym.Observe("meta-roundtrip", uint64(len(sk)), uint64(len(snap.Data)))
}

// Harness_C11_MetaBackupRoundTrip: the semantic backup stream (OpenBackupHashSlotSnapshot's writer:
// no runtime-meta, channel-migration and hash-slot-migration rows) restored into a fresh store by the
// node-restore sequence (verify, then import preserving migration rows) or through
// ReplayBackupHashSlotSnapshot + RestoreSnapshotWriter.
func Harness_C11_MetaBackupRoundTrip() {
	engine.ZZResetStores()
	ctx := c11Ctx{}
	src := c11Open(c11Src)
	c11Populate(src, 5)
	request, set := c11ExportSet(3)
	data := c11Stream(src, request, true)
	sk, sv := c11BackupRows(c11Src, set)
	allK, _, _, _ := c11Rows(c11Src, set)
	zzsym.Assert(len(sk) >= 3 && len(sk) < len(allK), "backup stream: the excluded tables hold no rows (vacuous)")

	dst := c11Open(c11Dst)
	if zzsym.Choice("restore", 2) == 0 {
		err := c11Import(dst, c11ImportRestore, set, data)
		zzsym.Reach("meta-backup-imported")
		zzsym.Assert(err == nil, "restore import of an unmodified backup stream into a fresh store fails")
	} else {
		w, err := dst.MetaDB().NewRestoreSnapshotWriter(ctx, set, false)
		zzsym.Assert(err == nil, "restore writer cannot be opened")
		slots, stats, err := ReplayBackupHashSlotSnapshot(ctx, bytes.NewReader(data), int64(len(data)), func(entry BackupSnapshotEntry) error {
			return w.Put(ctx, entry.Key, entry.Value)
		})
		zzsym.Reach("meta-backup-replayed")
		zzsym.Assert(err == nil && w.Close() == nil, "replay of an unmodified backup stream into a restore writer fails")
		zzsym.Assert(stats.EntryCount == uint64(len(sk)) && len(slots) == len(set) && slots[0] == set[0], "replay reports another entry count or hash-slot set than the stream carries")
	}
	dk, dv := engine.ZZDump(c11Dst)
	zzsym.Assert(c11SameRows(sk, sv, dk, dv), "restored store is not exactly the backed-up rows of the exported hash slots")
	again := c11Stream(dst, set, true)
	zzsym.Assert(c11SameBytes(again, data), "backup stream of the restored store differs from the first backup stream")
	has, err := dst.MetaDB().HasBackupBusinessData(ctx, set)
	zzsym.Assert(err == nil && has, "restored store reports no business data")
	zzsym.Observe("meta-backup", uint64(len(sk)), uint64(len(data)))
}

// ------------------------------------------------------------------ 2. retry

// c11RawSet / c11RawDelete write below the meta layer (what a half-finished earlier import left behind).
func c11RawSet(db *DB, key, value []byte) {
	b := db.MetaDB().engine.NewBatch()
	zzsym.Assume(b.Set(key, value) == nil)
	zzsym.Assume(b.Commit(true) == nil)
	zzsym.Assume(b.Close() == nil)
}

func c11RawDelete(db *DB, key []byte) {
	b := db.MetaDB().engine.NewBatch()
	zzsym.Assume(b.Delete(key) == nil)
	zzsym.Assume(b.Commit(true) == nil)
	zzsym.Assume(b.Close() == nil)
}

// Harness_C11_MetaRetry: a restore into a store that already holds other rows in the same and in other
// hash slots, interrupted / disturbed and then retried, converges: after the retry the exported hash
// slots hold exactly the exported rows, and everything outside them is what it was before the restore.
// Disturbances: none (plain second import); the state a crashed streaming import leaves behind (hash
// slots cleared, only the first k entries installed); one restored row deleted; one restored row's
// value overwritten; a stale row added through the real WriteBatch.
func Harness_C11_MetaRetry() {
	engine.ZZResetStores()
	ctx := c11Ctx{}
	src := c11Open(c11Src)
	c11Populate(src, c11Tier(2, 5))
	request, set := c11ExportSet(c11Tier(2, 3))
	snap, err := src.ExportHashSlotSnapshot(ctx, request)
	zzsym.Assume(err == nil)
	sk, sv, _, _ := c11Rows(c11Src, set)
	// (the migration-state row is target-local under the preserving importers: keep it out of the disturbances)
	migrationKey := func(key []byte) bool { return isHashSlotMigrationSnapshotKey(key, c11HashSlots(set)) }

	dst := c11Open(c11Dst)
	c11PopulateTarget(dst)
	_, _, otherK, otherV := c11Rows(c11Dst, set)
	zzsym.Assert(len(otherK) >= 2, "retry: the target holds nothing outside the imported hash slots (vacuous)")
	// first attempt: bulk or node-restore importer (all four in the thorough tier); retry: any of the four
	first := c11ImportBulk
	if zzsym.Thorough() {
		first = zzsym.Choice("first", c11ImportVariants)
	} else if zzsym.Choice("first", 2) == 1 {
		first = c11ImportRestore
	}
	second := zzsym.Choice("second", c11ImportVariants)

	switch zzsym.Choice("disturb", 5) {
	case 0:
		zzsym.Assert(c11Import(dst, first, snap.HashSlots, snap.Data) == nil, "first import fails")
	case 1:
		// crash of the streaming importer after its delete batch and after k installed entries
		for _, hs := range c11HashSlots(set) {
			zzsym.Assume(dst.MetaDB().DeleteHashSlotData(ctx, uint16(hs)) == nil)
		}
		k := zzsym.Choice("installed", 3)
		for i := 0; i < k && i < len(sk); i++ {
			c11RawSet(dst, sk[i], sv[i])
		}
	case 2:
		zzsym.Assert(c11Import(dst, first, snap.HashSlots, snap.Data) == nil, "first import fails")
		i := zzsym.Choice("victim", 3)
		zzsym.Assume(i < len(sk) && !migrationKey(sk[i]))
		c11RawDelete(dst, sk[i])
	case 3:
		zzsym.Assert(c11Import(dst, first, snap.HashSlots, snap.Data) == nil, "first import fails")
		i := zzsym.Choice("victim", 3)
		zzsym.Assume(i < len(sk) && !migrationKey(sk[i]))
		c11RawSet(dst, sk[i], []byte{zzsym.U8("garbage")})
	default:
		zzsym.Assert(c11Import(dst, first, snap.HashSlots, snap.Data) == nil, "first import fails")
		wb := dst.NewWriteBatch()
		zzsym.Assume(wb.UpsertUser(1, User{UID: "late", Token: "x", DeviceFlag: c11Small("late.flag"), DeviceLevel: 1}) == nil)
		c11Commit(wb)
	}
	err = c11Import(dst, second, snap.HashSlots, snap.Data)
	zzsym.Reach("meta-retried")
	zzsym.Assert(err == nil, "retried import fails")
	dk, dv, ok2, ov2 := c11Rows(c11Dst, set)
	zzsym.Assert(c11SameRows(sk, sv, dk, dv), "after the retry the imported hash slots do not hold exactly the exported rows (stale row kept, row missing or changed)")
	zzsym.Assert(c11SameRows(otherK, otherV, ok2, ov2), "the restore changed rows outside the imported hash slots")
	again, err := dst.ExportHashSlotSnapshot(ctx, set)
	zzsym.Assert(err == nil && c11SameBytes(again.Data, snap.Data), "re-export after the retried restore differs from the first export")
	zzsym.Observe("meta-retry", uint64(len(sk)), uint64(len(otherK)))
}

// ------------------------------------------------------------------ 3. rejection

// c11Reseal recomputes the trailing checksum over everything before it (a payload that is malformed
// although its checksum matches: the structural validation must reject it on its own).
func c11Reseal(body []byte) []byte {
	out := append([]byte(nil), body...)
	return binary.BigEndian.AppendUint32(out, crc32.ChecksumIEEE(body))
}

// c11Rejected: the import failed and the target store is byte for byte what it was.
func c11Rejected(err error, beforeK, beforeV [][]byte) {
	zzsym.Assert(err != nil, "a malformed, mismatched or corrupted snapshot was accepted")
	afterK, afterV := engine.ZZDump(c11Dst)
	zzsym.Assert(c11SameRows(beforeK, beforeV, afterK, afterV), "a rejected snapshot changed the target store (partially applied)")
}

// Harness_C11_MetaRejectMalformed: payloads that are malformed or mismatched although their checksum is
// valid (resealed) are refused by every importer and leave a populated target untouched: wrong
// magic byte, wrong version, another hash-slot id or number of ids in the header, a request for another
// hash-slot set than the payload's, an entry count above or below the entries present, trailing bytes,
// an entry area cut anywhere.
func Harness_C11_MetaRejectMalformed() {
	engine.ZZResetStores()
	ctx := c11Ctx{}
	src := c11Open(c11Src)
	c11Populate(src, c11Tier(2, 5))
	snap, err := src.ExportHashSlotSnapshot(ctx, []uint16{1})
	zzsym.Assume(err == nil)
	body := append([]byte(nil), snap.Data[:len(snap.Data)-4]...)
	const headerLen = 4 + 2 + 2 + 2 + 8 // one hash slot
	zzsym.Assert(len(body) > headerLen+8, "malformed: the export carries no entries (vacuous)")
	claim := []uint16{1}

	dst := c11Open(c11Dst)
	c11PopulateTarget(dst)
	beforeK, beforeV := engine.ZZDump(c11Dst)
	data := snap.Data
	switch zzsym.Choice("defect", 10) {
	case 0: // magic
		i := zzsym.Choice("magic.byte", 4)
		v := zzsym.U8("magic.value")
		zzsym.Assume(v != body[i])
		body[i] = v
		data = c11Reseal(body)
	case 1: // version
		v := zzsym.U16("version")
		zzsym.Assume(v != slotSnapshotVersion)
		binary.BigEndian.PutUint16(body[4:6], v)
		data = c11Reseal(body)
	case 2: // well-formed header naming another NUMBER of hash slots than the request: none, or 1 and one more
		header := append([]byte(nil), body[:6]...)
		if zzsym.Choice("slotcount", 2) == 0 {
			header = binary.BigEndian.AppendUint16(header, 0)
		} else {
			other := zzsym.U16("slotcount.other")
			zzsym.Assume(other > 1)
			header = binary.BigEndian.AppendUint16(header, 2)
			header = binary.BigEndian.AppendUint16(header, 1)
			header = binary.BigEndian.AppendUint16(header, other)
		}
		data = c11Reseal(append(header, body[10:]...))
	case 3: // the payload names another hash slot than the request
		v := zzsym.U16("slotid")
		zzsym.Assume(v != 1)
		binary.BigEndian.PutUint16(body[8:10], v)
		data = c11Reseal(body)
	case 4: // untouched payload, request for another set: the bystander, a superset, a subset of nothing
		switch zzsym.Choice("claim", 4) {
		case 0:
			claim = []uint16{2}
		case 1:
			claim = []uint16{1, 2}
		case 2:
			claim = []uint16{zzsym.U16("claim.id")}
			zzsym.Assume(claim[0] != 1)
		default:
			claim = nil
		}
	case 5: // payload relabelled for the bystander hash slot AND requested for it: its keys are hash slot 1's
		binary.BigEndian.PutUint16(body[8:10], 2)
		data = c11Reseal(body)
		claim = []uint16{2}
	case 6: // entry count differs from the entries present (bounded: the bulk decoder allocates capacity = count)
		v := zzsym.U64("entrycount")
		zzsym.Assume(v != uint64(snap.Stats.EntryCount) && v < 32)
		binary.BigEndian.PutUint64(body[10:18], v)
		data = c11Reseal(body)
	case 7: // trailing bytes after the last entry
		n := 1 + zzsym.Choice("trailing", 3)
		for i := 0; i < n; i++ {
			body = append(body, zzsym.U8("trailing.byte"))
		}
		data = c11Reseal(body)
	case 8: // entry area cut short (count unchanged)
		cut := c11Cut(len(body) - headerLen)
		data = c11Reseal(body[:headerLen+cut])
	default: // header cut short
		cut := zzsym.Choice("headercut", headerLen)
		data = c11Reseal(body[:cut])
	}
	variant := zzsym.Choice("import", c11ImportVariants)
	err = c11Import(dst, variant, claim, data)
	zzsym.Reach("meta-malformed-offered")
	c11Rejected(err, beforeK, beforeV)
	zzsym.Observe("meta-malformed", uint64(len(data)), zzsym.B2U(err != nil))
}

// c11Cut chooses a cut point in [0, n): every point in the thorough tier; in the quick tier every point
// of the first and last 8 plus every 41st in between.
func c11Cut(n int) int {
	const step = 41
	if zzsym.Thorough() || n <= 24 {
		return zzsym.Choice("cut", n)
	}
	k := zzsym.Choice("cut", 16+(n-16)/step)
	if k < 8 {
		return k
	}
	if k < 16 {
		return n - 16 + k
	}
	return 8 + (k-16)*step
}

func c11Tier(quick, thorough int) int {
	if zzsym.Thorough() {
		return thorough
	}
	return quick
}

// c11ExactTarget: source with concrete rows, its export, and a populated target (exact CRC entries).
func c11ExactSetup(tiny bool) (snap SlotSnapshot, dst *DB, beforeK, beforeV [][]byte) {
	engine.ZZResetStores()
	c11Concrete = true
	src := c11Open(c11Src)
	if tiny {
		c11PopulateTiny(src)
	} else {
		c11Populate(src, c11Tier(2, 5))
	}
	c11Concrete = false
	snap, err := src.ExportHashSlotSnapshot(c11Ctx{}, []uint16{1})
	zzsym.Assume(err == nil)
	dst = c11Open(c11Dst)
	c11PopulateTarget(dst)
	beforeK, beforeV = engine.ZZDump(c11Dst)
	return
}

// c11ImportChoice3: bulk importer, streaming importer alone, or the node-restore sequence (the checksum
// is verified by different code in the bulk and the streaming importers).
func c11ImportChoice3() int {
	switch zzsym.Choice("import", 3) {
	case 0:
		return c11ImportBulk
	case 1:
		return c11ImportReader
	default:
		return c11ImportRestore
	}
}

// Harness_C11_MetaCorruptByte_ExactCRC: real CRC-32 (table-driven hash/crc32 code). One byte of the
// exported payload - ANY position of a one-row export incl. the four checksum bytes - is replaced by ANY
// other value: both importers refuse it and the populated target is untouched.
func Harness_C11_MetaCorruptByte_ExactCRC() {
	snap, dst, beforeK, beforeV := c11ExactSetup(true)
	data := append([]byte(nil), snap.Data...)
	pos := zzsym.Choice("pos", len(data))
	v := zzsym.U8("value")
	zzsym.Assume(v != data[pos])
	data[pos] = v
	err := c11Import(dst, c11ImportChoice3(), []uint16{1}, data)
	zzsym.Reach("meta-corrupt-offered")
	c11Rejected(err, beforeK, beforeV)
	zzsym.Observe("meta-corrupt", uint64(len(data)), uint64(pos), zzsym.B2U(err != nil))
}

// Harness_C11_MetaCorruptByteLarge_ExactCRC: the same on the fully populated export (all tables), at
// positions of each kind: header bytes, first entry's length bytes and key, a value byte in the middle,
// the last body byte, each checksum byte.
func Harness_C11_MetaCorruptByteLarge_ExactCRC() {
	snap, dst, beforeK, beforeV := c11ExactSetup(false)
	data := append([]byte(nil), snap.Data...)
	n := len(data)
	positions := []int{0, 5, 7, 9, 17, 18, 19, 20, n / 2, n - 6, n - 5, n - 4, n - 1}
	if zzsym.Thorough() {
		positions = append(positions, 3, 4, 6, 8, 10, 16, 21, 30, n/3, n/2+1, 2*n/3, n-8, n-3, n-2)
	}
	pos := positions[zzsym.Choice("pos", len(positions))]
	v := zzsym.U8("value")
	zzsym.Assume(v != data[pos])
	data[pos] = v
	err := c11Import(dst, c11ImportChoice3(), []uint16{1}, data)
	zzsym.Reach("meta-corrupt-large-offered")
	c11Rejected(err, beforeK, beforeV)
	zzsym.Observe("meta-corrupt-large", uint64(n), uint64(pos), zzsym.B2U(err != nil))
}

// Harness_C11_MetaTruncated_ExactCRC: real CRC-32. The exported payload cut at EVERY point (one-row
// export; the populated export at the points of c11Cut), or followed by one extra byte of any value,
// without repairing the checksum: refused, target untouched.
func Harness_C11_MetaTruncated_ExactCRC() {
	tiny := zzsym.Choice("tiny", 2) == 0
	snap, dst, beforeK, beforeV := c11ExactSetup(tiny)
	data := snap.Data
	if zzsym.Choice("extend", 2) == 1 {
		data = append(append([]byte(nil), data...), zzsym.U8("extra"))
	} else if tiny {
		data = data[:zzsym.Choice("cut", len(data))]
	} else {
		data = data[:c11Cut(len(data))]
	}
	err := c11Import(dst, c11ImportChoice3(), []uint16{1}, data)
	zzsym.Reach("meta-truncated-offered")
	c11Rejected(err, beforeK, beforeV)
	zzsym.Observe("meta-truncated", uint64(len(data)), zzsym.B2U(err != nil))
}

// Harness_C11_MetaBulkDecoderLengthOverflow (NOT registered in check.json: candidate finding C11-F1).
// A checksum-valid payload whose first entry declares keyLen = 2^64-1 and valueLen = 2: the bulk decoder's
// bound check `len(body) < keyLen+valueLen` wraps around and body[:int(keyLen)] panics (slice bounds out
// of range [:-1]) instead of returning ErrCorruptValue. (The declared entry COUNT is trusted in the same
// way: make([]snapshotEntry, 0, count) panics with "cap out of range" for counts >= 2^48; the executor
// cannot represent that allocation, so it is only stated here; both were confirmed natively.)
func Harness_C11_MetaBulkDecoderLengthOverflow() {
	snap, dst, beforeK, beforeV := c11ExactSetup(true)
	body := append([]byte(nil), snap.Data[:18]...)
	body = binary.AppendUvarint(body, ^uint64(0))
	body = binary.AppendUvarint(body, 2)
	body = append(body, 'x', 'y')
	data := c11Reseal(body)
	panicked := false
	var err error
	func() {
		defer func() {
			if recover() != nil {
				panicked = true
			}
		}()
		err = c11Import(dst, c11ImportBulk, []uint16{1}, data)
	}()
	zzsym.Reach("meta-length-overflow-offered")
	zzsym.AssertKnown(!panicked, "bulk snapshot decoder panics on a checksum-valid payload with overflowing entry lengths", "C11-F1", true)
	if !panicked {
		c11Rejected(err, beforeK, beforeV)
	}
}
