package commit
