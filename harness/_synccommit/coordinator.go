// Verification overlay of pkg/db/internal/commit: a synchronous coordinator with the same API.
// The real coordinator is a goroutine that groups requests into one engine batch; this one runs
// every request alone and inline: Build into a fresh engine batch, commit, Publish, Finalize —
// the per-request contract of the real code (Build error => nothing committed; commit error =>
// unknown; Publish only after a successful commit; Finalize exactly once). Grouping, queueing,
// priorities and back-pressure are not modelled.
package commit

import (
	"context"
	"errors"
	"time"

	"github.com/WuKongIM/WuKongIM/pkg/db/internal/engine"
)

var ErrClosed = errors.New("commit: closed")

type Priority uint8

const (
	PriorityNormal Priority = iota
	PriorityHigh
)

type Lane struct {
	Name     string
	Priority Priority
}

type BatchEvent struct {
	Requests        int
	Records         int
	Bytes           int
	CollectDuration time.Duration
	BuildDuration   time.Duration
	CommitDuration  time.Duration
	PublishDuration time.Duration
	TotalDuration   time.Duration
	Err             error
}

type RequestEvent struct {
	Lane     Lane
	Records  int
	Bytes    int
	Duration time.Duration
	Err      error
}

type Observer interface {
	SetQueueDepth(depth int)
	ObserveBatch(event BatchEvent)
}

type RequestObserver interface {
	ObserveRequest(event RequestEvent)
}

type Config struct {
	FlushWindow time.Duration
	QueueSize   int
	Shards      int
	MaxRequests int
	MaxRecords  int
	MaxBytes    int
	Observer    Observer
}

type Request struct {
	Lane      Lane
	Partition string
	Records   int
	Bytes     int
	Build     func(batch *engine.Batch) error
	Publish   func() error
	Finalize  func()
}

type Outcome uint8

const (
	OutcomeUnspecified Outcome = iota
	OutcomeDefinitelyNotCommitted
	OutcomeCommitted
	OutcomeUnknown
)

type SubmitResult struct {
	Outcome Outcome
	Err     error
}

type Coordinator struct {
	db         *engine.DB
	cfg        Config
	commitFunc func(batch *engine.Batch) error
	closed     bool
}

func NewCoordinator(db *engine.DB, cfg Config) *Coordinator {
	c := &Coordinator{db: db, cfg: cfg}
	c.commitFunc = func(batch *engine.Batch) error { return batch.Commit(true) }
	return c
}

func (c *Coordinator) SetCommitFunc(fn func(batch *engine.Batch) error) {
	if c == nil || fn == nil {
		return
	}
	c.commitFunc = fn
}

func (c *Coordinator) Submit(ctx context.Context, req Request) (err error) {
	return c.SubmitWithOutcome(ctx, req).Err
}

func (c *Coordinator) SubmitWithOutcome(ctx context.Context, req Request) (result SubmitResult) {
	finalize := func() {
		if req.Finalize != nil {
			req.Finalize()
		}
	}
	if c == nil || c.closed {
		finalize()
		return SubmitResult{Outcome: OutcomeDefinitelyNotCommitted, Err: ErrClosed}
	}
	if ctx != nil {
		if err := ctx.Err(); err != nil {
			finalize()
			return SubmitResult{Outcome: OutcomeDefinitelyNotCommitted, Err: err}
		}
	}
	if req.Build == nil {
		finalize()
		return SubmitResult{Outcome: OutcomeDefinitelyNotCommitted, Err: errors.New("commit: nil build")}
	}
	batch := c.db.NewBatch()
	defer batch.Close()
	if err := req.Build(batch); err != nil {
		finalize()
		return SubmitResult{Outcome: OutcomeDefinitelyNotCommitted, Err: err}
	}
	if err := c.commitFunc(batch); err != nil {
		finalize()
		return SubmitResult{Outcome: OutcomeUnknown, Err: err}
	}
	var perr error
	if req.Publish != nil {
		perr = req.Publish()
	}
	finalize()
	return SubmitResult{Outcome: OutcomeCommitted, Err: perr}
}

func (c *Coordinator) Close() {
	if c != nil {
		c.closed = true
	}
}
