package message

import "github.com/WuKongIM/WuKongIM/pkg/db/internal/engine"

// ZZC10ResetStores forgets every in-memory engine store (verification overlay only).
func ZZC10ResetStores() { engine.ZZResetStores() }
