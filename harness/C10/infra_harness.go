package cluster

import (
	"context"

	"github.com/WuKongIM/WuKongIM/internal/usecase/message"
	"github.com/WuKongIM/WuKongIM/internal/zzsym"
	channelruntime "github.com/WuKongIM/WuKongIM/pkg/channel"
	channelstore "github.com/WuKongIM/WuKongIM/pkg/channel/store"
	clusterchannels "github.com/WuKongIM/WuKongIM/pkg/cluster/channels"
)

// C10, obligation (2), end to end: ChannelMessageReader.SyncMessages -> readCommittedRequest ->
// Service.ReadCommittedBatch -> readLocalCommitted -> (contract fake of the store port) ->
// channelMessagePageFromRead, for every forward / reverse / latest query.

// c10Node stands for pkg/cluster.Node.ReadChannelCommittedBatch, which (after its context and
// foreground checks) delegates to the Channel service's ReadCommittedBatch.
type c10Node struct{ svc *clusterchannels.Service }

func (n c10Node) ReadChannelCommitted(context.Context, channelruntime.ChannelID, channelstore.ReadCommittedRequest) (channelstore.ReadCommittedResult, error) {
	return channelstore.ReadCommittedResult{}, channelruntime.ErrNotReady
}

func (n c10Node) ReadChannelCommittedBatch(ctx context.Context, reads []clusterchannels.CommittedRead) ([]clusterchannels.CommittedReadResult, error) {
	return n.svc.ReadCommittedBatch(ctx, reads)
}

func Harness_C10_SyncMessages() {
	st := clusterchannels.ZZC10NewStore()
	id := channelruntime.ChannelID{ID: "c", Type: 2}
	meta := channelruntime.Meta{ID: id, Epoch: zzsym.U64("meta.epoch"), LeaderEpoch: zzsym.U64("meta.leaderepoch"),
		Leader: 1, MinISR: zzsym.Int("meta.minisr"), RetentionThroughSeq: zzsym.U64("meta.retention"), Status: channelruntime.StatusActive}
	zzsym.Assume(meta.RetentionThroughSeq < ^uint64(0) && st.Retention.LocalRetentionThroughSeq < ^uint64(0))
	reader := NewChannelMessageReader(c10Node{svc: clusterchannels.ZZC10NewService(meta, st)})
	query := message.ChannelMessageQuery{
		ChannelID: message.ChannelID{ID: "c", Type: 2},
		StartSeq:  zzsym.U64("query.start"),
		EndSeq:    zzsym.U64("query.end"),
		MinSeq:    zzsym.U64("query.min"),
		Limit:     zzsym.Int("query.limit"),
		PullMode:  message.PullMode(zzsym.U8("query.pullmode")),
	}
	maxLimit := 3
	if zzsym.Thorough() {
		maxLimit = 4
	}
	zzsym.Assume(query.Limit >= -1 && query.Limit <= maxLimit)
	zzsym.Assume(query.PullMode == message.PullModeDown || query.PullMode == message.PullModeUp)

	page, err := reader.SyncMessages(clusterchannels.ZZC10Ctx{}, query)

	if err != nil {
		return
	}
	zzsym.Reach("page returned")
	committed := st.HW
	if meta.MinISR <= 1 {
		committed = st.LEO // commit quorum of one: the durable log end is committed
	}
	floor := meta.RetentionThroughSeq
	if st.Retention.LocalRetentionThroughSeq > floor {
		floor = st.Retention.LocalRetentionThroughSeq
	}
	limit := query.Limit
	if limit <= 0 {
		limit = 1
	}
	zzsym.Assert(len(page.Messages) <= limit, "page longer than the requested limit")
	for _, m := range page.Messages {
		zzsym.Assert(m.MessageSeq <= committed, "sync returned a message above the committed watermark")
		zzsym.Assert(m.MessageSeq > floor, "sync returned a message at or below the retention boundary")
		if query.EndSeq > 0 {
			if query.PullMode == message.PullModeUp {
				zzsym.Assert(m.MessageSeq < query.EndSeq, "pull-up page crosses EndSeq")
			} else {
				zzsym.Assert(m.MessageSeq > query.EndSeq, "pull-down page crosses EndSeq")
			}
		}
		for _, row := range st.Rows {
			zzsym.Assert(!(row.SyncOnce && row.MessageSeq == m.MessageSeq), "a SyncOnce record was returned as an ordinary message")
		}
	}
	if len(page.Messages) > 0 {
		zzsym.Reach("page with messages")
	}
	zzsym.Observe("page", uint64(len(page.Messages)), zzsym.B2U(page.HasMore), committed, floor)
}
