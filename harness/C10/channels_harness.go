package channels

import (
	"context"
	"time"

	"github.com/WuKongIM/WuKongIM/internal/zzsym"
	ch "github.com/WuKongIM/WuKongIM/pkg/channel"
	channelstore "github.com/WuKongIM/WuKongIM/pkg/channel/store"
)

// C10, obligation (2): the service read path (ReadCommittedBatch / handleForwardCommittedReads ->
// readLocalCommitted) clamps every read between the retention floor and the committed frontier.
// The store handle behind channelstore.Factory is a fake of the repo's own ChannelStore port that
// answers by the ReadCommitted contract only (see ZZC10Store.ReadCommitted).

// ZZC10Ctx is a never-cancelled context (the engine's model of context.Background has no methods).
type ZZC10Ctx struct{}

func (ZZC10Ctx) Deadline() (time.Time, bool) { return time.Time{}, false }
func (ZZC10Ctx) Done() <-chan struct{}       { return nil }
func (ZZC10Ctx) Err() error                  { return nil }
func (ZZC10Ctx) Value(any) any               { return nil }

// ZZC10Store is the contract-level fake of channelstore.ChannelStore. Exported so that the
// internal/infra/cluster harness can reuse it.
type ZZC10Store struct {
	channelstore.ChannelStore // every other method is unused by the read path (nil: would panic)

	LEO, HW   uint64
	Retention channelstore.RetentionState
	// MaxRows bounds the rows returned over ALL ReadCommitted calls of one harness run (a finite log).
	MaxRows int

	// Calls counts ReadCommitted invocations; Last is the last request seen.
	Calls int
	Last  channelstore.ReadCommittedRequest
	// Rows records every row handed out (the harness looks up which ones were SyncOnce records).
	Rows []ch.Message
}

func (s *ZZC10Store) Load(context.Context) (channelstore.InitialState, error) {
	return channelstore.InitialState{LEO: s.LEO, HW: s.HW, CheckpointHW: s.HW}, nil
}

func (s *ZZC10Store) LoadRetentionState(context.Context) (channelstore.RetentionState, error) {
	return s.Retention, nil
}

func (s *ZZC10Store) Close() error { return nil }

// GetLastSenderMessageSeq (channelstore.SenderSequenceLookup): any answer at or below throughSeq.
func (s *ZZC10Store) GetLastSenderMessageSeq(_ context.Context, _ string, throughSeq uint64) (uint64, bool, error) {
	seq := zzsym.U64("sender.seq")
	zzsym.Assume(seq <= throughSeq)
	return seq, zzsym.Bool("sender.found"), nil
}

// ReadCommitted answers by the port's contract, which is what the production
// messageDBChannelStoreAdapter.ReadCommitted guarantees for a list port that returns rows ascending
// from `from` or descending from `from`, at most `limit` rows, with arbitrary gaps:
//   - k <= MaxRows rows, k <= Limit when Limit > 0, sequences strictly monotone, all in [1, LEO];
//   - forward: ascending, every seq >= FromSeq and >= MinSeq;
//   - reverse: descending, every seq <= FromSeq when FromSeq > 0 (FromSeq == 0 reads from the log end);
//     nothing at all when MinSeq > 0 and FromSeq < MinSeq;
//   - every seq >= MinSeq when MinSeq > 0; every seq <= MaxSeq when MaxSeq > 0 (MaxSeq == 0: no cap);
//   - any row may be a SyncOnce record.
func (s *ZZC10Store) ReadCommitted(_ context.Context, req channelstore.ReadCommittedRequest) (channelstore.ReadCommittedResult, error) {
	s.Calls++
	s.Last = req
	if req.Reverse && req.MinSeq > 0 && req.FromSeq < req.MinSeq {
		return channelstore.ReadCommittedResult{NextSeq: req.FromSeq}, nil
	}
	k := zzsym.Choice("rows", s.MaxRows+1)
	s.MaxRows -= k
	zzsym.Assume(req.Limit <= 0 || k <= req.Limit)
	out := make([]ch.Message, 0, k)
	var prev uint64
	for i := 0; i < k; i++ {
		seq := zzsym.U64("row.seq")
		zzsym.Assume(seq >= 1 && seq <= s.LEO)
		zzsym.Assume(req.MinSeq == 0 || seq >= req.MinSeq)
		zzsym.Assume(req.MaxSeq == 0 || seq <= req.MaxSeq)
		if req.Reverse {
			zzsym.Assume(req.FromSeq == 0 || seq <= req.FromSeq)
			zzsym.Assume(i == 0 || seq < prev)
		} else {
			zzsym.Assume(seq >= req.FromSeq)
			zzsym.Assume(i == 0 || seq > prev)
		}
		prev = seq
		out = append(out, ch.Message{MessageID: zzsym.U64("row.id"), MessageSeq: seq, SyncOnce: zzsym.Bool("row.synconce")})
	}
	s.Rows = append(s.Rows, out...)
	next := req.FromSeq
	if k > 0 {
		if req.Reverse {
			next = prev - 1
		} else {
			next = prev + 1
		}
	}
	return channelstore.ReadCommittedResult{Messages: out, NextSeq: next}, nil
}

// ZZC10Factory hands out the one fake store.
type ZZC10Factory struct{ Store *ZZC10Store }

func (f ZZC10Factory) ChannelStore(ch.ChannelKey, ch.ChannelID) (channelstore.ChannelStore, error) {
	return f.Store, nil
}

// ZZC10Meta is a fake ChannelMetaSource returning one fixed metadata row.
type ZZC10Meta struct{ Meta ch.Meta }

func (m ZZC10Meta) ResolveChannelMeta(context.Context, ch.ChannelID) (ch.Meta, error) {
	return m.Meta, nil
}

// ZZC10NewService wires the real Service read path to the fakes (local node 1).
func ZZC10NewService(meta ch.Meta, st *ZZC10Store) *Service {
	return &Service{localNode: 1, store: ZZC10Factory{Store: st}, metaSource: ZZC10Meta{Meta: meta}}
}

// ZZC10NewStore builds the fake store with an arbitrary durable frontier LEO >= HW.
func ZZC10NewStore() *ZZC10Store {
	s := &ZZC10Store{LEO: zzsym.U64("leo"), HW: zzsym.U64("hw"), MaxRows: 2}
	if zzsym.Thorough() {
		s.MaxRows = 4
	}
	zzsym.Assume(s.HW <= s.LEO)
	s.Retention = channelstore.RetentionState{
		LocalRetentionThroughSeq:    zzsym.U64("store.localretention"),
		PhysicalRetentionThroughSeq: zzsym.U64("store.physicalretention"),
		RetainedMaxSeq:              zzsym.U64("store.retainedmax"),
	}
	return s
}

func c10Request() channelstore.ReadCommittedRequest {
	return channelstore.ReadCommittedRequest{
		FromSeq:  zzsym.U64("req.from"),
		MaxSeq:   zzsym.U64("req.max"),
		MinSeq:   zzsym.U64("req.min"),
		Limit:    zzsym.Int("req.limit"),
		MaxBytes: zzsym.Int("req.maxbytes"),
		Reverse:  zzsym.Choice("req.reverse", 2) == 1,
	}
}

// c10CheckRead asserts the C10 read property on one result.
func c10CheckRead(st *ZZC10Store, retention uint64, minISR int, res channelstore.ReadCommittedResult) {
	c10CheckReadK(st, retention, minISR, res, false)
}

// c10CheckReadK: zeroFrom marks a forward request with FromSeq == 0 — the input of finding C10-F1
// (with nothing committed the clamp MaxSeq = committed = 0 reads as "no cap" in the store).
func c10CheckReadK(st *ZZC10Store, retention uint64, minISR int, res channelstore.ReadCommittedResult, zeroFrom bool) {
	committed := st.HW
	if minISR <= 1 {
		// documented system semantics: with a commit quorum of one the durable log end is committed
		committed = st.LEO
	}
	floor := retention
	if st.Retention.LocalRetentionThroughSeq > floor {
		floor = st.Retention.LocalRetentionThroughSeq
	}
	for _, m := range res.Messages {
		zzsym.AssertKnown(m.MessageSeq <= committed, "read returned a message above the committed watermark", "C10-F1", zeroFrom && committed == 0)
		zzsym.Assert(m.MessageSeq > floor, "read returned a message at or below the retention boundary")
	}
	zzsym.Observe("read", uint64(len(res.Messages)), res.NextSeq, committed, floor)
}

// Harness_C10_ReadLocalCommitted: Service.readLocalCommitted for every forward / reverse / latest
// request with arbitrary FromSeq / MinSeq / MaxSeq / Limit, arbitrary LEO >= HW, retention floors
// and MinISR.
func Harness_C10_ReadLocalCommitted() {
	st := ZZC10NewStore()
	svc := &Service{localNode: 1, store: ZZC10Factory{Store: st}}
	req := c10Request()
	retention := zzsym.U64("retention")
	minISR := zzsym.Int("minisr")
	// sequences never reach 2^64-1 (nextSeq saturates there)
	zzsym.Assume(retention < ^uint64(0) && st.Retention.LocalRetentionThroughSeq < ^uint64(0))
	// in-tree callers start forward reads at a sequence >= 1 (readCommittedRequest, LoadCommandMessages);
	// FromSeq == 0 is reachable through the exported ReadCommittedBatch / a forwarded-read RPC: finding C10-F1
	zeroFrom := !req.Reverse && req.FromSeq == 0

	res, err := svc.readLocalCommitted(ZZC10Ctx{}, CommittedRead{ChannelID: ch.ChannelID{ID: "c", Type: 2}, Request: req}, retention, minISR)

	if err != nil {
		return
	}
	c10CheckReadK(st, retention, minISR, res, zeroFrom)
	if len(res.Messages) > 0 {
		if req.Reverse {
			zzsym.Reach("reverse read returned rows")
		} else {
			zzsym.Reach("forward read returned rows")
		}
	}
	if st.Calls == 0 {
		zzsym.Reach("answered without touching the store")
	}
}

// Harness_C10_ReadCommittedBatch: the exported entry point on the leader (metadata resolved from
// the fake meta source, retention floor and MinISR taken from it).
func Harness_C10_ReadCommittedBatch() {
	st := ZZC10NewStore()
	id := ch.ChannelID{ID: "c", Type: 2}
	meta := ch.Meta{ID: id, Epoch: zzsym.U64("meta.epoch"), LeaderEpoch: zzsym.U64("meta.leaderepoch"),
		Leader: ch.NodeID(1 + zzsym.Choice("meta.leader", 2)), MinISR: zzsym.Int("meta.minisr"),
		RetentionThroughSeq: zzsym.U64("meta.retention"), Status: ch.Status(zzsym.U8("meta.status"))}
	svc := &Service{localNode: 1, store: ZZC10Factory{Store: st}, metaSource: ZZC10Meta{Meta: meta}}
	req := c10Request()
	zzsym.Assume(meta.RetentionThroughSeq < ^uint64(0) && st.Retention.LocalRetentionThroughSeq < ^uint64(0))
	zeroFrom := !req.Reverse && req.FromSeq == 0

	results, err := svc.ReadCommittedBatch(ZZC10Ctx{}, []CommittedRead{{ChannelID: id, Request: req}})

	zzsym.Assert(err == nil && len(results) == 1, "batch read does not align results with requests")
	if err != nil || len(results) != 1 {
		return
	}
	if results[0].Err != nil {
		zzsym.Reach("batch item refused")
		zzsym.Assert(len(results[0].Read.Messages) == 0, "refused read carries messages")
		return
	}
	zzsym.Reach("batch item served locally")
	c10CheckReadK(st, meta.RetentionThroughSeq, meta.MinISR, results[0].Read, zeroFrom)
}

// Harness_C10_ForwardedRead: the leader-side handler of a forwarded read; the origin's floor and
// the leader's own metadata floor both apply.
func Harness_C10_ForwardedRead() {
	st := ZZC10NewStore()
	id := ch.ChannelID{ID: "c", Type: 2}
	meta := ch.Meta{ID: id, Epoch: zzsym.U64("meta.epoch"), LeaderEpoch: zzsym.U64("meta.leaderepoch"),
		Leader: 1, MinISR: zzsym.Int("meta.minisr"),
		RetentionThroughSeq: zzsym.U64("meta.retention"), Status: ch.StatusActive}
	svc := &Service{localNode: 1, store: ZZC10Factory{Store: st}, metaSource: ZZC10Meta{Meta: meta}}
	item := CommittedReadRequest{CommittedRead: CommittedRead{ChannelID: id, Request: c10Request()},
		RetentionThroughSeq: zzsym.U64("item.retention"), ExpectedLeader: ch.NodeID(zzsym.Choice("item.leader", 3)),
		ExpectedMinISR: zzsym.Int("item.minisr")}
	if zzsym.Thorough() {
		// the epoch expectations only decide between "refused" and "served" (several forks)
		item.ExpectedChannelEpoch = zzsym.U64("item.epoch")
		item.ExpectedLeaderEpoch = zzsym.U64("item.leaderepoch")
	}
	zzsym.Assume(meta.RetentionThroughSeq < ^uint64(0) && item.RetentionThroughSeq < ^uint64(0) && st.Retention.LocalRetentionThroughSeq < ^uint64(0))
	zeroFrom := !item.Request.Reverse && item.Request.FromSeq == 0

	resp, err := svc.handleForwardCommittedReads(ZZC10Ctx{}, CommittedReadsRequest{Items: []CommittedReadRequest{item}})

	zzsym.Assert(err == nil && len(resp.Items) == 1, "forwarded read does not align results with requests")
	if err != nil || len(resp.Items) != 1 {
		return
	}
	if resp.Items[0].Err != nil {
		zzsym.Reach("forwarded item refused")
		return
	}
	zzsym.Reach("forwarded item served")
	floor := meta.RetentionThroughSeq
	if item.RetentionThroughSeq > floor {
		floor = item.RetentionThroughSeq
	}
	c10CheckReadK(st, floor, meta.MinISR, resp.Items[0].Read, zeroFrom)
}

// Harness_C10_ConversationHead: the conversation-head read (readLocalConversationHeads ->
// readLocalConversationHead -> readLastOrdinaryCommitted) shows only an ordinary message between
// the retention floor and the committed frontier.
func Harness_C10_ConversationHead() {
	st := ZZC10NewStore()
	svc := &Service{localNode: 1, store: ZZC10Factory{Store: st}}
	id := ch.ChannelID{ID: "c", Type: 2}
	req := ConversationHeadRequest{ChannelID: id, RetentionThroughSeq: zzsym.U64("retention"), ExpectedLeader: 1, ExpectedMinISR: zzsym.Int("minisr")}
	zzsym.Assume(req.RetentionThroughSeq < ^uint64(0) && st.Retention.LocalRetentionThroughSeq < ^uint64(0))

	results := svc.readLocalConversationHeads(ZZC10Ctx{}, "u", []ConversationHeadRequest{req})

	zzsym.Assert(len(results) == 1, "conversation heads not aligned with requests")
	if len(results) != 1 || results[0].Err != nil {
		return
	}
	head := results[0].Head
	committed := st.HW
	if req.ExpectedMinISR <= 1 {
		committed = st.LEO // commit quorum of one: the durable log end is committed
	}
	floor := req.RetentionThroughSeq
	if st.Retention.LocalRetentionThroughSeq > floor {
		floor = st.Retention.LocalRetentionThroughSeq
	}
	zzsym.Observe("head", head.LastCommittedSeq, head.RetentionThroughSeq, zzsym.B2U(head.Found), head.Message.MessageSeq)
	zzsym.Assert(head.LastCommittedSeq == committed, "conversation head reports another committed boundary")
	zzsym.Assert(head.CurrentUserLastSendSeq <= committed, "sender sequence above the committed watermark")
	if !head.Found {
		zzsym.Reach("head without message")
		return
	}
	zzsym.Reach("head with message")
	zzsym.Assert(head.Message.MessageSeq <= committed, "conversation head shows a message above the committed watermark")
	zzsym.Assert(head.Message.MessageSeq > floor, "conversation head shows a message at or below the retention boundary")
	zzsym.Assert(!head.Message.SyncOnce, "conversation head shows a SyncOnce record")
}
