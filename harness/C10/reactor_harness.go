package reactor

import (
	"time"

	"github.com/WuKongIM/WuKongIM/internal/zzsym"
	ch "github.com/WuKongIM/WuKongIM/pkg/channel"
	"github.com/WuKongIM/WuKongIM/pkg/channel/machine"
	"github.com/WuKongIM/WuKongIM/pkg/channel/store"
	"github.com/WuKongIM/WuKongIM/pkg/channel/worker"
)

// C10, obligation (1): physical-trim gating and monotone retention boundaries in the reactor.

const c10Local = ch.NodeID(1)

// c10ISR enumerates ISR lists over nodes 1..3 (node 1 is the local node). Order matters to
// minISRMatchOffset (the first element initialises the minimum), so lists, not sets.
func c10ISR() []ch.NodeID {
	if zzsym.Thorough() {
		// every list of length 0..3, repeated nodes included
		n := zzsym.Choice("isr.len", 4)
		var out []ch.NodeID
		for i := 0; i < n; i++ {
			out = append(out, ch.NodeID(1+zzsym.Choice("isr.node", 3)))
		}
		return out
	}
	// every duplicate-free list of length 0..3
	lists := [][]ch.NodeID{nil, {1}, {2}, {3}, {1, 2}, {2, 1}, {1, 3}, {3, 1}, {2, 3}, {3, 2},
		{1, 2, 3}, {1, 3, 2}, {2, 1, 3}, {2, 3, 1}, {3, 1, 2}, {3, 2, 1}}
	return lists[zzsym.Choice("isr.list", len(lists))]
}

func c10State() *machine.ChannelState {
	s := machine.NewChannelState("k", c10Local, zzsym.U64("gen"))
	s.ID = ch.ChannelID{ID: "c", Type: 2}
	s.Epoch = zzsym.U64("epoch")
	s.LeaderEpoch = zzsym.U64("leaderepoch")
	s.Role = ch.Role(zzsym.U8("role"))
	s.Status = ch.Status(zzsym.U8("status"))
	s.Leader = ch.NodeID(zzsym.U64("leader"))
	s.LEO = zzsym.U64("leo")
	s.HW = zzsym.U64("hw")
	s.CheckpointHW = zzsym.U64("checkpointhw")
	s.RetentionThroughSeq = zzsym.U64("retention")
	s.LocalRetentionThroughSeq = zzsym.U64("localretention")
	s.PhysicalRetentionThroughSeq = zzsym.U64("physicalretention")
	s.MinISR = zzsym.Int("minisr")
	return s
}

// Harness_C10_TrimDecision: retentionTrimDecision / minISRMatchOffset on an arbitrary state (no
// watermark ordering assumed): a trim is allowed only through a sequence that is covered by HW,
// CheckpointHW and LEO and, on a leader, by the recorded match offset of every remote ISR member
// (the local member counts with LEO).
func Harness_C10_TrimDecision() {
	s := c10State()
	s.ISR = c10ISR()
	// recorded progress: any subset of the remote nodes 2,3 (the local node's entry is never read)
	pm := zzsym.Choice("progress.mask", 4)
	s.Progress[c10Local] = machine.ReplicaProgress{Match: zzsym.U64("progress.local")}
	for n := 2; n <= 3; n++ {
		if pm&(1<<(n-2)) != 0 {
			s.Progress[ch.NodeID(n)] = machine.ReplicaProgress{Match: zzsym.U64("progress.match")}
		}
	}
	through := zzsym.U64("through")

	min := minISRMatchOffset(s)
	allowed, reason := retentionTrimDecision(s, through)

	zzsym.Observe("decision", zzsym.B2U(allowed), min, uint64(len(reason)))
	// minISRMatchOffset is a lower bound of every member's match as the function defines it
	for _, node := range s.ISR {
		if node == s.LocalNode {
			zzsym.Assert(min <= s.LEO, "minISRMatchOffset above the local LEO")
		} else if p, ok := s.Progress[node]; ok {
			zzsym.Assert(min <= p.Match, "minISRMatchOffset above a recorded ISR match")
		}
	}
	if !allowed {
		zzsym.Reach("trim blocked")
		return
	}
	zzsym.Reach("trim allowed")
	zzsym.Assert(reason == "", "allowed trim carries a blocked reason")
	zzsym.Assert(through != 0, "trim allowed through sequence 0")
	zzsym.Assert(through <= s.HW, "trim allowed above the committed watermark HW")
	zzsym.Assert(through <= s.CheckpointHW, "trim allowed above the checkpointed watermark")
	zzsym.Assert(through <= s.LEO, "trim allowed above the log end")
	if s.Role == ch.RoleLeader {
		zzsym.Reach("trim allowed on a leader")
		zzsym.Assert(len(s.ISR) > 0, "leader trim allowed with an empty ISR")
		for _, node := range s.ISR {
			if node == s.LocalNode {
				zzsym.Assert(through <= s.LEO, "leader trim above the local member's LEO")
			} else if p, ok := s.Progress[node]; ok {
				zzsym.Assert(through <= p.Match, "leader trim above the recorded match of an ISR member")
			}
		}
	}
}

// c10Store is a non-nil store handle; the retention handlers under test never call it (the store
// work is a worker task, which this harness does not run).
type c10Store struct{ store.ChannelStore }

// c10Ctx is a never-cancelled context (the engine's model of context.Background has no methods).
type c10Ctx struct{}

func (c10Ctx) Deadline() (time.Time, bool) { return time.Time{}, false }
func (c10Ctx) Done() <-chan struct{}       { return nil }
func (c10Ctx) Err() error                  { return nil }
func (c10Ctx) Value(any) any               { return nil }

type c10Bounds struct{ retention, local, physical, leo uint64 }

func c10Snapshot(s *machine.ChannelState) c10Bounds {
	return c10Bounds{s.RetentionThroughSeq, s.LocalRetentionThroughSeq, s.PhysicalRetentionThroughSeq, s.LEO}
}

// Harness_C10_RetentionMonotone: any sequence of retention boundary requests (any order, including
// regressions and foreign channel ids), fenced store retention results (any reported progress,
// stale fences, errors) and metadata applies never moves RetentionThroughSeq,
// LocalRetentionThroughSeq or PhysicalRetentionThroughSeq backwards. The worker pool is absent
// (Pools == nil): submitting the store task fails closed after the boundary was adopted.
func Harness_C10_RetentionMonotone() {
	s := c10State()
	s.ISR = []ch.NodeID{1, 2}
	s.Progress[2] = machine.ReplicaProgress{Match: zzsym.U64("progress.match")}
	rc := &runtimeChannel{state: s, store: c10Store{}}
	next := ch.OpID(100)
	r := &Reactor{channels: map[ch.ChannelKey]*runtimeChannel{"k": rc}}
	r.cfg.LocalNode = c10Local
	r.cfg.NextOpID = func() ch.OpID { next++; return next }

	// The pre-state is unconstrained, so one step is already the inductive argument for every
	// sequence; thorough runs two steps to include waiters left behind by an earlier step.
	steps := 1
	if zzsym.Thorough() {
		steps = 2
	}
	for i := 0; i < steps; i++ {
		before := c10Snapshot(s)
		switch zzsym.Choice("event", 3) {
		case 0:
			req := ch.RetentionApplyRequest{ChannelID: s.ID, ThroughSeq: zzsym.U64("req.through")}
			if zzsym.Choice("req.foreign", 2) == 1 {
				req.ChannelID = ch.ChannelID{ID: "other", Type: 2}
			}
			fut := NewFuture()
			r.handleApplyRetentionBoundary(Event{Kind: EventApplyRetentionBoundary, Key: "k", Future: fut, Context: c10Ctx{}, RetentionApply: req, OpID: ch.OpID(10 + i)})
			res := fut.Result()
			if req.ChannelID == s.ID && req.ThroughSeq != 0 {
				zzsym.Reach("boundary request for this channel")
				zzsym.Assert(s.RetentionThroughSeq >= req.ThroughSeq, "accepted boundary request not adopted")
				zzsym.Assert(s.RetentionThroughSeq == before.retention || s.RetentionThroughSeq == req.ThroughSeq, "boundary moved to a value nobody asked for")
			} else {
				zzsym.Reach("boundary request rejected")
				zzsym.Assert(res.Err != nil && s.RetentionThroughSeq == before.retention, "rejected boundary request changed the boundary")
			}
		case 1:
			op := ch.OpID(20 + i)
			fut := NewFuture()
			zzsym.Assert(r.registerRetentionWaiter(rc, op, zzsym.U64("waiter.through"), "", fut) == nil, "fresh retention waiter refused")
			res := worker.Result{Kind: worker.TaskStoreRetention, Fence: ch.Fence{ChannelKey: "k", Generation: zzsym.U64("res.gen"), Epoch: zzsym.U64("res.epoch"), LeaderEpoch: zzsym.U64("res.leaderepoch"), OpID: op}}
			if zzsym.Choice("res.kind", 2) == 1 {
				res.StoreRetention = &worker.StoreRetentionResult{
					ThroughSeq:                  zzsym.U64("res.through"),
					LocalRetentionThroughSeq:    zzsym.U64("res.local"),
					PhysicalRetentionThroughSeq: zzsym.U64("res.physical"),
					RetainedMaxSeq:              zzsym.U64("res.retainedmax"),
					DeletedThroughSeq:           zzsym.U64("res.deleted"),
				}
			}
			r.handleStoreRetentionResult(res)
			zzsym.Reach("store retention result")
			zzsym.Assert(s.RetentionThroughSeq == before.retention, "a store result moved the authoritative boundary")
		case 2:
			meta := ch.Meta{ID: s.ID, Epoch: zzsym.U64("meta.epoch"), LeaderEpoch: zzsym.U64("meta.leaderepoch"), Leader: s.Leader,
				ISR: []ch.NodeID{1, 2}, Replicas: []ch.NodeID{1, 2}, MinISR: 1 + zzsym.Choice("meta.minisr", 2),
				RetentionThroughSeq: zzsym.U64("meta.retention"), Status: ch.Status(zzsym.U8("meta.status"))}
			d := s.ApplyMeta(meta)
			if d.Err == nil {
				zzsym.Reach("metadata applied")
				zzsym.Assert(s.RetentionThroughSeq >= meta.RetentionThroughSeq, "applied metadata boundary not adopted")
			}
		}
		zzsym.Assert(s.RetentionThroughSeq >= before.retention, "RetentionThroughSeq moved backwards")
		zzsym.Assert(s.LocalRetentionThroughSeq >= before.local, "LocalRetentionThroughSeq moved backwards")
		zzsym.Assert(s.PhysicalRetentionThroughSeq >= before.physical, "PhysicalRetentionThroughSeq moved backwards")
		zzsym.Assert(s.LEO >= before.leo, "LEO moved backwards in a retention step")
	}
	zzsym.Observe("bounds", s.RetentionThroughSeq, s.LocalRetentionThroughSeq, s.PhysicalRetentionThroughSeq)
}
