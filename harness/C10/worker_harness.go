package worker

import (
	"context"
	"errors"

	"github.com/WuKongIM/WuKongIM/internal/zzsym"
	ch "github.com/WuKongIM/WuKongIM/pkg/channel"
	"github.com/WuKongIM/WuKongIM/pkg/channel/store"
)

// C10, obligation (1), worker side: the store retention task physically trims only when the
// reactor's decision (TrimAllowed, proved sound in Harness_C10_TrimDecision) allowed it, only
// through the requested sequence, and only after the boundary was adopted.

type c10TrimStore struct {
	store.ChannelStore // unused methods

	adoptCalls, trimCalls int
	adoptThrough          uint64
	trimThrough           uint64
	trimAfterAdopt        bool
	adoptErr, trimErr     error
	retainedMax           uint64
	state                 store.RetentionState
	trimResult            store.RetentionTrimResult
}

func (s *c10TrimStore) AdoptRetentionBoundary(_ context.Context, throughSeq uint64, _ string) (uint64, error) {
	s.adoptCalls++
	s.adoptThrough = throughSeq
	return s.retainedMax, s.adoptErr
}

func (s *c10TrimStore) TrimMessagesThrough(_ context.Context, throughSeq uint64, _ store.RetentionTrimOptions) (store.RetentionTrimResult, error) {
	s.trimCalls++
	s.trimThrough = throughSeq
	s.trimAfterAdopt = s.adoptCalls > 0 && s.adoptErr == nil
	return s.trimResult, s.trimErr
}

func (s *c10TrimStore) LoadRetentionState(context.Context) (store.RetentionState, error) {
	return s.state, nil
}

func (s *c10TrimStore) Close() error { return nil }

type c10TrimFactory struct{ cs *c10TrimStore }

func (f c10TrimFactory) ChannelStore(ch.ChannelKey, ch.ChannelID) (store.ChannelStore, error) {
	return f.cs, nil
}

func Harness_C10_WorkerTrimGate() {
	cs := &c10TrimStore{
		retainedMax: zzsym.U64("adopt.retainedmax"),
		state: store.RetentionState{LocalRetentionThroughSeq: zzsym.U64("state.local"), PhysicalRetentionThroughSeq: zzsym.U64("state.physical"), RetainedMaxSeq: zzsym.U64("state.retainedmax")},
		trimResult: store.RetentionTrimResult{DeletedThroughSeq: zzsym.U64("trim.deleted"), Deleted: int(zzsym.U16("trim.count")), More: zzsym.Bool("trim.more")},
	}
	switch zzsym.Choice("store.errors", 3) {
	case 1:
		cs.adoptErr = errors.New("c10: adopt failed")
	case 2:
		cs.trimErr = errors.New("c10: trim failed")
	}
	payload := &StoreRetentionTask{
		ChannelID:   ch.ChannelID{ID: "c", Type: 2},
		ThroughSeq:  zzsym.U64("task.through"),
		TrimAllowed: zzsym.Bool("task.trimallowed"),
		Options:     store.RetentionTrimOptions{MaxMessages: zzsym.Int("task.maxmessages"), MaxBytes: zzsym.Int("task.maxbytes")},
	}
	task := Task{Kind: TaskStoreRetention, Fence: ch.Fence{ChannelKey: "k", OpID: 7}, StoreRetention: payload}

	res := runStoreRetention(nil, Deps{LocalNode: 1, Stores: c10TrimFactory{cs: cs}}, task)

	zzsym.Observe("task", uint64(cs.adoptCalls), uint64(cs.trimCalls), zzsym.B2U(res.Err != nil))
	zzsym.Assert(cs.trimCalls <= 1, "more than one physical trim for one task")
	if cs.trimCalls > 0 {
		zzsym.Reach("physical trim executed")
		zzsym.Assert(payload.TrimAllowed, "physical trim executed although the reactor did not allow it")
		zzsym.Assert(cs.trimThrough == payload.ThroughSeq && payload.ThroughSeq != 0, "physical trim through a sequence other than the decided one")
		zzsym.Assert(cs.trimAfterAdopt && cs.adoptThrough == payload.ThroughSeq, "physical trim without adopting the same boundary first")
	} else {
		zzsym.Reach("physical trim skipped")
	}
	if res.StoreRetention != nil && res.Err == nil {
		zzsym.Reach("task result")
		zzsym.Assert(res.StoreRetention.TrimAllowed == payload.TrimAllowed && res.StoreRetention.TrimSkippedSafe == !payload.TrimAllowed, "task result misreports whether the trim ran")
		zzsym.Assert(res.StoreRetention.ThroughSeq == payload.ThroughSeq, "task result reports another boundary")
	}
}
