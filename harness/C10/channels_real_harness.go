package channels

import (
	ch "github.com/WuKongIM/WuKongIM/pkg/channel"
	channelstore "github.com/WuKongIM/WuKongIM/pkg/channel/store"
	messagedb "github.com/WuKongIM/WuKongIM/pkg/db/message"

	"github.com/WuKongIM/WuKongIM/internal/zzsym"
)

// Harness_C10_RealAdapterRead drives Service.readLocalCommitted over the PRODUCTION store adapter
// (messageDBChannelStoreAdapter.ReadCommitted -> pkg/db/message reads) on the in-memory engine:
// three durable rows, a symbolic checkpointed watermark 0..3 and a symbolic read request.
func Harness_C10_RealAdapterRead() {
	ctx := ZZC10Ctx{}
	messagedb.ZZC10ResetStores()
	id := ch.ChannelID{ID: "c10", Type: 2}
	key := ch.ChannelKeyForID(id)
	factory := channelstore.NewMessageDBFactory("c10-real")
	store, err := factory.ChannelStore(key, id)
	zzsym.Assume(err == nil)
	for seq := uint64(1); seq <= 3; seq++ {
		payload := []byte{'m', byte('0' + seq)}
		_, err = store.AppendLeader(ctx, channelstore.AppendLeaderRequest{Records: []ch.Record{{
			ID: 100 + seq, Index: seq, FromUID: "u1", Payload: payload, SizeBytes: len(payload),
		}}})
		zzsym.Assume(err == nil)
	}
	hw := uint64(zzsym.Choice("hw", 4))
	if hw > 0 {
		zzsym.Assume(store.StoreCheckpoint(ctx, ch.Checkpoint{HW: hw}) == nil)
	}
	st, err := store.Load(ctx)
	zzsym.Assume(err == nil)
	zzsym.Assert(st.LEO == 3 && st.HW == hw, "store frontier differs from what was written")
	zzsym.Assume(store.Close() == nil)

	svc := &Service{localNode: 1, store: factory}
	req := channelstore.ReadCommittedRequest{FromSeq: zzsym.U64("req.from"), MinSeq: zzsym.U64("req.min"), MaxSeq: zzsym.U64("req.max"),
		Limit: 1 + zzsym.Choice("req.limit", 3), MaxBytes: 1 << 20, Reverse: zzsym.Choice("req.reverse", 2) == 1}
	retention := uint64(zzsym.Choice("retention", 3))
	minISR := 1 + zzsym.Choice("minisr", 2)
	res, rerr := svc.readLocalCommitted(ctx, CommittedRead{ChannelID: id, Request: req}, retention, minISR)
	if rerr != nil {
		return
	}
	committed := hw
	if minISR <= 1 {
		committed = 3
	}
	zeroFrom := !req.Reverse && req.FromSeq == 0
	for _, m := range res.Messages {
		zzsym.AssertKnown(m.MessageSeq <= committed, "real adapter read returned a message above the committed watermark", "C10-F1", zeroFrom && committed == 0)
		zzsym.Assert(m.MessageSeq > retention, "real adapter read returned a message at or below the retention boundary")
	}
	if len(res.Messages) > 0 {
		zzsym.Reach("real read returned rows")
	}
	zzsym.Observe("real", uint64(len(res.Messages)), committed)
}
