package replication

import (
	"context"
	"errors"
	"time"

	ch "github.com/WuKongIM/WuKongIM/pkg/channel"
	"github.com/WuKongIM/WuKongIM/internal/zzsym"
)

// ---------------------------------------------------------------------------------------------
// Cluster summary used by the recovery obligations. A replica log is a sequence of "variants"
// (one byte per entry). The identity of entry i is a deterministic function of the variant PREFIX
// v[1..i]: the digest literally contains the prefix, so equal digests <=> equal prefixes, which is
// exactly what the real hash chain gives under SHA-256 injectivity (C05). Bit 0 of a variant is the
// leader term that created the entry (term 1 = older leader, term 2 = the acknowledging leader).
// ---------------------------------------------------------------------------------------------

const c01MaxLog = 3

type c01Log struct {
	leo       int
	committed uint64
	v         [c01MaxLog]byte
}

func c01Identity(v [c01MaxLog]byte, i int) ch.EntryIdentity {
	id := ch.EntryIdentity{Version: ch.ProposalManifestVersion, ChannelEpoch: 1, FenceVersion: 1, Index: uint64(i), PreviousIndex: uint64(i - 1)}
	id.LeaderTerm = 1 + uint64(v[i-1]&1)
	id.CommandID[0] = 0xC1
	id.CommandID[1] = byte(i)
	id.CommandID[2] = v[i-1]
	id.Digest[0] = 0xD1
	for k := 0; k < i; k++ {
		id.Digest[1+k] = v[k]
	}
	if i > 1 {
		id.PreviousTerm = 1 + uint64(v[i-2]&1)
		id.PreviousDigest[0] = 0xD1
		for k := 0; k < i-1; k++ {
			id.PreviousDigest[1+k] = v[k]
		}
	}
	return id
}

func c01State(l c01Log) ReplicaState {
	if l.leo == 0 {
		return ReplicaState{}
	}
	tail := c01Identity(l.v, l.leo)
	m := ch.ProposalManifest{Version: tail.Version, ChannelEpoch: tail.ChannelEpoch, LeaderTerm: tail.LeaderTerm, FenceVersion: tail.FenceVersion,
		CommandID: tail.CommandID, BaseOffset: uint64(l.leo - 1), LastOffset: uint64(l.leo), PreviousTerm: tail.PreviousTerm,
		PreviousIndex: tail.PreviousIndex, PreviousDigest: tail.PreviousDigest, Digest: tail.Digest}
	return ReplicaState{LEO: uint64(l.leo), Committed: l.committed, Manifest: m, TailIdentity: tail}
}

// c01Probe answers a probe for indexes 1..n exactly as a replica holding log l would.
func c01Probe(l c01Log, n int) ProbeResult {
	res := ProbeResult{State: c01State(l), Entries: make([]EntryProbe, n)}
	for i := 1; i <= n; i++ {
		res.Entries[i-1] = EntryProbe{Index: uint64(i)}
		if i <= l.leo {
			res.Entries[i-1].Present = true
			res.Entries[i-1].Identity = c01Identity(l.v, i)
		}
	}
	return res
}

func c01LogLen() int {
	if zzsym.Thorough() {
		return c01MaxLog
	}
	return 2
}

// c01Cluster builds three replica logs and an acknowledged entry at index a held by the voter set
// `holders` (bit r = voter r+1), |holders| >= quorum 2, under the reachability invariant:
//   - holders carry the acknowledged prefix p[1..a] (p[a] created in term 2), then anything;
//   - every other voter carries a prefix of p, possibly followed by entries of the OLDER term only
//     (stale entries of a deposed leader), and is shorter than a or diverges at or before a;
//   - committed watermarks cover only entries of the acknowledged prefix actually held.
func c01Cluster(L int) (logs [3]c01Log, a int, p [c01MaxLog]byte, holders int) {
	a = 1 + zzsym.Choice("acked.index", L)
	for i := 0; i < L; i++ {
		p[i] = zzsym.U8("acked.variant")
	}
	zzsym.Assume(p[a-1]&1 == 1)
	switch zzsym.Choice("holders", 4) {
	case 0:
		holders = 0b011
	case 1:
		holders = 0b101
	case 2:
		holders = 0b110
	default:
		holders = 0b111
	}
	for r := 0; r < 3; r++ {
		l := c01Log{leo: zzsym.Choice("leo", L+1)}
		for i := 0; i < L; i++ {
			l.v[i] = zzsym.U8("variant")
		}
		agree := 0 // length of the prefix of l equal to p
		same := true
		for i := 0; i < l.leo; i++ {
			if same && l.v[i] == p[i] {
				agree = i + 1
			} else {
				same = false
			}
		}
		if holders&(1<<r) != 0 {
			zzsym.Assume(l.leo >= a && agree >= a)
		} else {
			zzsym.Assume(agree < a)
			for i := 0; i < l.leo; i++ {
				// beyond the agreeing prefix only stale older-term entries exist, and an index of
				// the acknowledged prefix can only be contradicted by an older-term entry
				if i >= agree {
					zzsym.Assume(l.v[i]&1 == 0)
					if i < a {
						zzsym.Assume(p[i]&1 == 1)
					}
				}
			}
		}
		l.committed = uint64(zzsym.U8("committed"))
		lim := agree
		if lim > a {
			lim = a
		}
		zzsym.Assume(l.committed <= uint64(lim))
		logs[r] = l
	}
	return
}

func c01Responders() int {
	switch zzsym.Choice("responders", 4) {
	case 0:
		return 0b011
	case 1:
		return 0b101
	case 2:
		return 0b110
	}
	return 0b111
}

func c01Popcount(x int) int { return (x & 1) + (x >> 1 & 1) + (x >> 2 & 1) }

// Harness_C01_RecoverySelectionKeepsAcked (obligation O2): whatever quorum of voters answers the
// recovery probes, a successful selection contains the acknowledged entry at its index.
// Recorded finding C01-F1: the rule keeps an index only if Q RESPONDERS hold the identical
// identity, but an acknowledged entry is only guaranteed to be on Q voters in total.
func Harness_C01_RecoverySelectionKeepsAcked() {
	L := c01LogLen()
	logs, a, p, holders := c01Cluster(L)
	resp := c01Responders()
	voters := []ch.NodeID{1, 2, 3}
	var reports []recoveryProbeReport
	for r := 0; r < 3; r++ {
		if resp&(1<<r) != 0 {
			reports = append(reports, recoveryProbeReport{Voter: ch.NodeID(r + 1), Result: c01Probe(logs[r], L+1)})
		}
	}
	sel, err := selectRecoveryPrefix(voters, 2, reports)
	if err != nil {
		zzsym.Reach("recovery-fails-closed")
		return
	}
	zzsym.Reach("recovery-selected")
	known := c01Popcount(holders&resp) < 2
	kept := sel.Index >= uint64(a) && sel.Identity.Digest[0] == 0xD1
	if kept {
		for k := 0; k < a; k++ {
			if sel.Identity.Digest[1+k] != p[k] {
				kept = false
			}
		}
	}
	zzsym.AssertKnown(kept, "recovery selected a prefix that omits or replaces an acknowledged entry", "C01-F1", known)
	zzsym.Assert(sel.CertifiedCommitted <= sel.Index, "certified committed watermark beyond the selected prefix")
	zzsym.Assert(len(sel.Supporters) >= 2 || sel.Index == 0, "selected prefix without a quorum of supporters")
	for _, s := range sel.Supporters {
		zzsym.Assert(s.State.LEO >= sel.Index, "supporter does not hold the selected index")
	}
	zzsym.Observe("selection", sel.Index, sel.CertifiedCommitted, uint64(len(sel.Supporters)))
}

// Harness_C01_SelectionRejectsMalformedReports: a report from a non-voter, a duplicate voter, or
// fewer than quorum reports never yields a selection.
func Harness_C01_SelectionRejectsMalformedReports() {
	L := 1
	logs, _, _, _ := c01Cluster(L)
	voters := []ch.NodeID{1, 2, 3}
	v1 := ch.NodeID(zzsym.U8("voter1"))
	v2 := ch.NodeID(zzsym.U8("voter2"))
	n := 1 + zzsym.Choice("reports", 2)
	reports := []recoveryProbeReport{{Voter: v1, Result: c01Probe(logs[0], L+1)}}
	if n == 2 {
		reports = append(reports, recoveryProbeReport{Voter: v2, Result: c01Probe(logs[1], L+1)})
	}
	_, err := selectRecoveryPrefix(voters, 2, reports)
	bad := n < 2 || v1 == 0 || v1 > 3 || v2 == 0 || v2 > 3 || v1 == v2
	zzsym.Reach("malformed-checked")
	if bad {
		zzsym.Assert(err != nil, "selection from fewer than quorum, foreign or duplicate reports")
	}
}

// c01ProbeIdx answers a probe for arbitrary indexes as a replica holding log l would.
func c01ProbeIdx(l c01Log, indexes []uint64) ProbeResult {
	res := ProbeResult{State: c01State(l), Entries: make([]EntryProbe, len(indexes))}
	for k, idx := range indexes {
		res.Entries[k] = EntryProbe{Index: idx}
		if idx >= 1 && idx <= uint64(l.leo) {
			res.Entries[k].Present = true
			res.Entries[k].Identity = c01Identity(l.v, int(idx))
		}
	}
	return res
}

var errC01Down = errors.New("c01: voter unreachable")

// c01Dispatcher is a synchronous recovery probe dispatcher over the cluster summary: reachable
// voters answer every probe from their (unchanging) log, unreachable voters fail the submit.
type c01Dispatcher struct {
	logs  [3]c01Log
	up    int
	calls int
}

func (d *c01Dispatcher) submitRecoveryProbe(_ context.Context, q recoveryProbeQuery, complete func(ProbeResult, error)) error {
	d.calls++
	r := int(q.Voter) - 1
	if r < 0 || r > 2 || d.up&(1<<r) == 0 {
		return errC01Down
	}
	complete(c01ProbeIdx(d.logs[r], q.Indexes), nil)
	return nil
}

// Harness_C01_RecoverQuorumPrefixKeepsAcked (obligation O2 on the production path): the recovery
// a new leader runs inside Install, against every reachable quorum of an arbitrary cluster.
func Harness_C01_RecoverQuorumPrefixKeepsAcked() {
	L := c01LogLen()
	logs, a, p, holders := c01Cluster(L)
	resp := c01Responders()
	d := &c01Dispatcher{logs: logs, up: resp}
	leader := ch.NodeID(1 + zzsym.Choice("leader", 3))
	zzsym.Assume(resp&(1<<(int(leader)-1)) != 0) // the installing leader answers its own probe
	sel, err := recoverQuorumPrefix(context.Background(), recoveryProbeRequest{
		ChannelKey: "k", ChannelID: ch.ChannelID{ID: "g1", Type: 2}, Leader: leader,
		Voters: []ch.NodeID{1, 2, 3}, Quorum: 2, Timeout: time.Second,
	}, d)
	if err != nil {
		return // failing closed is always safe
	}
	zzsym.Reach("recovery-selected")
	known := c01Popcount(holders&resp) < 2
	kept := sel.Index >= uint64(a) && sel.Identity.Digest[0] == 0xD1
	if kept {
		for k := 0; k < a; k++ {
			if sel.Identity.Digest[1+k] != p[k] {
				kept = false
			}
		}
	}
	zzsym.AssertKnown(kept, "a new leader's recovery selected a prefix that omits or replaces an acknowledged entry", "C01-F1", known)
	zzsym.Assert(sel.CertifiedCommitted <= sel.Index, "certified committed watermark beyond the recovered prefix")
	for _, s := range sel.Supporters {
		zzsym.Assert(s.State.LEO >= sel.Index, "supporter does not hold the recovered index")
	}
	zzsym.Assert(sel.Index == 0 || len(sel.Supporters) >= 2, "recovered prefix without a quorum of supporters")
	zzsym.Observe("recovered", sel.Index, sel.CertifiedCommitted, uint64(len(sel.Supporters)), uint64(d.calls))
}

// Harness_C01_QuorumIsMajority: the quorum-intersection argument behind C01 needs 2Q > N. Every
// gate that admits a (voters, quorum) pair into recovery or installation must refuse anything else.
func Harness_C01_QuorumIsMajority() {
	n := 1 + zzsym.Choice("voters", 5)
	voters := make([]ch.NodeID, n)
	for i := range voters {
		voters[i] = ch.NodeID(i + 1)
	}
	q := zzsym.Int("quorum")
	_, err := validateRecoveryTopology(voters, q)
	zzsym.Reach("topology-checked")
	if err == nil {
		zzsym.Reach("topology-accepted")
		zzsym.Assert(q > 0 && q <= n && 2*q > n, "recovery topology accepted a write quorum that is not a majority of the voters")
	}
	authority := Authority{Key: "k", ChannelID: ch.ChannelID{ID: "g1", Type: 2}, ID: AuthorityID{ChannelEpoch: 1, LeaderTerm: 1, FenceVersion: 1},
		Leader: 1, Voters: voters, WriteQuorum: q}
	if validAuthority(authority) {
		zzsym.Reach("authority-accepted")
		zzsym.Assert(q > 0 && q <= n && 2*q > n, "an installable authority carries a write quorum that is not a majority of its voters")
	}
	// the recovery entry point refuses it as well (before any probe is sent)
	d := &c01Dispatcher{up: 0b111}
	_, rerr := recoverQuorumPrefix(context.Background(), recoveryProbeRequest{ChannelKey: "k", ChannelID: ch.ChannelID{ID: "g1", Type: 2},
		Leader: 1, Voters: voters, Quorum: q, Timeout: time.Second}, d)
	if !(q > 0 && q <= n && 2*q > n) {
		zzsym.Assert(rerr != nil && d.calls == 0, "recovery ran with a write quorum that is not a majority")
	}
}
