package channels

import (
	ch "github.com/WuKongIM/WuKongIM/pkg/channel"
	"github.com/WuKongIM/WuKongIM/pkg/cluster/control"
	metadb "github.com/WuKongIM/WuKongIM/pkg/db/meta"

	"github.com/WuKongIM/WuKongIM/internal/zzsym"
)

// Harness_C01_FailoverTargetIsSafe (obligation O5): the dead-leader failover planner only ever
// chooses a healthy ISR member other than the old leader whose runtime proof matches the
// authoritative metadata, has no unsafe pending truncation, proves at least the required safe
// prefix and has the highest committed watermark among all such candidates.
func Harness_C01_FailoverTargetIsSafe() {
	meta := metadb.ChannelRuntimeMeta{ChannelID: "g1", ChannelType: 2, ChannelEpoch: zzsym.U64("meta.epoch"),
		LeaderEpoch: zzsym.U64("meta.leaderepoch"), Leader: uint64(1 + zzsym.Choice("meta.leader", 3)), MinISR: 1}
	shapes := 1
	if zzsym.Thorough() {
		shapes = 3
	}
	switch zzsym.Choice("meta.isr", shapes) {
	case 0:
		meta.Replicas, meta.ISR = []uint64{1, 2, 3}, []uint64{1, 2, 3}
	case 1:
		meta.Replicas, meta.ISR = []uint64{1, 2, 3}, []uint64{1, 2}
	default:
		meta.Replicas, meta.ISR = []uint64{1, 2, 3}, []uint64{1, 3}
	}
	var nodes []control.Node
	var healthy [5]bool
	for id := uint64(1); id <= 3; id++ {
		n := control.Node{NodeID: id, Roles: []control.Role{control.RoleData}, JoinState: control.NodeJoinStateActive}
		if zzsym.Choice("node.alive", 2) == 1 {
			n.Health = control.NodeHealth{Freshness: control.NodeHealthFresh, Status: control.NodeAlive, RuntimeReady: true}
		}
		healthy[id] = control.NodeSchedulableForPlacement(n)
		nodes = append(nodes, n)
	}
	np := 1 + zzsym.Choice("probes", 2)
	probes := make([]FailoverCandidateProbe, np)
	for i := range probes {
		status := ch.Status(zzsym.U8("probe.status"))
		probes[i] = FailoverCandidateProbe{
			NodeID: uint64(zzsym.Choice("probe.node", 4)),
			Probe: ch.RuntimeProbeChannel{ChannelID: ch.ChannelID{ID: "g1", Type: 2}, LeaderEpoch: zzsym.U64("probe.leaderepoch"),
				ChannelEpoch: zzsym.U64("probe.epoch"), Status: status, HW: zzsym.U64("probe.hw"), CheckpointHW: zzsym.U64("probe.checkpoint"), LEO: zzsym.U64("probe.leo")},
			PendingTruncationBelowSafePrefix: zzsym.Bool("probe.truncation"),
		}
	}
	required := zzsym.U64("required.hw")
	active := zzsym.Bool("active.task")
	d := NewFailoverPlanner().Plan(FailoverPlanInput{Meta: meta, Nodes: nodes, Probes: probes, RequiredHW: required, ActiveTask: active, LeaderSuspect: true})

	eligible := func(c FailoverCandidateProbe) bool {
		inISR := false
		for _, m := range meta.ISR {
			inISR = inISR || m == c.NodeID
		}
		matches := c.Probe.ChannelEpoch == meta.ChannelEpoch && c.Probe.Status == ch.StatusActive &&
			(c.Probe.LeaderEpoch == meta.LeaderEpoch || (meta.LeaderEpoch > 0 && c.Probe.LeaderEpoch+1 == meta.LeaderEpoch))
		return c.NodeID != 0 && c.NodeID != meta.Leader && c.NodeID < 5 && healthy[c.NodeID] && inISR && matches &&
			!c.PendingTruncationBelowSafePrefix && (required == 0 || c.Probe.HW >= required)
	}
	if d.Action != FailoverActionCreateLeaderTransfer {
		zzsym.Reach("failover-blocked")
		zzsym.Assert(d.TargetNode == 0, "a blocked decision names a target")
		if !active {
			none := true
			for _, c := range probes {
				none = none && !eligible(c)
			}
			zzsym.Assert(none, "failover blocked although a safe candidate exists")
		}
		return
	}
	zzsym.Reach("failover-target-chosen")
	zzsym.Assert(!active, "failover planned while a migration task is active")
	found := false
	maximal := true
	for _, c := range probes {
		if c.NodeID == d.TargetNode && eligible(c) && c.Probe.HW == d.ObservedHW {
			found = true
		}
		if eligible(c) && c.Probe.HW > d.ObservedHW {
			maximal = false
		}
	}
	zzsym.Assert(found, "failover target is not a healthy, in-sync, matching candidate proving the required prefix")
	zzsym.Assert(maximal, "failover target does not have the highest committed watermark among safe candidates")
	zzsym.Observe("decision", uint64(d.Action), d.TargetNode, d.ObservedHW)
}
