package replication

import (
	"context"
	"errors"
	"time"

	"github.com/WuKongIM/WuKongIM/internal/zzsym"
	ch "github.com/WuKongIM/WuKongIM/pkg/channel"
	channelstore "github.com/WuKongIM/WuKongIM/pkg/channel/store"
)

// C01, obligations O3 (repair keeps what recovery selected) and O4 (readiness only after recovery,
// repair and barrier). The installing leader's store is the REAL storeAdapter over the REAL
// MemoryChannelStore; proposals are sealed by the real ch.SealProposalManifest (SHA-256 abstract and
// injective). Fakes: the recovery dispatcher PORT (probe answers / donor pages from a supporter
// log), the durability dispatcher PORT (O4), and a recording pass-through around the real store.

const c01rKey = ch.ChannelKey("k")

var c01rID = ch.ChannelID{ID: "g1", Type: 2}

var errC01rDown = errors.New("c01: peer unreachable")

// ---------------------------------------------------------------------------------------------
// log model: a list of sealed proposals with the identity and content of every entry
// ---------------------------------------------------------------------------------------------

type c01rLog struct {
	props []RecoveryProposal
	ids   []ch.EntryIdentity // ids[i-1]  = identity of entry i
	recs  []ch.Record        // recs[i-1] = content of entry i
}

func (l *c01rLog) leo() uint64 { return uint64(len(l.ids)) }

func (l *c01rLog) idAt(i uint64) ch.EntryIdentity {
	if i == 0 || i > l.leo() {
		return ch.EntryIdentity{}
	}
	return l.ids[i-1]
}

// end is the log offset after the first j proposals.
func (l *c01rLog) end(j int) uint64 {
	if j <= 0 {
		return 0
	}
	return l.props[j-1].Manifest.LastOffset
}

func (l *c01rLog) prefix(j int) *c01rLog {
	n := l.end(j)
	return &c01rLog{props: append([]RecoveryProposal(nil), l.props[:j]...), ids: append([]ch.EntryIdentity(nil), l.ids[:n]...),
		recs: append([]ch.Record(nil), l.recs[:n]...)}
}

// c01rSealOn seals a proposal of cnt records created by leader term `term` on top of prev. family
// distinguishes the chains (command id, message ids and payload are concrete and differ per family).
func c01rSealOn(prev ch.EntryIdentity, term uint64, family byte, cnt int) (RecoveryProposal, []ch.EntryIdentity) {
	base := prev.Index
	man := ch.ProposalManifest{Version: ch.ProposalManifestVersion, ChannelEpoch: 1, LeaderTerm: term, FenceVersion: 1,
		BaseOffset: base, LastOffset: base + uint64(cnt), PreviousTerm: prev.LeaderTerm, PreviousIndex: base, PreviousDigest: prev.Digest}
	man.CommandID[0] = 0xC1
	man.CommandID[1] = byte(base + 1)
	man.CommandID[2] = family
	recs := make([]ch.Record, cnt)
	for r := range recs {
		idx := base + 1 + uint64(r)
		recs[r] = ch.Record{ID: uint64(family)<<8 | idx, Epoch: 1, ServerTimestampMS: int64(1000 + idx), Payload: []byte{family + byte(idx)}}
	}
	sealed, entries, ok := ch.SealProposalManifest(man, recs)
	if !ok || len(entries) != cnt {
		panic("c01r: harness proposal does not seal")
	}
	return RecoveryProposal{Manifest: sealed, Records: recs}, entries
}

func (l *c01rLog) push(term uint64, family byte, cnt int) {
	p, entries := c01rSealOn(l.idAt(l.leo()), term, family, cnt)
	l.props = append(l.props, p)
	l.ids = append(l.ids, entries...)
	l.recs = append(l.recs, p.Records...)
}

func (l *c01rLog) state(committed uint64) ReplicaState {
	if len(l.props) == 0 {
		return ReplicaState{}
	}
	return ReplicaState{LEO: l.leo(), Committed: committed, Manifest: l.props[len(l.props)-1].Manifest, TailIdentity: l.ids[len(l.ids)-1]}
}

func (l *c01rLog) probe(request ProbeRequest, committed uint64) ProbeResult {
	res := ProbeResult{Proof: probeProofFor(request), State: l.state(committed), Entries: make([]EntryProbe, len(request.Indexes))}
	for p, index := range request.Indexes {
		res.Entries[p] = EntryProbe{Index: index}
		if index >= 1 && index <= l.leo() {
			res.Entries[p].Present = true
			res.Entries[p].Identity = l.ids[index-1]
		}
	}
	return res
}

const (
	c01rFamilyShared = 0xA0 // the supporter chain (and the part of the local log that agrees with it)
	c01rFamilyStale  = 0xB0 // the local stale tail
	c01rFamilyAlien  = 0xE0 // a well-formed chain that is neither (byzantine donor)
)

// ---------------------------------------------------------------------------------------------
// recording pass-through around the real local store
// ---------------------------------------------------------------------------------------------

type c01rReplaceCall struct {
	before    ReplicaState // durable frontier when the call arrived
	keep      uint64
	committed uint64
	end       uint64 // log end the call would produce
	chains    bool   // the first proposal names the durable entry at KeepThrough as its predecessor
	durable   bool
}

type c01rStore struct {
	inner    ReplicaStore
	refuseAt int // the n-th Replace (1-based) is refused by the store; 0 = never
	// lazyRefuse: whether the first Replace is refused is decided when it arrives
	lazyRefuse bool
	loads    int
	syncs    int
	replaces []c01rReplaceCall
	trace    *[]int
}

func c01rFrontier(store ReplicaStore) (ReplicaState, bool) {
	res, err := store.Load(context.Background(), LoadBatch{Items: []LoadRequest{{ChannelKey: c01rKey, ChannelID: c01rID}}})
	if err != nil || len(res.Items) != 1 || res.Items[0].Err != nil {
		return ReplicaState{}, false
	}
	return res.Items[0].State, true
}

func (s *c01rStore) Load(ctx context.Context, batch LoadBatch) (LoadBatchResult, error) {
	s.loads++
	return s.inner.Load(ctx, batch)
}

func (s *c01rStore) Sync(ctx context.Context, mutations []Mutation) []MutationResult {
	s.syncs++
	return s.inner.Sync(ctx, mutations)
}

func (s *c01rStore) Fetch(ctx context.Context, ranges []FetchRange) []FetchRangeResult {
	return s.inner.Fetch(ctx, ranges)
}

func (s *c01rStore) LookupCommands(ctx context.Context, lookups []CommandLookup) []CommandLookupResult {
	return s.inner.(commandStore).LookupCommands(ctx, lookups)
}

func (s *c01rStore) Replace(ctx context.Context, items []RecoveryReplacement) []RecoveryReplacementResult {
	first := len(s.replaces)
	if s.lazyRefuse && first == 0 && zzsym.Choice("replace.refused", 2) == 1 {
		s.refuseAt = 1
	}
	for _, item := range items {
		before, _ := c01rFrontier(s.inner)
		end := item.KeepThrough
		if n := len(item.Proposals); n > 0 {
			end = item.Proposals[n-1].Manifest.LastOffset
		}
		chains := true
		if len(item.Proposals) > 0 {
			var kept ch.EntryIdentity
			if item.KeepThrough > 0 {
				res, err := s.inner.Load(context.Background(), LoadBatch{Items: []LoadRequest{{ChannelKey: c01rKey, ChannelID: c01rID, ProbeIndexes: []uint64{item.KeepThrough}}}})
				if err == nil && len(res.Items) == 1 && res.Items[0].Err == nil && len(res.Items[0].Entries) == 1 {
					kept = res.Items[0].Entries[0].Identity
				}
			}
			first := item.Proposals[0].Manifest
			chains = first.BaseOffset == item.KeepThrough && first.PreviousIndex == kept.Index && first.PreviousTerm == kept.LeaderTerm && first.PreviousDigest == kept.Digest
		}
		s.replaces = append(s.replaces, c01rReplaceCall{before: before, keep: item.KeepThrough, committed: item.Committed, end: end, chains: chains})
		if s.trace != nil {
			*s.trace = append(*s.trace, c01iEvReplace)
		}
	}
	if s.refuseAt != 0 && first < s.refuseAt && s.refuseAt <= len(s.replaces) {
		out := make([]RecoveryReplacementResult, len(items))
		for i := range out {
			out[i] = RecoveryReplacementResult{Outcome: ch.AppendOutcomeConflict, Err: ch.ErrLogConflict}
		}
		return out
	}
	out := s.inner.Replace(ctx, items)
	for i := range out {
		if first+i < len(s.replaces) {
			s.replaces[first+i].durable = out[i].Outcome.Durable() && out[i].Err == nil
		}
	}
	return out
}

func (s *c01rStore) durableReplaces() int {
	n := 0
	for _, c := range s.replaces {
		if c.durable {
			n++
		}
	}
	return n
}

// ---------------------------------------------------------------------------------------------
// the donor side of the recovery dispatcher port
// ---------------------------------------------------------------------------------------------

const (
	c01rDonorHonest        = iota
	c01rDonorFirstDown     // the first supporter asked is unreachable, the next one answers
	c01rDonorAllDown       // every fetch fails
	c01rDonorWrongPrevTerm // page sealed on the right predecessor digest but the wrong predecessor term
	c01rDonorBeyondThrough // page runs past the requested Through
	c01rDonorOversized     // page ignores MaxBytes
	c01rDonorWrongState    // answer carries a frontier other than the proved one
	c01rDonorSkips         // page starts after a gap
	c01rDonorAlienChain    // a well-formed chain on the kept prefix that is not the supporter's log
)

type c01rDonor struct {
	log       *c01rLog
	state     ReplicaState
	fault     int
	lazyDown  bool         // whether the donors are reachable is decided when the first fetch arrives
	local     ReplicaStore // a fetch addressed to the leader itself reads the leader's own store
	fetches   int
	served    int // answers completed without an error
	bad       int // answers that differ from anything an honest donor may send
	firstSeen ch.NodeID
	trace     *[]int
}

func (d *c01rDonor) submitRecoveryFetch(ctx context.Context, q recoveryFetchQuery, complete func(FetchResult, error)) error {
	d.fetches++
	if d.trace != nil {
		*d.trace = append(*d.trace, c01iEvFetch)
	}
	if d.firstSeen == 0 {
		d.firstSeen = q.Donor
		if d.lazyDown && zzsym.Choice("donors.down", 2) == 1 {
			d.fault = c01rDonorAllDown
		}
	}
	if d.fault == c01rDonorAllDown || (d.fault == c01rDonorFirstDown && q.Donor == d.firstSeen) {
		return errC01rDown
	}
	request := FetchRequest{ChannelKey: q.ChannelKey, ChannelID: q.ChannelID, Leader: q.Leader, Follower: q.Donor, Expected: q.Expected,
		From: q.From, Through: q.Through, Previous: q.Previous, MaxBytes: q.MaxBytes}
	if q.Donor == q.Leader {
		// what the production dispatcher does for a local donor: the leader's own store, mapped
		fetched := d.local.Fetch(ctx, []FetchRange{{ChannelKey: q.ChannelKey, ChannelID: q.ChannelID, Expected: q.Expected,
			From: q.From, Through: q.Through, Previous: q.Previous, MaxBytes: q.MaxBytes}})
		if len(fetched) != 1 || fetched[0].Err != nil {
			complete(FetchResult{}, errC01rDown)
			return nil
		}
		mapped, ok := mapFetchResult(request, fetched[0])
		if !ok {
			complete(FetchResult{}, errC01rDown)
			return nil
		}
		d.served++
		complete(mapped, nil)
		return nil
	}
	if q.Expected != d.state {
		complete(FetchResult{}, ch.ErrStaleMeta)
		return nil
	}
	var page []RecoveryProposal
	used := 0
	bad := false
	for _, p := range d.log.props {
		if p.Manifest.BaseOffset+1 < q.From {
			continue
		}
		if p.Manifest.LastOffset > q.Through {
			if d.fault != c01rDonorBeyondThrough {
				continue
			}
			bad = true
		}
		size := 97 * len(p.Records)
		if len(page) > 0 && used+size > q.MaxBytes {
			if d.fault != c01rDonorOversized {
				break
			}
			bad = true
		}
		used += size
		page = append(page, p)
	}
	state := d.state
	switch d.fault {
	case c01rDonorWrongPrevTerm:
		if len(page) > 0 {
			man := page[0].Manifest
			man.PreviousTerm++
			if sealed, _, ok := ch.SealProposalManifest(man, page[0].Records); ok {
				man = sealed
			}
			page = []RecoveryProposal{{Manifest: man, Records: page[0].Records}}
			bad = true
		}
	case c01rDonorWrongState:
		state.Committed++
		bad = true
	case c01rDonorSkips:
		if len(page) > 0 {
			page = page[1:]
			bad = true
		}
	case c01rDonorAlienChain:
		if len(page) > 0 {
			alien, _ := c01rSealOn(q.Previous, page[0].Manifest.LeaderTerm, c01rFamilyAlien, len(page[0].Records))
			page = []RecoveryProposal{alien}
			bad = true
		}
	case c01rDonorBeyondThrough, c01rDonorOversized:
	default:
		// an honest donor may answer with any non-empty complete-proposal prefix of the range
		if len(page) >= 2 && zzsym.Choice("donor.shortpage", 2) == 1 {
			page = page[:1]
		}
	}
	d.served++
	if bad {
		d.bad++
	}
	complete(FetchResult{Proof: fetchProofFor(request), State: state, Proposals: page}, nil)
	return nil
}

// ---------------------------------------------------------------------------------------------
// the world: supporter log, local log on the real store
// ---------------------------------------------------------------------------------------------

type c01rWorld struct {
	sup, loc *c01rLog
	supState ReplicaState
	common   int    // proposals shared by both logs
	k        uint64 // local committed watermark
	maxTerm  uint64
	factory  *channelstore.MemoryFactory
	adapter  ReplicaStore // the real storeAdapter
	store    *c01rStore
	maxIndex int
}

func c01rMaxProposals() int {
	if zzsym.Thorough() {
		return 3
	}
	return 2
}

// c01rBuild: supporter log of minSup..max proposals, local log of 0..max proposals sharing the first
// `common` proposals with it and continuing with a stale tail written under an older term than the
// supporter's entry at the divergence point; terms are 64-bit symbolic, non-decreasing along each log.
// Local Committed is a proposal boundary <= the common prefix (divergedBelow: ABOVE it, a pre-state no
// real history reaches, used to check that repair then refuses).
func c01rBuild(minSup int, divergedBelow, symbolicSupCommitted bool) *c01rWorld {
	max := c01rMaxProposals()
	ns := minSup + zzsym.Choice("supporter.proposals", max+1-minSup)
	nl := zzsym.Choice("local.proposals", max+1)
	lim := ns
	if nl < lim {
		lim = nl
	}
	c := zzsym.Choice("common.proposals", lim+1)
	w := &c01rWorld{sup: &c01rLog{}, common: c}
	var last uint64
	var supTerms []uint64
	for j := 0; j < ns; j++ {
		term := zzsym.U64("supporter.term")
		zzsym.Assume(term != 0)
		zzsym.Assume(term >= last)
		last = term
		supTerms = append(supTerms, term)
		cnt := 1
		if zzsym.Thorough() && j == 0 {
			cnt = 1 + zzsym.Choice("supporter.records", 2)
		}
		w.sup.push(term, c01rFamilyShared, cnt)
	}
	w.maxTerm = last
	w.loc = w.sup.prefix(c)
	last = 0
	if c > 0 {
		last = supTerms[c-1]
	}
	for j := c; j < nl; j++ {
		term := zzsym.U64("stale.term")
		zzsym.Assume(term != 0)
		zzsym.Assume(term >= last)
		if c < ns {
			zzsym.Assume(term < supTerms[c]) // the tail was cut off by a newer leader
		}
		last = term
		w.loc.push(term, c01rFamilyStale, 1)
	}
	if last > w.maxTerm {
		w.maxTerm = last
	}
	kp := 0
	if divergedBelow {
		zzsym.Assume(nl > c && c < ns)
		kp = c + 1 + zzsym.Choice("local.committed", nl-c)
	} else {
		kp = zzsym.Choice("local.committed", c+1)
	}
	w.k = w.loc.end(kp)
	// the supporters' own committed watermark: any value (O3: it is only carried in the fenced
	// frontier) or, where recovery computes with it (O4), nothing / everything
	supCommitted := uint64(0)
	if symbolicSupCommitted {
		supCommitted = zzsym.U64("supporter.committed")
		zzsym.Assume(supCommitted <= w.sup.leo())
	} else if zzsym.Choice("supporter.committed", 2) == 1 {
		supCommitted = w.sup.leo()
	}
	w.supState = w.sup.state(supCommitted)

	w.factory = channelstore.NewMemoryFactory()
	adapter, err := NewStoreAdapter(StoreAdapterConfig{Factory: w.factory, MaxBatchItems: 4, MaxBatchBytes: 1 << 20})
	if err != nil {
		panic("c01r: adapter construction failed")
	}
	w.adapter = adapter
	for j, p := range w.loc.props {
		mu := Mutation{ChannelKey: c01rKey, ChannelID: c01rID, Manifest: p.Manifest, Records: p.Records}
		if j == len(w.loc.props)-1 {
			mu.Committed = w.k
		}
		res := adapter.Sync(context.Background(), []Mutation{mu})
		zzsym.Assert(len(res) == 1 && res[0].Outcome == ch.AppendOutcomeDurable && res[0].Err == nil, "harness: the local log could not be built through the real store")
	}
	w.store = &c01rStore{inner: adapter}
	w.maxIndex = int(w.sup.leo())
	if int(w.loc.leo()) > w.maxIndex {
		w.maxIndex = int(w.loc.leo())
	}
	w.maxIndex += 2
	return w
}

// c01rSelection: what selectRecoveryPrefix hands to repair for a prefix of the supporter log:
// Index and CertifiedCommitted are proposal boundaries, the identities are the supporter's, every
// supporter holds the selected identity (O2 asserts exactly this about the real selection).
func (w *c01rWorld) selection(allowLocal bool) recoverySelection {
	ns := len(w.sup.props)
	ip := zzsym.Choice("selection.index", ns+1)
	cp := zzsym.Choice("selection.certified", ip+1)
	index, certified := w.sup.end(ip), w.sup.end(cp)
	sel := recoverySelection{Index: index, Identity: w.sup.idAt(index), CertifiedCommitted: certified, CertifiedIdentity: w.sup.idAt(certified)}
	if index > 0 {
		sel.Supporters = []recoverySupporter{{Voter: 2, State: w.supState}, {Voter: 3, State: w.supState}}
		// the leader itself may be one of the supporters when its own log holds the selected identity
		if allowLocal && w.loc.end(w.common) >= index && zzsym.Choice("selection.localsupports", 2) == 1 {
			sel.Supporters = []recoverySupporter{{Voter: 1, State: w.loc.state(w.k)}, {Voter: 2, State: w.supState}}
		}
	}
	return sel
}

type c01rSnap struct {
	ok    bool
	state ReplicaState
	ids   []ch.EntryIdentity
	recs  []ch.Record
}

func (w *c01rWorld) snapshot() c01rSnap {
	snap := c01rSnap{ids: make([]ch.EntryIdentity, w.maxIndex), recs: make([]ch.Record, w.maxIndex)}
	indexes := make([]uint64, w.maxIndex)
	for i := range indexes {
		indexes[i] = uint64(i + 1)
	}
	res, err := w.adapter.Load(context.Background(), LoadBatch{Items: []LoadRequest{{ChannelKey: c01rKey, ChannelID: c01rID, ProbeIndexes: indexes}}})
	if err != nil || len(res.Items) != 1 || res.Items[0].Err != nil || len(res.Items[0].Entries) != w.maxIndex {
		return snap
	}
	snap.state = res.Items[0].State
	for i, e := range res.Items[0].Entries {
		snap.ids[i] = e.Identity
	}
	cs, err := w.factory.ChannelStore(c01rKey, c01rID)
	if err != nil {
		return snap
	}
	log, err := cs.ReadLog(context.Background(), channelstore.ReadLogRequest{FromOffset: 1})
	if err != nil {
		return snap
	}
	for _, r := range log.Records {
		if r.Index >= 1 && r.Index <= uint64(w.maxIndex) {
			snap.recs[r.Index-1] = r
		}
	}
	snap.ok = true
	return snap
}

func c01rSameRecord(a, b ch.Record) bool {
	if len(a.Payload) != len(b.Payload) {
		return false
	}
	same := a.ID == b.ID && a.ServerTimestampMS == b.ServerTimestampMS && a.Setting == b.Setting && a.Epoch == b.Epoch &&
		a.FromUID == b.FromUID && a.ClientMsgNo == b.ClientMsgNo && a.SyncOnce == b.SyncOnce
	for i := range a.Payload {
		same = same && a.Payload[i] == b.Payload[i]
	}
	return same
}

func (w *c01rWorld) repair(sel recoverySelection, donor *c01rDonor, pageBytes int) (ReplicaState, error) {
	return repairQuorumPrefix(context.Background(), recoveryRepairRequest{
		ChannelKey: c01rKey, ChannelID: c01rID, Leader: 1, Local: 1, Voters: []ch.NodeID{1, 2, 3}, Quorum: 2,
		Selection: sel, Timeout: time.Second, MaxPageBytes: pageBytes,
	}, donor, w.store)
}

// c01rCheck: the O3 postconditions that hold for EVERY outcome and every fault.
func (w *c01rWorld) check(sel recoverySelection, before, after c01rSnap, got ReplicaState, err error) {
	zzsym.Assert(before.ok && after.ok, "the local store cannot be loaded before or after repair")
	if !before.ok || !after.ok {
		return
	}
	// the committed prefix is never rewritten and never shrinks, whatever happened
	kept := uint64(1)
	for i := uint64(1); i <= w.k; i++ {
		kept &= zzsym.B2U(after.ids[i-1] == before.ids[i-1])
		kept &= zzsym.B2U(c01rSameRecord(after.recs[i-1], before.recs[i-1]))
	}
	zzsym.Assert(kept == 1, "repair rewrote an entry at or below the local committed watermark")
	zzsym.Assert(after.state.Committed >= w.k && after.state.LEO >= after.state.Committed, "repair lowered the local committed watermark or cut the log below it")
	// what repair asked of the store
	for _, call := range w.store.replaces {
		zzsym.Assert(call.keep >= w.k && call.keep >= call.before.Committed, "repair asked the store to replace entries at or below the committed watermark")
		zzsym.Assert(call.committed >= call.before.Committed, "repair asked the store to lower the committed watermark")
		zzsym.Assert(call.committed <= call.end, "repair asked the store to commit beyond the end of the page it wrote")
		zzsym.Assert(call.chains, "repair asked the store to write a page that does not chain from the kept prefix")
	}
	if err != nil {
		return
	}
	// success: the local log IS the selected prefix
	index := sel.Index
	zzsym.Assert(after.state.LEO == index && after.state.Committed == index, "repair succeeded but the local log does not end, fully committed, at the selected index")
	zzsym.Assert(after.state.TailIdentity == sel.Identity, "repair succeeded but the local tail is not the selected identity")
	zzsym.Assert(got == after.state, "repair returned a frontier that is not the durable one")
	same := uint64(1)
	for i := uint64(1); i <= index && i <= w.sup.leo(); i++ {
		same &= zzsym.B2U(after.ids[i-1] == w.sup.ids[i-1])
		same &= zzsym.B2U(c01rSameRecord(after.recs[i-1], w.sup.recs[i-1]))
	}
	zzsym.Assert(same == 1 && index <= w.sup.leo(), "repair succeeded but the local log is not the supporters' selected prefix (identity or content)")
	if cc := sel.CertifiedCommitted; cc >= 1 && cc <= uint64(w.maxIndex) {
		zzsym.Assert(after.ids[cc-1] == sel.CertifiedIdentity, "repair succeeded but the entry at the certified committed index is not the certified identity")
	}
}

// Harness_C01_RepairKeepsSelection (obligation O3, crash-fault environment): a selection that is a
// prefix of the supporters' log, donors that answer from that log (any complete-proposal prefix of
// the range; one of them may be unreachable; the leader may be its own donor), local log = common
// prefix + stale tail with Committed inside the common prefix.
func Harness_C01_RepairKeepsSelection() {
	w := c01rBuild(0, false, true)
	sel := w.selection(true)
	donor := &c01rDonor{log: w.sup, state: w.supState, local: w.store}
	if sel.Index > w.k && zzsym.Choice("donor.firstdown", 2) == 1 {
		donor.fault = c01rDonorFirstDown
	}
	before := w.snapshot()
	got, err := w.repair(sel, donor, 1<<16)
	after := w.snapshot()
	w.check(sel, before, after, got, err)

	if err == nil {
		zzsym.Reach("repaired")
		switch w.store.durableReplaces() {
		case 0:
			zzsym.Reach("already-in-place")
		case 1:
			if sel.Index == 0 {
				zzsym.Reach("truncated-to-empty")
			} else if before.state.LEO > sel.Index {
				zzsym.Reach("stale-tail-replaced")
			}
		default:
			zzsym.Reach("repaired-in-two-pages")
		}
		if donor.fault == c01rDonorFirstDown {
			zzsym.Reach("second-supporter-served")
		}
	} else {
		zzsym.Reach("refused")
		zzsym.Assert(w.store.durableReplaces() == 0, "a repair from honest supporters failed after it had already written")
		if w.k > sel.Index {
			zzsym.Reach("refused-selection-below-committed")
			zzsym.Assert(errors.Is(err, ch.ErrLogConflict) && len(w.store.replaces) == 0 && donor.fetches == 0,
				"a selection below the local committed watermark was not refused with ErrLogConflict before any fetch or write")
		} else {
			// the only other refusal from honest peers: Committed == selection.Index with an
			// uncommitted tail beyond it (recorded as an availability observation, not a C01 matter)
			zzsym.Assert(w.k == sel.Index && sel.Index > 0 && before.state.LEO > sel.Index,
				"repair from honest supporters of a reachable pre-state failed")
			zzsym.Reach("refused-tail-beyond-committed-selection")
		}
	}
	zzsym.Observe("repair", zzsym.B2U(err == nil), after.state.LEO, after.state.Committed, uint64(len(w.store.replaces)), uint64(donor.fetches))
}

// c01rPerturb returns a well-formed identity at the same index that is not the given one.
func c01rPerturb(id ch.EntryIdentity) ch.EntryIdentity {
	id.Digest[7] ^= 0x40
	zzsym.Assume(id.Digest != (ch.EntryDigest{}))
	return id
}

const (
	c01rFaultSelIdentity      = iota // selection.Identity is not the supporters' identity at Index
	c01rFaultSelCertAbove            // CertifiedCommitted > Index
	c01rFaultSelCertMismatch         // CertifiedIdentity is not the identity on the selected chain
	c01rFaultDivergedBelow           // supporters' log contradicts a locally committed entry
	c01rFaultReplaceRefused          // the store refuses the first / second Replace
	c01rFaultDonorAllDown
	c01rFaultDonorWrongPrevTerm
	c01rFaultDonorBeyondThrough
	c01rFaultDonorOversized
	c01rFaultDonorWrongState
	c01rFaultDonorSkips
	c01rFaultDonorAlienChain
	c01rFaults
)

// Harness_C01_RepairRefusesMalformed (obligation O3, outside the crash-fault environment): one
// fault per path in the selection, the pre-state, the donor answers or the store. The universal
// postconditions must still hold; faults that make every page unusable leave the store untouched.
func Harness_C01_RepairRefusesMalformed() {
	fault := zzsym.Choice("fault", c01rFaults)
	w := c01rBuild(1, fault == c01rFaultDivergedBelow, true)
	sel := w.selection(false)
	donor := &c01rDonor{log: w.sup, state: w.supState, local: w.store}
	pageBytes := 1 << 16
	switch fault {
	case c01rFaultSelIdentity:
		zzsym.Assume(sel.Index > 0)
		sel.Identity = c01rPerturb(sel.Identity)
	case c01rFaultSelCertAbove:
		zzsym.Assume(sel.Index > 0)
		sel.CertifiedCommitted = sel.Index + 1
		sel.CertifiedIdentity = sel.Identity
		sel.CertifiedIdentity.Index++
		sel.CertifiedIdentity.PreviousIndex++
	case c01rFaultSelCertMismatch:
		zzsym.Assume(sel.CertifiedCommitted > 0 && sel.CertifiedCommitted >= w.k)
		sel.CertifiedIdentity = c01rPerturb(sel.CertifiedIdentity)
	case c01rFaultDivergedBelow:
	case c01rFaultReplaceRefused:
		w.store.refuseAt = 1 + zzsym.Choice("replace.refused", 2)
	case c01rFaultDonorAllDown:
		donor.fault = c01rDonorAllDown
	case c01rFaultDonorWrongPrevTerm:
		donor.fault = c01rDonorWrongPrevTerm
	case c01rFaultDonorBeyondThrough:
		donor.fault = c01rDonorBeyondThrough
	case c01rFaultDonorOversized:
		donor.fault = c01rDonorOversized
		pageBytes = 100 // one 97-byte record fits, two do not
	case c01rFaultDonorWrongState:
		donor.fault = c01rDonorWrongState
	case c01rFaultDonorSkips:
		donor.fault = c01rDonorSkips
	default:
		donor.fault = c01rDonorAlienChain
	}
	before := w.snapshot()
	got, err := w.repair(sel, donor, pageBytes)
	after := w.snapshot()
	w.check(sel, before, after, got, err)

	untouched := after.state == before.state && w.store.durableReplaces() == 0
	fetched := donor.fetches > 0
	switch fault {
	case c01rFaultSelIdentity:
		zzsym.Reach("fault-selection-identity")
		zzsym.Assert(err != nil, "repair succeeded for a selected identity no supporter holds")
	case c01rFaultSelCertAbove:
		zzsym.Reach("fault-certified-above-index")
		zzsym.Assert(errors.Is(err, ch.ErrInvalidConfig) && untouched && w.store.loads == 0 && !fetched, "a selection certified above its index was not refused before any work")
	case c01rFaultSelCertMismatch:
		zzsym.Reach("fault-certified-identity")
		zzsym.Assert(errors.Is(err, ch.ErrLogConflict), "a certified identity that is not on the selected chain was not refused with ErrLogConflict")
		zzsym.Assert(after.state.Committed < sel.CertifiedCommitted || after.state.Committed == w.k,
			"the committed watermark passed a certified index whose identity does not match")
		if sel.CertifiedCommitted == w.k {
			zzsym.Reach("certified-identity-contradicts-local-committed")
			zzsym.Assert(untouched && !fetched && len(w.store.replaces) == 0, "a certified identity contradicting the local committed entry was not refused before any fetch or write")
		}
	case c01rFaultDivergedBelow:
		zzsym.Reach("fault-supporters-contradict-committed")
		zzsym.Assert(err != nil && untouched, "repair wrote although the supporters' log contradicts a locally committed entry")
	case c01rFaultReplaceRefused:
		if len(w.store.replaces) >= w.store.refuseAt {
			zzsym.Reach("fault-replace-refused")
			zzsym.Assert(err != nil, "repair succeeded although the store refused a replacement")
			zzsym.Assert(w.store.durableReplaces() == w.store.refuseAt-1, "repair kept writing after the store refused a replacement")
		}
	case c01rFaultDonorAllDown:
		if fetched {
			zzsym.Reach("fault-donors-down")
			zzsym.Assert(err != nil && untouched, "repair wrote or succeeded without any donor")
		}
	case c01rFaultDonorAlienChain:
		if donor.bad > 0 {
			zzsym.Reach("fault-alien-chain")
			zzsym.Assert(err != nil, "repair succeeded with a page that is not the selected chain")
		}
	default:
		// wrong predecessor term / wrong frontier / beyond Through / oversized / gap: every donor
		// sends the same unusable page, so nothing may be written
		if donor.bad > 0 {
			zzsym.Reach("fault-page-rejected")
			zzsym.Assert(err != nil && untouched, "a page with the wrong predecessor term, the wrong donor frontier, a gap, or beyond the requested range or size was accepted")
		}
	}
	zzsym.Observe("malformed", uint64(fault), zzsym.B2U(err == nil), after.state.LEO, after.state.Committed, uint64(len(w.store.replaces)), uint64(donor.fetches))
}

// ---------------------------------------------------------------------------------------------
// O4: readiness through the real quorumLog.Install
// ---------------------------------------------------------------------------------------------

const (
	c01iEvProbe = 1 + iota
	c01iEvFetch
	c01iEvReplace
	c01iEvBarrierLocal
	c01iEvBarrierReplica
)

func c01iPhase(ev int) int {
	switch ev {
	case c01iEvProbe:
		return 1
	case c01iEvFetch, c01iEvReplace:
		return 2
	}
	return 3
}

// c01iEnv is the recovery dispatcher (probe + fetch) and the durability dispatcher of one leader.
type c01iEnv struct {
	w     *c01rWorld
	donor *c01rDonor
	up    int // bit v: voter v answers probes
	trace []int

	probesOK       int
	localBarrier   int // 0 not attempted, 1 durable, 2 failed
	replicaDurable int
	atBarrier      ReplicaState // durable local frontier when the barrier reached the store port
	atBarrierOK    bool
	barrier        durableProposal
}

func (e *c01iEnv) submitRecoveryProbe(ctx context.Context, q recoveryProbeQuery, complete func(ProbeResult, error)) error {
	e.trace = append(e.trace, c01iEvProbe)
	request := ProbeRequest{ChannelKey: q.ChannelKey, ChannelID: q.ChannelID, Leader: q.Leader, Follower: q.Voter, Indexes: q.Indexes}
	if q.Voter == q.Leader {
		loaded, err := e.w.store.Load(ctx, LoadBatch{Items: []LoadRequest{{ChannelKey: q.ChannelKey, ChannelID: q.ChannelID, ProbeIndexes: q.Indexes}}})
		if err != nil || len(loaded.Items) != 1 {
			return errC01rDown
		}
		mapped, ok := mapProbeResult(request, loaded.Items[0])
		if !ok {
			return errC01rDown
		}
		e.probesOK++
		complete(mapped, nil)
		return nil
	}
	if e.up&(1<<uint(q.Voter)) == 0 {
		return errC01rDown
	}
	e.probesOK++
	complete(e.w.sup.probe(request, e.w.supState.Committed), nil)
	return nil
}

func (e *c01iEnv) submitRecoveryFetch(ctx context.Context, q recoveryFetchQuery, complete func(FetchResult, error)) error {
	return e.donor.submitRecoveryFetch(ctx, q, complete)
}

func (e *c01iEnv) submitLocal(ctx context.Context, p durableProposal, complete func(durabilityCompletion)) error {
	e.trace = append(e.trace, c01iEvBarrierLocal)
	if e.localBarrier == 0 {
		e.atBarrier, e.atBarrierOK = c01rFrontier(e.w.adapter)
		e.barrier = p
	}
	switch zzsym.Choice("barrier.local", 3) {
	case 0:
		res := e.w.store.Sync(ctx, []Mutation{{ChannelKey: p.channelKey, ChannelID: p.channelID, Manifest: p.manifest, Records: p.records,
			Committed: p.committed, Class: MutationClassLeaderQuorum, ServerAllocatedMessageIDs: p.serverAllocatedMessageIDs}})
		if len(res) != 1 {
			return errC01rDown
		}
		if res[0].Outcome.Durable() && res[0].Err == nil {
			e.localBarrier = 1
		} else {
			e.localBarrier = 2
		}
		complete(durabilityCompletion{outcome: res[0].Outcome, err: res[0].Err})
	case 1:
		e.localBarrier = 2
		complete(durabilityCompletion{outcome: ch.AppendOutcomeUnknown, err: errC01rDown})
	default:
		e.localBarrier = 2
		return errC01rDown
	}
	return nil
}

func (e *c01iEnv) submitReplica(_ context.Context, _ ch.NodeID, _ durableProposal, complete func(durabilityCompletion)) error {
	e.trace = append(e.trace, c01iEvBarrierReplica)
	if zzsym.Choice("barrier.replica", 2) == 0 {
		e.replicaDurable++
		complete(durabilityCompletion{outcome: ch.AppendOutcomeDurable})
		return nil
	}
	complete(durabilityCompletion{outcome: ch.AppendOutcomeUnknown, err: errC01rDown})
	return nil
}

// Harness_C01_InstallReadyOnlyAfterRepairAndBarrier (obligation O4): the real quorumLog.Install of a
// new leader term on the real store; voters 2 and 3 hold the supporter log, the leader holds a
// prefix of it plus a stale tail. Each port may fail. Install reports ready only if a quorum
// answered the probes, the local log was repaired to a prefix of the supporters' log that keeps
// the local committed prefix, and (non-empty log) the current-term barrier became durable locally
// and on a follower, strictly in that order; any failure leaves the channel closed for Commit.
func Harness_C01_InstallReadyOnlyAfterRepairAndBarrier() {
	w := c01rBuild(1, false, false)
	term := zzsym.U64("install.term")
	zzsym.Assume(term > w.maxTerm)
	env := &c01iEnv{w: w}
	env.donor = &c01rDonor{log: w.sup, state: w.supState, local: w.store, trace: &env.trace, lazyDown: true}
	w.store.trace = &env.trace
	w.store.lazyRefuse = true
	switch zzsym.Choice("voters.up", 3) {
	case 0:
		env.up = 1<<2 | 1<<3
	case 1:
		env.up = 1 << 2
	}
	l, err := newQuorumLog(quorumLogConfig{Local: 1, Store: w.store, Recovery: env, Durability: env,
		RecoveryTimeout: time.Second, RecoveryPageBytes: 1 << 16, MaxChannels: 2, MaxVoters: 3,
		MaxProposalRecords: 2, MaxProposalBytes: 1 << 12, MaxRetainedCommands: 2})
	if err != nil || l == nil {
		panic("c01i: newQuorumLog refused a valid configuration")
	}
	authority := Authority{Key: c01rKey, ChannelID: c01rID, ID: AuthorityID{ChannelEpoch: 1, LeaderTerm: term, FenceVersion: 1},
		Leader: 1, Voters: []ch.NodeID{1, 2, 3}, WriteQuorum: 2}
	// the barrier's command id is a SHA-256 digest; under the abstract hash it could coincide with
	// one of the constant command ids of the harness logs, which the real hash does not produce
	barrierCommand, _ := recoveryBarrierContent(authority)
	for _, p := range w.sup.props {
		zzsym.Assume(barrierCommand != p.Manifest.CommandID)
	}
	for _, p := range w.loc.props {
		zzsym.Assume(barrierCommand != p.Manifest.CommandID)
	}
	before := w.snapshot()
	installed, ierr := l.Install(context.Background(), authority)
	after := w.snapshot()
	state := l.existingChannel(c01rKey)
	zzsym.Assert(state != nil && before.ok && after.ok, "the channel or the local store cannot be inspected after Install")
	if state == nil || !before.ok || !after.ok {
		return
	}

	// phases never interleave: probes, then fetch/replace, then the barrier round
	ordered := true
	phase := 0
	for _, ev := range env.trace {
		p := c01iPhase(ev)
		if p < phase {
			ordered = false
		}
		phase = p
	}
	zzsym.Assert(ordered, "Install probed after it started repairing, or repaired after it dispatched the barrier")
	// the committed prefix survives every outcome
	kept := uint64(1)
	for i := uint64(1); i <= w.k; i++ {
		kept &= zzsym.B2U(after.ids[i-1] == before.ids[i-1])
		kept &= zzsym.B2U(c01rSameRecord(after.recs[i-1], before.recs[i-1]))
	}
	zzsym.Assert(kept == 1 && after.state.Committed >= w.k, "Install rewrote or uncommitted an entry at or below the local committed watermark")
	for _, call := range w.store.replaces {
		zzsym.Assert(call.keep >= w.k && call.keep >= call.before.Committed && call.committed <= call.end, "Install asked the store to replace committed entries or to commit beyond the page")
	}
	refused := w.store.refuseAt != 0 && len(w.store.replaces) >= w.store.refuseAt

	if ierr != nil {
		zzsym.Reach("install-failed")
		zzsym.Assert(!state.ready && state.frontier == (ReplicaState{}) && state.hw == 0, "a failed Install left the channel ready or with a frontier")
		dispatched := len(env.trace)
		loads, syncs := w.store.loads, w.store.syncs
		_, cerr := l.Commit(context.Background(), Proposal{Key: c01rKey, Expected: authority.ID, CommandID: ch.CommandID{31: 7},
			Records: []ch.Record{{ID: 77, Epoch: 1, ServerTimestampMS: 5, Payload: []byte{1}, SizeBytes: 1}}})
		zzsym.Assert(errors.Is(cerr, ch.ErrNotReady) && len(env.trace) == dispatched && w.store.loads == loads && w.store.syncs == syncs,
			"after a failed Install a Commit was admitted or reached a port")
		if env.probesOK < 2 {
			zzsym.Reach("failed-no-probe-quorum")
			zzsym.Assert(phase <= 1 && after.state == before.state, "Install went past recovery without a quorum of probe answers")
		}
		if refused {
			zzsym.Reach("failed-replace-refused")
			zzsym.Assert(env.localBarrier == 0 && env.replicaDurable == 0, "the barrier was dispatched although repair failed")
		}
		if env.localBarrier == 2 {
			zzsym.Reach("failed-barrier-local")
		}
		if env.localBarrier == 1 && env.replicaDurable == 0 {
			zzsym.Reach("failed-barrier-quorum")
		}
		zzsym.Observe("install-failed", after.state.LEO, after.state.Committed, uint64(len(env.trace)))
		return
	}

	zzsym.Reach("install-ready")
	zzsym.Assert(state.ready && installed.Authority == authority.ID && installed.LEO == after.state.LEO && installed.HW == installed.LEO &&
		state.frontier.LEO == after.state.LEO && state.frontier.TailIdentity == after.state.TailIdentity && state.frontier.Manifest == after.state.Manifest,
		"Install reported a ready frontier that is not the durable local log")
	zzsym.Assert(env.probesOK >= 2, "Install became ready without a quorum of probe answers")
	zzsym.Assert(!refused, "Install became ready although the store refused the repair")
	// the recovered part of the log
	m := after.state.LEO
	if env.localBarrier != 0 {
		zzsym.Assert(env.localBarrier == 1 && env.replicaDurable >= 1, "Install became ready although the barrier is not durable locally and on a follower")
		zzsym.Assert(m >= 1 && after.ids[m-1].LeaderTerm == term && after.ids[m-1].CommandID == env.barrier.manifest.CommandID, "the log does not end with the current-term barrier")
		m--
		zzsym.Assert(env.atBarrierOK && env.atBarrier.LEO == m && env.atBarrier.Committed == m, "the barrier was dispatched before the local log was repaired and fully committed")
		zzsym.Reach("ready-after-barrier")
	} else {
		zzsym.Assert(m == 0, "Install became ready on a non-empty log of another term without a barrier")
		zzsym.Reach("ready-empty")
	}
	same := uint64(1)
	for i := uint64(1); i <= m && i <= w.sup.leo(); i++ {
		same &= zzsym.B2U(after.ids[i-1] == w.sup.ids[i-1])
		same &= zzsym.B2U(c01rSameRecord(after.recs[i-1], w.sup.recs[i-1]))
	}
	zzsym.Assert(same == 1 && m <= w.sup.leo() && m >= w.k, "Install became ready on a log that is not a prefix of the supporters' log containing the local committed prefix")
	if env.up == 1<<2|1<<3 {
		zzsym.Assert(m == w.sup.leo(), "with both followers answering, Install did not recover the whole log they share")
	}
	if len(w.store.replaces) > 0 && env.localBarrier != 0 {
		zzsym.Reach("ready-after-repair-and-barrier")
	}
	zzsym.Observe("install-ready", after.state.LEO, after.state.Committed, uint64(len(env.trace)), uint64(env.probesOK))
}
