package message

import (
	"context"
	"errors"

	"github.com/WuKongIM/WuKongIM/internal/zzsym"
	"github.com/WuKongIM/WuKongIM/pkg/db/internal/dberrors"
	"github.com/WuKongIM/WuKongIM/pkg/db/internal/engine"
)

// Store-level obligation of C07: the REAL MessageDB / ChannelLog code (append, follower apply,
// suffix truncation, prefix trim, checkpoint, close + reopen, all reads and index lookups) runs on
// the in-memory engine overlay (harness/_memengine: same API as the Pebble wrapper) and is compared,
// after every operation of a short history, with a reference sequential log kept in plain Go.

const (
	c07StorePath  = "c07-store"
	c07OtherFirst = uint64(900) // message id of the single row of the bystander channel
)

var (
	c07ChanKey   = ChannelKey("chan-a")
	c07ChanID    = ChannelID{ID: "chan-a", Type: 2}
	c07OtherKey  = ChannelKey("chan-b")
	c07OtherID   = ChannelID{ID: "chan-b", Type: 1}
	c07Senders   = [2]string{"a", "b"}
	c07ClientNos = [2]string{"x", "y"}
)

// c07Rec is one row of the reference log.
type c07Rec struct {
	seq, id  uint64
	uid, cno string
	payload  byte
	ts       int64
}

// c07Ref is the reference model: the retained rows (contiguous, ascending), the log end, the
// physical retention boundary, the checkpoint, and every message id ever handed to the store.
type c07Ref struct {
	rows     []c07Rec
	leo      uint64
	physical uint64 // rows <= physical were trimmed
	trimmed  bool
	hasCP    bool
	cp       Checkpoint
	ids      []uint64
	nextID   uint64
	nextTS   int64
}

type c07Store struct {
	eng *engine.DB
	db  *MessageDB
	log *ChannelLog
}

func c07OpenStore() *c07Store {
	eng, err := engine.Open(c07StorePath, engine.Options{})
	zzsym.Assert(err == nil, "store: engine open failed")
	db := NewDB(eng)
	log, err := db.Channel(c07ChanKey, c07ChanID)
	zzsym.Assert(err == nil && log != nil, "store: Channel() failed")
	return &c07Store{eng: eng, db: db, log: log}
}

func (s *c07Store) reopen() {
	zzsym.Assert(s.log.Close() == nil, "store: lease close failed")
	zzsym.Assert(s.db.Close() == nil, "store: database close failed")
	// a closed lease / database must refuse work instead of serving stale state
	_, err := s.log.LEO(context.Background())
	zzsym.Assert(err != nil, "store: a closed lease still answers")
	*s = *c07OpenStore()
}

func (m *c07Ref) firstRetained() uint64 {
	if len(m.rows) > 0 {
		return m.rows[0].seq
	}
	return m.leo + 1
}

func (m *c07Ref) rowAt(seq uint64) (c07Rec, bool) {
	for _, r := range m.rows {
		if r.seq == seq {
			return r, true
		}
	}
	return c07Rec{}, false
}

func (m *c07Ref) pairHolder(uid, cno string) (c07Rec, bool) {
	for _, r := range m.rows {
		if r.uid == uid && r.cno == cno {
			return r, true
		}
	}
	return c07Rec{}, false
}

func (m *c07Ref) newRecord(p string) c07Rec {
	m.nextID++
	m.nextTS++
	r := c07Rec{
		id:      m.nextID,
		uid:     c07Senders[zzsym.Choice(p+".uid", 2)],
		cno:     c07ClientNos[zzsym.Choice(p+".cno", 2)],
		payload: c07Payload(p+".payload", m.nextID),
		ts:      m.nextTS,
	}
	m.ids = append(m.ids, r.id)
	return r
}

// c07SymbolicPayload selects fully symbolic payload bytes (Harness_C07_StoreSymbolicPayload). Every
// read of a row with a symbolic payload costs the solver ~20 branch queries (varint bytes of the FNV
// payload hash, hash re-validation), so the history entries give every record its own concrete
// payload byte (derived from the message id: no two rows of a history carry the same byte).
var c07SymbolicPayload bool

func c07Payload(name string, id uint64) byte {
	if c07SymbolicPayload {
		return zzsym.U8(name)
	}
	return byte(id)
}

func c07ToRecord(r c07Rec) Record {
	return Record{ID: r.id, ClientMsgNo: r.cno, FromUID: r.uid, Payload: []byte{r.payload}, SizeBytes: 1, ServerTimestampMS: r.ts}
}

func c07SameMessage(msg Message, r c07Rec) bool {
	return msg.MessageSeq == r.seq && msg.MessageID == r.id && msg.ChannelID == c07ChanID.ID && msg.ChannelType == c07ChanID.Type &&
		msg.ClientMsgNo == r.cno && msg.FromUID == r.uid && len(msg.Payload) == 1 && msg.Payload[0] == r.payload &&
		msg.PayloadHash == hashPayload([]byte{r.payload}) && msg.ServerTimestampMS == r.ts
}

// c07CheckAgainst compares everything observable of the store with the reference log. The
// comparisons of one category are accumulated into one obligation (one solver query per category
// and step instead of one per field).
func c07CheckAgainst(s *c07Store, m *c07Ref) {
	ctx := context.Background()
	leo, err := s.log.LEO(ctx)
	zzsym.Assert(err == nil && leo == m.leo, "store: LEO differs from the reference log")

	// point reads over the whole sequence space 1..LEO+1
	pointOK := true
	for seq := uint64(1); seq <= m.leo+1; seq++ {
		msg, ok, gerr := s.log.GetBySeq(ctx, seq)
		want, present := m.rowAt(seq)
		if gerr != nil || ok != present {
			pointOK = false
		} else if present && !c07SameMessage(msg, want) {
			pointOK = false
		}
	}
	zzsym.Assert(pointOK, "store: GetBySeq disagrees with the reference log (different row, removed row returned, or retained row missing)")

	// forward scan from the start: exactly the retained contiguous sequence
	msgs, rerr := s.log.Read(ctx, 0, ReadOptions{})
	zzsym.Assert(rerr == nil && len(msgs) == len(m.rows), "store: Read fails or returns a different number of rows than the reference log retains")
	scanOK := true
	for i := 0; i < len(msgs) && i < len(m.rows); i++ {
		if !c07SameMessage(msgs[i], m.rows[i]) || msgs[i].MessageSeq != m.firstRetained()+uint64(i) {
			scanOK = false
		}
	}
	if len(m.rows) > 1 {
		// a scan from the middle and a limited scan see the same rows
		tail, terr := s.log.Read(ctx, m.rows[1].seq, ReadOptions{Limit: 1})
		if terr != nil || len(tail) != 1 || !c07SameMessage(tail[0], m.rows[1]) {
			scanOK = false
		}
		rev, verr := s.log.ReadReverse(ctx, 0, ReadOptions{Limit: 1})
		if verr != nil || len(rev) != 1 || !c07SameMessage(rev[0], m.rows[len(m.rows)-1]) {
			scanOK = false
		}
	}
	zzsym.Assert(scanOK, "store: Read / ReadReverse is not the contiguous retained sequence with identical fields")

	// message-id index: every id ever appended
	idOK := true
	for _, id := range m.ids {
		var holder c07Rec
		held := false
		for _, r := range m.rows {
			if r.id == id {
				holder, held = r, true
			}
		}
		msg, ok, ierr := s.log.GetByMessageID(ctx, id)
		if ierr != nil || ok != held {
			idOK = false
		} else if held && !c07SameMessage(msg, holder) {
			idOK = false
		}
	}
	zzsym.Assert(idOK, "store: GetByMessageID disagrees with the stored rows (stale index, removed or rejected row returned, or stored row not found)")

	// (sender, client message number) index: all four pairs
	pairOK := true
	for _, uid := range c07Senders {
		for _, cno := range c07ClientNos {
			hit, ok, lerr := s.log.LookupIdempotency(ctx, IdempotencyKey{FromUID: uid, ClientMsgNo: cno})
			holder, held := m.pairHolder(uid, cno)
			if lerr != nil || ok != held {
				pairOK = false
			} else if held && !(hit.MessageSeq == holder.seq && hit.MessageID == holder.id && hit.Offset == holder.seq-1 &&
				hit.PayloadHash == hashPayload([]byte{holder.payload})) {
				pairOK = false
			}
		}
	}
	zzsym.Assert(pairOK, "store: LookupIdempotency disagrees with the stored rows (stale index, removed row returned, or stored row not found)")

	// sender sequence index: last message of each sender among the retained rows
	senderOK := true
	for _, uid := range c07Senders {
		var last uint64
		for _, r := range m.rows {
			if r.uid == uid {
				last = r.seq
			}
		}
		got, ok, serr := s.log.GetLastSenderMessageSeq(ctx, uid, ^uint64(0))
		if serr != nil || ok != (last != 0) || (ok && got != last) {
			senderOK = false
		}
	}
	zzsym.Assert(senderOK, "store: GetLastSenderMessageSeq disagrees with the stored rows")

	// system rows
	cp, okCP, cerr := s.log.LoadCheckpoint(ctx)
	zzsym.Assert(cerr == nil && okCP == m.hasCP && (!okCP || cp == m.cp), "store: checkpoint differs from the last one written")
	st, okRS, serr := s.log.LoadRetentionState(ctx)
	zzsym.Assert(serr == nil && okRS == m.trimmed, "store: retention state present without a trim (or missing after one)")
	if m.trimmed {
		zzsym.Assert(st.PhysicalRetentionThroughSeq == m.physical && st.LocalRetentionThroughSeq == m.physical, "store: retention boundary differs from the last trim")
		zzsym.Assert(m.firstRetained() > m.physical, "reference: a retained row at or below the trim boundary")
	}

	// the bystander channel sharing the engine is untouched
	other, oerr := s.db.Channel(c07OtherKey, c07OtherID)
	zzsym.Assert(oerr == nil, "store: bystander channel cannot be acquired")
	omsg, ook, ogerr := other.GetBySeq(ctx, 1)
	oleo, olerr := other.LEO(ctx)
	zzsym.Assert(ogerr == nil && ook && omsg.MessageID == c07OtherFirst && omsg.ChannelID == c07OtherID.ID && len(omsg.Payload) == 1 && omsg.Payload[0] == 'o' &&
		olerr == nil && oleo == 1, "store: the row or the log end of another channel sharing the engine changed")
	zzsym.Assert(other.Close() == nil, "store: bystander lease close failed")
}

// ---------------------------------------------------------------- operations

const (
	c07OpAppend1 = iota
	c07OpAppend2
	c07OpApplyFetch
	c07OpTruncate
	c07OpTrim
	c07OpCheckpoint
	c07OpReopen
	c07OpCount
)

// c07Append: leader append of n records in strict mode. A record whose (sender, client number) is
// held by a retained row, or repeated inside the batch, must be refused with ErrConflict and
// leave the store unchanged; otherwise the batch gets the next contiguous sequences.
func c07Append(s *c07Store, m *c07Ref, step string, n int) {
	recs := make([]c07Rec, n)
	records := make([]Record, n)
	conflict := false
	for i := 0; i < n; i++ {
		recs[i] = m.newRecord(step + string(rune('0'+i)))
		records[i] = c07ToRecord(recs[i])
		if _, held := m.pairHolder(recs[i].uid, recs[i].cno); held {
			conflict = true
		}
		for j := 0; j < i; j++ {
			if recs[j].uid == recs[i].uid && recs[j].cno == recs[i].cno {
				conflict = true
			}
		}
	}
	res, err := s.log.Append(context.Background(), records, AppendOptions{Mode: AppendStrict})
	if conflict {
		zzsym.Reach("store-append-conflict")
		zzsym.Assert(err != nil && errors.Is(err, dberrors.ErrConflict), "store: an append repeating a stored (sender, client number) is not refused with ErrConflict")
		return
	}
	zzsym.Reach("store-append")
	zzsym.Assert(err == nil, "store: a valid append fails")
	zzsym.Assert(res.BaseSeq == m.leo+1 && res.LastSeq == m.leo+uint64(n) && res.Count == n, "store: append did not assign the next contiguous sequences")
	for i := range recs {
		m.leo++
		recs[i].seq = m.leo
		m.rows = append(m.rows, recs[i])
	}
}

// c07ApplyFetch: follower apply of one record at the explicit base LEO+1 (trusted-contiguous: the
// leader guarantees uniqueness, so the harness only offers fresh pairs), optionally with a
// checkpoint advancing HW to the new LEO in the same batch.
func c07ApplyFetch(s *c07Store, m *c07Ref, step string) {
	rec := m.newRecord(step)
	_, held := m.pairHolder(rec.uid, rec.cno)
	zzsym.Assume(!held)
	req := ApplyFetchRequest{BaseSeq: m.leo + 1, Records: []Record{c07ToRecord(rec)}}
	withCP := zzsym.Choice(step+".cp", 2) == 1
	var cp Checkpoint
	if withCP {
		cp = Checkpoint{Epoch: m.cp.Epoch + 1, LogStartOffset: m.cp.LogStartOffset, HW: m.leo + 1}
		req.Checkpoint = &cp
	}
	res, err := s.log.ApplyFetch(context.Background(), req)
	zzsym.Reach("store-apply-fetch")
	zzsym.Assert(err == nil && res.BaseSeq == m.leo+1 && res.LastSeq == m.leo+1 && res.Count == 1, "store: a valid follower apply fails or assigns another sequence")
	m.leo++
	rec.seq = m.leo
	m.rows = append(m.rows, rec)
	if withCP {
		m.hasCP, m.cp = true, cp
	}
	// a stale base is refused and changes nothing
	_, serr := s.log.ApplyFetch(context.Background(), ApplyFetchRequest{BaseSeq: m.leo, Records: []Record{{ID: 7777, Payload: []byte{'z'}, ServerTimestampMS: 1}}})
	zzsym.Assert(serr != nil && errors.Is(serr, dberrors.ErrConflict), "store: a follower apply at a stale base sequence is not refused")
}

// c07Truncate: suffix truncation from a sequence above the checkpointed HW (only the uncommitted
// suffix is ever truncated), anywhere in HW+1 .. LEO+1 (LEO+1 = nothing to do).
func c07Truncate(s *c07Store, m *c07Ref, step string) {
	low := m.cp.HW + 1
	if low <= m.physical {
		low = m.physical + 1
	}
	zzsym.Assume(low <= m.leo+1)
	from := low + uint64(zzsym.Choice(step+".from", int(m.leo+2-low)))
	// known finding C07-F2 (isolated in Harness_C07_StoreTruncateAfterTrim): a truncation that removes
	// rows after a prefix trim leaves the retention state's RetainedMaxSeq above the new log end
	zzsym.Assume(!m.trimmed || from > m.leo)
	err := s.log.TruncateFrom(context.Background(), from)
	zzsym.Reach("store-truncate")
	zzsym.Assert(err == nil, "store: TruncateFrom fails")
	if from > m.leo {
		return
	}
	kept := m.rows[:0:0]
	for _, r := range m.rows {
		if r.seq < from {
			kept = append(kept, r)
		}
	}
	m.rows = kept
	m.leo = from - 1
}

// c07Trim: physical prefix trim through a committed sequence (1 .. min(HW, LEO)): the retention
// boundary never passes the checkpointed HW (pkg/channel/reactor retentionTrimDecision).
func c07Trim(s *c07Store, m *c07Ref, step string) {
	high := m.cp.HW
	if m.leo < high {
		high = m.leo
	}
	zzsym.Assume(high >= 1)
	through := 1 + uint64(zzsym.Choice(step+".through", int(high)))
	wantDeleted := 0
	for _, r := range m.rows {
		if r.seq <= through {
			wantDeleted++
		}
	}
	res, err := s.log.TrimPrefixThrough(context.Background(), through)
	zzsym.Reach("store-trim")
	zzsym.Assert(err == nil, "store: TrimPrefixThrough fails")
	zzsym.Assert(res.Deleted == wantDeleted && !res.More, "store: trim deleted a different number of rows than the reference log")
	kept := m.rows[:0:0]
	for _, r := range m.rows {
		if r.seq > through {
			kept = append(kept, r)
		}
	}
	m.rows = kept
	m.trimmed = true
	if through > m.physical {
		m.physical = through
	}
}

// c07StoreCheckpoint: monotonic checkpoint write with HW anywhere in oldHW .. LEO.
func c07StoreCheckpoint(s *c07Store, m *c07Ref, step string) {
	hw := m.cp.HW + uint64(zzsym.Choice(step+".hw", int(m.leo-m.cp.HW)+1))
	cp := Checkpoint{Epoch: m.cp.Epoch + 1, LogStartOffset: m.cp.LogStartOffset, HW: hw}
	err := s.log.StoreCheckpointMonotonic(context.Background(), cp, hw, m.leo)
	zzsym.Reach("store-checkpoint")
	zzsym.Assert(err == nil, "store: a monotonic checkpoint within the log is refused")
	m.hasCP, m.cp = true, cp
	// a checkpoint beyond the log end is refused and changes nothing
	bad := Checkpoint{Epoch: cp.Epoch, HW: m.leo + 1}
	zzsym.Assert(s.log.StoreCheckpointMonotonic(context.Background(), bad, m.leo+1, m.leo) != nil, "store: a checkpoint beyond the log end is accepted")
}

func c07Step(s *c07Store, m *c07Ref, step string, op int) {
	switch op {
	case c07OpAppend1:
		c07Append(s, m, step, 1)
	case c07OpAppend2:
		c07Append(s, m, step, 2)
	case c07OpApplyFetch:
		c07ApplyFetch(s, m, step)
	case c07OpTruncate:
		c07Truncate(s, m, step)
	case c07OpTrim:
		c07Trim(s, m, step)
	case c07OpCheckpoint:
		c07StoreCheckpoint(s, m, step)
	default:
		s.reopen()
		zzsym.Reach("store-reopen")
	}
	c07CheckAgainst(s, m)
}

// c07FreshStore: empty database, plus one row in a bystander channel sharing the engine.
func c07FreshStore() (*c07Store, *c07Ref) {
	engine.ZZResetStores()
	s := c07OpenStore()
	other, err := s.db.Channel(c07OtherKey, c07OtherID)
	zzsym.Assert(err == nil, "store: bystander channel cannot be acquired")
	_, err = other.Append(context.Background(), []Record{{ID: c07OtherFirst, FromUID: "a", ClientMsgNo: "x", Payload: []byte{'o'}, ServerTimestampMS: 5}}, AppendOptions{})
	zzsym.Assert(err == nil && other.Close() == nil, "store: bystander append failed")
	m := &c07Ref{nextID: 100, nextTS: 1000}
	c07CheckAgainst(s, m)
	return s, m
}

func c07Ops(quick, thorough int) int {
	if zzsym.Thorough() {
		return thorough
	}
	return quick
}

func c07Finish(s *c07Store, m *c07Ref) {
	// whatever the history was: after a final close + reopen the store still equals the reference log
	// and the recovered log end is the last stored (or retained-by-boundary) sequence
	s.reopen()
	c07CheckAgainst(s, m)
	zzsym.Reach("store-final-reopen")
	zzsym.Observe("store", m.leo, uint64(len(m.rows)), m.firstRetained(), m.cp.HW, m.physical)
	zzsym.Assert(s.log.Close() == nil && s.db.Close() == nil, "store: final close failed")
}

// Harness_C07_StoreHistoryFromEmpty: every history of 2 (3 thorough) operations from the full
// alphabet on an empty database.
func Harness_C07_StoreHistoryFromEmpty() {
	s, m := c07FreshStore()
	k := c07Ops(2, 3)
	for i := 0; i < k; i++ {
		step := "s" + string(rune('0'+i))
		c07Step(s, m, step, zzsym.Choice(step+".op", c07OpCount))
	}
	c07Finish(s, m)
}

// c07Seed: three appended rows (pairs a/x, b/x, a/y), checkpoint HW=2:
// rows 1..2 committed, row 3 an uncommitted suffix. Executed through the real code.
func c07Seed(s *c07Store, m *c07Ref) {
	pairs := [3][2]int{{0, 0}, {1, 0}, {0, 1}}
	for i, p := range pairs {
		m.nextID++
		m.nextTS++
		r := c07Rec{id: m.nextID, uid: c07Senders[p[0]], cno: c07ClientNos[p[1]], payload: c07Payload("seed.payload", m.nextID), ts: m.nextTS}
		m.ids = append(m.ids, r.id)
		res, err := s.log.Append(context.Background(), []Record{c07ToRecord(r)}, AppendOptions{})
		zzsym.Assert(err == nil && res.BaseSeq == uint64(i+1), "store: seed append failed")
		m.leo++
		r.seq = m.leo
		m.rows = append(m.rows, r)
	}
	cp := Checkpoint{Epoch: 1, HW: 2}
	zzsym.Assert(s.log.StoreCheckpoint(context.Background(), cp) == nil, "store: seed checkpoint failed")
	m.hasCP, m.cp = true, cp
	c07CheckAgainst(s, m)
}

// Harness_C07_StoreHistorySeeded: from a log of three rows (two committed), every history of 2
// (3 thorough) operations: reaches trim + truncate + re-append + reopen interleavings with short
// symbolic histories.
func Harness_C07_StoreHistorySeeded() {
	s, m := c07FreshStore()
	c07Seed(s, m)
	k := c07Ops(2, 3)
	for i := 0; i < k; i++ {
		step := "s" + string(rune('0'+i))
		c07Step(s, m, step, zzsym.Choice(step+".op", c07OpCount))
	}
	c07Finish(s, m)
}

// Harness_C07_StoreTrimTruncateReopen: the maintenance operations only (truncate, trim,
// checkpoint, reopen, single append), 3 steps (4 thorough) from the seeded log: the interleavings in
// which rows and their index entries are removed from both ends and the log end must survive reopen
// (recoverLEO with an empty tail uses the retention state's RetainedMaxSeq).
func Harness_C07_StoreTrimTruncateReopen() {
	s, m := c07FreshStore()
	c07Seed(s, m)
	k := c07Ops(3, 4)
	for i := 0; i < k; i++ {
		step := "s" + string(rune('0'+i))
		switch zzsym.Choice(step+".op", 5) {
		case 0:
			c07Truncate(s, m, step)
		case 1:
			c07Trim(s, m, step)
		case 2:
			c07StoreCheckpoint(s, m, step)
		case 3:
			s.reopen()
			zzsym.Reach("store-reopen")
		default:
			c07Append(s, m, step, 1)
		}
		c07CheckAgainst(s, m)
	}
	c07Finish(s, m)
}

// Harness_C07_StoreSymbolicPayload: byte identity for ALL payload byte values on one fixed history
// that exercises every operation: append 2, follower apply 1 (+checkpoint HW=3), append 1, truncate
// from 4, trim through 1, reopen; the reference check runs after every step.
func Harness_C07_StoreSymbolicPayload() {
	c07SymbolicPayload = true
	defer func() { c07SymbolicPayload = false }()
	s, m := c07FreshStore()
	mk := func(uid, cno int) c07Rec {
		m.nextID++
		m.nextTS++
		r := c07Rec{id: m.nextID, uid: c07Senders[uid], cno: c07ClientNos[cno], payload: zzsym.U8("payload"), ts: m.nextTS}
		m.ids = append(m.ids, r.id)
		return r
	}
	ctx := context.Background()
	a, b := mk(0, 0), mk(1, 0)
	res, err := s.log.Append(ctx, []Record{c07ToRecord(a), c07ToRecord(b)}, AppendOptions{Mode: AppendServerAllocatedMessageID})
	zzsym.Assert(err == nil && res.BaseSeq == 1 && res.LastSeq == 2, "store: symbolic-payload append failed")
	a.seq, b.seq = 1, 2
	m.rows, m.leo = append(m.rows, a, b), 2
	c07CheckAgainst(s, m)
	c := mk(0, 1)
	cp := Checkpoint{Epoch: 1, HW: 3}
	res, err = s.log.ApplyFetch(ctx, ApplyFetchRequest{BaseSeq: 3, Records: []Record{c07ToRecord(c)}, Checkpoint: &cp})
	zzsym.Assert(err == nil && res.BaseSeq == 3, "store: symbolic-payload follower apply failed")
	c.seq = 3
	m.rows, m.leo, m.hasCP, m.cp = append(m.rows, c), 3, true, cp
	c07CheckAgainst(s, m)
	d := mk(1, 1)
	res, err = s.log.Append(ctx, []Record{c07ToRecord(d)}, AppendOptions{})
	zzsym.Assert(err == nil && res.BaseSeq == 4, "store: symbolic-payload second append failed")
	d.seq = 4
	m.rows, m.leo = append(m.rows, d), 4
	c07CheckAgainst(s, m)
	// (truncate before trim: the other order is known finding C07-F2)
	zzsym.Assert(s.log.TruncateFrom(ctx, 4) == nil, "store: symbolic-payload truncate failed")
	m.rows, m.leo = m.rows[:3], 3
	c07CheckAgainst(s, m)
	_, err = s.log.TrimPrefixThrough(ctx, 1)
	zzsym.Assert(err == nil, "store: symbolic-payload trim failed")
	m.rows, m.trimmed, m.physical = m.rows[1:], true, 1
	c07CheckAgainst(s, m)
	zzsym.Reach("store-symbolic-payload")
	c07Finish(s, m)
}

// Harness_C07_StoreTruncateAfterTrim: known finding C07-F2, isolated. Seeded log (rows 1..3, HW=2),
// trim through 1, truncate from 3, reopen: ChannelLog.TruncateFrom does not clamp the retention
// state's RetainedMaxSeq (3, stored by the trim), so recoverLEO after reopen reports LEO 3 although
// row 3 was truncated and LEO was 2 before the close (the compat ChannelStore.truncateLocked does
// clamp it: retentionStateAfterTruncate).
func Harness_C07_StoreTruncateAfterTrim() {
	s, m := c07FreshStore()
	c07Seed(s, m)
	ctx := context.Background()
	_, err := s.log.TrimPrefixThrough(ctx, 1)
	zzsym.Assert(err == nil, "store: trim failed")
	m.rows, m.trimmed, m.physical = m.rows[1:], true, 1
	c07CheckAgainst(s, m)
	zzsym.Assert(s.log.TruncateFrom(ctx, 3) == nil, "store: truncate failed")
	m.rows, m.leo = m.rows[:1], 2
	c07CheckAgainst(s, m)
	s.reopen()
	zzsym.Reach("store-truncate-after-trim-reopened")
	leo, lerr := s.log.LEO(ctx)
	zzsym.AssertKnown(lerr == nil && leo == m.leo, "store: the log end moves forward over a truncated suffix at reopen", "C07-F2", true)
	zzsym.Observe("f2", leo)
}
