package message

import (
	"context"
	"errors"

	"github.com/WuKongIM/WuKongIM/internal/zzsym"
	"github.com/WuKongIM/WuKongIM/pkg/db/internal/dberrors"
)

// Client-message-number listing (ListByClientMsgNo) against the reference log. Rows WITH a sender
// are found through the idempotency index, sender-less rows through the sequence-suffixed client
// index (stageMessageRow / stageDeleteMessage maintain the two differently), so the log mixes both.

// c07CheckClientIndex: for both client numbers the page is exactly the retained rows carrying that
// number, newest first.
func c07CheckClientIndex(s *c07Store, m *c07Ref) {
	ok := true
	for _, cno := range c07ClientNos {
		page, err := s.log.ListByClientMsgNo(context.Background(), cno, 0, 16)
		var want []c07Rec
		for i := len(m.rows) - 1; i >= 0; i-- {
			if m.rows[i].cno == cno {
				want = append(want, m.rows[i])
			}
		}
		if err != nil || len(page.Messages) != len(want) || page.HasMore {
			ok = false
			continue
		}
		for i := range want {
			if !c07SameMessage(page.Messages[i], want[i]) {
				ok = false
			}
		}
	}
	zzsym.Assert(ok, "store: ListByClientMsgNo disagrees with the reference log (stale index entry, removed row listed, retained row missing, or wrong order)")
}

func c07ClientAppend(s *c07Store, m *c07Ref, step string) {
	m.nextID++
	m.nextTS++
	uid := ""
	if zzsym.Choice(step+".sender", 2) == 1 {
		uid = "a"
	}
	cno := ""
	if c := zzsym.Choice(step+".cno", 3); c < 2 {
		cno = c07ClientNos[c]
	}
	r := c07Rec{id: m.nextID, uid: uid, cno: cno, payload: byte(m.nextID), ts: m.nextTS}
	m.ids = append(m.ids, r.id)
	_, held := m.pairHolder(r.uid, r.cno)
	res, err := s.log.Append(context.Background(), []Record{c07ToRecord(r)}, AppendOptions{Mode: AppendStrict})
	// only records with BOTH a sender and a client number take part in idempotency
	if uid != "" && cno != "" && held {
		zzsym.Assert(err != nil && errors.Is(err, dberrors.ErrConflict), "store: an append repeating a stored (sender, client number) is not refused with ErrConflict")
		return
	}
	// sender-less records do not take part in idempotency: a repeated client number is accepted
	zzsym.Reach("store-client-append")
	zzsym.Assert(err == nil && res.BaseSeq == m.leo+1 && res.Count == 1, "store: a valid append fails or gets the wrong sequence")
	m.leo++
	r.seq = m.leo
	m.rows = append(m.rows, r)
}

// Harness_C07_StoreClientIndex: seeded log (1: no sender / x, 2: a / x, 3: a / no number, 4: no sender / y; HW = 2),
// then 2 (thorough 3) operations from {truncate, trim, append (sender or not; x, y or no number), reopen};
// after every step the full reference comparison plus both client-number listings, and again
// after a final reopen.
func Harness_C07_StoreClientIndex() {
	s, m := c07FreshStore()
	// every combination: no sender / number, sender / number, sender / NO number, no sender / number
	seed := [4][2]string{{"", "x"}, {"a", "x"}, {"a", ""}, {"", "y"}}
	for i, p := range seed {
		m.nextID++
		m.nextTS++
		r := c07Rec{id: m.nextID, uid: p[0], cno: p[1], payload: byte(m.nextID), ts: m.nextTS}
		m.ids = append(m.ids, r.id)
		res, err := s.log.Append(context.Background(), []Record{c07ToRecord(r)}, AppendOptions{})
		zzsym.Assert(err == nil && res.BaseSeq == uint64(i+1), "store: seed append failed")
		m.leo++
		r.seq = m.leo
		m.rows = append(m.rows, r)
	}
	cp := Checkpoint{Epoch: 1, HW: 2}
	zzsym.Assert(s.log.StoreCheckpoint(context.Background(), cp) == nil, "store: seed checkpoint failed")
	m.hasCP, m.cp = true, cp
	c07CheckAgainst(s, m)
	c07CheckClientIndex(s, m)
	k := c07Ops(2, 3)
	for i := 0; i < k; i++ {
		step := "s" + string(rune('0'+i))
		switch zzsym.Choice(step+".op", 4) {
		case 0:
			c07Truncate(s, m, step)
		case 1:
			c07Trim(s, m, step)
		case 2:
			c07ClientAppend(s, m, step)
		default:
			s.reopen()
		}
		c07CheckAgainst(s, m)
		c07CheckClientIndex(s, m)
	}
	s.reopen()
	c07CheckAgainst(s, m)
	c07CheckClientIndex(s, m)
	zzsym.Reach("store-client-final")
	zzsym.Assert(s.log.Close() == nil && s.db.Close() == nil, "store: final close failed")
}
