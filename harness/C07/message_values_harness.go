package message

import (
	"bytes"
	"errors"

	"github.com/WuKongIM/WuKongIM/internal/zzsym"
	"github.com/WuKongIM/WuKongIM/pkg/db/internal/dberrors"
)

// Bounds of the row VALUE codec entries. The column codec writes every integer as a varint, whose
// length is a shape (10 lengths per 64-bit field), so the field space is explored one dimension at a
// time in the quick tier (columns are encoded and decoded independently, one after the other):
//
//	mode 0  one selected integer column takes ALL 64-bit values, the other integer columns all
//	        one-byte-varint values; every string/payload has length 1
//	mode 1  one selected string/payload column has length 0..2, the others length 1; integers one-byte
//	mode 2  all strings/payload share one length 0..2 (covers all-empty); integers one-byte
//	mode 3  (thorough only) wide integer x selected string of length 0..3
//
// uint8 columns and all string/payload bytes are unconstrained in every mode.
const (
	c07IntCols = 8
	c07StrCols = 7
)

type c07RowShape struct {
	wide   int // index of the full-width integer column, -1 none
	strSel int // index of the string column with its own length, -1 none
	selLen int
	base   int // length of the other strings
}

func c07Shape() c07RowShape {
	modes := 3
	if zzsym.Thorough() {
		modes = 4
	}
	switch zzsym.Choice("mode", modes) {
	case 0:
		return c07RowShape{wide: zzsym.Choice("wide", c07IntCols), strSel: -1, base: 1}
	case 1:
		return c07RowShape{wide: -1, strSel: zzsym.Choice("strsel", c07StrCols), selLen: c07Len("sellen", 2, 3), base: 1}
	case 2:
		return c07RowShape{wide: -1, strSel: -1, base: c07Len("alllen", 2, 3)}
	default:
		return c07RowShape{wide: zzsym.Choice("wide", c07IntCols), strSel: zzsym.Choice("strsel", c07StrCols), selLen: zzsym.Choice("sellen", 4), base: 1}
	}
}

func (s c07RowShape) u64(name string, col int) uint64 {
	if s.wide != col {
		// one-byte varint: 0..127
		return uint64(zzsym.U8(name) & 0x7f)
	}
	return zzsym.U64(name)
}

func (s c07RowShape) i64(name string, col int) int64 {
	if s.wide != col {
		// one-byte zig-zag varint: -64..63
		return int64(int8(zzsym.U8(name)<<1) >> 1)
	}
	return zzsym.I64(name)
}

func (s c07RowShape) strLen(col int) int {
	if s.strSel == col {
		return s.selLen
	}
	return s.base
}

// c07Row: a message row as the store holds it (MessageID != 0 as row.validate requires; payload
// hash/size explicit and non-zero so that normalizeMessageRow is the identity — the defaulting of
// both is covered by Harness_C07_AppendedRow).
func c07Row(s c07RowShape, seq uint64) messageRow {
	row := messageRow{
		MessageSeq:        seq,
		MessageID:         s.u64("MessageID", 0),
		FramerFlags:       zzsym.U8("FramerFlags"),
		Setting:           zzsym.U8("Setting"),
		StreamFlag:        zzsym.U8("StreamFlag"),
		MsgKey:            zzsym.String("MsgKey", s.strLen(0)),
		Expire:            s.u64("Expire", 1),
		ClientSeq:         s.u64("ClientSeq", 2),
		ClientMsgNo:       zzsym.String("ClientMsgNo", s.strLen(1)),
		StreamNo:          zzsym.String("StreamNo", s.strLen(2)),
		StreamID:          s.u64("StreamID", 3),
		Timestamp:         s.i64("Timestamp", 4),
		ServerTimestampMS: s.i64("ServerTimestampMS", 5),
		ChannelID:         zzsym.String("ChannelID", s.strLen(3)),
		ChannelType:       zzsym.U8("ChannelType"),
		Topic:             zzsym.String("Topic", s.strLen(4)),
		FromUID:           zzsym.String("FromUID", s.strLen(5)),
		PayloadHash:       s.u64("PayloadHash", 6),
		PayloadSize:       s.u64("PayloadSize", 7),
		Payload:           zzsym.Bytes("Payload", s.strLen(6)),
	}
	zzsym.Assume(row.MessageID != 0 && row.PayloadHash != 0 && row.PayloadSize != 0)
	return row
}

func c07RowsEqual(a, b messageRow) bool {
	return a.MessageSeq == b.MessageSeq && a.MessageID == b.MessageID && a.FramerFlags == b.FramerFlags &&
		a.Setting == b.Setting && a.StreamFlag == b.StreamFlag && a.MsgKey == b.MsgKey && a.Expire == b.Expire &&
		a.ClientSeq == b.ClientSeq && a.ClientMsgNo == b.ClientMsgNo && a.StreamNo == b.StreamNo &&
		a.StreamID == b.StreamID && a.Timestamp == b.Timestamp && a.ServerTimestampMS == b.ServerTimestampMS &&
		a.ChannelID == b.ChannelID && a.ChannelType == b.ChannelType && a.Topic == b.Topic && a.FromUID == b.FromUID &&
		a.PayloadHash == b.PayloadHash && a.PayloadSize == b.PayloadSize && bytes.Equal(a.Payload, b.Payload)
}

// Harness_C07_HeaderRoundTrip: the stored row value round-trips every field. encodeMessageHeaderTo
// (the live append path, exact-size destination from encodedMessageHeaderLen) and encodeMessageHeader
// (rowcodec.Writer) produce identical bytes; decodeMessageHeader under the same key returns exactly
// the row (MessageSeq comes from the key and is left as preset by the reader).
func Harness_C07_HeaderRoundTrip() {
	shape := c07Shape()
	seq := zzsym.U64("seq")
	ck := ChannelKey(zzsym.String("ck", 1))
	key := encodeMessageRowKey(ck, seq, messageHeaderFamilyID)
	row := c07Row(shape, seq)

	n := encodedMessageHeaderLen(row)
	dst := make([]byte, n)
	err := encodeMessageHeaderTo(dst, key, row)
	zzsym.Reach("header-encoded")
	zzsym.Assert(err == nil, "encodeMessageHeaderTo rejects a valid row with the exact-size destination")
	value, err2 := encodeMessageHeader(key, row)
	zzsym.Assert(err2 == nil, "encodeMessageHeader rejects a valid row")
	zzsym.Assert(bytes.Equal(value, dst), "encodeMessageHeader and encodeMessageHeaderTo disagree")

	got := messageRow{MessageSeq: seq}
	derr := decodeMessageHeader(key, dst, &got)
	zzsym.Reach("header-decoded")
	zzsym.Assert(derr == nil, "decodeMessageHeader rejects the stored value under its own key")
	zzsym.Assert(c07RowsEqual(got, row), "decodeMessageHeader(encodeMessageHeader(row)) != row")
	zzsym.Observe("hdrenv", uint64(dst[0]), uint64(dst[1]), uint64(dst[2]), uint64(dst[7]), uint64(dst[n-1]))
	zzsym.Observe("hdr", uint64(n), got.MessageID, got.Expire, got.ClientSeq, got.StreamID, uint64(got.Timestamp),
		uint64(got.ServerTimestampMS), got.PayloadHash, got.PayloadSize, uint64(len(got.Payload)), uint64(got.ChannelType))
}

// Harness_C07_PayloadRoundTrip: the payload-family value (portable backup envelope) round-trips
// the payload bytes; both encoders agree.
func Harness_C07_PayloadRoundTrip() {
	seq := zzsym.U64("seq")
	ck := ChannelKey(zzsym.String("ck", 1))
	key := encodeMessageRowKey(ck, seq, messagePayloadFamilyID)
	n := c07Len("payloadlen", 2, 3)
	row := messageRow{MessageSeq: seq, MessageID: zzsym.U64("MessageID"), Payload: zzsym.Bytes("Payload", n),
		PayloadHash: zzsym.U64("PayloadHash"), PayloadSize: zzsym.U64("PayloadSize")}
	zzsym.Assume(row.MessageID != 0 && row.PayloadHash != 0 && row.PayloadSize != 0)
	dst := make([]byte, encodedMessagePayloadLen(row))
	err := encodeMessagePayloadTo(dst, key, row)
	value, err2 := encodeMessagePayload(key, row)
	zzsym.Reach("payload-encoded")
	zzsym.Assert(err == nil && err2 == nil, "payload encoders reject a valid row")
	zzsym.Assert(bytes.Equal(value, dst), "encodeMessagePayload and encodeMessagePayloadTo disagree")
	var got messageRow
	derr := decodeMessagePayload(key, dst, &got)
	zzsym.Reach("payload-decoded")
	zzsym.Assert(derr == nil, "decodeMessagePayload rejects the stored value under its own key")
	zzsym.Assert(bytes.Equal(got.Payload, row.Payload), "decodeMessagePayload(encodeMessagePayload(row)).Payload != row.Payload")
	zzsym.Observe("pl", uint64(len(dst)), uint64(len(got.Payload)), uint64(dst[0]), uint64(dst[1]), uint64(dst[2]))
}

// c07SmallRow: a small valid row for the key-binding entries (they are about the envelope).
func c07SmallRow(seq uint64) messageRow {
	row := messageRow{MessageSeq: seq, MessageID: zzsym.U64("MessageID"), FromUID: zzsym.String("FromUID", 1),
		Payload: zzsym.Bytes("Payload", 1), PayloadHash: zzsym.U64("PayloadHash"), PayloadSize: 1}
	zzsym.Assume(row.MessageID != 0 && row.MessageID < 0x80 && row.PayloadHash != 0 && row.PayloadHash < 0x80)
	return row
}

// Harness_C07_ValueBoundToKey: the envelope checksum covers the key ("CRC32C verification over key,
// header, and payload"): a row value written under key k is rejected with ErrChecksumMismatch when it
// is read under a key that differs from k in one byte — another sequence (one differing byte),
// the other row family, or another channel of the same length.
func Harness_C07_ValueBoundToKey() {
	seq := zzsym.U64("seq")
	ckb := zzsym.U8("ck")
	ck := ChannelKey(string([]byte{ckb}))
	key := encodeMessageRowKey(ck, seq, messageHeaderFamilyID)
	row := c07SmallRow(seq)
	value, err := encodeMessageHeader(key, row)
	zzsym.Assert(err == nil, "encodeMessageHeader rejects a valid small row")

	var other []byte
	switch zzsym.Choice("diff", 3) {
	case 0:
		pos := uint(zzsym.Choice("pos", 8))
		d := zzsym.U8("d")
		zzsym.Assume(d != 0)
		other = encodeMessageRowKey(ck, seq^(uint64(d)<<(8*pos)), messageHeaderFamilyID)
		zzsym.Reach("bound-other-seq")
	case 1:
		other = encodeMessageRowKey(ck, seq, messagePayloadFamilyID)
		zzsym.Reach("bound-other-family")
	default:
		d := zzsym.U8("d")
		zzsym.Assume(d != 0)
		other = encodeMessageRowKey(ChannelKey(string([]byte{ckb ^ d})), seq, messageHeaderFamilyID)
		zzsym.Reach("bound-other-channel")
	}
	zzsym.Assert(len(other) == len(key) && !bytes.Equal(other, key), "harness: other key must differ")
	var got messageRow
	derr := decodeMessageHeader(other, value, &got)
	zzsym.Assert(derr != nil, "row value accepted under a different key")
	zzsym.Assert(errors.Is(derr, dberrors.ErrChecksumMismatch), "row value under a different key is not rejected as a checksum mismatch")
	var ok messageRow
	zzsym.Assert(decodeMessageHeader(key, value, &ok) == nil, "row value rejected under its own key")
	// the stored checksum bytes: compared with the real CRC32C by the native self-test
	zzsym.Observe("crc", uint64(value[3]), uint64(value[4]), uint64(value[5]), uint64(value[6]), uint64(len(value)))
}

// Harness_C07_IndexValues: the fixed-layout index / catalog values round-trip and reject other
// lengths: idempotency entry (seq, message id, payload hash; Offset = seq-1), message-id entry,
// global message-id entry (channel key, seq), catalog entry (channel id, channel type).
func Harness_C07_IndexValues() {
	switch zzsym.Choice("which", 4) {
	case 0:
		row := messageRow{MessageSeq: zzsym.U64("seq"), MessageID: zzsym.U64("id"), PayloadHash: zzsym.U64("hash")}
		zzsym.Assume(row.MessageID != 0)
		// stored rows are normalised: a zero PayloadHash with no payload bytes is replaced by the hash of
		// the empty payload (since the C07-F1 repair), so the raw value 0 is not a storable hash
		zzsym.Assume(row.PayloadHash != 0)
		v, err := encodeIdempotencyIndexValue(row)
		zzsym.Assert(err == nil && len(v) == idempotencyIndexValueLen, "encodeIdempotencyIndexValue rejects a valid row")
		hit, derr := decodeIdempotencyIndexValue(v)
		zzsym.Reach("val-idempotency")
		zzsym.Assert(derr == nil && hit.MessageSeq == row.MessageSeq && hit.MessageID == row.MessageID && hit.PayloadHash == row.PayloadHash,
			"idempotency index value does not round-trip")
		zzsym.Assert(row.MessageSeq == 0 || hit.Offset == row.MessageSeq-1, "idempotency hit offset is not seq-1")
		_, serr := decodeIdempotencyIndexValue(v[:len(v)-1])
		zzsym.Assert(serr != nil, "truncated idempotency index value accepted")
		zzsym.Observe("v0", hit.MessageSeq, hit.MessageID, hit.PayloadHash, hit.Offset)
	case 1:
		seq := zzsym.U64("seq")
		v := encodeMessageIDIndexValue(seq)
		got, derr := decodeMessageIDIndexValue(v)
		zzsym.Reach("val-message-id")
		zzsym.Assert(derr == nil && got == seq, "message id index value does not round-trip")
		_, serr := decodeMessageIDIndexValue(v[:len(v)-1])
		zzsym.Assert(serr != nil, "truncated message id index value accepted")
		zzsym.Observe("v1", got)
	case 2:
		ck := c07ChannelKey("ck")
		seq := zzsym.U64("seq")
		v := encodeGlobalMessageIDIndexValue(ck, seq)
		gotKey, gotSeq, derr := decodeGlobalMessageIDIndexValue(v)
		if ck == "" || seq == 0 {
			// documented as corrupt: the global index never points at the empty channel key / seq 0
			zzsym.Reach("val-global-id-rejected")
			zzsym.Assert(derr != nil, "global message id value with empty channel key or seq 0 accepted")
			return
		}
		zzsym.Reach("val-global-id")
		zzsym.Assert(derr == nil && gotKey == ck && gotSeq == seq, "global message id index value does not round-trip")
		_, _, serr := decodeGlobalMessageIDIndexValue(v[:len(v)-1])
		zzsym.Assert(serr != nil, "truncated global message id value accepted")
		zzsym.Observe("v2", gotSeq, uint64(len(gotKey)))
	default:
		id := ChannelID{ID: c07Str("id", 2, 3), Type: zzsym.U8("type")}
		v := encodeCatalogValue(id)
		got, derr := decodeCatalogValue(v)
		zzsym.Reach("val-catalog")
		zzsym.Assert(derr == nil && got == id, "catalog value does not round-trip")
		_, serr := decodeCatalogValue(v[:len(v)-1])
		zzsym.Assert(serr != nil, "truncated catalog value accepted")
		_, lerr := decodeCatalogValue(append(append([]byte(nil), v...), 0))
		zzsym.Assert(lerr != nil, "catalog value with trailing byte accepted")
		zzsym.Observe("v3", uint64(got.Type), uint64(len(got.ID)))
	}
}

// c07AppendedRow: the row the append path builds from a caller Record
// (recordToRow + normalizeMessageRow: default server timestamp, payload size and FNV-1a payload hash),
// written exactly as stageMessageHeaderRow writes it (cached key writer, encodeMessageHeaderTo into an
// exact-size buffer) and read back exactly as getRowBySeq reads it (decodeMessageHeader +
// validateMaterializedMessageRow), is the appended record: same id, sender, client number, payload
// bytes, channel identity, timestamp, size. Returns the reader's verdict.
func c07AppendedRow(strMax, payloadLen int) error {
	ck := ChannelKey(zzsym.String("ck", 1))
	id := ChannelID{ID: zzsym.String("cid", 1), Type: zzsym.U8("ctype")}
	l := &ChannelLog{channelEntry: &channelEntry{key: ck, id: id}}
	seq := zzsym.U64("seq")
	rec := Record{
		ID:                zzsym.U64("id"),
		ClientMsgNo:       zzsym.String("cno", zzsym.Choice("cno.len", strMax+1)),
		FromUID:           zzsym.String("uid", zzsym.Choice("uid.len", strMax+1)),
		Payload:           zzsym.Bytes("payload", payloadLen),
		SizeBytes:         zzsym.Int("size"),
		ServerTimestampMS: zzsym.I64("ts"),
	}
	defTS := zzsym.I64("defts")
	zzsym.Assume(rec.ID != 0 && rec.ID < 0x80)
	zzsym.Assume(rec.SizeBytes >= 0 && rec.SizeBytes < 0x80)
	zzsym.Assume(rec.ServerTimestampMS >= 0 && rec.ServerTimestampMS < 64 && defTS > 0 && defTS < 64)
	row := normalizeMessageRow(l.recordToRow(seq, rec, defTS))

	cache := newAppendKeyCache(ck, id)
	key := cache.messageRowKey(seq, messageHeaderFamilyID)
	dst := make([]byte, encodedMessageHeaderLen(row))
	err := encodeMessageHeaderTo(dst, key, row)
	zzsym.Assert(err == nil, "append path: encodeMessageHeaderTo rejects the row built from a valid record")

	readKey := encodeMessageRowKey(ck, seq, messageHeaderFamilyID)
	got := messageRow{MessageSeq: seq}
	derr := decodeMessageHeader(readKey, dst, &got)
	zzsym.Reach("appended-row-decoded")
	zzsym.Assert(derr == nil, "read path: decodeMessageHeader rejects the appended row")
	wantTS := rec.ServerTimestampMS
	if wantTS == 0 {
		wantTS = defTS
	}
	wantSize := uint64(len(rec.Payload))
	if rec.SizeBytes > 0 {
		wantSize = uint64(rec.SizeBytes)
	}
	zzsym.Assert(got.MessageSeq == seq && got.MessageID == rec.ID && got.ClientMsgNo == rec.ClientMsgNo && got.FromUID == rec.FromUID &&
		bytes.Equal(got.Payload, rec.Payload) && got.ChannelID == id.ID && got.ChannelType == id.Type && got.ServerTimestampMS == wantTS,
		"appended row read back differs from the record")
	zzsym.Assert(got.PayloadSize == wantSize, "appended row payload size is neither SizeBytes nor len(payload)")
	verr := validateMaterializedMessageRow(got)
	zzsym.Observe("app", got.MessageID, got.PayloadSize, uint64(got.ServerTimestampMS), uint64(len(got.Payload)), zzsym.B2U(verr == nil))
	return verr
}

// Harness_C07_AppendedRow: NON-EMPTY payloads (1 byte; 1..2 thorough): the appended row is read back
// identically and the reader accepts it (hard obligation).
func Harness_C07_AppendedRow() {
	strMax, n := 1, 1
	if zzsym.Thorough() {
		strMax, n = 2, 1+zzsym.Choice("payloadlen", 2)
	}
	verr := c07AppendedRow(strMax, n)
	zzsym.Reach("appended-row-accepted")
	zzsym.Assert(verr == nil, "the reader rejects a non-empty row stored by the append path")
}

// Harness_C07_AppendedRowEmptyPayload: known finding C07-F1, isolated in its own entry. For an EMPTY
// payload normalizeMessageRow leaves PayloadHash 0, while the reader demands hashPayload(nil) (the
// FNV offset basis): the row stored by the append path is rejected as "payload hash mismatch".
func Harness_C07_AppendedRowEmptyPayload() {
	verr := c07AppendedRow(1, 0)
	zzsym.Reach("appended-empty-row")
	zzsym.AssertKnown(verr == nil, "the reader rejects a row stored by the append path", "C07-F1", true)
}
