package keycodec

import (
	"bytes"

	"github.com/WuKongIM/WuKongIM/internal/zzsym"
)

func c07Len(name string, quick, thorough int) int {
	max := quick
	if zzsym.Thorough() {
		max = thorough
	}
	return zzsym.Choice(name, max+1)
}

func c07Sign(x int) int {
	if x < 0 {
		return -1
	}
	if x > 0 {
		return 1
	}
	return 0
}

// Harness_C07_IntegerOrder: the fixed-width integer key parts are order-(anti)isomorphisms from the
// integers to byte strings under bytes.Compare, for ALL values: AppendInt64Ordered is strictly
// monotone on int64, AppendInt64Desc strictly antitone, AppendUint64/32/16 strictly monotone on the
// unsigned values; all have a fixed width and append to (never overwrite) the destination.
func Harness_C07_IntegerOrder() {
	a, b := zzsym.I64("a"), zzsym.I64("b")
	want := 0
	if a < b {
		want = -1
	} else if a > b {
		want = 1
	}
	ea, eb := AppendInt64Ordered(nil, a), AppendInt64Ordered(nil, b)
	zzsym.Reach("int64-ordered")
	zzsym.Assert(len(ea) == 8 && len(eb) == 8, "AppendInt64Ordered width is not 8")
	zzsym.Assert(c07Sign(bytes.Compare(ea, eb)) == want, "AppendInt64Ordered does not preserve int64 order")
	da, db := AppendInt64Desc(nil, a), AppendInt64Desc(nil, b)
	zzsym.Reach("int64-desc")
	zzsym.Assert(len(da) == 8 && len(db) == 8, "AppendInt64Desc width is not 8")
	zzsym.Assert(c07Sign(bytes.Compare(da, db)) == -want, "AppendInt64Desc does not reverse int64 order")

	ua, ub := zzsym.U64("ua"), zzsym.U64("ub")
	uwant := 0
	if ua < ub {
		uwant = -1
	} else if ua > ub {
		uwant = 1
	}
	xa, xb := AppendUint64(nil, ua), AppendUint64(nil, ub)
	zzsym.Reach("uint64")
	zzsym.Assert(len(xa) == 8 && len(xb) == 8, "AppendUint64 width is not 8")
	zzsym.Assert(c07Sign(bytes.Compare(xa, xb)) == uwant, "AppendUint64 does not preserve uint64 order")

	wa, wb := zzsym.U32("wa"), zzsym.U32("wb")
	wwant := 0
	if wa < wb {
		wwant = -1
	} else if wa > wb {
		wwant = 1
	}
	ya, yb := AppendUint32(nil, wa), AppendUint32(nil, wb)
	zzsym.Assert(len(ya) == 4 && len(yb) == 4, "AppendUint32 width is not 4")
	zzsym.Assert(c07Sign(bytes.Compare(ya, yb)) == wwant, "AppendUint32 does not preserve uint32 order")

	ha, hb := zzsym.U16("ha"), zzsym.U16("hb")
	hwant := 0
	if ha < hb {
		hwant = -1
	} else if ha > hb {
		hwant = 1
	}
	za, zb := AppendUint16(nil, ha), AppendUint16(nil, hb)
	zzsym.Assert(len(za) == 2 && len(zb) == 2, "AppendUint16 width is not 2")
	zzsym.Assert(c07Sign(bytes.Compare(za, zb)) == hwant, "AppendUint16 does not preserve uint16 order")

	// appending keeps the destination prefix (the Builder chains these calls)
	pre := zzsym.Bytes("pre", 2)
	p0, p1 := pre[0], pre[1]
	o := AppendInt64Ordered(pre, a)
	zzsym.Assert(len(o) == 10 && o[0] == p0 && o[1] == p1 && bytes.Equal(o[2:], ea), "AppendInt64Ordered does not append")
	d := AppendInt64Desc(pre[:2:2], a)
	zzsym.Assert(len(d) == 10 && d[0] == p0 && d[1] == p1 && bytes.Equal(d[2:], da), "AppendInt64Desc does not append")
	// the Builder methods are the same encodings
	var bl Builder
	bk := bl.Reset().Int64Ordered(a).Int64Desc(b).Uint64(ua).Family(ha).Key()
	zzsym.Assert(len(bk) == 26 && bytes.Equal(bk[0:8], ea) && bytes.Equal(bk[8:16], db) && bytes.Equal(bk[16:24], xa) && bytes.Equal(bk[24:26], za),
		"Builder integer parts differ from the Append functions")
	zzsym.Observe("ints", uint64(ea[0]), uint64(ea[7]), uint64(da[0]), uint64(da[7]), uint64(xa[0]), uint64(ya[3]), uint64(za[1]))
}

// Harness_C07_StringPart: the length-prefixed string key part round-trips through ReadString with the
// exact remainder, and is prefix-free: the encoding of s1 is a prefix of (encoding of s2 followed by
// anything) only if s1 == s2.
func Harness_C07_StringPart() {
	n1 := c07Len("n1", 2, 3)
	n2 := c07Len("n2", 2, 3)
	nt := c07Len("nt", 2, 3)
	s1 := zzsym.String("s1", n1)
	s2 := zzsym.String("s2", n2)
	tail := zzsym.Bytes("tail", nt)
	e1 := AppendString(nil, s1)
	zzsym.Assert(len(e1) == 2+n1, "AppendString length")
	full := append(AppendString(nil, s2), tail...)
	got, rest, err := ReadString(full)
	zzsym.Reach("string-roundtrip")
	zzsym.Assert(err == nil, "ReadString rejects AppendString output")
	zzsym.Assert(got == s2, "ReadString(AppendString(s)) != s")
	zzsym.Assert(bytes.Equal(rest, tail), "ReadString remainder differs")
	if bytes.HasPrefix(full, e1) {
		zzsym.Reach("string-prefix")
		zzsym.Assert(s1 == s2, "string key part is not prefix-free")
	} else {
		zzsym.Reach("string-not-prefix")
		zzsym.Assert(s1 != s2, "equal strings encode differently")
	}
	// every strict truncation of an encoded string is rejected, never read out of range
	cut := zzsym.Choice("cut", 2+n2)
	_, _, terr := ReadString(full[:cut])
	zzsym.Reach("string-truncated")
	zzsym.Assert(terr != nil, "truncated string key part accepted")
	zzsym.Observe("str", uint64(len(got)), uint64(len(rest)), uint64(e1[0]), uint64(e1[1]))
}

// Harness_C07_PrefixEnd: for every prefix p that contains a byte other than 0xff and every key k,
// k has prefix p  <=>  p <= k < PrefixEnd(p)  (bytes.Compare). So PrefixEnd(p) is an upper bound of
// the keys with prefix p, and it is the least one (nothing without the prefix lies in between);
// NewPrefixSpan is exactly that half-open interval and does not alias its argument.
func Harness_C07_PrefixEnd() {
	np := c07Len("np", 3, 4)
	nk := c07Len("nk", 4, 5)
	p := zzsym.Bytes("p", np)
	k := zzsym.Bytes("k", nk)
	allFF := true
	for i := 0; i < np; i++ {
		if p[i] != 0xff {
			allFF = false
		}
	}
	end := PrefixEnd(p)
	if allFF {
		// no upper bound exists (documented fallback []byte{0xff}); message keys always start with
		// the domain byte 0x01, so this case is unreachable for the message store.
		zzsym.Reach("prefixend-allff")
		zzsym.Assert(len(end) == 1 && end[0] == 0xff, "PrefixEnd fallback for an all-0xff prefix")
		return
	}
	zzsym.Assert(bytes.Compare(p, end) < 0, "PrefixEnd(p) <= p")
	zzsym.Assert(!bytes.HasPrefix(end, p), "PrefixEnd(p) has prefix p")
	inSpan := bytes.Compare(p, k) <= 0 && bytes.Compare(k, end) < 0
	if bytes.HasPrefix(k, p) {
		zzsym.Reach("prefixend-inside")
		zzsym.Assert(inSpan, "a key with the prefix lies outside [p, PrefixEnd(p))")
	} else {
		zzsym.Reach("prefixend-outside")
		zzsym.Assert(!inSpan, "a key without the prefix lies inside [p, PrefixEnd(p)): PrefixEnd is not the least upper bound")
	}
	span := NewPrefixSpan(p)
	zzsym.Assert(bytes.Equal(span.Start, p) && bytes.Equal(span.End, end), "NewPrefixSpan is not [p, PrefixEnd(p))")
	if np > 0 {
		old := p[0]
		p[0] ^= 0x55
		zzsym.Assert(span.Start[0] == old, "NewPrefixSpan aliases the caller's prefix")
		p[0] = old
	}
	zzsym.Observe("pe", uint64(len(end)), uint64(end[len(end)-1]), zzsym.B2U(inSpan))
}
