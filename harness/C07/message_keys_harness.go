package message

import (
	"bytes"

	"github.com/WuKongIM/WuKongIM/internal/zzsym"
	"github.com/WuKongIM/WuKongIM/pkg/db/internal/keycodec"
)

func c07Len(name string, quick, thorough int) int {
	max := quick
	if zzsym.Thorough() {
		max = thorough
	}
	return zzsym.Choice(name, max+1)
}

func c07Sign(x int) int {
	if x < 0 {
		return -1
	}
	if x > 0 {
		return 1
	}
	return 0
}

// c07ChannelKey: a channel partition key of length 0..2 (0..3 thorough), every byte value.
func c07ChannelKey(name string) ChannelKey {
	n := c07Len(name+".len", 2, 3)
	return ChannelKey(zzsym.String(name, n))
}

func c07Str(name string, quick, thorough int) string {
	n := c07Len(name+".len", quick, thorough)
	return zzsym.String(name, n)
}

// c07InSpan reports start <= k < PrefixEnd(start) using the real span constructor.
func c07InSpan(prefix, k []byte) bool {
	span := keycodec.NewPrefixSpan(prefix)
	return bytes.Compare(span.Start, k) <= 0 && bytes.Compare(k, span.End) < 0
}

// Harness_C07_RowKey: primary row keys of one channel are ordered (bytes.Compare) exactly like
// (seq, family) — in particular strictly increasing in seq for a fixed family —,
// decodeMessageRowKey inverts encodeMessageRowKey, rejects truncated/extended keys and keys of
// another channel, the append path's cached key writer produces the identical bytes, and every row
// key lies inside the channel's row prefix span (the range recoverLEO / Read iterate).
func Harness_C07_RowKey() {
	ck := c07ChannelKey("ck")
	seq1, seq2 := zzsym.U64("seq1"), zzsym.U64("seq2")
	fam1, fam2 := zzsym.U16("fam1"), zzsym.U16("fam2")
	k1 := encodeMessageRowKey(ck, seq1, fam1)
	k2 := encodeMessageRowKey(ck, seq2, fam2)
	s, f, ok := decodeMessageRowKey(ck, k1)
	zzsym.Reach("rowkey-decoded")
	zzsym.Assert(ok, "decodeMessageRowKey rejects encodeMessageRowKey output")
	zzsym.Assert(s == seq1 && f == fam1, "decodeMessageRowKey(encodeMessageRowKey(seq, family)) != (seq, family)")

	want := 0
	if seq1 < seq2 || (seq1 == seq2 && fam1 < fam2) {
		want = -1
	} else if seq1 > seq2 || fam1 > fam2 {
		want = 1
	}
	zzsym.Assert(c07Sign(bytes.Compare(k1, k2)) == want, "row keys are not ordered like (seq, family)")
	if fam1 == fam2 && seq1 < seq2 {
		zzsym.Reach("rowkey-increasing")
		zzsym.Assert(bytes.Compare(k1, k2) < 0, "row keys are not strictly increasing in seq for a fixed family")
	}

	prefix := encodeMessageRowPrefix(ck)
	zzsym.Assert(bytes.HasPrefix(k1, prefix) && len(k1) == len(prefix)+10, "row key is not row prefix + 10 bytes")
	zzsym.Assert(c07InSpan(prefix, k1), "row key outside the channel's row prefix span")

	cache := newAppendKeyCache(ck, ChannelID{ID: string(ck), Type: zzsym.U8("ctype")})
	zzsym.Assert(cache.initialized(), "append key cache not initialized")
	zzsym.Assert(bytes.Equal(cache.rowPrefix, prefix), "cached row prefix differs from encodeMessageRowPrefix")
	zzsym.Assert(bytes.Equal(cache.messageRowKey(seq1, fam1), k1), "cached row key writer differs from encodeMessageRowKey")
	zzsym.Assert(cache.messageRowKeyLen() == len(k1), "cached row key length differs")

	// malformed keys
	cut := zzsym.Choice("cut", 3)
	var bad []byte
	switch cut {
	case 0:
		bad = k1[:len(k1)-1]
	case 1:
		bad = append(append([]byte(nil), k1...), zzsym.U8("extra"))
	default:
		bad = k1[:len(prefix)]
	}
	_, _, okBad := decodeMessageRowKey(ck, bad)
	zzsym.Reach("rowkey-malformed")
	zzsym.Assert(!okBad, "decodeMessageRowKey accepts a key of the wrong length")
	zzsym.Observe("rowkey", s, uint64(f), uint64(len(k1)), uint64(k1[len(k1)-1]), uint64(k1[len(prefix)]))
}

// Harness_C07_RowKeyOtherChannel: a row key of channel A is never decoded as a row of channel B != A.
func Harness_C07_RowKeyOtherChannel() {
	a := c07ChannelKey("a")
	b := c07ChannelKey("b")
	zzsym.Assume(a != b)
	k := encodeMessageRowKey(a, zzsym.U64("seq"), zzsym.U16("fam"))
	_, _, ok := decodeMessageRowKey(b, k)
	zzsym.Reach("rowkey-other-channel")
	zzsym.Assert(!ok, "row key of channel A decoded under channel B")
}

// Harness_C07_IndexKeys: every index / system / catalog key decoder inverts its encoder, index keys
// with a sequence suffix are strictly increasing in that sequence, and the append path's cached key
// writers produce byte-identical keys to the canonical encoders.
func Harness_C07_IndexKeys() {
	ck := c07ChannelKey("ck")
	cache := newAppendKeyCache(ck, ChannelID{ID: string(ck), Type: zzsym.U8("ctype")})
	which := zzsym.Choice("which", 10)
	switch which {
	case 0: // per-channel message-id index
		id := zzsym.U64("id")
		k := encodeMessageIDIndexKey(ck, id)
		got, ok := decodeMessageIDIndexKey(ck, k)
		zzsym.Reach("idx-message-id")
		zzsym.Assert(ok && got == id, "decodeMessageIDIndexKey does not invert encodeMessageIDIndexKey")
		_, okShort := decodeMessageIDIndexKey(ck, k[:len(k)-1])
		zzsym.Assert(!okShort, "decodeMessageIDIndexKey accepts a truncated key")
		zzsym.Observe("idx0", got, uint64(len(k)))
	case 1: // senderless client message number index
		cno := c07Str("cno", 2, 3)
		s1, s2 := zzsym.U64("s1"), zzsym.U64("s2")
		k1 := encodeMessageClientMsgNoIndexKey(ck, cno, s1)
		k2 := encodeMessageClientMsgNoIndexKey(ck, cno, s2)
		got, ok := decodeMessageClientMsgNoIndexSeq(ck, cno, k1)
		zzsym.Reach("idx-client-msg-no")
		zzsym.Assert(ok && got == s1, "decodeMessageClientMsgNoIndexSeq does not invert encodeMessageClientMsgNoIndexKey")
		zzsym.Assert((s1 < s2) == (bytes.Compare(k1, k2) < 0), "client message number index keys are not ordered by seq")
		zzsym.Assert(bytes.Equal(cache.clientMsgNoIndexKey(cno, s1), k1), "cached clientMsgNoIndexKey differs")
		buf := make([]byte, cache.clientMsgNoIndexKeyLen(cno))
		cache.writeClientMsgNoIndexKey(buf, cno, s1)
		zzsym.Assert(bytes.Equal(buf, k1), "cached writeClientMsgNoIndexKey differs")
		zzsym.Assert(c07InSpan(encodeMessageClientMsgNoIndexPrefix(ck, cno), k1), "client message number key outside its prefix span")
		_, okShort := decodeMessageClientMsgNoIndexSeq(ck, cno, k1[:len(k1)-1])
		zzsym.Assert(!okShort, "decodeMessageClientMsgNoIndexSeq accepts a truncated key")
		zzsym.Observe("idx1", got, uint64(len(k1)))
	case 2: // (client message number, sender) idempotency index
		cno := c07Str("cno", 2, 3)
		uid := c07Str("uid", 2, 3)
		k := encodeMessageIdempotencyIndexKey(ck, uid, cno)
		zzsym.Reach("idx-idempotency")
		zzsym.Assert(bytes.Equal(cache.idempotencyIndexKey(uid, cno), k), "cached idempotencyIndexKey differs")
		zzsym.Assert(bytes.Equal(cache.idempotencyIndexKeyTo(nil, uid, cno), k), "cached idempotencyIndexKeyTo differs")
		scratch := zzsym.Bytes("scratch", 40)
		zzsym.Assert(bytes.Equal(cache.idempotencyIndexKeyTo(scratch[:0], uid, cno), k), "cached idempotencyIndexKeyTo into scratch differs")
		zzsym.Assert(len(k) == cache.idempotencyIndexKeyLen(uid, cno), "idempotencyIndexKeyLen differs")
		zzsym.Assert(c07InSpan(cache.idempotencyIndexPrefix, k), "idempotency key outside the span the membership filter is rebuilt from")
		zzsym.Assert(c07InSpan(encodeMessageClientLookupIndexPrefix(ck, cno), k), "idempotency key outside its client lookup prefix span")
		// decode by hand with the real string reader: client number first, then sender
		rest := k[len(cache.idempotencyIndexPrefix):]
		gotCno, rest, err1 := keycodec.ReadString(rest)
		gotUID, rest, err2 := keycodec.ReadString(rest)
		zzsym.Assert(err1 == nil && err2 == nil && len(rest) == 0 && gotCno == cno && gotUID == uid, "idempotency key is not prefix ++ string(clientMsgNo) ++ string(fromUID)")
		zzsym.Observe("idx2", uint64(len(k)))
	case 3: // (sender, seq) index
		uid := c07Str("uid", 2, 3)
		s1, s2 := zzsym.U64("s1"), zzsym.U64("s2")
		k1 := encodeMessageSenderSeqIndexKey(ck, uid, s1)
		k2 := encodeMessageSenderSeqIndexKey(ck, uid, s2)
		got, ok := decodeMessageSenderSeqIndexSeq(ck, uid, k1)
		zzsym.Reach("idx-sender-seq")
		zzsym.Assert(ok && got == s1, "decodeMessageSenderSeqIndexSeq does not invert encodeMessageSenderSeqIndexKey")
		zzsym.Assert((s1 < s2) == (bytes.Compare(k1, k2) < 0), "sender sequence index keys are not ordered by seq")
		buf := make([]byte, cache.senderSeqIndexKeyLen(uid))
		cache.writeSenderSeqIndexKey(buf, uid, s1)
		zzsym.Assert(bytes.Equal(buf, k1), "cached writeSenderSeqIndexKey differs")
		zzsym.Assert(c07InSpan(encodeMessageSenderSeqIndexPrefix(ck, uid), k1), "sender sequence key outside its prefix span")
		_, okLong := decodeMessageSenderSeqIndexSeq(ck, uid, append(append([]byte(nil), k1...), 0))
		zzsym.Assert(!okLong, "decodeMessageSenderSeqIndexSeq accepts an extended key")
		zzsym.Observe("idx3", got, uint64(len(k1)))
	case 4: // global message-id index
		id1, id2 := zzsym.U64("id1"), zzsym.U64("id2")
		k1 := encodeGlobalMessageIDIndexKey(id1)
		k2 := encodeGlobalMessageIDIndexKey(id2)
		got, ok := decodeGlobalMessageIDIndexKey(k1)
		zzsym.Reach("idx-global-id")
		zzsym.Assert(ok && got == id1, "decodeGlobalMessageIDIndexKey does not invert encodeGlobalMessageIDIndexKey")
		zzsym.Assert((id1 == id2) == bytes.Equal(k1, k2), "global message id index key is not injective")
		zzsym.Assert(bytes.Equal(cache.globalMessageIDIndexKeyTo(nil, id1), k1), "cached globalMessageIDIndexKeyTo differs")
		scratch := zzsym.Bytes("scratch", 32)
		zzsym.Assert(bytes.Equal(cache.globalMessageIDIndexKeyTo(scratch[:0], id1), k1), "cached globalMessageIDIndexKeyTo into scratch differs")
		_, okShort := decodeGlobalMessageIDIndexKey(k1[:len(k1)-1])
		zzsym.Assert(!okShort, "decodeGlobalMessageIDIndexKey accepts a truncated key")
		zzsym.Observe("idx4", got, uint64(len(k1)))
	case 5: // proposal-by-last-offset
		o1, o2 := zzsym.U64("o1"), zzsym.U64("o2")
		k1 := encodeProposalByLastKey(ck, o1)
		k2 := encodeProposalByLastKey(ck, o2)
		got, ok := decodeProposalByLastKey(ck, k1)
		zzsym.Reach("sys-proposal-by-last")
		zzsym.Assert(ok && got == o1, "decodeProposalByLastKey does not invert encodeProposalByLastKey")
		zzsym.Assert((o1 < o2) == (bytes.Compare(k1, k2) < 0), "proposal-by-last keys are not ordered by offset")
		zzsym.Assert(c07InSpan(encodeProposalByLastPrefix(ck), k1), "proposal-by-last key outside its prefix span")
		zzsym.Observe("idx5", got, uint64(len(k1)))
	case 6: // proposal-by-command
		var cmd [32]byte
		copy(cmd[:], zzsym.Bytes("cmd", 32))
		k := encodeProposalByCommandKey(ck, cmd)
		got, ok := decodeProposalByCommandKey(ck, k)
		zzsym.Reach("sys-proposal-by-command")
		zzsym.Assert(ok && got == cmd, "decodeProposalByCommandKey does not invert encodeProposalByCommandKey")
		_, okShort := decodeProposalByCommandKey(ck, k[:len(k)-1])
		zzsym.Assert(!okShort, "decodeProposalByCommandKey accepts a truncated key")
		zzsym.Observe("idx6", uint64(got[0]), uint64(got[31]), uint64(len(k)))
	case 7: // entry identity
		i1, i2 := zzsym.U64("i1"), zzsym.U64("i2")
		k1 := encodeEntryIdentityKey(ck, i1)
		k2 := encodeEntryIdentityKey(ck, i2)
		got, ok := decodeEntryIdentityKey(ck, k1)
		zzsym.Reach("sys-entry-identity")
		zzsym.Assert(ok && got == i1, "decodeEntryIdentityKey does not invert encodeEntryIdentityKey")
		zzsym.Assert((i1 < i2) == (bytes.Compare(k1, k2) < 0), "entry identity keys are not ordered by index")
		zzsym.Assert(c07InSpan(encodeEntryIdentityPrefix(ck), k1), "entry identity key outside its prefix span")
		zzsym.Observe("idx7", got, uint64(len(k1)))
	case 8: // catalog
		k := encodeCatalogKey(ck)
		got, ok := decodeCatalogKey(k)
		zzsym.Reach("catalog")
		zzsym.Assert(ok && got == ck, "decodeCatalogKey does not invert encodeCatalogKey")
		zzsym.Assert(bytes.Equal(cache.catalogKey, k), "cached catalog key differs")
		zzsym.Assert(c07InSpan(encodeCatalogPrefix(), k), "catalog key outside the catalog span")
		_, okLong := decodeCatalogKey(append(append([]byte(nil), k...), zzsym.U8("extra")))
		zzsym.Assert(!okLong, "decodeCatalogKey accepts trailing bytes")
		if len(k) > len(encodeCatalogPrefix()) {
			_, okShort := decodeCatalogKey(k[:len(k)-1])
			zzsym.Assert(!okShort, "decodeCatalogKey accepts a truncated key")
		}
		zzsym.Observe("idx8", uint64(len(got)), uint64(len(k)))
	default: // epoch history point: key (start offset, epoch) + value, checked against each other
		p := EpochPoint{Epoch: zzsym.U64("epoch"), StartOffset: zzsym.U64("start")}
		q := EpochPoint{Epoch: zzsym.U64("epoch2"), StartOffset: zzsym.U64("start2")}
		k := encodeHistoryPointKey(ck, p)
		k2 := encodeHistoryPointKey(ck, q)
		got, err := decodeEpochPointFromKeyValue(ck, k, func() ([]byte, error) { return encodeEpochPoint(p), nil })
		zzsym.Reach("sys-history")
		zzsym.Assert(err == nil && got == p, "decodeEpochPointFromKeyValue does not invert encodeHistoryPointKey/encodeEpochPoint")
		wantLess := p.StartOffset < q.StartOffset || (p.StartOffset == q.StartOffset && p.Epoch < q.Epoch)
		zzsym.Assert(wantLess == (bytes.Compare(k, k2) < 0), "history keys are not ordered by (start offset, epoch)")
		zzsym.Assert(c07InSpan(encodeHistoryPrefix(ck), k), "history key outside its prefix span")
		if p != q {
			_, merr := decodeEpochPointFromKeyValue(ck, k, func() ([]byte, error) { return encodeEpochPoint(q), nil })
			zzsym.Reach("sys-history-mismatch")
			zzsym.Assert(merr != nil, "history value of another point accepted under this key")
		}
		zzsym.Observe("idx9", got.Epoch, got.StartOffset, uint64(len(k)))
	}
}

// Harness_C07_IdempotencyKeyInjective: within one channel the idempotency index key is an injective
// function of (sender, client message number), and the key of (cno1, uid1) lies inside the client
// lookup prefix span of cno2 only if cno1 == cno2 (length-prefixed parts are prefix-free): a lookup
// by (sender, client number) can only ever see the row of that pair. The same for the sender
// sequence index: a key of sender uid1 lies in the prefix span of uid2 only if uid1 == uid2.
func Harness_C07_IdempotencyKeyInjective() {
	ck := c07ChannelKey("ck")
	cno1, uid1 := c07Str("cno1", 2, 2), c07Str("uid1", 2, 2)
	cno2, uid2 := c07Str("cno2", 2, 2), c07Str("uid2", 2, 2)
	k1 := encodeMessageIdempotencyIndexKey(ck, uid1, cno1)
	k2 := encodeMessageIdempotencyIndexKey(ck, uid2, cno2)
	zzsym.Reach("idem-injective")
	zzsym.Assert(bytes.Equal(k1, k2) == (cno1 == cno2 && uid1 == uid2), "idempotency index key is not injective in (sender, client message number)")
	p2 := encodeMessageClientLookupIndexPrefix(ck, cno2)
	zzsym.Assert((bytes.HasPrefix(k1, p2) || c07InSpan(p2, k1)) == (cno1 == cno2), "idempotency key inside the lookup span of another client message number")

	seq := zzsym.U64("seq")
	s1 := encodeMessageSenderSeqIndexKey(ck, uid1, seq)
	sp2 := encodeMessageSenderSeqIndexPrefix(ck, uid2)
	zzsym.Assert((bytes.HasPrefix(s1, sp2) || c07InSpan(sp2, s1)) == (uid1 == uid2), "sender sequence key inside the span of another sender")
	c1 := encodeMessageClientMsgNoIndexKey(ck, cno1, seq)
	cp2 := encodeMessageClientMsgNoIndexPrefix(ck, cno2)
	zzsym.Assert((bytes.HasPrefix(c1, cp2) || c07InSpan(cp2, c1)) == (cno1 == cno2), "client message number key inside the span of another client message number")
	zzsym.Observe("inj", uint64(len(k1)), uint64(len(k2)), uint64(len(s1)))
}

const c07KeyKinds = 19

// c07TablePrefix: the narrowest table-level prefix the code iterates for keys of the given kind.
func c07TablePrefix(kind int, ck ChannelKey) []byte {
	switch kind {
	case 0, 18:
		return encodeMessageRowPrefix(ck)
	case 1:
		return encodeMessageIndexPrefix(ck, messageIndexIDMessageID)
	case 2:
		return encodeMessageIndexPrefix(ck, messageIndexIDClientMsgNo)
	case 3:
		return encodeMessageIndexPrefix(ck, messageIndexIDFromUIDClientMsgNo)
	case 4:
		return encodeMessageIndexPrefix(ck, messageIndexIDFromUIDMessageSeq)
	case 5:
		return encodeMessageSystemPrefix(ck, messageSystemIDRetention)
	case 6:
		return encodeMessageSystemPrefix(ck, messageSystemIDCursor)
	case 7:
		return encodeMessageSystemPrefix(ck, messageSystemIDCheckpoint)
	case 8, 13:
		return encodeHistoryPrefix(ck)
	case 9:
		return encodeMessageSystemPrefix(ck, messageSystemIDSnapshot)
	case 10:
		return encodeProposalByLastPrefix(ck)
	case 11:
		return encodeProposalByCommandPrefix(ck)
	case 12:
		return encodeEntryIdentityPrefix(ck)
	case 14:
		return encodeCatalogPrefix()
	case 15:
		return encodeGlobalMessageIDIndexPrefix()
	case 16:
		return encodeGlobalLatestIndexStateKey()
	default:
		return encodeGlobalLatestIndexProgressKey()
	}
}

// c07KeyOf builds a key of the given kind for channel ck with the real encoder (symbolic
// parameters).
func c07KeyOf(kind int, ck ChannelKey) []byte {
	switch kind {
	case 0:
		return encodeMessageRowKey(ck, zzsym.U64("seq"), zzsym.U16("fam"))
	case 1:
		return encodeMessageIDIndexKey(ck, zzsym.U64("id"))
	case 2:
		return encodeMessageClientMsgNoIndexKey(ck, c07Str("cno", 2, 2), zzsym.U64("seq"))
	case 3:
		return encodeMessageIdempotencyIndexKey(ck, c07Str("uid", 2, 2), c07Str("cno", 2, 2))
	case 4:
		return encodeMessageSenderSeqIndexKey(ck, c07Str("uid", 2, 2), zzsym.U64("seq"))
	case 5:
		return encodeRetentionStateKey(ck)
	case 6:
		return encodeCommittedCursorKey(ck, c07Str("cursor", 2, 2))
	case 7:
		return encodeCheckpointKey(ck)
	case 8:
		return encodeHistoryPointKey(ck, EpochPoint{Epoch: zzsym.U64("epoch"), StartOffset: zzsym.U64("start")})
	case 9:
		return encodeSnapshotKey(ck)
	case 10:
		return encodeProposalByLastKey(ck, zzsym.U64("last"))
	case 11:
		var cmd [32]byte
		copy(cmd[:], zzsym.Bytes("cmd", 32))
		return encodeProposalByCommandKey(ck, cmd)
	case 12:
		return encodeEntryIdentityKey(ck, zzsym.U64("index"))
	case 13:
		return encodeHistoryOffsetKey(ck, zzsym.U64("start"))
	// global keys (not owned by a channel partition; ck only parameterises the catalog key)
	case 14:
		return encodeCatalogKey(ck)
	case 15:
		return encodeGlobalMessageIDIndexKey(zzsym.U64("id"))
	case 16:
		return encodeGlobalLatestIndexStateKey()
	case 17:
		return encodeGlobalLatestIndexProgressKey()
	default:
		// the row key built by the append path's cached writer
		cache := newAppendKeyCache(ck, ChannelID{ID: string(ck), Type: zzsym.U8("ctype")})
		return cache.messageRowKey(zzsym.U64("seq"), zzsym.U16("fam"))
	}
}

func c07KindIsGlobal(kind int) bool { return kind >= 14 && kind <= 17 }

// Harness_C07_ChannelIsolation: no key of channel A (any table, index or system row) and no global
// key lies inside the prefix span of channel B != A — neither the whole-partition span nor the row
// span nor the system span used by backup/inspection — while every channel-owned key of A lies
// inside A's own partition span. The partition id is a length-prefixed string, so the set of
// partition prefixes is prefix-free; PrefixEnd gives the exact upper bound of each.
func Harness_C07_ChannelIsolation() {
	a := c07ChannelKey("a")
	b := c07ChannelKey("b")
	zzsym.Assume(a != b)
	kind := zzsym.Choice("kind", c07KeyKinds)
	k := c07KeyOf(kind, a)
	own := c07TablePrefix(kind, a)
	zzsym.Assert(bytes.HasPrefix(k, own) && c07InSpan(own, k), "key outside its own table prefix span")
	partA := encodeMessageChannelPartitionPrefix(a)
	partB := encodeMessageChannelPartitionPrefix(b)
	zzsym.Assert(!bytes.HasPrefix(partA, partB) && !bytes.HasPrefix(partB, partA), "channel partition prefixes are not prefix-free")
	if c07KindIsGlobal(kind) {
		zzsym.Reach("isolation-global-key")
		zzsym.Assert(!c07InSpan(partA, k), "a global key lies inside a channel partition span")
	} else {
		zzsym.Reach("isolation-channel-key")
		zzsym.Assert(c07InSpan(partA, k), "a channel key lies outside its own partition span")
	}
	zzsym.Assert(!bytes.HasPrefix(k, partB), "a key of channel A has the partition prefix of channel B")
	zzsym.Assert(!c07InSpan(partB, k), "a key of channel A lies inside the partition span of channel B")
	zzsym.Assert(!c07InSpan(encodeMessageRowPrefix(b), k), "a key of channel A lies inside the row span of channel B")
	zzsym.Assert(!c07InSpan(encodeMessageSystemAllPrefix(b), k), "a key of channel A lies inside the system span of channel B")
	zzsym.Assert(!c07InSpan(encodeMessageIndexPrefix(b, messageIndexIDFromUIDClientMsgNo), k), "a key of channel A lies inside the idempotency index span of channel B")
	zzsym.Observe("iso", uint64(len(k)), uint64(len(partB)), uint64(kind))
}

// Harness_C07_TableIsolation: inside one channel, a key of one table/index/system row kind never
// lies inside the table-level prefix span of a different kind (a scan of the row span sees only
// rows, the idempotency-filter rebuild sees only idempotency entries, ...).
func Harness_C07_TableIsolation() {
	ck := c07ChannelKey("ck")
	i := zzsym.Choice("i", c07KeyKinds-1)
	j := zzsym.Choice("j", c07KeyKinds-1)
	// 8 and 13 are both history keys (same table prefix)
	same := i == j || (i == 8 && j == 13) || (i == 13 && j == 8)
	if same {
		return
	}
	k := c07KeyOf(i, ck)
	other := c07TablePrefix(j, ck)
	zzsym.Reach("table-isolation")
	zzsym.Assert(!bytes.HasPrefix(k, other), "a key has the table prefix of a different table")
	zzsym.Assert(!c07InSpan(other, k), "a key lies inside the prefix span of a different table")
}
