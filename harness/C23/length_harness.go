package codec

// C23 (b) — decodeLength (the bounded remaining-length varint reader used by decodeFramer) on
// arbitrary bytes. An out-of-range read would be an uncaught panic, which the executor reports.

import (
	"github.com/WuKongIM/WuKongIM/internal/zzsym"
	"github.com/pkg/errors"
)

func Harness_C23_DecodeLength() {
	max := 6
	if zzsym.Thorough() {
		max = 8
	}
	n := zzsym.Choice("n", max+1)
	data := zzsym.Bytes("b", n)
	val, used, err := decodeLength(data)

	// reference: number of leading bytes with the continuation bit among the first (at most) 4
	cont := 0
	for cont < n && cont < 4 && data[cont]&0x80 != 0 {
		cont++
	}
	if err != nil {
		zzsym.Reach("need-more")
		zzsym.Assert(errors.Is(err, errDecodeLength), "decodeLength failed with an unexpected error")
		zzsym.Assert(val == 0 && used == 0, "decodeLength returned a value together with an error")
		// "need more" exactly when the slice ends inside the (at most 4-byte) varint
		zzsym.Assert(cont == n && n < 4, "decodeLength asked for more data although the varint is complete")
		zzsym.Observe("need-more", uint64(n))
		return
	}
	zzsym.Reach("decoded")
	zzsym.Assert(used >= 1 && used <= 5, "decodeLength consumed count outside 1..5")
	zzsym.Assert(!(cont == n && n < 4), "decodeLength returned a length from a truncated varint")
	if cont < 4 {
		// terminated varint of 1..4 bytes: consumed count and value are exact and inside the slice
		zzsym.Reach("terminated")
		zzsym.Assert(int(used) == cont+1 && int(used) <= n, "decodeLength consumed count is not the varint length")
		var want uint32
		for i := 0; i <= cont; i++ {
			want |= uint32(data[i]&0x7f) << (7 * uint(i))
		}
		zzsym.Assert(val == want, "decodeLength value differs from the little-endian base-128 value")
	} else {
		// four continuation bytes: not a valid length (MaxRemaingLength needs 3 bytes). The loop
		// bound stops reading here; see check.json "observations" for the reported count.
		zzsym.Reach("overlong")
		zzsym.Assert(val < 1<<28, "decodeLength value exceeds 28 bits")
	}
	zzsym.Observe("decoded", uint64(n), uint64(val), uint64(used))
}

// Harness_C23_LengthRoundTrip: decodeLength inverts encodeVariable for every 28-bit length >= 1
// (symbolic value), also when arbitrary bytes follow, and consumes exactly the encoded bytes.
func Harness_C23_LengthRoundTrip() {
	x := zzsym.U32("x")
	zzsym.Assume(x >= 1 && x < 1<<28)
	enc := encodeVariable(x)
	zzsym.Assert(len(enc) >= 1 && len(enc) <= 4, "encodeVariable length outside 1..4 for a 28-bit value")
	zzsym.Assert(len(enc) == encodedVariableSize(x), "encodedVariableSize differs from the bytes encodeVariable produced")
	nt := zzsym.Choice("trail.len", 3)
	buf := append(append([]byte(nil), enc...), zzsym.Bytes("trail", nt)...)
	val, used, err := decodeLength(buf)
	zzsym.Reach("length-roundtrip")
	if x > MaxRemaingLength {
		zzsym.Reach("above-max-remaining-length")
	}
	zzsym.Assert(err == nil, "decodeLength failed on encodeVariable output")
	zzsym.Assert(val == x, "decodeLength(encodeVariable(x)) != x")
	zzsym.Assert(int(used) == len(enc), "decodeLength did not consume exactly the encoded varint")
	zzsym.Observe("varint", uint64(x), uint64(len(enc)), uint64(val), uint64(used))
}

// Harness_C23_DecodeFrameArbitrary: (a, single step) WKProto.DecodeFrame — the function
// Adapter.Decode applies to every suffix in[consumed:] — on arbitrary non-empty input and an
// arbitrary version byte: no panic, never consumes more than it was given, and exactly one of
// "frame + progress", "need more / unknown type (nil, 0, nil)" or "error (nil, 0, err)".
// (Adapter.Decode never passes an empty slice: its loop condition is consumed < len(in).)
func Harness_C23_DecodeFrameArbitrary() {
	max := 12
	if zzsym.Thorough() {
		max = 20
	}
	n := 1 + zzsym.Choice("n", max)
	data := zzsym.Bytes("in", n)
	version := zzsym.U8("version")
	f, used, err := New().DecodeFrame(data, version)
	zzsym.Assert(used >= 0 && used <= n, "DecodeFrame consumed count outside 0..len(data)")
	if err != nil {
		zzsym.Reach("frame-error")
		zzsym.Assert(f == nil && used == 0, "DecodeFrame reported an error together with a frame or progress")
		zzsym.Observe("frame-error", uint64(n))
		return
	}
	if f == nil {
		zzsym.Reach("frame-need-more")
		zzsym.Assert(used == 0, "DecodeFrame reported progress without a frame")
		zzsym.Observe("frame-need-more", uint64(n))
		return
	}
	zzsym.Reach("frame-decoded")
	zzsym.Assert(used >= 1, "DecodeFrame returned a frame without progress")
	zzsym.Assert(f.GetFrameType() == FramerFromUint8(data[0]).FrameType, "decoded frame type differs from the type nibble of the first byte")
	zzsym.Observe("frame-decoded", uint64(n), uint64(used), uint64(f.GetFrameType()))
}
