package wkproto

// C23 — client stream decoding is robust to arbitrary bytes and splits.
// (a) Harness_C23_ArbitraryBytes and (c) Harness_C23_Split call the real Adapter.Decode
// (which calls the real codec.WKProto.DecodeFrame). The only fake is the gateway's
// session.Session port: it returns the negotiated protocol version and "encryption off".

import (
	"bytes"

	"github.com/WuKongIM/WuKongIM/internal/zzsym"
	"github.com/WuKongIM/WuKongIM/pkg/gateway/session"
	gatewaytypes "github.com/WuKongIM/WuKongIM/pkg/gateway/types"
	codec "github.com/WuKongIM/WuKongIM/pkg/protocol/codec"
	"github.com/WuKongIM/WuKongIM/pkg/protocol/frame"
)

// c23Session is a minimal session.Session: a value bag with the negotiated version.
type c23Session struct {
	version any // nil = no negotiated version recorded
}

func (s *c23Session) ID() uint64         { return 1 }
func (s *c23Session) Listener() string   { return "c23" }
func (s *c23Session) RemoteAddr() string { return "" }
func (s *c23Session) LocalAddr() string  { return "" }
func (s *c23Session) WriteFrame(frame.Frame, ...session.WriteOption) error {
	return nil
}
func (s *c23Session) Close() error         { return nil }
func (s *c23Session) SetValue(string, any) {}
func (s *c23Session) Value(key string) any {
	switch key {
	case gatewaytypes.SessionValueProtocolVersion:
		return s.version
	case gatewaytypes.SessionValueEncryptionEnabled:
		return false
	}
	return nil
}

var _ session.Session = (*c23Session)(nil)

// Harness_C23_ArbitraryBytes: (a) Adapter.Decode on arbitrary bytes, every negotiated version byte.
// A panic / out-of-range access anywhere below is reported by the executor as a violation.
func Harness_C23_ArbitraryBytes() {
	// The multi-frame loop multiplies the path count by ~2.4 per input byte (30k paths at 8), so
	// the loop is bounded here and the single DecodeFrame step is run up to 12 (20) bytes by
	// Harness_C23_DecodeFrameArbitrary in package codec.
	max := 7
	if zzsym.Thorough() {
		max = 9
	}
	n := zzsym.Choice("n", max+1)
	in := zzsym.Bytes("in", n)
	sess := &c23Session{version: zzsym.U8("version")}
	a := New()
	frames, consumed, err := a.Decode(sess, in)
	zzsym.Assert(consumed >= 0, "consumed is negative")
	zzsym.Assert(consumed <= len(in), "consumed exceeds the input length")
	if err != nil {
		zzsym.Reach("error")
		zzsym.Assert(len(frames) == 0 && consumed == 0, "an error was reported together with frames or progress")
		zzsym.Observe("err", uint64(n))
		return
	}
	if len(frames) == 0 {
		zzsym.Reach("need-more")
		zzsym.Assert(consumed == 0, "progress reported without any decoded frame")
		zzsym.Observe("need-more", uint64(n))
		return
	}
	zzsym.Reach("frames")
	zzsym.Assert(consumed > 0, "frames returned without progress")
	zzsym.Assert(consumed >= len(frames), "more frames than consumed bytes")
	allNonNil := true
	for _, f := range frames {
		if f == nil {
			allNonNil = false
		}
	}
	zzsym.Assert(allNonNil, "a nil frame was returned")
	if len(frames) > 1 {
		zzsym.Reach("several-frames")
	}
	zzsym.Observe("frames", uint64(n), uint64(len(frames)), uint64(consumed), uint64(frames[0].GetFrameType()))
}

// c23SendEq: the SEND frame decoded by the adapter equals the one that was encoded
// (wire-carried fields at this version, see C22).
func c23SendEq(f frame.Frame, w *frame.SendPacket, v uint8) bool {
	g, ok := f.(*frame.SendPacket)
	if !ok {
		return false
	}
	eq := g.NoPersist == w.NoPersist && g.RedDot == w.RedDot && g.SyncOnce == w.SyncOnce && g.DUP == w.DUP &&
		g.Setting == w.Setting && g.ClientSeq == uint64(uint32(w.ClientSeq)) && g.ClientMsgNo == w.ClientMsgNo &&
		g.ChannelID == w.ChannelID && g.ChannelType == w.ChannelType && g.MsgKey == w.MsgKey &&
		bytes.Equal(g.Payload, w.Payload)
	if v >= 3 {
		eq = eq && g.Expire == w.Expire
	}
	return eq
}

func c23SecondEq(f frame.Frame, w frame.Frame) bool {
	switch want := w.(type) {
	case *frame.RecvackPacket:
		g, ok := f.(*frame.RecvackPacket)
		return ok && g.MessageID == want.MessageID && g.MessageSeq == want.MessageSeq &&
			g.NoPersist == want.NoPersist && g.RedDot == want.RedDot && g.SyncOnce == want.SyncOnce && g.DUP == want.DUP
	case *frame.PingPacket:
		_, ok := f.(*frame.PingPacket)
		return ok
	}
	return false
}

// Harness_C23_Split: (c) two encoded frames (SEND with a tiny payload, then RECVACK or PING, both
// built with the real EncodeFrame from symbolic fields) are delivered as a prefix of every length k
// followed by the rest. Decode(prefix) must return exactly the frames wholly contained in the
// prefix and consume exactly their bytes; Decode(unconsumed tail + remainder) must return the rest.
func Harness_C23_Split() {
	// negotiated version: 0..Latest as a session value, Latest+1 = session without a recorded
	// version, Latest+2 = nil session. 0 / unset / nil session mean LatestVersion on the inbound side.
	vc := zzsym.Choice("version", int(frame.LatestVersion)+3)
	var sess session.Session
	v := uint8(frame.LatestVersion)
	switch {
	case vc == 0:
		sess = &c23Session{version: uint8(0)}
	case vc <= int(frame.LatestVersion):
		v = uint8(vc)
		sess = &c23Session{version: v}
	case vc == int(frame.LatestVersion)+1:
		sess = &c23Session{}
	default:
		sess = nil
	}
	// lengths: quick varies ChannelID (0..1) and Payload (0..1), MsgKey empty, ClientMsgNo 1 byte;
	// thorough: MsgKey/ClientMsgNo 0..1, ChannelID 0..2, Payload 0..3.
	lenMsgKey, lenMsgNo, lenChannel, lenPayload := 0, 1, 0, 0
	if zzsym.Thorough() {
		lenMsgKey = zzsym.Choice("send.msgKey.len", 2)
		lenMsgNo = zzsym.Choice("send.clientMsgNo.len", 2)
		lenChannel = zzsym.Choice("send.channelID.len", 3)
		lenPayload = zzsym.Choice("send.payload.len", 4)
	} else {
		lenChannel = zzsym.Choice("send.channelID.len", 2)
		lenPayload = zzsym.Choice("send.payload.len", 2)
	}
	setting := frame.Setting(zzsym.U8("send.setting"))
	// Topic / StreamNo are covered by C22; here the stream and topic settings are off so that the
	// frame stays tiny. Every other setting bit stays symbolic.
	zzsym.Assume(!setting.IsSet(frame.SettingTopic) && !setting.IsSet(frame.SettingStream))
	send := &frame.SendPacket{
		Framer: frame.Framer{
			NoPersist: zzsym.Bool("send.noPersist"), RedDot: zzsym.Bool("send.redDot"),
			SyncOnce: zzsym.Bool("send.syncOnce"), DUP: zzsym.Bool("send.dup"),
		},
		Setting:     setting,
		MsgKey:      zzsym.String("send.msgKey", lenMsgKey),
		Expire:      zzsym.U32("send.expire"),
		ClientSeq:   zzsym.U64("send.clientSeq"),
		ClientMsgNo: zzsym.String("send.clientMsgNo", lenMsgNo),
		ChannelID:   zzsym.String("send.channelID", lenChannel),
		ChannelType: zzsym.U8("send.channelType"),
		Payload:     zzsym.Bytes("send.payload", lenPayload),
	}
	var second frame.Frame
	if zzsym.Choice("second", 2) == 0 {
		ack := &frame.RecvackPacket{
			Framer: frame.Framer{
				NoPersist: zzsym.Bool("recvack.noPersist"), RedDot: zzsym.Bool("recvack.redDot"),
				SyncOnce: zzsym.Bool("recvack.syncOnce"), DUP: zzsym.Bool("recvack.dup"),
			},
			MessageID:  zzsym.I64("recvack.messageID"),
			MessageSeq: zzsym.U64("recvack.messageSeq"),
		}
		if v <= frame.LegacyMessageSeqVersion {
			zzsym.Assume(ack.MessageSeq <= 0xFFFFFFFF)
		}
		second = ack
	} else {
		second = &frame.PingPacket{}
	}
	proto := codec.New()
	e1, err1 := proto.EncodeFrame(send, v)
	e2, err2 := proto.EncodeFrame(second, v)
	zzsym.Assert(err1 == nil && err2 == nil, "harness: EncodeFrame failed")
	if err1 != nil || err2 != nil {
		return
	}
	len1, total := len(e1), len(e1)+len(e2)
	all := make([]byte, 0, total)
	all = append(all, e1...)
	all = append(all, e2...)
	k := zzsym.Choice("k", total+1)

	wantFrames, wantConsumed := 0, 0
	if k >= len1 {
		wantFrames, wantConsumed = 1, len1
	}
	if k >= total {
		wantFrames, wantConsumed = 2, total
	}

	a := New()
	// first delivery: the prefix (copied, so that decoded frames cannot alias later input)
	prefix := append([]byte(nil), all[:k]...)
	frames, consumed, err := a.Decode(sess, prefix)
	zzsym.Assert(err == nil, "Decode(prefix) reported an error on a prefix of valid frames")
	if err != nil {
		return
	}
	zzsym.Assert(len(frames) == wantFrames, "Decode(prefix) did not return exactly the frames wholly contained in the prefix")
	zzsym.Assert(consumed == wantConsumed, "Decode(prefix) did not consume exactly the bytes of the complete frames")
	if len(frames) != wantFrames || consumed != wantConsumed {
		return
	}
	switch wantFrames {
	case 0:
		zzsym.Reach("prefix-no-frame")
	case 1:
		zzsym.Reach("prefix-one-frame")
		zzsym.Assert(c23SendEq(frames[0], send, v), "first frame decoded from the prefix differs from the SEND that was encoded")
	case 2:
		zzsym.Reach("prefix-both-frames")
		zzsym.Assert(c23SendEq(frames[0], send, v), "first of two frames differs from the SEND that was encoded")
		zzsym.Assert(c23SecondEq(frames[1], second), "second of two frames differs from the frame that was encoded")
	}

	// second delivery: unconsumed tail of the prefix + the remainder of the stream
	rest := make([]byte, 0, total-consumed)
	rest = append(rest, prefix[consumed:]...)
	rest = append(rest, all[k:]...)
	frames2, consumed2, err := a.Decode(sess, rest)
	zzsym.Assert(err == nil, "Decode(tail+remainder) reported an error")
	if err != nil {
		return
	}
	zzsym.Assert(len(frames2) == 2-wantFrames, "Decode(tail+remainder) did not return exactly the remaining frames")
	zzsym.Assert(consumed2 == total-wantConsumed, "Decode(tail+remainder) did not consume exactly the remaining bytes")
	if len(frames2) != 2-wantFrames {
		return
	}
	switch wantFrames {
	case 0:
		zzsym.Reach("rest-both-frames")
		zzsym.Assert(c23SendEq(frames2[0], send, v), "SEND decoded after the split differs from the one encoded")
		zzsym.Assert(c23SecondEq(frames2[1], second), "second frame decoded after the split differs from the one encoded")
	case 1:
		zzsym.Reach("rest-one-frame")
		zzsym.Assert(c23SecondEq(frames2[0], second), "second frame decoded from tail+remainder differs from the one encoded")
	case 2:
		zzsym.Reach("rest-empty")
	}
	zzsym.Observe("split", uint64(v), uint64(len1), uint64(total), uint64(k), uint64(consumed), uint64(len(frames)), uint64(consumed2), uint64(len(frames2)))
}
