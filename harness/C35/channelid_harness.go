package channelid

import (
	"hash/crc32"

	"github.com/WuKongIM/WuKongIM/internal/zzsym"
)

// ---------------------------------------------------------------- helpers (specification side)

func c35MaxUID() int {
	if zzsym.Thorough() {
		return 4
	}
	return 3
}

// c35UID returns a symbolic UID of every length 0..3 (thorough 0..4) over all 256 byte values.
func c35UID(name string) string {
	n := zzsym.Choice(name+".len", c35MaxUID()+1)
	return zzsym.String(name, n)
}

// c35CountSep counts separator bytes of s (bytewise; '@' is ASCII so this is what strings.Split sees).
func c35CountSep(s string) int {
	n := 0
	for i := 0; i < len(s); i++ {
		if s[i] == '@' {
			n++
		}
	}
	return n
}

// c35SamePair reports {x,y} == {a,b} as unordered pairs.
func c35SamePair(x, y, a, b string) bool {
	return (x == a && y == b) || (x == b && y == a)
}

// c35Sum is a small content fingerprint used only for Observe (native/symbolic self-test).
func c35Sum(s string) uint64 {
	var h uint64 = uint64(len(s))
	for i := 0; i < len(s); i++ {
		h = h*131 + uint64(s[i])
	}
	return h
}

// c35CRC is the checksum EncodePersonChannel orders by; observed so that the native self-test compares the
// engine's CRC-32 model with the real hash/crc32 on every sample.
func c35CRC(s string) uint64 { return uint64(crc32.ChecksumIEEE([]byte(s))) }

// ---------------------------------------------------------------- person channels

// Harness_C35_PersonSymmetric: the person channel id does not depend on who sends, for every pair of UIDs
// (empty, equal, containing '@', equal CRC32 with different content).
func Harness_C35_PersonSymmetric() {
	a := c35UID("a")
	b := c35UID("b")
	ab := EncodePersonChannel(a, b)
	ba := EncodePersonChannel(b, a)
	zzsym.Reach("encoded")
	zzsym.Assert(ab == ba, "EncodePersonChannel(a,b) != EncodePersonChannel(b,a)")
	// the id is one of the two concatenations, nothing else
	zzsym.Assert(ab == a+"@"+b || ab == b+"@"+a, "EncodePersonChannel is not a concatenation of the two uids around the separator")
	zzsym.Observe("id", c35Sum(ab), c35Sum(ba), c35CRC(a), c35CRC(b))
}

// Harness_C35_PersonCollision: the CRC tie-break on real CRC-32 collisions (concrete, well-known colliding
// words; within the symbolic bounds of the quick tier no two distinct uids share a CRC).
func Harness_C35_PersonCollision() {
	pairs := [][2]string{{"plumless", "buckeroo"}, {"buckeroo", "plumless"}}
	for _, p := range pairs {
		a, b := p[0], p[1]
		if crc32.ChecksumIEEE([]byte(a)) != crc32.ChecksumIEEE([]byte(b)) {
			return // not a collision: the witness below stays unreached and the check reports vacuity
		}
		ab := EncodePersonChannel(a, b)
		ba := EncodePersonChannel(b, a)
		zzsym.Reach("real-crc-collision")
		zzsym.Assert(ab == ba, "EncodePersonChannel is not symmetric on a CRC-32 collision")
		l, r, err := DecodePersonChannel(ab)
		zzsym.Assert(err == nil && c35SamePair(l, r, a, b), "colliding uids do not decode to the encoded pair")
		na, erra := NormalizePersonChannel(a, ba)
		nb, errb := NormalizePersonChannel(b, a+"@"+b)
		zzsym.Assert(erra == nil && errb == nil && na == ab && nb == ab, "normalization is not canonical on a CRC-32 collision")
		zzsym.Observe("coll", c35Sum(ab), c35Sum(ba))
	}
}

// Harness_C35_PersonCollisionSymbolic (thorough tier only): every CRC-32 collision between a 4-byte uid and a
// shorter one (each shorter uid has exactly one 4-byte partner) goes through the tie-break of EncodePersonChannel.
func Harness_C35_PersonCollisionSymbolic() {
	a := zzsym.String("a", 4)
	b := zzsym.String("b", zzsym.Choice("b.len", 4))
	zzsym.Assume(crc32.ChecksumIEEE([]byte(a)) == crc32.ChecksumIEEE([]byte(b)))
	ab := EncodePersonChannel(a, b)
	ba := EncodePersonChannel(b, a)
	zzsym.Reach("symbolic-crc-collision")
	zzsym.Assert(a != b, "different lengths cannot be equal")
	zzsym.Assert(ab == ba, "EncodePersonChannel is not symmetric on a symbolic CRC-32 collision")
	zzsym.Assert(ab == a+"@"+b || ab == b+"@"+a, "EncodePersonChannel on a collision is not a concatenation of the two uids")
	if b != "" && c35CountSep(a) == 0 && c35CountSep(b) == 0 {
		zzsym.Reach("symbolic-collision-clean")
		l, r, err := DecodePersonChannel(ab)
		zzsym.Assert(err == nil && c35SamePair(l, r, a, b), "colliding uids do not decode to the encoded pair (symbolic)")
		na, erra := NormalizePersonChannel(a, ba)
		nb, errb := NormalizePersonChannel(b, a+"@"+b)
		zzsym.Assert(erra == nil && errb == nil && na == ab && nb == ab, "normalization is not canonical on a symbolic CRC-32 collision")
	}
	zzsym.Observe("symcoll", c35Sum(ab), c35CRC(a), c35CRC(b))
}

// Harness_C35_PersonDecode: decoding the canonical id yields the two users; with '@' (or an empty uid)
// the decoder returns an error or the exact pair, never a different pair.
func Harness_C35_PersonDecode() {
	a := c35UID("a")
	b := c35UID("b")
	clean := a != "" && b != "" && c35CountSep(a) == 0 && c35CountSep(b) == 0
	id := EncodePersonChannel(a, b)
	l, r, err := DecodePersonChannel(id)
	if clean {
		zzsym.Reach("clean-uids")
		zzsym.Assert(err == nil, "canonical id of two well-formed uids does not decode")
		zzsym.Assert(c35SamePair(l, r, a, b), "decoded pair differs from the encoded uids")
	} else {
		zzsym.Reach("separator-or-empty-uid")
	}
	if err == nil {
		zzsym.Reach("decoded")
		zzsym.Assert(c35SamePair(l, r, a, b), "decoder returned a pair different from the encoded one")
	} else {
		zzsym.Reach("decode-error")
		zzsym.Assert(l == "" && r == "", "decode error must return empty parts")
		zzsym.Assert(err == ErrInvalidPersonChannel, "decode error is not ErrInvalidPersonChannel")
	}
	zzsym.Observe("dec", zzsym.B2U(err == nil), c35Sum(l), c35Sum(r))
}

// Harness_C35_NormalizeCanonical: normalizing an already canonical id changes nothing, for either member,
// either order of the two uids normalizes to the canonical id, and so does the peer's bare uid.
func Harness_C35_NormalizeCanonical() {
	a := c35UID("a")
	b := c35UID("b")
	zzsym.Assume(a != "" && b != "" && c35CountSep(a) == 0 && c35CountSep(b) == 0)
	id := EncodePersonChannel(a, b)
	na, erra := NormalizePersonChannel(a, id)
	nb, errb := NormalizePersonChannel(b, id)
	zzsym.Reach("normalized-canonical")
	zzsym.Assert(erra == nil && errb == nil, "a member cannot normalize its own canonical person channel")
	zzsym.Assert(na == id, "NormalizePersonChannel(a, Encode(a,b)) is not the identity")
	zzsym.Assert(nb == id, "NormalizePersonChannel(b, Encode(a,b)) is not the identity")
	// the non-canonical order of the same two uids normalizes to the canonical id as well
	nr, errr := NormalizePersonChannel(a, b+"@"+a)
	nl, errl := NormalizePersonChannel(a, a+"@"+b)
	zzsym.Assert(errr == nil && errl == nil && nr == id && nl == id, "normalizing either order of the pair does not give the canonical id")
	// bare peer uid
	np, errp := NormalizePersonChannel(a, b)
	zzsym.Assert(errp == nil && np == id, "NormalizePersonChannel(a, b) differs from the canonical id")
	zzsym.Observe("norm", c35Sum(na), c35Sum(nb), c35Sum(np))
}

// Harness_C35_NormalizeGate: NormalizePersonChannel(s, id) succeeds only if s and id are non-empty and either
// id has no separator or id is exactly two non-empty parts one of which is s; and in exactly those cases.
func Harness_C35_NormalizeGate() {
	s := c35UID("s")
	max := 5
	if zzsym.Thorough() {
		max = 7
	}
	n := zzsym.Choice("id.len", max+1)
	id := zzsym.String("id", n)

	// specification, evaluated before the code under test runs
	seps := c35CountSep(id)
	// bare ids (no separator) longer than a uid are outside the bound: they only feed EncodePersonChannel
	zzsym.Assume(seps > 0 || n <= c35MaxUID())
	member := false
	left, right := "", ""
	if seps == 1 {
		for i := 0; i < len(id); i++ {
			if id[i] == '@' {
				left, right = id[:i], id[i+1:]
				member = left != "" && right != "" && (left == s || right == s)
			}
		}
	}
	allowed := s != "" && id != "" && (seps == 0 || member)
	out, err := NormalizePersonChannel(s, id)
	if err == nil {
		zzsym.Reach("accepted")
		zzsym.Assert(allowed, "NormalizePersonChannel accepted a sender that is not part of the person channel")
		if seps == 0 {
			zzsym.Reach("accepted-bare-uid")
			zzsym.Assert(out == EncodePersonChannel(s, id), "bare peer uid not normalized to the canonical id")
		} else {
			zzsym.Reach("accepted-member")
			zzsym.Assert(out == EncodePersonChannel(left, right), "member id not normalized to the canonical id of its two parts")
		}
	} else {
		zzsym.Reach("rejected")
		zzsym.Assert(!allowed, "NormalizePersonChannel rejected a member of the person channel")
		zzsym.Assert(out == "", "rejection must return the empty id")
		zzsym.Assert(err == ErrInvalidPersonChannel, "rejection error is not ErrInvalidPersonChannel")
	}
	zzsym.Observe("gate", zzsym.B2U(err == nil), c35Sum(out))
}

// ---------------------------------------------------------------- command channels

// Harness_C35_Command: ToCommandChannel is idempotent and reversible.
func Harness_C35_Command() {
	max := 9
	if zzsym.Thorough() {
		max = 16
	}
	n := zzsym.Choice("x.len", max+1)
	x := zzsym.String("x", n)
	c := ToCommandChannel(x)
	cc := ToCommandChannel(c)
	zzsym.Reach("command")
	zzsym.Assert(cc == c, "ToCommandChannel is not idempotent")
	zzsym.Assert(IsCommandChannel(c), "ToCommandChannel result is not a command channel")
	back, ok := FromCommandChannel(c)
	zzsym.Assert(ok, "FromCommandChannel(ToCommandChannel(x)) reports no suffix")
	if IsCommandChannel(x) {
		zzsym.Reach("already-command")
		zzsym.Assert(c == x, "ToCommandChannel changed an id that already has the suffix")
		zzsym.Assert(back+CommandChannelSuffix == x, "FromCommandChannel does not remove exactly one suffix")
	} else {
		zzsym.Reach("plain")
		zzsym.Assert(back == x, "FromCommandChannel(ToCommandChannel(x)) != x")
		zzsym.Assert(c == x+CommandChannelSuffix, "ToCommandChannel(x) != x + suffix")
		px, pok := FromCommandChannel(x)
		zzsym.Assert(!pok && px == x, "FromCommandChannel changed an id without the suffix")
	}
	zzsym.Observe("cmd", c35Sum(c), c35Sum(back), zzsym.B2U(ok))
}

// ---------------------------------------------------------------- agent channels

// Harness_C35_Agent: DecodeAgentChannel(EncodeAgentChannel(u,a)) is (u,a) in that order for well-formed uids,
// and an error or the exact pair otherwise.
func Harness_C35_Agent() {
	u := c35UID("u")
	a := c35UID("a")
	clean := u != "" && a != "" && c35CountSep(u) == 0 && c35CountSep(a) == 0
	id := EncodeAgentChannel(u, a)
	gu, ga, err := DecodeAgentChannel(id)
	if clean {
		zzsym.Reach("clean-agent")
		zzsym.Assert(err == nil, "agent channel of two well-formed uids does not decode")
	} else {
		zzsym.Reach("separator-or-empty-agent")
	}
	if err == nil {
		zzsym.Reach("agent-decoded")
		zzsym.Assert(gu == u && ga == a, "agent channel decodes to a different (uid, agent) pair")
	} else {
		zzsym.Reach("agent-error")
		zzsym.Assert(gu == "" && ga == "", "agent decode error must return empty parts")
		zzsym.Assert(err == ErrInvalidAgentChannel, "agent decode error is not ErrInvalidAgentChannel")
	}
	zzsym.Observe("agent", zzsym.B2U(err == nil), c35Sum(gu), c35Sum(ga))
}
