package replication

import (
	"context"
	"time"

	"github.com/WuKongIM/WuKongIM/internal/zzsym"
	ch "github.com/WuKongIM/WuKongIM/pkg/channel"
	channelstore "github.com/WuKongIM/WuKongIM/pkg/channel/store"
)

// C02 — follower gap repair never tells a follower more is committed than the leader's durable
// committed watermark. The REAL runtimeRepairOwner.repairFromFrontier drives the REAL peerBatcher
// (submit -> enqueue -> drainTarget -> exchange); the peer link hands each batch to the REAL
// ExchangeServer of the follower, whose store is the REAL storeAdapter over the REAL
// MemoryChannelStore. Fakes: the leader's ReplicaStore port (Fetch returns the leader's proposals),
// the peer executor (runs the target owner when the repair worker starts waiting) and the link.

const (
	c02Leader   = ch.NodeID(1)
	c02Follower = ch.NodeID(2)
)

// c02Exec is the peer executor port: tasks are queued and run, in order, the moment the caller
// starts waiting (never inline in Submit, as the port requires).
type c02Exec struct{ tasks []func() }

func (x *c02Exec) Submit(task func()) error {
	x.tasks = append(x.tasks, task)
	return nil
}

func (x *c02Exec) drain() {
	for len(x.tasks) > 0 {
		task := x.tasks[0]
		x.tasks = x.tasks[1:]
		task()
	}
}

// c02WaitCtx is a never-cancelled context; asking for its Done channel is the point at which the
// single-threaded harness lets the queued peer work run (the repair worker only asks inside its
// select, after submit returned).
type c02WaitCtx struct{ exec *c02Exec }

func (c c02WaitCtx) Deadline() (time.Time, bool) { return time.Time{}, false }
func (c c02WaitCtx) Done() <-chan struct{} {
	c.exec.drain()
	return nil
}
func (c c02WaitCtx) Err() error    { return nil }
func (c c02WaitCtx) Value(any) any { return nil }

// c02RepairLink records every ReplicateRequest that leaves the leader and delivers the batch to the
// follower's exchange server.
type c02RepairLink struct {
	server *ExchangeServer
	sent   []ReplicateRequest
	// followerHW[i] is the follower's committed watermark right after request i was handled
	followerHW  []uint64
	followerLEO []uint64
	follower    ReplicaStore
}

func (l *c02RepairLink) Exchange(_ context.Context, _ ch.NodeID, batch ExchangeBatch) (ExchangeBatchResult, error) {
	for _, item := range batch.Items {
		if item.Replicate != nil {
			l.sent = append(l.sent, *item.Replicate)
		}
	}
	result, err := l.server.Handle(context.Background(), c02Leader, batch)
	state := c02LoadAll(l.follower, 0)
	for _, item := range batch.Items {
		if item.Replicate != nil {
			l.followerHW = append(l.followerHW, state.State.Committed)
			l.followerLEO = append(l.followerLEO, state.State.LEO)
		}
	}
	return result, err
}

// c02LeaderStore is the leader's ReplicaStore port as far as repairFromFrontier uses it: Fetch
// returns the proposals covering [From, Through] of the leader's log, fenced to Expected.
type c02LeaderStore struct {
	proposals []RecoveryProposal
	state     ReplicaState
	perPage   int
}

func (s *c02LeaderStore) Load(context.Context, LoadBatch) (LoadBatchResult, error) {
	return LoadBatchResult{}, ch.ErrInvalidConfig
}
func (s *c02LeaderStore) Sync(context.Context, []Mutation) []MutationResult { return nil }
func (s *c02LeaderStore) Replace(context.Context, []RecoveryReplacement) []RecoveryReplacementResult {
	return nil
}
func (s *c02LeaderStore) Fetch(_ context.Context, ranges []FetchRange) []FetchRangeResult {
	out := make([]FetchRangeResult, len(ranges))
	for i, r := range ranges {
		if r.Expected != s.state {
			out[i].Err = ch.ErrStaleMeta
			continue
		}
		out[i].State = s.state
		for _, p := range s.proposals {
			if p.Manifest.BaseOffset+1 >= r.From && p.Manifest.LastOffset <= r.Through && len(out[i].Proposals) < s.perPage {
				out[i].Proposals = append(out[i].Proposals, p)
			}
		}
	}
	return out
}

// Harness_C02_RepairCommitted: leader log of 2..3 single-record proposals with an arbitrary durable
// committed watermark 0..LEO; the follower holds the first 0..1 of them; one follower gap repair
// from NeedFrom through the leader's log end. Every ReplicateRequest sent carries Committed <= the
// leader's committed watermark and <= its proposal's last offset; the follower, applying them
// through the real exchange server and store, never raises its committed watermark above the
// request's Committed, above its own log end, or above the leader's committed watermark.
func Harness_C02_RepairCommitted() {
	n := 2 + zzsym.Choice("leader.proposals", 2)
	proposals := make([]RecoveryProposal, 0, n)
	identities := make([]ch.EntryIdentity, 0, n)
	var tail ch.ProposalManifest
	for k := 0; k < n; k++ {
		mu, ok := c02SealedMutation("p", uint64(k), tail.LeaderTerm, tail.Digest, 1)
		zzsym.Assume(ok)
		zzsym.Assume(mu.Manifest.CommandID != tail.CommandID)
		for _, earlier := range proposals {
			zzsym.Assume(earlier.Manifest.CommandID != mu.Manifest.CommandID)
		}
		_, entries, sealed := ch.SealProposalManifest(mu.Manifest, mu.Records)
		zzsym.Assume(sealed && len(entries) == 1)
		proposals = append(proposals, RecoveryProposal{Manifest: mu.Manifest, Records: mu.Records})
		identities = append(identities, entries[0])
		tail = mu.Manifest
	}
	leo := uint64(n)
	leaderCommitted := zzsym.U64("leader.committed")
	zzsym.Assume(leaderCommitted <= leo)
	state := ReplicaState{LEO: leo, Committed: leaderCommitted, Manifest: tail, TailIdentity: identities[n-1]}

	// follower: real adapter + memory store holding the first `have` proposals, nothing committed
	followerStore, err := NewStoreAdapter(StoreAdapterConfig{Factory: channelstore.NewMemoryFactory(), MaxBatchItems: 4, MaxBatchBytes: 1 << 20})
	zzsym.Assert(err == nil, "follower adapter construction failed")
	have := zzsym.Choice("follower.has", 2)
	for k := 0; k < have; k++ {
		res := followerStore.Sync(context.Background(), []Mutation{{ChannelKey: c02Key, ChannelID: c02ID, Manifest: proposals[k].Manifest, Records: proposals[k].Records}})
		zzsym.Assume(len(res) == 1 && res[0].Err == nil)
	}
	server, err := NewExchangeServer(ExchangeServerConfig{LocalNode: c02Follower, Store: followerStore, MaxBatchItems: 4, MaxBatchBytes: 1 << 20})
	zzsym.Assert(err == nil, "exchange server construction failed")

	exec := &c02Exec{}
	link := &c02RepairLink{server: server, follower: followerStore}
	peers, err := newPeerBatcher(peerBatcherConfig{
		Link: link, Executor: exec, OwnerContext: context.Background(), ExchangeTimeout: time.Second,
		MaxBatchItems: 4, MaxBatchBytes: 1 << 20, MaxTargetFlight: 1,
		MaxQueuedItems: 16, MaxQueuedBytes: 1 << 22, MaxTargetQueuedItems: 8, MaxTargetQueuedBytes: 1 << 21,
	})
	zzsym.Assert(err == nil && peers != nil, "peer batcher construction failed")
	if err != nil {
		return
	}
	leaderStore := &c02LeaderStore{proposals: proposals, state: state, perPage: 1 + zzsym.Choice("page.proposals", 2)}
	owner := &runtimeRepairOwner{store: leaderStore, peers: peers, maxPageBytes: 1 << 20}

	needFrom := uint64(have) + 1
	repair := followerRepair{channelKey: c02Key, channelID: c02ID, leader: c02Leader, follower: c02Follower, manifest: tail, needFrom: needFrom}
	loaded := LoadResult{State: state}
	if needFrom > 1 {
		loaded.Entries = []EntryProbe{{Index: needFrom - 1, Present: true, Identity: identities[needFrom-2]}}
	}
	done := owner.repairFromFrontier(c02WaitCtx{exec: exec}, repair, loaded)

	zzsym.Assert(done, "a repair of a follower that holds a prefix of the leader's log did not complete")
	zzsym.Assert(len(link.sent) == n-have, "the repair did not send exactly the missing proposals")
	if done {
		zzsym.Reach("repaired")
	}
	prevHW := uint64(0)
	for i, request := range link.sent {
		zzsym.Assert(request.Committed <= leaderCommitted, "repair told the follower that more is committed than the leader's durable committed watermark")
		zzsym.Assert(request.Committed <= request.Manifest.LastOffset, "repair request carries Committed beyond its proposal")
		zzsym.Assert(request.Manifest == proposals[have+i].Manifest, "repair sent a proposal that is not the leader's at that offset")
		if i < len(link.followerHW) {
			zzsym.Assert(link.followerHW[i] <= c02MaxU64(prevHW, request.Committed) && link.followerHW[i] >= prevHW,
				"the follower raised its committed watermark above the request's Committed, or lowered it")
			zzsym.Assert(link.followerHW[i] <= link.followerLEO[i] && link.followerHW[i] <= leaderCommitted,
				"the follower's committed watermark exceeds its log end or the leader's committed watermark")
			prevHW = link.followerHW[i]
		}
	}
	after := c02LoadAll(followerStore, n)
	zzsym.Assert(after.Err == nil && after.State.LEO == leo && after.State.Committed <= leaderCommitted, "after repair the follower is not at the leader's log end with a watermark <= the leader's")
	if after.Err == nil && len(after.Entries) == n {
		for i := range identities {
			zzsym.Assert(after.Entries[i].Present && after.Entries[i].Identity == identities[i], "after repair the follower's identity at an offset differs from the leader's")
		}
	}
	if leaderCommitted < leo {
		zzsym.Reach("uncommitted-suffix-resent")
	}
	zzsym.Observe("repair", zzsym.B2U(done), uint64(len(link.sent)), after.State.LEO)
}

func c02MaxU64(a, b uint64) uint64 {
	d := zzsym.B2U(b > a)
	return a*(1^d) + b*d
}
