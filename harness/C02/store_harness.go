package store

import (
	"context"
	"errors"

	"github.com/WuKongIM/WuKongIM/internal/zzsym"
	ch "github.com/WuKongIM/WuKongIM/pkg/channel"
)

// C02 — step obligations on the real in-memory channel store.
//
// Every entry builds a store through the REAL exact-append API from symbolic proposals sealed by the
// real ch.SealProposalManifest, keeps an abstract model of what the log must contain (the list of
// accepted proposals, their sealed identities, the record content and the committed watermark),
// applies ONE operation with a symbolic request and asserts that the store is exactly the model
// after the transition the property prescribes, plus the representation invariant (c02Inv).
//
// Offsets used as map keys (base offsets, keep-through) are case-split with zzsym.Choice into every
// value 0..LEO+2 plus one symbolic "far beyond the log end" class, so that all 2^64 values are
// covered while the indexes stored in the maps stay concrete.

// ---------------------------------------------------------------- abstract model

type c02Model struct {
	manifests []ch.ProposalManifest
	entries   []ch.EntryIdentity // entries[i] is the identity at offset i+1
	records   []ch.Record        // semantic content at offset i+1 (Index/SizeBytes not compared)
	hw        uint64
}

func (m *c02Model) leo() uint64 { return uint64(len(m.entries)) }

func (m *c02Model) tail() ch.EntryIdentity {
	if len(m.entries) == 0 {
		return ch.EntryIdentity{}
	}
	return m.entries[len(m.entries)-1]
}

func (m *c02Model) add(sealed ch.ProposalManifest, entries []ch.EntryIdentity, records []ch.Record) {
	m.manifests = append(m.manifests, sealed)
	m.entries = append(m.entries, entries...)
	m.records = append(m.records, records...)
}

// boundary reports whether offset k (concrete) is the end of a stored proposal (or the log start).
func (m *c02Model) boundary(k uint64) bool {
	if k == 0 {
		return true
	}
	for _, man := range m.manifests {
		if man.LastOffset == k {
			return true
		}
	}
	return false
}

// prefix returns the model cut at proposal boundary k.
func (m *c02Model) prefix(k uint64) *c02Model {
	out := &c02Model{hw: m.hw}
	for _, man := range m.manifests {
		if man.LastOffset <= k {
			out.manifests = append(out.manifests, man)
		}
	}
	out.entries = append(out.entries, m.entries[:k]...)
	out.records = append(out.records, m.records[:k]...)
	return out
}

func c02BytesEq(a, b []byte) bool {
	if len(a) != len(b) {
		return false
	}
	eq := uint64(1)
	for i := range a {
		eq &= zzsym.B2U(a[i] == b[i])
	}
	return eq == 1
}

// c02SameContent: equality of the semantic fields an entry digest binds.
func c02SameContent(a, b ch.Record) bool {
	eq := zzsym.B2U(a.ID == b.ID) & zzsym.B2U(a.Epoch == b.Epoch) & zzsym.B2U(a.Setting == b.Setting) & zzsym.B2U(a.FromUID == b.FromUID) &
		zzsym.B2U(a.ClientMsgNo == b.ClientMsgNo) & zzsym.B2U(a.ServerTimestampMS == b.ServerTimestampMS) & zzsym.B2U(a.SyncOnce == b.SyncOnce) &
		zzsym.B2U(c02BytesEq(a.Payload, b.Payload))
	return eq == 1
}

// c02Holds: the store holds exactly the model (log, identities, proposal indexes, watermark).
func c02Holds(s *MemoryChannelStore, m *c02Model) bool {
	if len(s.records) != len(m.records) || len(s.entriesByIndex) != len(m.entries) ||
		len(s.proposalsByLast) != len(m.manifests) || len(s.proposalsByCommand) != len(m.manifests) {
		return false
	}
	ok := s.leoLocked() == m.leo() && s.checkpoint.HW == m.hw && s.retention == (RetentionState{})
	for i := range m.entries {
		e, present := s.entriesByIndex[uint64(i+1)]
		if !present {
			return false
		}
		if e != m.entries[i] || s.records[i].Index != uint64(i+1) || !c02SameContent(s.records[i], m.records[i]) {
			ok = false
		}
	}
	for _, man := range m.manifests {
		p, present := s.proposalsByLast[man.LastOffset]
		if !present {
			return false
		}
		if p.manifest != man {
			ok = false
		}
	}
	// order-independent conjunction over the command index
	for cmd, p := range s.proposalsByCommand {
		q, present := s.proposalsByLast[p.manifest.LastOffset]
		if !present {
			return false
		}
		if cmd != [32]byte(p.manifest.CommandID) || q != p {
			ok = false
		}
	}
	return ok
}

// c02Inv is the representation invariant of the property: the store's own exact-state loader
// succeeds and reports the tail; HW <= LEO; identities 1..LEO are present and form an unbroken
// predecessor chain starting at the zero identity; every record sits at its offset; the stored
// proposals tile 1..LEO and agree with the identities they cover.
func c02Inv(s *MemoryChannelStore) (loader, hwOK, chain, tiles bool) {
	leo := s.leoLocked()
	st, err := s.loadExactStateLocked()
	loader = err == nil && st.LEO == leo && st.HW == s.checkpoint.HW && st.CheckpointHW == s.checkpoint.HW
	hwOK = s.checkpoint.HW <= leo
	chain = uint64(len(s.entriesByIndex)) == leo && uint64(len(s.records)) == leo
	var prev ch.EntryIdentity
	for i := uint64(1); i <= leo; i++ {
		e, present := s.entriesByIndex[i]
		if !present || i > uint64(len(s.records)) {
			return loader, hwOK, false, false
		}
		if e.Index != i || e.PreviousIndex != i-1 || e.PreviousTerm != prev.LeaderTerm || e.PreviousDigest != prev.Digest ||
			e.Digest == (ch.EntryDigest{}) || e.Version != ch.ProposalManifestVersion || e.ChannelEpoch == 0 || e.LeaderTerm == 0 ||
			e.FenceVersion == 0 || e.CommandID == (ch.CommandID{}) || s.records[i-1].Index != i {
			chain = false
		}
		prev = e
	}
	if leo > 0 && err == nil && (st.TailIdentity != prev || st.Manifest.Digest != prev.Digest || st.Manifest.LastOffset != leo) {
		loader = false
	}
	if leo == 0 && err == nil && (st.TailIdentity != (ch.EntryIdentity{}) || st.Manifest != (ch.ProposalManifest{})) {
		loader = false
	}
	tiles = len(s.proposalsByCommand) == len(s.proposalsByLast)
	count := 0
	for at := leo; at > 0; {
		p, present := s.proposalsByLast[at]
		if !present {
			return loader, hwOK, chain, false
		}
		man := p.manifest
		if man.LastOffset != at || man.BaseOffset >= at {
			// indexes are concrete here; a malformed range cannot be walked further
			zzsym.Assert(false, "stored proposal has a range that does not end at its index key")
			return loader, hwOK, chain, false
		}
		last := s.entriesByIndex[at]
		first := s.entriesByIndex[man.BaseOffset+1]
		if man.Digest != last.Digest || man.PreviousDigest != first.PreviousDigest || man.PreviousTerm != first.PreviousTerm ||
			man.PreviousIndex != man.BaseOffset {
			tiles = false
		}
		for i := man.BaseOffset + 1; i <= at; i++ {
			e := s.entriesByIndex[i]
			if e.CommandID != man.CommandID || e.ChannelEpoch != man.ChannelEpoch || e.LeaderTerm != man.LeaderTerm ||
				e.FenceVersion != man.FenceVersion || e.Version != man.Version {
				tiles = false
			}
		}
		count++
		at = man.BaseOffset
	}
	if count != len(s.proposalsByLast) {
		tiles = false
	}
	for cmd, p := range s.proposalsByCommand {
		q, present := s.proposalsByLast[p.manifest.LastOffset]
		if !present {
			return loader, hwOK, chain, false
		}
		if cmd != [32]byte(p.manifest.CommandID) || q != p {
			tiles = false
		}
	}
	return loader, hwOK, chain, tiles
}

// ---------------------------------------------------------------- symbolic construction

var c02Garbage = ch.EntryDigest{0xEE, 0x11, 0xEE, 0x22, 0xEE, 0x33, 0xEE, 0x44, 0xEE, 0x55, 0xEE, 0x66, 0xEE, 0x77, 0xEE, 0x88,
	0xEE, 0x99, 0xEE, 0xAA, 0xEE, 0xBB, 0xEE, 0xCC, 0xEE, 0xDD, 0xEE, 0xEE, 0xEE, 0xFF, 0xEE, 0x01}

func c02Cmd(p string) (c ch.CommandID) {
	c[0] = zzsym.U8(p + ".cmd0")
	c[31] = zzsym.U8(p + ".cmd31")
	return c
}

// c02Record: symbolic message content; tiny payload. SyncOnce feeds a hash-writing branch in the
// digest, so it is Choice-concrete (thorough only).
func c02Record(p string) ch.Record {
	r := ch.Record{
		ID: zzsym.U64(p + ".id"), Epoch: zzsym.U64(p + ".recepoch"), Setting: zzsym.U8(p + ".setting"),
		ServerTimestampMS: zzsym.I64(p + ".ts"),
	}
	if zzsym.Thorough() {
		r.FromUID = zzsym.String(p+".from", zzsym.Choice(p+".fromlen", 2))
		r.SyncOnce = zzsym.Choice(p+".synconce", 2) == 1
		r.Payload = zzsym.Bytes(p+".payload", zzsym.Choice(p+".payloadlen", 3))
	} else {
		r.Payload = zzsym.Bytes(p+".payload", 1)
	}
	return r
}

func c02MaxProposals() int {
	if zzsym.Thorough() {
		return 3
	}
	return 2
}

// c02Build builds a store through the real AppendLeader from 0..max symbolic proposals of 1-2
// records, every one chained to the previous tail, with an arbitrary committed watermark
// 0..LEO persisted by the last append. Asserts that the real API accepts each of them.
func c02Build(p string, min, max int, check bool) (*MemoryChannelStore, *c02Model) {
	s := &MemoryChannelStore{id: ch.ChannelID{ID: "c", Type: 2}}
	m := &c02Model{}
	n := min + zzsym.Choice(p+".proposals", max-min+1)
	for k := 0; k < n; k++ {
		cnt := 1
		if k == 0 || zzsym.Thorough() {
			cnt = 1 + zzsym.Choice(p+".count", 2) // quick: only the first proposal has 1-2 records
		}
		base := m.leo()
		prev := m.tail()
		man := ch.ProposalManifest{
			Version: ch.ProposalManifestVersion, ChannelEpoch: zzsym.U64(p + ".epoch"), LeaderTerm: zzsym.U64(p + ".term"),
			FenceVersion: zzsym.U64(p + ".fence"), CommandID: c02Cmd(p), BaseOffset: base, LastOffset: base + uint64(cnt),
			PreviousTerm: prev.LeaderTerm, PreviousIndex: base, PreviousDigest: prev.Digest,
		}
		zzsym.Assume(man.ChannelEpoch != 0)
		zzsym.Assume(man.LeaderTerm != 0)
		zzsym.Assume(man.FenceVersion != 0)
		zzsym.Assume(man.CommandID != (ch.CommandID{}))
		for _, earlier := range m.manifests {
			zzsym.Assume(earlier.CommandID != man.CommandID)
		}
		recs := make([]ch.Record, cnt)
		for i := range recs {
			recs[i] = c02Record(p + ".rec")
			zzsym.Assume(recs[i].ID != 0)
			zzsym.Assume(recs[i].Epoch == man.ChannelEpoch)
			zzsym.Assume(recs[i].ServerTimestampMS > 0)
		}
		sealed, entries, ok := ch.SealProposalManifest(man, recs)
		if check {
			zzsym.Assert(ok && len(entries) == cnt, "SealProposalManifest refused a valid chained proposal")
		}
		if !ok {
			zzsym.Assume(false)
			return s, m
		}
		committed := uint64(0)
		if k == n-1 {
			committed = zzsym.U64(p + ".committed")
			zzsym.Assume(committed <= sealed.LastOffset)
		}
		res, err := s.AppendLeader(context.Background(), AppendLeaderRequest{
			Records: recs, Committed: committed, ExactBaseOffset: true, ExpectedBaseOffset: base, Proposal: sealed,
		})
		accepted := err == nil && res.Outcome == AppendOutcomeDurable && res.BaseOffset == base+1 && res.LastOffset == sealed.LastOffset && res.NeedFrom == 0
		if check {
			zzsym.Assert(accepted, "a valid proposal chained to the tail at the log end was not appended as Durable")
		} else {
			// proved for this very construction by Harness_C02_BuildInvariant
			zzsym.Assume(accepted)
		}
		m.add(sealed, entries, recs)
		m.hw = committed
	}
	for _, e := range m.entries {
		zzsym.Assume(e.Digest != c02Garbage)
	}
	return s, m
}

// c02Offset case-splits an arbitrary uint64 offset relative to the log end: each of 0..leo+2
// concretely, or any value beyond leo+2 symbolically.
func c02Offset(p string, leo uint64) (v uint64, far bool) {
	k := zzsym.Choice(p+".class", int(leo)+4)
	if k <= int(leo)+2 {
		return uint64(k), false
	}
	v = zzsym.U64(p + ".far")
	zzsym.Assume(v > leo+2)
	return v, true
}

type c02Proposal struct {
	manifest ch.ProposalManifest // as sent
	records  []ch.Record
	entries  []ch.EntryIdentity // identities derived by the real SealProposalManifest (nil when refused)
	sealOK   bool               // the real sealer accepts manifest+records
	sealed   bool               // manifest.Digest is the sealer's digest
}

// c02NewProposal: a symbolic proposal positioned at base. wellFormed requests are sealed and have
// valid records and consistent range fields; otherwise range fields, version, record validity and
// the digest are arbitrary. The predecessor digest is zero, the digest of any stored entry, or a
// digest no stored entry has; predecessor term, authority and command id are arbitrary.
func c02NewProposal(p string, m *c02Model, base uint64, wellFormed bool) c02Proposal {
	cnt := 1 + zzsym.Choice(p+".count", 2)
	man := ch.ProposalManifest{
		Version: ch.ProposalManifestVersion, ChannelEpoch: zzsym.U64(p + ".epoch"), LeaderTerm: zzsym.U64(p + ".term"),
		FenceVersion: zzsym.U64(p + ".fence"), CommandID: c02Cmd(p), BaseOffset: base, LastOffset: base + uint64(cnt),
		PreviousTerm: zzsym.U64(p + ".prevterm"), PreviousIndex: base,
	}
	k := zzsym.Choice(p+".prevdigest", len(m.entries)+2)
	if k >= 1 && k <= len(m.entries) {
		man.PreviousDigest = m.entries[k-1].Digest
	} else if k > len(m.entries) {
		man.PreviousDigest = c02Garbage
	}
	recs := make([]ch.Record, cnt)
	for i := range recs {
		recs[i] = c02Record(p + ".rec")
	}
	garbageDigest := false
	if wellFormed {
		zzsym.Assume(man.ChannelEpoch != 0)
		zzsym.Assume(man.LeaderTerm != 0)
		zzsym.Assume(man.FenceVersion != 0)
		zzsym.Assume(man.CommandID != (ch.CommandID{}))
		zzsym.Assume(man.BaseOffset < ^uint64(0)-2)
		zzsym.Assume((man.BaseOffset == 0) == (man.PreviousTerm == 0) && (man.BaseOffset == 0) == (man.PreviousDigest == (ch.EntryDigest{})))
		for i := range recs {
			zzsym.Assume(recs[i].ID != 0)
			zzsym.Assume(recs[i].Epoch == man.ChannelEpoch)
			zzsym.Assume(recs[i].ServerTimestampMS > 0)
			recs[i].Index = zzsym.U64(p + ".rec.index")
			zzsym.Assume(recs[i].Index == 0 || recs[i].Index == man.BaseOffset+uint64(i)+1)
		}
	} else {
		if zzsym.Choice(p+".fault.version", 2) == 1 {
			man.Version = zzsym.U16(p + ".version")
			zzsym.Assume(man.Version != ch.ProposalManifestVersion)
		}
		if zzsym.Choice(p+".fault.base", 2) == 1 {
			man.BaseOffset = zzsym.U64(p + ".manbase")
			zzsym.Assume(man.BaseOffset != base)
		}
		if zzsym.Choice(p+".fault.last", 2) == 1 {
			man.LastOffset = zzsym.U64(p + ".manlast")
			zzsym.Assume(man.LastOffset != base+uint64(cnt))
		}
		if zzsym.Choice(p+".fault.previndex", 2) == 1 {
			man.PreviousIndex = zzsym.U64(p + ".manprevindex")
			zzsym.Assume(man.PreviousIndex != base)
		}
		for i := range recs {
			recs[i].Index = zzsym.U64(p + ".rec.index")
		}
		garbageDigest = zzsym.Choice(p+".fault.digest", 2) == 1
	}
	sealedMan, entries, ok := ch.SealProposalManifest(man, recs)
	out := c02Proposal{manifest: man, records: recs, sealOK: ok}
	if ok {
		out.entries = entries
		zzsym.Assume(sealedMan.Digest != c02Garbage)
	}
	if ok && !garbageDigest {
		out.manifest = sealedMan
		out.sealed = true
	} else {
		out.manifest.Digest = c02Garbage
	}
	if wellFormed {
		zzsym.Assert(ok, "SealProposalManifest refused a well-formed proposal")
	}
	return out
}

// c02Chains: the proposal names the model's tail as its predecessor (zero identity at genesis).
func c02Chains(m *c02Model, man ch.ProposalManifest) bool {
	t := m.tail()
	return man.BaseOffset == m.leo() && man.PreviousIndex == m.leo() && man.PreviousTerm == t.LeaderTerm && man.PreviousDigest == t.Digest
}

func c02FreshCommand(m *c02Model, man ch.ProposalManifest) bool {
	fresh := uint64(1) // branch-free accumulation keeps the oracle on one path
	for _, stored := range m.manifests {
		fresh &= 1 ^ zzsym.B2U(stored.CommandID == man.CommandID)
	}
	return fresh == 1
}

// c02IsReplayOf: the request is a byte-identical copy of stored proposal k (manifest and content).
func c02IsReplayOf(m *c02Model, k int, pr c02Proposal) bool {
	stored := m.manifests[k]
	if pr.manifest.BaseOffset != stored.BaseOffset || uint64(len(pr.records)) != stored.LastOffset-stored.BaseOffset {
		return false
	}
	same := zzsym.B2U(pr.manifest == stored)
	for i := range pr.records {
		same &= zzsym.B2U(c02SameContent(pr.records[i], m.records[int(stored.BaseOffset)+i]))
	}
	return same == 1
}

// c02IsReplay: the request is a byte-identical copy of some stored proposal.
func c02IsReplay(m *c02Model, pr c02Proposal) bool {
	any := uint64(0)
	for k := range m.manifests {
		any |= zzsym.B2U(c02IsReplayOf(m, k, pr))
	}
	return any == 1
}

