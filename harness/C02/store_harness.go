package store

import (
	"context"
	"errors"

	"github.com/WuKongIM/WuKongIM/internal/zzsym"
	ch "github.com/WuKongIM/WuKongIM/pkg/channel"
)

// C02 — step obligations on the real in-memory channel store.
//
// Every entry builds a store through the REAL exact-append API from symbolic proposals sealed by the
// real ch.SealProposalManifest, keeps an abstract model of what the log must contain (the list of
// accepted proposals, their sealed identities, the record content and the committed watermark),
// applies ONE operation with a symbolic request and asserts that the store is exactly the model
// after the transition the property prescribes, plus the representation invariant (c02Inv).
//
// Offsets used as map keys (base offsets, keep-through) are case-split with zzsym.Choice into every
// value 0..LEO+2 plus one symbolic "far beyond the log end" class, so that all 2^64 values are
// covered while the indexes stored in the maps stay concrete.

// ---------------------------------------------------------------- abstract model

type c02Model struct {
	manifests []ch.ProposalManifest
	entries   []ch.EntryIdentity // entries[i] is the identity at offset i+1
	records   []ch.Record        // semantic content at offset i+1 (Index/SizeBytes not compared)
	hw        uint64
}

func (m *c02Model) leo() uint64 { return uint64(len(m.entries)) }

func (m *c02Model) tail() ch.EntryIdentity {
	if len(m.entries) == 0 {
		return ch.EntryIdentity{}
	}
	return m.entries[len(m.entries)-1]
}

func (m *c02Model) add(sealed ch.ProposalManifest, entries []ch.EntryIdentity, records []ch.Record) {
	m.manifests = append(m.manifests, sealed)
	m.entries = append(m.entries, entries...)
	m.records = append(m.records, records...)
}

// boundary reports whether offset k (concrete) is the end of a stored proposal (or the log start).
func (m *c02Model) boundary(k uint64) bool {
	if k == 0 {
		return true
	}
	for _, man := range m.manifests {
		if man.LastOffset == k {
			return true
		}
	}
	return false
}

// prefix returns the model cut at proposal boundary k.
func (m *c02Model) prefix(k uint64) *c02Model {
	out := &c02Model{hw: m.hw}
	for _, man := range m.manifests {
		if man.LastOffset <= k {
			out.manifests = append(out.manifests, man)
		}
	}
	out.entries = append(out.entries, m.entries[:k]...)
	out.records = append(out.records, m.records[:k]...)
	return out
}

func c02BytesEq(a, b []byte) bool {
	if len(a) != len(b) {
		return false
	}
	eq := uint64(1)
	for i := range a {
		eq &= zzsym.B2U(a[i] == b[i])
	}
	return eq == 1
}

// c02SameContent: equality of the semantic fields an entry digest binds.
func c02SameContent(a, b ch.Record) bool {
	eq := zzsym.B2U(a.ID == b.ID) & zzsym.B2U(a.Epoch == b.Epoch) & zzsym.B2U(a.Setting == b.Setting) & zzsym.B2U(a.FromUID == b.FromUID) &
		zzsym.B2U(a.ClientMsgNo == b.ClientMsgNo) & zzsym.B2U(a.ServerTimestampMS == b.ServerTimestampMS) & zzsym.B2U(a.SyncOnce == b.SyncOnce) &
		zzsym.B2U(c02BytesEq(a.Payload, b.Payload))
	return eq == 1
}

// c02Holds: the store holds exactly the model (log, identities, proposal indexes, watermark).
func c02Holds(s *MemoryChannelStore, m *c02Model) bool {
	if len(s.records) != len(m.records) || len(s.entriesByIndex) != len(m.entries) ||
		len(s.proposalsByLast) != len(m.manifests) || len(s.proposalsByCommand) != len(m.manifests) {
		return false
	}
	ok := s.leoLocked() == m.leo() && s.checkpoint.HW == m.hw && s.retention == (RetentionState{})
	for i := range m.entries {
		e, present := s.entriesByIndex[uint64(i+1)]
		if !present {
			return false
		}
		if e != m.entries[i] || s.records[i].Index != uint64(i+1) || !c02SameContent(s.records[i], m.records[i]) {
			ok = false
		}
	}
	for _, man := range m.manifests {
		p, present := s.proposalsByLast[man.LastOffset]
		if !present {
			return false
		}
		if p.manifest != man {
			ok = false
		}
	}
	// order-independent conjunction over the command index
	for cmd, p := range s.proposalsByCommand {
		q, present := s.proposalsByLast[p.manifest.LastOffset]
		if !present {
			return false
		}
		if cmd != [32]byte(p.manifest.CommandID) || q != p {
			ok = false
		}
	}
	return ok
}

// c02Inv is the representation invariant of the property: the store's own exact-state loader
// succeeds and reports the tail; HW <= LEO; identities 1..LEO are present and form an unbroken
// predecessor chain starting at the zero identity; every record sits at its offset; the stored
// proposals tile 1..LEO and agree with the identities they cover.
func c02Inv(s *MemoryChannelStore) (loader, hwOK, chain, tiles bool) {
	leo := s.leoLocked()
	st, err := s.loadExactStateLocked()
	loader = err == nil && st.LEO == leo && st.HW == s.checkpoint.HW && st.CheckpointHW == s.checkpoint.HW
	hwOK = s.checkpoint.HW <= leo
	chain = uint64(len(s.entriesByIndex)) == leo && uint64(len(s.records)) == leo
	var prev ch.EntryIdentity
	for i := uint64(1); i <= leo; i++ {
		e, present := s.entriesByIndex[i]
		if !present || i > uint64(len(s.records)) {
			return loader, hwOK, false, false
		}
		if e.Index != i || e.PreviousIndex != i-1 || e.PreviousTerm != prev.LeaderTerm || e.PreviousDigest != prev.Digest ||
			e.Digest == (ch.EntryDigest{}) || e.Version != ch.ProposalManifestVersion || e.ChannelEpoch == 0 || e.LeaderTerm == 0 ||
			e.FenceVersion == 0 || e.CommandID == (ch.CommandID{}) || s.records[i-1].Index != i {
			chain = false
		}
		prev = e
	}
	if leo > 0 && err == nil && (st.TailIdentity != prev || st.Manifest.Digest != prev.Digest || st.Manifest.LastOffset != leo) {
		loader = false
	}
	if leo == 0 && err == nil && (st.TailIdentity != (ch.EntryIdentity{}) || st.Manifest != (ch.ProposalManifest{})) {
		loader = false
	}
	tiles = len(s.proposalsByCommand) == len(s.proposalsByLast)
	count := 0
	for at := leo; at > 0; {
		p, present := s.proposalsByLast[at]
		if !present {
			return loader, hwOK, chain, false
		}
		man := p.manifest
		if man.LastOffset != at || man.BaseOffset >= at {
			// indexes are concrete here; a malformed range cannot be walked further
			zzsym.Assert(false, "stored proposal has a range that does not end at its index key")
			return loader, hwOK, chain, false
		}
		last := s.entriesByIndex[at]
		first := s.entriesByIndex[man.BaseOffset+1]
		if man.Digest != last.Digest || man.PreviousDigest != first.PreviousDigest || man.PreviousTerm != first.PreviousTerm ||
			man.PreviousIndex != man.BaseOffset {
			tiles = false
		}
		for i := man.BaseOffset + 1; i <= at; i++ {
			e := s.entriesByIndex[i]
			if e.CommandID != man.CommandID || e.ChannelEpoch != man.ChannelEpoch || e.LeaderTerm != man.LeaderTerm ||
				e.FenceVersion != man.FenceVersion || e.Version != man.Version {
				tiles = false
			}
		}
		count++
		at = man.BaseOffset
	}
	if count != len(s.proposalsByLast) {
		tiles = false
	}
	for cmd, p := range s.proposalsByCommand {
		q, present := s.proposalsByLast[p.manifest.LastOffset]
		if !present {
			return loader, hwOK, chain, false
		}
		if cmd != [32]byte(p.manifest.CommandID) || q != p {
			tiles = false
		}
	}
	return loader, hwOK, chain, tiles
}

// ---------------------------------------------------------------- symbolic construction

var c02Garbage = ch.EntryDigest{0xEE, 0x11, 0xEE, 0x22, 0xEE, 0x33, 0xEE, 0x44, 0xEE, 0x55, 0xEE, 0x66, 0xEE, 0x77, 0xEE, 0x88,
	0xEE, 0x99, 0xEE, 0xAA, 0xEE, 0xBB, 0xEE, 0xCC, 0xEE, 0xDD, 0xEE, 0xEE, 0xEE, 0xFF, 0xEE, 0x01}

func c02Cmd(p string) (c ch.CommandID) {
	c[0] = zzsym.U8(p + ".cmd0")
	c[31] = zzsym.U8(p + ".cmd31")
	return c
}

// c02Record: symbolic message content of one of three shapes (lengths and the SyncOnce flag feed
// hash-writing branches in the digest, so they are concrete per path): 0 = one payload byte;
// 1 = empty payload, SyncOnce, one-byte sender; 2 = two payload bytes, one-byte client number.
func c02Record(p string, shape int) ch.Record {
	r := ch.Record{
		ID: zzsym.U64(p + ".id"), Epoch: zzsym.U64(p + ".recepoch"), Setting: zzsym.U8(p + ".setting"),
		ServerTimestampMS: zzsym.I64(p + ".ts"),
	}
	switch shape {
	case 1:
		r.SyncOnce = true
		r.FromUID = zzsym.String(p+".from", 1)
	case 2:
		r.Payload = zzsym.Bytes(p+".payload", 2)
		r.ClientMsgNo = zzsym.String(p+".clientno", 1)
	default:
		r.Payload = zzsym.Bytes(p+".payload", 1)
	}
	return r
}

// c02NoShapes pins the record shape to 0 in thorough entries whose other dimensions are already large.
var c02NoShapes bool

// c02Shape: quick = shape 0; thorough = any of the first n shapes, chosen once per record group
// (all stored records share one shape, the records of a request share another).
func c02Shape(p string, n int) int {
	if !zzsym.Thorough() || c02NoShapes {
		return 0
	}
	return zzsym.Choice(p+".shape", n)
}

func c02MaxProposals() int {
	if zzsym.Thorough() {
		return 3
	}
	return 2
}

// c02Build builds a store through the real AppendLeader from 0..max symbolic proposals of 1-2
// records, every one chained to the previous tail, with an arbitrary committed watermark
// 0..LEO persisted by the last append. Asserts that the real API accepts each of them.
func c02Build(p string, min, max int, check bool) (*MemoryChannelStore, *c02Model) {
	s := &MemoryChannelStore{id: ch.ChannelID{ID: "c", Type: 2}}
	m := &c02Model{}
	n := min + zzsym.Choice(p+".proposals", max-min+1)
	shape := c02Shape(p, 2)
	for k := 0; k < n; k++ {
		cnt := 1
		if k < 2 {
			cnt = 1 + zzsym.Choice(p+".count", 2) // a third proposal (thorough) has one record
		}
		base := m.leo()
		prev := m.tail()
		man := ch.ProposalManifest{
			Version: ch.ProposalManifestVersion, ChannelEpoch: zzsym.U64(p + ".epoch"), LeaderTerm: zzsym.U64(p + ".term"),
			FenceVersion: zzsym.U64(p + ".fence"), CommandID: c02Cmd(p), BaseOffset: base, LastOffset: base + uint64(cnt),
			PreviousTerm: prev.LeaderTerm, PreviousIndex: base, PreviousDigest: prev.Digest,
		}
		zzsym.Assume(man.ChannelEpoch != 0)
		zzsym.Assume(man.LeaderTerm != 0)
		zzsym.Assume(man.FenceVersion != 0)
		zzsym.Assume(man.CommandID != (ch.CommandID{}))
		for _, earlier := range m.manifests {
			zzsym.Assume(earlier.CommandID != man.CommandID)
		}
		recs := make([]ch.Record, cnt)
		for i := range recs {
			recs[i] = c02Record(p+".rec", shape)
			zzsym.Assume(recs[i].ID != 0)
			zzsym.Assume(recs[i].Epoch == man.ChannelEpoch)
			zzsym.Assume(recs[i].ServerTimestampMS > 0)
		}
		sealed, entries, ok := ch.SealProposalManifest(man, recs)
		if check {
			zzsym.Assert(ok && len(entries) == cnt, "SealProposalManifest refused a valid chained proposal")
		}
		if !ok {
			zzsym.Assume(false)
			return s, m
		}
		committed := uint64(0)
		if k == n-1 {
			committed = zzsym.U64(p + ".committed")
			zzsym.Assume(committed <= sealed.LastOffset)
		}
		res, err := s.AppendLeader(context.Background(), AppendLeaderRequest{
			Records: recs, Committed: committed, ExactBaseOffset: true, ExpectedBaseOffset: base, Proposal: sealed,
		})
		accepted := err == nil && res.Outcome == AppendOutcomeDurable && res.BaseOffset == base+1 && res.LastOffset == sealed.LastOffset && res.NeedFrom == 0
		if check {
			zzsym.Assert(accepted, "a valid proposal chained to the tail at the log end was not appended as Durable")
		} else {
			// proved for this very construction by Harness_C02_BuildInvariant
			zzsym.Assume(accepted)
		}
		m.add(sealed, entries, recs)
		m.hw = committed
	}
	for _, e := range m.entries {
		zzsym.Assume(e.Digest != c02Garbage)
	}
	return s, m
}

// c02Offset case-splits an arbitrary uint64 offset relative to the log end: each of 0..leo+2
// concretely, or any value beyond leo+2 symbolically.
func c02Offset(p string, leo uint64) (v uint64, far bool) {
	k := zzsym.Choice(p+".class", int(leo)+4)
	if k <= int(leo)+2 {
		return uint64(k), false
	}
	v = zzsym.U64(p + ".far")
	zzsym.Assume(v > leo+2)
	return v, true
}

type c02Proposal struct {
	manifest ch.ProposalManifest // as sent
	records  []ch.Record
	entries  []ch.EntryIdentity // identities derived by the real SealProposalManifest (nil when refused)
	sealOK   bool               // the real sealer accepts manifest+records
	sealed   bool               // manifest.Digest is the sealer's digest
}

// c02NewProposal: a symbolic proposal positioned at base. wellFormed requests are sealed and have
// valid records and consistent range fields; otherwise range fields, version, record validity and
// the digest are arbitrary. The predecessor digest is zero, the digest of any stored entry, or a
// digest no stored entry has; predecessor term, authority and command id are arbitrary.
func c02NewProposal(p string, m *c02Model, base uint64, wellFormed bool) c02Proposal {
	cnt := 1 + zzsym.Choice(p+".count", 2)
	man := ch.ProposalManifest{
		Version: ch.ProposalManifestVersion, ChannelEpoch: zzsym.U64(p + ".epoch"), LeaderTerm: zzsym.U64(p + ".term"),
		FenceVersion: zzsym.U64(p + ".fence"), CommandID: c02Cmd(p), BaseOffset: base, LastOffset: base + uint64(cnt),
		PreviousTerm: zzsym.U64(p + ".prevterm"), PreviousIndex: base,
	}
	k := len(m.entries) // malformed requests are pinned to the accepting predecessor: the stored tail
	if wellFormed {
		k = zzsym.Choice(p+".prevdigest", len(m.entries)+2)
	}
	if k >= 1 && k <= len(m.entries) {
		man.PreviousDigest = m.entries[k-1].Digest
	} else if k > len(m.entries) {
		man.PreviousDigest = c02Garbage
	}
	recs := make([]ch.Record, cnt)
	shape := c02Shape(p, 3)
	for i := range recs {
		recs[i] = c02Record(p+".rec", shape)
	}
	garbageDigest := false
	if wellFormed {
		zzsym.Assume(man.ChannelEpoch != 0)
		zzsym.Assume(man.LeaderTerm != 0)
		zzsym.Assume(man.FenceVersion != 0)
		zzsym.Assume(man.CommandID != (ch.CommandID{}))
		zzsym.Assume(man.BaseOffset < ^uint64(0)-2)
		zzsym.Assume((man.BaseOffset == 0) == (man.PreviousTerm == 0) && (man.BaseOffset == 0) == (man.PreviousDigest == (ch.EntryDigest{})))
		for i := range recs {
			zzsym.Assume(recs[i].ID != 0)
			zzsym.Assume(recs[i].Epoch == man.ChannelEpoch)
			zzsym.Assume(recs[i].ServerTimestampMS > 0)
			// records carry either no index or exactly their offset (a branch per record in the
			// sealer, so tied to the record shape: shape 2 requests are indexed)
			if shape == 2 {
				recs[i].Index = man.BaseOffset + uint64(i) + 1
			}
		}
	} else {
		// quick: no fault, each single range/version fault, or all of them; thorough: every combination
		fv, fb, fl, fp := false, false, false, false
		if zzsym.Thorough() {
			fv, fb = zzsym.Choice(p+".fault.version", 2) == 1, zzsym.Choice(p+".fault.base", 2) == 1
			fl, fp = zzsym.Choice(p+".fault.last", 2) == 1, zzsym.Choice(p+".fault.previndex", 2) == 1
		} else {
			f := zzsym.Choice(p+".fault", 6)
			fv, fb, fl, fp = f == 1 || f == 5, f == 2 || f == 5, f == 3 || f == 5, f == 4 || f == 5
		}
		if fv {
			man.Version = zzsym.U16(p + ".version")
			zzsym.Assume(man.Version != ch.ProposalManifestVersion)
		}
		if fb {
			man.BaseOffset = zzsym.U64(p + ".manbase")
			zzsym.Assume(man.BaseOffset != base)
		}
		if fl {
			man.LastOffset = zzsym.U64(p + ".manlast")
			zzsym.Assume(man.LastOffset != base+uint64(cnt))
		}
		if fp {
			man.PreviousIndex = zzsym.U64(p + ".manprevindex")
			zzsym.Assume(man.PreviousIndex != base)
		}
		// one record (any position) is arbitrary, the others are valid; thorough: all arbitrary
		loose := zzsym.Choice(p+".rec.loose", cnt)
		for i := range recs {
			if i == loose || zzsym.Thorough() {
				recs[i].Index = zzsym.U64(p + ".rec.index")
				continue
			}
			zzsym.Assume(recs[i].ID != 0)
			zzsym.Assume(recs[i].Epoch == man.ChannelEpoch)
			zzsym.Assume(recs[i].ServerTimestampMS > 0)
		}
		garbageDigest = zzsym.Choice(p+".fault.digest", 2) == 1
	}
	sealedMan, entries, ok := ch.SealProposalManifest(man, recs)
	out := c02Proposal{manifest: man, records: recs, sealOK: ok}
	if ok {
		out.entries = entries
		zzsym.Assume(sealedMan.Digest != c02Garbage)
	}
	if ok && !garbageDigest {
		out.manifest = sealedMan
		out.sealed = true
	} else {
		out.manifest.Digest = c02Garbage
	}
	if wellFormed {
		// sealing of valid proposals is C05's obligation and is re-asserted by Harness_C02_BuildInvariant
		zzsym.Assume(ok)
	}
	return out
}

// c02Chains: the proposal names the model's tail as its predecessor (zero identity at genesis).
func c02Chains(m *c02Model, man ch.ProposalManifest) bool {
	t := m.tail()
	return man.BaseOffset == m.leo() && man.PreviousIndex == m.leo() && man.PreviousTerm == t.LeaderTerm && man.PreviousDigest == t.Digest
}

func c02FreshCommand(m *c02Model, man ch.ProposalManifest) bool {
	fresh := uint64(1) // branch-free accumulation keeps the oracle on one path
	for _, stored := range m.manifests {
		fresh &= 1 ^ zzsym.B2U(stored.CommandID == man.CommandID)
	}
	return fresh == 1
}

// c02IsReplayOf: the request is a byte-identical copy of stored proposal k (manifest and content).
func c02IsReplayOf(m *c02Model, k int, pr c02Proposal) bool {
	stored := m.manifests[k]
	if pr.manifest.BaseOffset != stored.BaseOffset || uint64(len(pr.records)) != stored.LastOffset-stored.BaseOffset {
		return false
	}
	same := zzsym.B2U(pr.manifest == stored)
	for i := range pr.records {
		same &= zzsym.B2U(c02SameContent(pr.records[i], m.records[int(stored.BaseOffset)+i]))
	}
	return same == 1
}

// c02IsReplay: the request is a byte-identical copy of some stored proposal.
func c02IsReplay(m *c02Model, pr c02Proposal) bool {
	any := uint64(0)
	for k := range m.manifests {
		any |= zzsym.B2U(c02IsReplayOf(m, k, pr))
	}
	return any == 1
}

func c02AssertInv(s *MemoryChannelStore) {
	loader, hwOK, chain, tiles := c02Inv(s)
	zzsym.Assert(loader, "after the step the store's exact-state loader fails or misreports the tail")
	zzsym.Assert(hwOK, "after the step the committed watermark exceeds the log end")
	zzsym.Assert(chain, "after the step the identities are not an unbroken predecessor chain over 1..LEO")
	zzsym.Assert(tiles, "after the step the stored proposals do not tile the log consistently with the identities")
}

func c02MaxU64(a, b uint64) uint64 {
	d := zzsym.B2U(b > a)
	return a*(1^d) + b*d
}

// ---------------------------------------------------------------- base case

// Harness_C02_BuildInvariant: every store built through the real exact AppendLeader from valid
// proposals chained to the tail (the construction all other entries start from) accepts each
// proposal as Durable, satisfies the invariant and holds exactly the appended proposals.
func Harness_C02_BuildInvariant() {
	c02NoShapes = false
	s, m := c02Build("b", 0, c02MaxProposals(), true)
	loader, hwOK, chain, tiles := c02Inv(s)
	zzsym.Assert(loader, "built store: the exact-state loader fails or misreports the tail")
	zzsym.Assert(hwOK, "built store: the committed watermark exceeds the log end")
	zzsym.Assert(chain, "built store: the identities are not an unbroken predecessor chain over 1..LEO")
	zzsym.Assert(tiles, "built store: the stored proposals do not tile the log consistently with the identities")
	zzsym.Assert(c02Holds(s, m), "built store does not hold exactly the appended proposals")
	if m.leo() > 0 {
		zzsym.Reach("non-empty")
	}
	zzsym.Observe("built", m.leo(), uint64(len(m.manifests)), s.checkpoint.HW)
}

// ---------------------------------------------------------------- (1) AppendLeader step

func c02AppendStep(wellFormed bool, maxBuild int) (AppendOutcome, bool) {
	s, m := c02Build("b", 0, maxBuild, false)
	leo, hw := m.leo(), m.hw

	base, far := leo, false
	if wellFormed {
		base, far = c02Offset("base", leo)
	}
	pr := c02NewProposal("q", m, base, wellFormed)
	committed := zzsym.U64("q.committed")
	if wellFormed {
		zzsym.Assume(committed <= pr.manifest.LastOffset) // Committed beyond the proposal: AppendMalformed
	}
	req := AppendLeaderRequest{
		Records: pr.records, Class: AppendClass(zzsym.U8("q.class")), Committed: committed,
		ServerAllocatedMessageIDs: zzsym.Bool("q.serverids"),
		ExactBaseOffset:           true, ExpectedBaseOffset: base, Proposal: pr.manifest,
	}
	res, err := s.AppendLeader(context.Background(), req)

	c02AssertInv(s)
	zzsym.Assert(s.checkpoint.HW >= hw && s.leoLocked() >= leo, "AppendLeader moved the committed watermark backwards or shortened the log")
	zzsym.Assert((res.Outcome == AppendOutcomeDurable || res.Outcome == AppendOutcomeAlreadyDurable ||
		res.Outcome == AppendOutcomeConflict || res.Outcome == AppendOutcomeDefinitelyNotWritten) && (err == nil) == res.Outcome.Durable(),
		"AppendLeader outcome outside the closed set or inconsistent with its error")

	newHW := c02MaxU64(hw, committed)
	validReq := pr.sealOK && pr.sealed && committed <= pr.manifest.LastOffset && pr.manifest.BaseOffset == base
	chains := c02Chains(m, pr.manifest)
	fresh := c02FreshCommand(m, pr.manifest)
	replay := c02IsReplay(m, pr)

	switch res.Outcome {
	case AppendOutcomeDurable:
		zzsym.Reach("durable")
		zzsym.Assert(!far && base == leo && pr.manifest.BaseOffset == leo, "Durable although the base offset is not the log end")
		zzsym.Assert(chains, "Durable although the manifest predecessor is not the stored tail")
		zzsym.Assert(validReq && fresh, "Durable for a request that is not a sealed well-formed proposal with a new command id")
		zzsym.Assert(res.BaseOffset == leo+1 && res.LastOffset == leo+uint64(len(pr.records)) && res.LastOffset == pr.manifest.LastOffset && res.NeedFrom == 0,
			"Durable result does not describe the appended range")
		if pr.sealOK && !far {
			next := &c02Model{manifests: m.manifests, entries: m.entries, records: m.records}
			next.add(pr.manifest, pr.entries, pr.records)
			next.hw = newHW
			zzsym.Assert(c02Holds(s, next), "after Durable the store is not the old log plus exactly the sealed proposal, HW = max(HW, Committed)")
		}
	case AppendOutcomeAlreadyDurable:
		zzsym.Assert(replay && validReq, "AlreadyDurable for a request that is not a byte-identical stored proposal")
		zzsym.Assert(res.LastOffset == pr.manifest.LastOffset && res.BaseOffset == pr.manifest.BaseOffset+1 && res.NeedFrom == 0, "AlreadyDurable result does not describe the stored range")
		same := &c02Model{manifests: m.manifests, entries: m.entries, records: m.records, hw: newHW}
		zzsym.Assert(c02Holds(s, same), "AlreadyDurable changed the log (only HW may advance to Committed)")
	default:
		zzsym.Reach("refused")
		zzsym.Assert(c02Holds(s, m), "a refused AppendLeader changed the store")
		zzsym.Assert(res.BaseOffset == 0 && res.LastOffset == 0, "a refused AppendLeader reports an offset range")
		zzsym.Assert(res.NeedFrom == 0 || (res.Outcome == AppendOutcomeConflict && base > leo && res.NeedFrom == leo+1 && errors.Is(err, ch.ErrLogConflict)),
			"NeedFrom reported without a gap, or not LEO+1")
	}
	// completeness of the documented gap / accept / replay cases
	zzsym.Assert(!(validReq && base > leo) || (res.Outcome == AppendOutcomeConflict && res.NeedFrom == leo+1), "a gap did not give Conflict with NeedFrom = LEO+1")
	zzsym.Assert(!(validReq && !far && chains && fresh) || res.Outcome == AppendOutcomeDurable, "a valid proposal chained to the tail at the log end was refused")
	zzsym.Assert(!(validReq && !far && replay) || res.Outcome == AppendOutcomeAlreadyDurable, "an exact replay of a stored proposal was not AlreadyDurable")
	zzsym.Observe("append", uint64(res.Outcome), leo, res.NeedFrom, zzsym.B2U(err == nil))
	return res.Outcome, far
}

// Harness_C02_AppendStep: one exact AppendLeader with a sealed, well-formed proposal at an arbitrary
// base offset, arbitrary predecessor, authority, command id (possibly stored) and Committed.
func Harness_C02_AppendStep() {
	c02NoShapes = false
	outcome, far := c02AppendStep(true, c02MaxProposals())
	if far {
		zzsym.Reach("far-base")
	}
	if outcome == AppendOutcomeAlreadyDurable {
		zzsym.Reach("already-durable")
	}
}

// Harness_C02_AppendMalformed: one exact AppendLeader whose manifest range fields, version, record
// validity and digest are arbitrary: nothing but a sealed well-formed proposal is ever written.
func Harness_C02_AppendMalformed() {
	c02NoShapes = true
	c02AppendStep(false, 1)
}

// ---------------------------------------------------------------- (1) ReplaceRecoverySuffix step

func c02ReplaceStep(wellFormed bool, maxBuild, maxProposals int, fixedCount bool) {
	s, m := c02Build("b", 0, maxBuild, false)
	leo, hw := m.leo(), m.hw

	current, loadErr := s.loadExactStateLocked()
	zzsym.Assume(loadErr == nil) // proved by Harness_C02_BuildInvariant
	// Expected = the real frontier, perturbed by arbitrary deltas (exact iff every delta is zero)
	exp := current
	dLEO, dHW, dCk := zzsym.U64("exp.dleo"), zzsym.U64("exp.dhw"), zzsym.U64("exp.dcheckpoint")
	dTerm, dIndex := zzsym.U64("exp.dterm"), zzsym.U64("exp.dindex")
	fDigest, fTail, fCmd := zzsym.U8("exp.flipdigest"), zzsym.U8("exp.fliptail"), zzsym.U8("exp.flipcmd")
	exp.LEO += dLEO
	exp.HW += dHW
	exp.CheckpointHW += dCk
	exp.Manifest.LeaderTerm += dTerm
	exp.TailIdentity.Index += dIndex
	exp.Manifest.Digest[0] ^= fDigest
	exp.TailIdentity.Digest[31] ^= fTail
	exp.TailIdentity.CommandID[0] ^= fCmd
	exact := dLEO == 0 && dHW == 0 && dCk == 0 && dTerm == 0 && dIndex == 0 && fDigest == 0 && fTail == 0 && fCmd == 0
	if !wellFormed {
		zzsym.Assume(exact) // malformed suffix: everything else is pinned to the accepting case
	}

	var kt uint64
	far := false
	if wellFormed {
		kt, far = c02Offset("keep", leo)
	} else {
		kt = uint64(zzsym.Choice("keep", int(leo)+1))
	}
	committed := zzsym.U64("r.committed")
	inRange := !far && kt <= leo
	onBoundary := inRange && m.boundary(kt)
	kept := &c02Model{}
	if inRange {
		kept = m.prefix(kt) // meaningful only on a proposal boundary; an off-boundary cut is never accepted
	}
	np := maxProposals
	if !fixedCount {
		np = zzsym.Choice("r.proposals", maxProposals+1)
	}
	next := &c02Model{manifests: kept.manifests, entries: kept.entries, records: kept.records}
	proposals := make([]RecoveryProposal, 0, np)
	chained := true // concrete per path: every proposal sent is sealed, fresh and chained on what precedes it
	chainedSym := uint64(1)
	runBase := kt
	for i := 0; i < np; i++ {
		pr := c02NewProposal("r", next, runBase, wellFormed)
		proposals = append(proposals, RecoveryProposal{Manifest: pr.manifest, Records: pr.records})
		if !(pr.sealOK && pr.sealed) {
			chained = false
			break
		}
		chainedSym &= zzsym.B2U(c02Chains(next, pr.manifest)) & zzsym.B2U(c02FreshCommand(next, pr.manifest))
		next.add(pr.manifest, pr.entries, pr.records)
		runBase = pr.manifest.LastOffset
	}
	complete := chained && chainedSym == 1
	next.hw = committed

	res, err := s.ReplaceRecoverySuffix(context.Background(), ReplaceRecoverySuffixRequest{
		Expected: exp, KeepThrough: kt, Proposals: proposals, Committed: committed,
	})

	c02AssertInv(s)
	zzsym.Assert(s.checkpoint.HW >= hw, "ReplaceRecoverySuffix lowered the committed watermark")
	accept := exact && onBoundary && kt >= hw && complete && committed >= hw && committed <= next.leo()
	if res.Outcome.Durable() {
		zzsym.Reach("replaced")
		zzsym.Assert(err == nil && res.Outcome == AppendOutcomeDurable, "accepted replace with an error or a replay outcome")
		zzsym.Assert(exact, "replace accepted although Expected is not the current exact frontier")
		zzsym.Assert(inRange && kt >= hw, "replace accepted with KeepThrough outside [HW, LEO]")
		zzsym.Assert(onBoundary, "replace accepted with KeepThrough inside a stored proposal")
		zzsym.Assert(committed >= hw, "replace accepted with Committed below the current watermark")
		zzsym.Assert(complete, "replace accepted a replacement suffix that is not a sealed chain on the kept prefix")
		if onBoundary && chained {
			zzsym.Assert(committed <= next.leo() && res.LastOffset == next.leo(), "replace accepted with Committed beyond the new log end, or misreports the new log end")
			zzsym.Assert(c02Holds(s, next), "after replace the store is not the kept prefix plus exactly the replacement proposals with HW = Committed")
		}
		if inRange && kt < leo {
			zzsym.Reach("suffix-cut")
		}
	} else {
		zzsym.Reach("refused")
		zzsym.Assert(err != nil && (res.Outcome == AppendOutcomeConflict || res.Outcome == AppendOutcomeDefinitelyNotWritten) && res.LastOffset == 0,
			"refused replace without an error or with an outcome outside {Conflict, DefinitelyNotWritten}")
		zzsym.Assert(c02Holds(s, m), "a refused replace changed the store")
	}
	zzsym.Assert(!accept || res.Outcome == AppendOutcomeDurable, "a replace fenced by the exact frontier with a valid suffix was refused")
	zzsym.Observe("replace", uint64(res.Outcome), leo, res.LastOffset, zzsym.B2U(err == nil))
}

// Harness_C02_ReplaceStep: one ReplaceRecoverySuffix with an arbitrary Expected frontier (any
// deviation from the real one), arbitrary KeepThrough and Committed, and 0..1 (thorough 0..2)
// well-formed replacement proposals with arbitrary predecessor/authority/command.
func Harness_C02_ReplaceStep() {
	c02NoShapes = false
	c02ReplaceStep(true, 2, 1, false)
}

// Harness_C02_ReplaceTwoProposals (thorough only): a replacement suffix of exactly two proposals on
// a history of 0..1 proposals: the second must chain on the first, command ids must be new among
// the kept prefix and the first replacement, and a failure of the second leaves the store untouched.
func Harness_C02_ReplaceTwoProposals() {
	c02NoShapes = true
	c02ReplaceStep(true, 1, 2, true)
}

// Harness_C02_ReplaceMalformed: the replacement proposal itself is arbitrary (range fields,
// version, records, digest): a replace is atomic, nothing is cut unless the whole suffix is valid.
func Harness_C02_ReplaceMalformed() {
	c02NoShapes = true
	c02ReplaceStep(false, 1, 1, true)
}

// ---------------------------------------------------------------- (1) watermark setter

// Harness_C02_StoreCheckpoint: the checkpoint setter never lowers HW and touches nothing else. The
// store itself does not clamp: the caller contract HW <= LEO (the reactor passes its state HW,
// C06) is needed for the HW <= LEO part; Load clamps what it reports.
func Harness_C02_StoreCheckpoint() {
	c02NoShapes = false
	s, m := c02Build("b", 0, 2, false)
	hw := zzsym.U64("checkpoint.hw")
	err := s.StoreCheckpoint(context.Background(), ch.Checkpoint{HW: hw})
	zzsym.Assert(err == nil, "StoreCheckpoint failed")
	zzsym.Assert(s.checkpoint.HW >= m.hw, "StoreCheckpoint lowered the committed watermark")
	after := &c02Model{manifests: m.manifests, entries: m.entries, records: m.records, hw: c02MaxU64(m.hw, hw)}
	zzsym.Assert(c02Holds(s, after), "StoreCheckpoint changed the log or did not store max(HW, requested)")
	loader, hwOK, chain, tiles := c02Inv(s)
	zzsym.Assert(hw > m.leo() || (loader && hwOK && chain && tiles), "StoreCheckpoint within the log end broke the invariant")
	st, loadErr := s.Load(context.Background())
	zzsym.Assert(loadErr == nil && st.HW <= st.LEO && st.LEO == m.leo(), "Load reports a committed watermark beyond the log end")
	if hw > m.hw {
		zzsym.Reach("advanced")
	}
	zzsym.Observe("checkpoint", s.checkpoint.HW, m.leo())
}

// ---------------------------------------------------------------- (2) agreement lemma

// Harness_C02_Agreement: two stores built independently through the real API (both satisfy the
// chain invariant, Harness_C02_BuildInvariant). If they hold the same identity (digest) at offset
// i they hold the same identity and the same content at every offset j <= i.
func Harness_C02_Agreement() {
	c02NoShapes = false
	max := 2
	if zzsym.Thorough() {
		max = 3
	}
	a, ma := c02Build("a", 1, max, false)
	b, mb := c02Build("b", 1, max, false)
	n := int(ma.leo())
	if int(mb.leo()) < n {
		n = int(mb.leo())
	}
	i := 1 + zzsym.Choice("i", n)
	ea, oka := a.entriesByIndex[uint64(i)]
	eb, okb := b.entriesByIndex[uint64(i)]
	zzsym.Assert(oka && okb, "identity missing at an offset <= LEO")
	if ea.Digest == eb.Digest {
		zzsym.Reach("same-identity-at-i")
		for j := 1; j <= i; j++ {
			ja, jb := a.entriesByIndex[uint64(j)], b.entriesByIndex[uint64(j)]
			zzsym.Assert(ja == jb, "two chained logs agree on the identity at i but differ in an identity at j <= i")
			zzsym.Assert(ja.ChannelEpoch == jb.ChannelEpoch && ja.LeaderTerm == jb.LeaderTerm && ja.FenceVersion == jb.FenceVersion &&
				ja.CommandID == jb.CommandID && ja.Digest == jb.Digest, "agreeing logs differ in authority, command or digest at j <= i")
			ra, oka := a.recordBySeqLocked(uint64(j))
			rb, okb := b.recordBySeqLocked(uint64(j))
			zzsym.Assert(oka && okb && c02SameContent(ra, rb), "agreeing logs differ in message content at j <= i")
		}
	} else {
		zzsym.Reach("different-identity-at-i")
	}
	zzsym.Observe("agreement", uint64(i), ma.leo(), mb.leo(), zzsym.B2U(ea.Digest == eb.Digest))
}
