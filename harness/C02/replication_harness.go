package replication

import (
	"context"

	"github.com/WuKongIM/WuKongIM/internal/zzsym"
	ch "github.com/WuKongIM/WuKongIM/pkg/channel"
	channelstore "github.com/WuKongIM/WuKongIM/pkg/channel/store"
)

// C02 — adapter result normalisation and recovery-view validation. The reference predicates below
// are written from the property / the documented result contracts, not from the code under test.

// ---------------------------------------------------------------- symbolic values

func c02Sparse32(p string) (a [32]byte) {
	a[0] = zzsym.U8(p + ".b0")
	a[31] = zzsym.U8(p + ".b31")
	return a
}

func c02Identity(p string) ch.EntryIdentity {
	return ch.EntryIdentity{
		Version: zzsym.U16(p + ".version"), ChannelEpoch: zzsym.U64(p + ".epoch"), LeaderTerm: zzsym.U64(p + ".term"),
		FenceVersion: zzsym.U64(p + ".fence"), Index: zzsym.U64(p + ".index"), PreviousTerm: zzsym.U64(p + ".prevterm"),
		PreviousIndex: zzsym.U64(p + ".previndex"), CommandID: ch.CommandID(c02Sparse32(p + ".cmd")),
		PreviousDigest: ch.EntryDigest(c02Sparse32(p + ".prevdigest")), Digest: ch.EntryDigest(c02Sparse32(p + ".digest")),
	}
}

func c02Manifest(p string) ch.ProposalManifest {
	return ch.ProposalManifest{
		Version: zzsym.U16(p + ".version"), ChannelEpoch: zzsym.U64(p + ".epoch"), LeaderTerm: zzsym.U64(p + ".term"),
		FenceVersion: zzsym.U64(p + ".fence"), CommandID: ch.CommandID(c02Sparse32(p + ".cmd")),
		BaseOffset: zzsym.U64(p + ".base"), LastOffset: zzsym.U64(p + ".last"), PreviousTerm: zzsym.U64(p + ".prevterm"),
		PreviousIndex: zzsym.U64(p + ".previndex"), PreviousDigest: ch.EntryDigest(c02Sparse32(p + ".prevdigest")),
		Digest: ch.EntryDigest(c02Sparse32(p + ".digest")),
	}
}

func c02Err(p string) error {
	switch zzsym.Choice(p, 4) {
	case 1:
		return ch.ErrLogConflict
	case 2:
		return ch.ErrInvalidConfig
	case 3:
		return ch.ErrStaleMeta
	}
	return nil
}

func c02And(bs ...bool) bool {
	r := uint64(1)
	for _, b := range bs {
		r &= zzsym.B2U(b)
	}
	return r == 1
}

func c02Implies(a, b bool) bool { return (1^zzsym.B2U(a))|zzsym.B2U(b) == 1 }

// ---------------------------------------------------------------- reference predicates

// c02RefIdentity: a well-formed entry identity: complete authority, command and digest; it names
// the preceding offset; the zero predecessor exactly at offset 1.
func c02RefIdentity(e ch.EntryIdentity) bool {
	genesis := e.PreviousIndex == 0
	return c02And(e.Version == ch.ProposalManifestVersion, e.ChannelEpoch != 0, e.LeaderTerm != 0, e.FenceVersion != 0,
		e.Index != 0, e.Index == e.PreviousIndex+1, e.CommandID != (ch.CommandID{}), e.Digest != (ch.EntryDigest{}),
		genesis == (e.PreviousTerm == 0), genesis == (e.PreviousDigest == (ch.EntryDigest{})))
}

// c02RefState: committed watermark within the log; the empty log has the zero frontier; otherwise
// manifest and tail identity both describe offset LEO with one authority, command and digest.
func c02RefState(s ReplicaState) bool {
	if s.LEO == 0 {
		return c02And(s.Committed == 0, s.Manifest == (ch.ProposalManifest{}), s.TailIdentity == (ch.EntryIdentity{}))
	}
	m, t := s.Manifest, s.TailIdentity
	genesis := m.BaseOffset == 0
	return c02And(s.Committed <= s.LEO, m.LastOffset == s.LEO, t.Index == s.LEO, c02RefIdentity(t),
		m.Version == ch.ProposalManifestVersion, m.ChannelEpoch != 0, m.LeaderTerm != 0, m.FenceVersion != 0,
		m.CommandID != (ch.CommandID{}), m.Digest != (ch.EntryDigest{}), m.BaseOffset < m.LastOffset, m.PreviousIndex == m.BaseOffset,
		genesis == (m.PreviousTerm == 0), genesis == (m.PreviousDigest == (ch.EntryDigest{})),
		t.Version == m.Version, t.ChannelEpoch == m.ChannelEpoch, t.LeaderTerm == m.LeaderTerm, t.FenceVersion == m.FenceVersion,
		t.CommandID == m.CommandID, t.Digest == m.Digest)
}

// c02RefChain: any two probed identities at consecutive offsets are linked: the later one names
// the earlier one's offset, term and digest as its predecessor.
func c02RefChain(entries []EntryProbe) bool {
	ok := uint64(1)
	for i := range entries {
		for j := range entries {
			a, b := entries[i], entries[j]
			consecutive := c02And(a.Present, b.Present, b.Index == a.Index+1, a.Index != 0)
			linked := c02And(b.Identity.PreviousIndex == a.Identity.Index, b.Identity.PreviousTerm == a.Identity.LeaderTerm,
				b.Identity.PreviousDigest == a.Identity.Digest)
			ok &= zzsym.B2U(c02Implies(consecutive, linked))
		}
	}
	return ok == 1
}

// c02RefProbes: entries are position-aligned with the requested indexes, present exactly up to the
// log end, carry well-formed identities at their own offset, and are chain-consistent.
func c02RefProbes(indexes []uint64, leo uint64, entries []EntryProbe) bool {
	if len(entries) != len(indexes) {
		return false
	}
	ok := uint64(1)
	for i, e := range entries {
		ok &= zzsym.B2U(c02And(e.Index == indexes[i], e.Index != 0, e.Present == (e.Index <= leo)))
		ok &= zzsym.B2U(c02Implies(e.Present, c02And(e.Identity.Index == e.Index, c02RefIdentity(e.Identity))))
		ok &= zzsym.B2U(c02Implies(!e.Present, e.Identity == (ch.EntryIdentity{})))
	}
	return ok == 1 && c02RefChain(entries)
}

// ---------------------------------------------------------------- (3) result normalisation

// Harness_C02_NormalizeMutationResult: whatever a store returns, the adapter hands on either the
// unchanged result, if it has one of the documented shapes, or {Unknown, ErrInvalidConfig}; and a
// normalised result is always accepted by the exchange server's mapping with the matching status.
func Harness_C02_NormalizeMutationResult() {
	mutation := Mutation{Manifest: ch.ProposalManifest{BaseOffset: zzsym.U64("base"), LastOffset: zzsym.U64("last")}}
	in := MutationResult{Outcome: ch.AppendOutcome(zzsym.U8("outcome")), LastOffset: zzsym.U64("lastoffset"), NeedFrom: zzsym.U64("needfrom"), Err: c02Err("err")}
	out := normalizeMutationResult(mutation, in)

	durable := in.Outcome == ch.AppendOutcomeDurable || in.Outcome == ch.AppendOutcomeAlreadyDurable
	refused := in.Outcome == ch.AppendOutcomeDefinitelyNotWritten || in.Outcome == ch.AppendOutcomeConflict || in.Outcome == ch.AppendOutcomeUnknown
	documented := (durable && in.Err == nil && in.LastOffset == mutation.Manifest.LastOffset && in.NeedFrom == 0) ||
		(refused && in.Err != nil && in.LastOffset == 0 &&
			(in.NeedFrom == 0 || (in.Outcome == ch.AppendOutcomeConflict && in.NeedFrom <= mutation.Manifest.LastOffset)))
	if documented {
		zzsym.Reach("passed-through")
		zzsym.Assert(out == in, "a documented store result was altered by normalisation")
	} else {
		zzsym.Reach("degraded")
		zzsym.Assert(out.Outcome == ch.AppendOutcomeUnknown && out.Err == ch.ErrInvalidConfig && out.LastOffset == 0 && out.NeedFrom == 0,
			"an undocumented store result was not degraded to Unknown")
	}
	// closed result set
	zzsym.Assert(out.Outcome >= ch.AppendOutcomeDurable && out.Outcome <= ch.AppendOutcomeUnknown, "normalised outcome outside the closed set")
	zzsym.Assert(!out.Outcome.Durable() || (out.Err == nil && out.LastOffset == mutation.Manifest.LastOffset && out.NeedFrom == 0), "durable result without the proposal's last offset")
	zzsym.Assert(out.Outcome.Durable() || (out.Err != nil && out.LastOffset == 0), "non-durable result without an error or with an offset")
	zzsym.Assert(out.NeedFrom == 0 || (out.Outcome == ch.AppendOutcomeConflict && out.NeedFrom <= mutation.Manifest.LastOffset), "NeedFrom outside a gap conflict")
	// the exchange server accepts every normalised result
	mapped, ok := mapMutationResult(ReplicateRequest{}, mutation, out)
	zzsym.Assert(ok, "a normalised result is rejected by the exchange-server mapping")
	zzsym.Assert((mapped.Status == ReplicateDurable) == (out.Outcome == ch.AppendOutcomeDurable) &&
		(mapped.Status == ReplicateAlreadyDurable) == (out.Outcome == ch.AppendOutcomeAlreadyDurable), "durable status does not match the store outcome")
	zzsym.Assert((mapped.Status == ReplicateNeedFrom) == (out.NeedFrom != 0) && mapped.NeedFrom == out.NeedFrom, "NeedFrom status does not match the store result")
	zzsym.Observe("normalize", uint64(out.Outcome), uint64(mapped.Status))
}

// Harness_C02_NormalizeReplacementResult: same for recovery replacement results.
func Harness_C02_NormalizeReplacementResult() {
	replacement := RecoveryReplacement{KeepThrough: zzsym.U64("keep")}
	want := replacement.KeepThrough
	if zzsym.Choice("proposals", 2) == 1 {
		replacement.Proposals = []RecoveryProposal{{Manifest: ch.ProposalManifest{LastOffset: zzsym.U64("p0.last")}}, {Manifest: ch.ProposalManifest{LastOffset: zzsym.U64("p1.last")}}}
		want = replacement.Proposals[1].Manifest.LastOffset
	}
	in := RecoveryReplacementResult{Outcome: ch.AppendOutcome(zzsym.U8("outcome")), LastOffset: zzsym.U64("lastoffset"), Err: c02Err("err")}
	out := normalizeRecoveryReplacementResult(replacement, in)

	durable := in.Outcome == ch.AppendOutcomeDurable || in.Outcome == ch.AppendOutcomeAlreadyDurable
	refused := in.Outcome == ch.AppendOutcomeDefinitelyNotWritten || in.Outcome == ch.AppendOutcomeConflict || in.Outcome == ch.AppendOutcomeUnknown
	documented := (durable && in.Err == nil && in.LastOffset == want) || (refused && in.Err != nil && in.LastOffset == 0)
	if documented {
		zzsym.Reach("passed-through")
		zzsym.Assert(out == in, "a documented replacement result was altered by normalisation")
	} else {
		zzsym.Reach("degraded")
		zzsym.Assert(out.Outcome == ch.AppendOutcomeUnknown && out.Err == ch.ErrInvalidConfig && out.LastOffset == 0, "an undocumented replacement result was not degraded to Unknown")
	}
	zzsym.Assert(out.Outcome >= ch.AppendOutcomeDurable && out.Outcome <= ch.AppendOutcomeUnknown, "normalised replacement outcome outside the closed set")
	zzsym.Assert(!out.Outcome.Durable() || (out.Err == nil && out.LastOffset == want), "durable replacement without the new log end")
	zzsym.Assert(out.Outcome.Durable() || (out.Err != nil && out.LastOffset == 0), "non-durable replacement without an error or with an offset")
	zzsym.Observe("normalize-replace", uint64(out.Outcome))
}

// ---------------------------------------------------------------- (3) frontier / probe validation

// Harness_C02_ValidReplicaState: validReplicaState (exchange server) and validateExactState (store
// adapter) agree with each other and with the reference predicate on an arbitrary frontier.
func Harness_C02_ValidReplicaState() {
	s := ReplicaState{LEO: zzsym.U64("leo"), Committed: zzsym.U64("committed")}
	if zzsym.Choice("shape", 2) == 1 {
		s.Manifest = c02Manifest("m")
		s.TailIdentity = c02Identity("t")
	}
	checkpoint := s.Committed + zzsym.U64("dcheckpoint")
	got := validReplicaState(s)
	exact := validateExactState(channelstore.ExactState{
		InitialState: channelstore.InitialState{LEO: s.LEO, HW: s.Committed, CheckpointHW: checkpoint},
		Manifest:     s.Manifest, TailIdentity: s.TailIdentity,
	}) == nil
	ref := c02RefState(s)
	if got {
		zzsym.Reach("valid")
	} else {
		zzsym.Reach("invalid")
	}
	zzsym.Assert(got == ref, "validReplicaState disagrees with the reference frontier predicate")
	zzsym.Assert(exact == (ref && checkpoint == s.Committed), "validateExactState disagrees with the reference frontier predicate")
	zzsym.Assert(!got || s.Committed <= s.LEO, "a frontier with the committed watermark beyond the log end is reported valid")
	zzsym.Observe("state", zzsym.B2U(got), zzsym.B2U(exact))
}

func c02Probes(n int) ([]uint64, []EntryProbe) {
	indexes := make([]uint64, n)
	entries := make([]EntryProbe, n)
	for i := range entries {
		indexes[i] = uint64(1 + zzsym.Choice("probe.requested", 4))
		entries[i].Index = zzsym.U64("probe.index")
		if zzsym.Choice("probe.present", 2) == 1 {
			entries[i].Present = true
			entries[i].Identity = c02Identity("probe.id")
		} else if zzsym.Choice("probe.absent-nonzero", 2) == 1 {
			entries[i].Identity = c02Identity("probe.id")
		}
	}
	return indexes, entries
}

func c02ProbeCount() int {
	if zzsym.Thorough() {
		return 3
	}
	return 2
}

// Harness_C02_ProbeChain: validProbeEntryChain on arbitrary probes at distinct offsets whose
// identities sit at their own offset (what its callers establish first): it reports valid exactly
// when every pair of consecutive probed offsets is linked.
func Harness_C02_ProbeChain() {
	n := c02ProbeCount() + 1
	indexes, entries := c02Probes(n)
	for i := range entries {
		zzsym.Assume(entries[i].Index == indexes[i])
		if entries[i].Present {
			zzsym.Assume(entries[i].Identity.Index == entries[i].Index)
		}
		for j := 0; j < i; j++ {
			zzsym.Assume(indexes[i] != indexes[j])
		}
	}
	got := validProbeEntryChain(entries)
	ref := c02RefChain(entries)
	if got {
		zzsym.Reach("chain-valid")
	} else {
		zzsym.Reach("chain-invalid")
	}
	zzsym.Assert(!got || ref, "a probe set with a broken predecessor link is reported as a valid chain")
	zzsym.Assert(got || !ref, "a linked probe set is reported as a broken chain")
	zzsym.Observe("chain", zzsym.B2U(got))
}

// Harness_C02_MapProbeResult: the exchange server forwards a local load only if the frontier and
// the probes satisfy the reference predicates.
func Harness_C02_MapProbeResult() {
	n := c02ProbeCount()
	indexes, entries := c02Probes(n)
	state := ReplicaState{LEO: zzsym.U64("leo"), Committed: zzsym.U64("committed")}
	if zzsym.Choice("shape", 2) == 1 {
		state.Manifest = c02Manifest("m")
		state.TailIdentity = c02Identity("t")
	}
	result := LoadResult{State: state, Entries: entries, Err: c02Err("err")}
	if zzsym.Choice("short", 2) == 1 {
		result.Entries = entries[:n-1]
	}
	request := ProbeRequest{ChannelKey: "k", ChannelID: ch.ChannelID{ID: "c", Type: 2}, Leader: 1, Follower: 2, Indexes: indexes}
	if !request.Valid() {
		// duplicate probe offsets: refused by ProbeRequest.Valid / validProbeIndexes before any load
		// (both callers go through it); mapProbeResult itself keeps only the last duplicate
		zzsym.Reach("invalid-request")
		return
	}
	mapped, ok := mapProbeResult(request, result)
	if ok {
		zzsym.Reach("forwarded")
		zzsym.Assert(result.Err == nil, "a failed load was forwarded")
		zzsym.Assert(c02RefState(state), "an invalid frontier was forwarded")
		zzsym.Assert(c02RefProbes(indexes, state.LEO, result.Entries), "probes that are misaligned, malformed or not chain-consistent were forwarded")
		zzsym.Assert(mapped.State == state && len(mapped.Entries) == len(indexes), "forwarded probe result differs from the load")
	} else {
		zzsym.Reach("dropped")
	}
	zzsym.Observe("probe", zzsym.B2U(ok))
}

// ---------------------------------------------------------------- (3) Load through the adapter on a store fake

// c02FakeStore is a fake of the store PORT: it answers the exact recovery read with arbitrary
// content; the adapter must validate everything it hands on.
type c02FakeStore struct {
	channelstore.ChannelStore
	recovery channelstore.ExactRecoveryState
	err      error
}

func (s *c02FakeStore) LoadExactRecoveryState(context.Context, []uint64) (channelstore.ExactRecoveryState, error) {
	return s.recovery, s.err
}
func (s *c02FakeStore) LoadExactState(context.Context) (channelstore.ExactState, error) {
	return s.recovery.ExactState, s.err
}
func (s *c02FakeStore) Close() error { return nil }

type c02FakeFactory struct{ store *c02FakeStore }

func (f c02FakeFactory) ChannelStore(ch.ChannelKey, ch.ChannelID) (channelstore.ChannelStore, error) {
	return f.store, nil
}

// Harness_C02_AdapterLoadValidates: storeAdapter.Load over a store that returns an arbitrary
// recovery view: an item without error carries a frontier and probes satisfying the reference
// predicates (validProbeIndexes, loadExactRecoveryState, validProbeEntryChain, validateExactState).
func Harness_C02_AdapterLoadValidates() {
	n := zzsym.Choice("probes", c02ProbeCount()+1)
	indexes, entries := c02Probes(n)
	state := ReplicaState{LEO: zzsym.U64("leo"), Committed: zzsym.U64("committed")}
	if zzsym.Choice("shape", 2) == 1 {
		state.Manifest = c02Manifest("m")
		state.TailIdentity = c02Identity("t")
	}
	fake := &c02FakeStore{err: c02Err("err")}
	fake.recovery.ExactState = channelstore.ExactState{
		InitialState: channelstore.InitialState{LEO: state.LEO, HW: state.Committed, CheckpointHW: state.Committed + zzsym.U64("dcheckpoint")},
		Manifest:     state.Manifest, TailIdentity: state.TailIdentity,
	}
	fake.recovery.Entries = make([]channelstore.ExactEntryProbe, len(entries))
	for i, e := range entries {
		fake.recovery.Entries[i] = channelstore.ExactEntryProbe{Index: e.Index, Present: e.Present, Identity: e.Identity}
	}
	adapter, err := NewStoreAdapter(StoreAdapterConfig{Factory: c02FakeFactory{store: fake}, MaxBatchItems: 4, MaxBatchBytes: 1 << 20})
	zzsym.Assert(err == nil, "adapter construction failed")
	result, loadErr := adapter.Load(context.Background(), LoadBatch{Items: []LoadRequest{{
		ChannelKey: "k", ChannelID: ch.ChannelID{ID: "c", Type: 2}, ProbeIndexes: indexes,
	}}})
	if loadErr != nil {
		zzsym.Reach("batch-rejected")
		return
	}
	zzsym.Assert(len(result.Items) == 1, "Load result is not position-aligned")
	item := result.Items[0]
	if item.Err == nil {
		zzsym.Reach("loaded")
		zzsym.Assert(fake.err == nil, "a failed store read was reported as loaded")
		zzsym.Assert(item.State == state && c02RefState(item.State), "Load handed on an invalid frontier")
		zzsym.Assert(fake.recovery.CheckpointHW == state.Committed, "Load handed on a frontier whose checkpoint differs from its committed watermark")
		zzsym.Assert(c02RefProbes(indexes, state.LEO, item.Entries), "Load handed on probes that are misaligned, malformed or not chain-consistent")
		for i := range indexes {
			for j := 0; j < i; j++ {
				zzsym.Assert(indexes[i] != indexes[j], "Load accepted duplicate probe indexes")
			}
		}
	} else {
		zzsym.Reach("item-rejected")
	}
	zzsym.Observe("load", zzsym.B2U(item.Err == nil), uint64(n))
}

// ---------------------------------------------------------------- (1)+(3) the adapter on the real memory store

var c02Garbage = ch.EntryDigest{0xEE, 0x11, 0xEE, 0x22, 0xEE, 0x33, 0xEE, 0x44, 0xEE, 0x55, 0xEE, 0x66, 0xEE, 0x77, 0xEE, 0x88,
	0xEE, 0x99, 0xEE, 0xAA, 0xEE, 0xBB, 0xEE, 0xCC, 0xEE, 0xDD, 0xEE, 0xEE, 0xEE, 0xFF, 0xEE, 0x01}

const c02Key = ch.ChannelKey("k")

var c02ID = ch.ChannelID{ID: "c", Type: 2}

func c02SealedMutation(p string, base uint64, prevTerm uint64, prevDigest ch.EntryDigest, cnt int) (Mutation, bool) {
	man := ch.ProposalManifest{
		Version: ch.ProposalManifestVersion, ChannelEpoch: zzsym.U64(p + ".epoch"), LeaderTerm: zzsym.U64(p + ".term"),
		FenceVersion: zzsym.U64(p + ".fence"), BaseOffset: base, LastOffset: base + uint64(cnt),
		PreviousTerm: prevTerm, PreviousIndex: base, PreviousDigest: prevDigest,
	}
	man.CommandID[0] = zzsym.U8(p + ".cmd0")
	man.CommandID[31] = zzsym.U8(p + ".cmd31")
	zzsym.Assume(man.ChannelEpoch != 0)
	zzsym.Assume(man.LeaderTerm != 0)
	zzsym.Assume(man.FenceVersion != 0)
	zzsym.Assume(man.CommandID != (ch.CommandID{}))
	recs := make([]ch.Record, cnt)
	for i := range recs {
		recs[i] = ch.Record{ID: zzsym.U64(p + ".rec.id"), Epoch: man.ChannelEpoch, Setting: zzsym.U8(p + ".rec.setting"),
			ServerTimestampMS: zzsym.I64(p + ".rec.ts"), Payload: zzsym.Bytes(p+".rec.payload", 1)}
		zzsym.Assume(recs[i].ID != 0)
		zzsym.Assume(recs[i].ServerTimestampMS > 0)
	}
	sealed, _, ok := ch.SealProposalManifest(man, recs)
	if !ok {
		return Mutation{}, false
	}
	zzsym.Assume(sealed.Digest != c02Garbage)
	return Mutation{ChannelKey: c02Key, ChannelID: c02ID, Manifest: sealed, Records: recs}, true
}

func c02LoadAll(adapter ReplicaStore, max int) LoadResult {
	indexes := make([]uint64, max)
	for i := range indexes {
		indexes[i] = uint64(i + 1)
	}
	result, err := adapter.Load(context.Background(), LoadBatch{Items: []LoadRequest{{ChannelKey: c02Key, ChannelID: c02ID, ProbeIndexes: indexes}}})
	if err != nil || len(result.Items) != 1 {
		return LoadResult{Err: ch.ErrInvalidConfig}
	}
	return result.Items[0]
}

// Harness_C02_AdapterOnMemoryStore: the observation interface of the property (ReplicaStore.Sync /
// Load with probe indexes) on the real adapter over the real memory store: one symbolic exact
// mutation after a small history. The store's result is never degraded to Unknown, the loaded
// frontier stays valid, the committed watermark and the log end never move backwards, identities
// at old offsets never change, and a durable outcome means the log ends with exactly the proposal.
func Harness_C02_AdapterOnMemoryStore() {
	adapter, err := NewStoreAdapter(StoreAdapterConfig{Factory: channelstore.NewMemoryFactory(), MaxBatchItems: 4, MaxBatchBytes: 1 << 20})
	zzsym.Assert(err == nil, "adapter construction failed")
	history := 1
	if zzsym.Thorough() {
		history = 2
	}
	n := zzsym.Choice("history", history+1)
	leo := uint64(0)
	var tail ch.ProposalManifest
	for k := 0; k < n; k++ {
		cnt := 1
		if k == 0 {
			cnt = 1 + zzsym.Choice("h.count", 2) // a second proposal (thorough) has one record
		}
		mu, ok := c02SealedMutation("h", leo, tail.LeaderTerm, tail.Digest, cnt)
		zzsym.Assume(ok)
		zzsym.Assume(mu.Manifest.CommandID != tail.CommandID)
		if k == n-1 {
			mu.Committed = zzsym.U64("h.committed")
			zzsym.Assume(mu.Committed <= mu.Manifest.LastOffset)
		}
		res := adapter.Sync(context.Background(), []Mutation{mu})
		zzsym.Assert(len(res) == 1 && res[0].Outcome == ch.AppendOutcomeDurable && res[0].Err == nil && res[0].LastOffset == mu.Manifest.LastOffset,
			"a valid mutation chained to the tail was not synced as Durable")
		leo, tail = mu.Manifest.LastOffset, mu.Manifest
	}
	max := int(leo) + 2
	before := c02LoadAll(adapter, max)
	zzsym.Assert(before.Err == nil && before.State.LEO == leo && validReplicaState(before.State), "Load fails or reports an invalid frontier after valid syncs")
	if before.Err != nil {
		return
	}

	// the step: a sealed mutation at an arbitrary base with an arbitrary predecessor
	base := uint64(zzsym.Choice("base", int(leo)+3))
	var prevDigest ch.EntryDigest
	k := zzsym.Choice("prevdigest", int(leo)+2)
	if k >= 1 && k <= int(leo) {
		prevDigest = before.Entries[k-1].Identity.Digest
	} else if k > int(leo) {
		prevDigest = c02Garbage
	}
	for i := 0; i < int(leo); i++ {
		zzsym.Assume(before.Entries[i].Identity.Digest != c02Garbage)
	}
	mu, ok := c02SealedMutation("q", base, zzsym.U64("q.prevterm"), prevDigest, 1+zzsym.Choice("q.count", 2))
	if !ok {
		zzsym.Reach("unsealable")
		return
	}
	mu.Committed = zzsym.U64("q.committed")
	mu.Class = MutationClass(zzsym.Choice("q.class", 3))
	res := adapter.Sync(context.Background(), []Mutation{mu})
	zzsym.Assert(len(res) == 1, "Sync result is not position-aligned")
	r := res[0]
	after := c02LoadAll(adapter, max+2)

	zzsym.Assert(r.Outcome != ch.AppendOutcomeUnknown && r.Outcome.Valid(), "a memory-store result was degraded to Unknown by the adapter")
	zzsym.Assert(after.Err == nil && validReplicaState(after.State), "Load fails or reports an invalid frontier after the step")
	if after.Err != nil {
		return
	}
	zzsym.Assert(after.State.Committed >= before.State.Committed && after.State.LEO >= before.State.LEO && after.State.Committed <= after.State.LEO,
		"the committed watermark or the log end moved backwards, or the watermark exceeds the log end")
	for i := 0; i < int(leo); i++ {
		zzsym.Assert(after.Entries[i] == before.Entries[i], "Sync changed the identity at an existing offset")
	}
	chains := mu.Manifest.BaseOffset == leo && mu.Manifest.PreviousTerm == before.State.TailIdentity.LeaderTerm && mu.Manifest.PreviousDigest == before.State.TailIdentity.Digest
	switch r.Outcome {
	case ch.AppendOutcomeDurable:
		zzsym.Reach("durable")
		zzsym.Assert(chains, "Durable although the proposal does not chain to the loaded tail at the log end")
		zzsym.Assert(after.State.LEO == mu.Manifest.LastOffset && after.State.Manifest == mu.Manifest && after.State.TailIdentity.Digest == mu.Manifest.Digest,
			"after Durable the loaded frontier is not the proposal")
		last := after.Entries[int(mu.Manifest.LastOffset)-1]
		first := after.Entries[int(leo)]
		zzsym.Assert(last.Present && last.Identity == after.State.TailIdentity && first.Present && first.Identity.PreviousDigest == before.State.TailIdentity.Digest &&
			first.Identity.CommandID == mu.Manifest.CommandID, "after Durable the probed identities are not the proposal chained to the old tail")
	case ch.AppendOutcomeAlreadyDurable:
		zzsym.Reach("already-durable")
		zzsym.Assert(after.State.LEO == before.State.LEO && after.State.Manifest == before.State.Manifest && after.State.TailIdentity == before.State.TailIdentity,
			"AlreadyDurable changed the frontier")
		zzsym.Assert(mu.Manifest.LastOffset <= leo && after.Entries[int(mu.Manifest.LastOffset)-1].Identity.Digest == mu.Manifest.Digest, "AlreadyDurable for a proposal that is not stored")
	default:
		zzsym.Reach("refused")
		zzsym.Assert(after.State == before.State, "a refused mutation changed the frontier")
		zzsym.Assert(r.NeedFrom == 0 || (r.NeedFrom == leo+1 && mu.Manifest.BaseOffset > leo), "NeedFrom without a gap or not LEO+1")
	}
	zzsym.Assert(!(mu.Committed <= mu.Manifest.LastOffset && mu.Manifest.BaseOffset > leo) || (r.Outcome == ch.AppendOutcomeConflict && r.NeedFrom == leo+1),
		"a gap did not give Conflict with NeedFrom = LEO+1")
	zzsym.Observe("adapter", uint64(r.Outcome), leo, r.NeedFrom)
}
