package store

import (
	"context"
	"strconv"

	"github.com/WuKongIM/WuKongIM/internal/zzsym"
	ch "github.com/WuKongIM/WuKongIM/pkg/channel"
)

// C02 (4) — the production store: messageDBChannelStoreAdapter -> pkg/db/message ChannelStore, driven
// through the real code on the in-memory engine overlay (pkg/db/internal/engine replaced by an
// ordered in-memory KV, pkg/db/internal/commit by a synchronous coordinator). The store is observed
// only through its own read API (LoadExactRecoveryState with probe indexes, ReadLog): the
// observation points of the property.
//
// Message ids and command ids are key material of the DB indexes, so they are concrete and distinct
// by construction (a replacement may reuse a stored one, chosen by zzsym.Choice); authority,
// setting, payload content and all request offsets are symbolic.

type c02DB struct {
	st     ChannelStore
	loader ExactRecoveryStateLoader
}

// c02DBRuns gives every native run of the harness its own in-memory store (the overlay engine
// registers stores by path for the life of the process; symbolic paths start from fresh globals).
var c02DBRuns int

func c02OpenDB() (c02DB, bool) {
	c02DBRuns++
	f := NewMessageDBFactory("c02-" + strconv.Itoa(c02DBRuns))
	st, err := f.ChannelStore("k", ch.ChannelID{ID: "c", Type: 2})
	if err != nil {
		return c02DB{}, false
	}
	loader, ok := st.(ExactRecoveryStateLoader)
	return c02DB{st: st, loader: loader}, ok
}

// c02DBProposal: a sealed proposal at base chained to prev, with command id byte cmd and message
// ids id, id+1.
func c02DBProposal(p string, base uint64, prevTerm uint64, prevDigest ch.EntryDigest, cmd uint8, id uint64, cnt int) (ch.ProposalManifest, []ch.EntryIdentity, []ch.Record, bool) {
	man := ch.ProposalManifest{
		Version: ch.ProposalManifestVersion, ChannelEpoch: zzsym.U64(p + ".epoch"), LeaderTerm: zzsym.U64(p + ".term"),
		FenceVersion: zzsym.U64(p + ".fence"), BaseOffset: base, LastOffset: base + uint64(cnt),
		PreviousTerm: prevTerm, PreviousIndex: base, PreviousDigest: prevDigest,
	}
	man.CommandID[0] = cmd
	zzsym.Assume(man.ChannelEpoch != 0)
	zzsym.Assume(man.LeaderTerm != 0)
	zzsym.Assume(man.FenceVersion != 0)
	recs := make([]ch.Record, cnt)
	for i := range recs {
		recs[i] = ch.Record{ID: id + uint64(i), Epoch: man.ChannelEpoch, Setting: zzsym.U8(p + ".rec.setting"),
			ServerTimestampMS: 1000 + int64(id) + int64(i), Payload: zzsym.Bytes(p+".rec.payload", 1)}
	}
	sealed, entries, ok := ch.SealProposalManifest(man, recs)
	return sealed, entries, recs, ok
}

// c02DBHolds: the store, observed through its read API, holds exactly the model.
func c02DBHolds(db c02DB, m *c02Model) bool {
	leo := int(m.leo())
	indexes := make([]uint64, leo+2)
	for i := range indexes {
		indexes[i] = uint64(i + 1)
	}
	rs, err := db.loader.LoadExactRecoveryState(context.Background(), indexes)
	if err != nil || len(rs.Entries) != len(indexes) {
		return false
	}
	ok := zzsym.B2U(rs.LEO == m.leo()) & zzsym.B2U(rs.HW == m.hw) & zzsym.B2U(rs.CheckpointHW == m.hw) & zzsym.B2U(rs.TailIdentity == m.tail())
	if leo > 0 {
		ok &= zzsym.B2U(rs.Manifest == m.manifests[len(m.manifests)-1])
	} else {
		ok &= zzsym.B2U(rs.Manifest == (ch.ProposalManifest{}))
	}
	for i, e := range rs.Entries {
		if i < leo {
			ok &= zzsym.B2U(e.Present) & zzsym.B2U(e.Index == uint64(i+1)) & zzsym.B2U(e.Identity == m.entries[i])
		} else {
			ok &= zzsym.B2U(!e.Present) & zzsym.B2U(e.Identity == (ch.EntryIdentity{}))
		}
	}
	log, err := db.st.ReadLog(context.Background(), ReadLogRequest{FromOffset: 1, MaxBytes: 1 << 20})
	if err != nil || len(log.Records) != leo {
		return false
	}
	for i, r := range log.Records {
		want := m.records[i]
		ok &= zzsym.B2U(r.Index == uint64(i+1)) & zzsym.B2U(r.ID == want.ID) & zzsym.B2U(r.Setting == want.Setting) &
			zzsym.B2U(r.ServerTimestampMS == want.ServerTimestampMS) & zzsym.B2U(c02BytesEq(r.Payload, want.Payload))
	}
	return ok == 1
}

func c02DBBuild(db c02DB, max int) (*c02Model, bool) {
	m := &c02Model{}
	n := 1 + zzsym.Choice("b.proposals", max)
	for k := 0; k < n; k++ {
		cnt := 1
		if k == 0 {
			cnt = 1 + zzsym.Choice("b.count", 2)
		}
		base, prev := m.leo(), m.tail()
		sealed, entries, recs, ok := c02DBProposal("b", base, prev.LeaderTerm, prev.Digest, uint8(1+k), 10+2*uint64(k), cnt)
		zzsym.Assert(ok, "SealProposalManifest refused a valid chained proposal (MessageDB build)")
		if !ok {
			return m, false
		}
		committed := uint64(0)
		if k == n-1 {
			committed = zzsym.U64("b.committed")
			zzsym.Assume(committed <= sealed.LastOffset)
		}
		res, err := db.st.AppendLeader(context.Background(), AppendLeaderRequest{
			Records: recs, Committed: committed, ServerAllocatedMessageIDs: true, ExactBaseOffset: true, ExpectedBaseOffset: base, Proposal: sealed,
		})
		zzsym.Assert(err == nil && res.Outcome == AppendOutcomeDurable && res.LastOffset == sealed.LastOffset,
			"MessageDB: a valid proposal chained to the tail at the log end was not appended as Durable")
		if err != nil {
			return m, false
		}
		m.add(sealed, entries, recs)
		m.hw = committed
	}
	return m, true
}

// Harness_C02_MessageDBReplace: one ReplaceRecoverySuffix on the production store with an arbitrary
// Expected frontier, KeepThrough, Committed and 0..1 replacement proposals (fresh or reused command
// and message ids, arbitrary predecessor). Every accepted replace is fenced by the exact frontier,
// keeps [Committed, LEO] ∋ KeepThrough, never lowers the watermark, leaves the kept prefix untouched
// and leaves nothing above KeepThrough but the replacement; every refused one changes nothing.
func Harness_C02_MessageDBReplace() {
	c02NoShapes = true
	db, ok := c02OpenDB()
	zzsym.Assert(ok, "MessageDB store could not be opened on the in-memory engine")
	if !ok {
		return
	}
	m, built := c02DBBuild(db, 2)
	if !built {
		return
	}
	zzsym.Assert(c02DBHolds(db, m), "MessageDB: built store does not hold exactly the appended proposals")
	leo, hw := m.leo(), m.hw

	cur, err := db.loader.LoadExactRecoveryState(context.Background(), nil)
	zzsym.Assert(err == nil, "MessageDB: exact frontier load failed on a built store")
	if err != nil {
		return
	}
	exp := cur.ExactState
	dLEO, dHW := zzsym.U64("exp.dleo"), zzsym.U64("exp.dhw")
	dTerm, fDigest, fTail := zzsym.U64("exp.dterm"), zzsym.U8("exp.flipdigest"), zzsym.U8("exp.fliptail")
	exp.LEO += dLEO
	exp.HW += dHW
	exp.CheckpointHW = exp.HW
	exp.Manifest.LeaderTerm += dTerm
	exp.Manifest.Digest[0] ^= fDigest
	exp.TailIdentity.Digest[31] ^= fTail
	exact := dLEO == 0 && dHW == 0 && dTerm == 0 && fDigest == 0 && fTail == 0

	kt, far := c02Offset("keep", leo)
	committed := zzsym.U64("r.committed")
	inRange := !far && kt <= leo
	onBoundary := inRange && m.boundary(kt)
	kept := &c02Model{}
	if inRange {
		kept = m.prefix(kt)
	}
	next := &c02Model{manifests: kept.manifests, entries: kept.entries, records: kept.records}
	var proposals []RecoveryProposal
	wellChained := true
	idsFresh := true
	if zzsym.Choice("r.proposals", 2) == 1 {
		// predecessor: the identity at KeepThrough, the zero identity, or the current tail
		var prev ch.EntryIdentity
		switch zzsym.Choice("r.prev", 3) {
		case 0:
			prev = next.tail()
		case 2:
			prev = m.tail()
		}
		// command / message ids: fresh, or those of the first stored proposal
		cmd, id := uint8(9), uint64(50)
		if zzsym.Choice("r.reuse", 2) == 1 {
			cmd, id = 1, 10
			idsFresh = kt == 0 // reusing the first proposal's keys is legal only if it is cut away
		}
		sealed, entries, recs, ok := c02DBProposal("r", kt, prev.LeaderTerm, prev.Digest, cmd, id, 1+zzsym.Choice("r.count", 2))
		if !ok {
			zzsym.Reach("unsealable")
			proposals = []RecoveryProposal{{Manifest: sealed, Records: recs}}
			wellChained = false
		} else {
			proposals = []RecoveryProposal{{Manifest: sealed, Records: recs}}
			wellChained = prev == next.tail()
			next.add(sealed, entries, recs)
		}
	}
	next.hw = committed

	replacer, isReplacer := db.st.(RecoverySuffixReplacer)
	zzsym.Assert(isReplacer, "MessageDB store is not a RecoverySuffixReplacer")
	if !isReplacer {
		return
	}
	res, err := replacer.ReplaceRecoverySuffix(context.Background(), ReplaceRecoverySuffixRequest{
		Expected: exp, KeepThrough: kt, Proposals: proposals, Committed: committed,
	})

	if res.Outcome.Durable() {
		zzsym.Reach("replaced")
		zzsym.Assert(err == nil && res.Outcome == AppendOutcomeDurable, "MessageDB: accepted replace with an error or a replay outcome")
		zzsym.Assert(exact, "MessageDB: replace accepted although Expected is not the current exact frontier")
		zzsym.Assert(inRange && kt >= hw, "MessageDB: replace accepted with KeepThrough outside [Committed, LEO]")
		zzsym.Assert(onBoundary, "MessageDB: replace accepted with KeepThrough inside a stored proposal")
		zzsym.Assert(committed >= hw, "MessageDB: replace accepted with Committed below the current watermark")
		zzsym.Assert(wellChained && idsFresh, "MessageDB: replace accepted a suffix that is not chained on the kept prefix or reuses kept keys")
		if onBoundary && wellChained {
			zzsym.Assert(committed <= next.leo() && res.LastOffset == next.leo(), "MessageDB: replace accepted with Committed beyond the new log end, or misreports it")
			zzsym.Assert(c02DBHolds(db, next), "MessageDB: after replace the store is not the kept prefix plus exactly the replacement (rows above KeepThrough must be gone), HW = Committed")
		}
		if inRange && kt < leo {
			zzsym.Reach("suffix-cut")
		}
	} else {
		zzsym.Reach("refused")
		zzsym.Assert(err != nil && res.LastOffset == 0 && (res.Outcome == AppendOutcomeConflict || res.Outcome == AppendOutcomeDefinitelyNotWritten),
			"MessageDB: refused replace without an error or with an outcome outside {Conflict, DefinitelyNotWritten}")
		zzsym.Assert(c02DBHolds(db, m), "MessageDB: a refused replace changed the store")
	}
	accept := exact && onBoundary && kt >= hw && wellChained && idsFresh && committed >= hw && committed <= next.leo()
	zzsym.Assert(!accept || res.Outcome == AppendOutcomeDurable, "MessageDB: a replace fenced by the exact frontier with a valid suffix was refused")
	zzsym.Observe("dbreplace", uint64(res.Outcome), leo, res.LastOffset, zzsym.B2U(err == nil))
}

// Harness_C02_MessageDBAppendPredecessor (quick): the production store refuses an exact append whose
// predecessor does not match its tail in EVERY respect. Build a log of one proposal, then offer a
// second proposal at the log end whose (PreviousTerm, PreviousDigest) is the tail's own, the tail's
// term with another digest, the tail's digest with another term, or both different (digest bytes and
// term symbolic): accepted as Durable exactly for the tail's own identity, otherwise refused with the
// store unchanged - the per-replica half of "every replica's log is an unbroken predecessor chain".
func Harness_C02_MessageDBAppendPredecessor() {
	db, ok := c02OpenDB()
	zzsym.Assume(ok)
	m, built := c02DBBuild(db, 1)
	zzsym.Assume(built)
	zzsym.Assert(c02DBHolds(db, m), "MessageDB does not hold the built log")
	tail := m.tail()
	prevTerm, prevDigest := tail.LeaderTerm, tail.Digest
	variant := zzsym.Choice("pred", 4)
	if variant == 1 || variant == 3 {
		prevDigest[0] = zzsym.U8("pred.digest0")
		prevDigest[31] = zzsym.U8("pred.digest31")
		zzsym.Assume(prevDigest != tail.Digest)
	}
	if variant >= 2 {
		prevTerm = zzsym.U64("pred.term")
		zzsym.Assume(prevTerm != tail.LeaderTerm)
	}
	base := m.leo()
	sealed, entries, recs, sok := c02DBProposal("n", base, prevTerm, prevDigest, 9, 30, 1)
	zzsym.Assume(sok)
	res, err := db.st.AppendLeader(context.Background(), AppendLeaderRequest{
		Records: recs, Committed: 0, ServerAllocatedMessageIDs: true, ExactBaseOffset: true, ExpectedBaseOffset: base, Proposal: sealed,
	})
	zzsym.Reach("messagedb-append-predecessor")
	if variant == 0 {
		zzsym.Reach("messagedb-append-chained")
		zzsym.Assert(err == nil && res.Outcome == AppendOutcomeDurable, "MessageDB refused a proposal chained to its tail")
		if err == nil && res.Outcome == AppendOutcomeDurable {
			m.add(sealed, entries, recs)
		}
	} else {
		zzsym.Reach("messagedb-append-unchained")
		zzsym.Assert(err != nil || !res.Outcome.Durable(), "MessageDB appended a proposal whose predecessor term or digest is not its tail's (the log stops being a predecessor chain)")
	}
	zzsym.Assert(c02DBHolds(db, m), "MessageDB changed although the append was refused (or does not hold the appended proposal)")
}
