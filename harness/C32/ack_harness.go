package delivery

import (
	"time"

	"github.com/WuKongIM/WuKongIM/internal/zzsym"
)

// ---------------------------------------------------------------------------------------
// C32 — receive-acknowledgement tracking is exact.
//
// A bounded history of AckTracker operations is executed against the real tracker (2 shards,
// harness clock) and, in lock step, against the reference model below: a fixed table of the
// outstanding (uid, session, message) keys with a committed flag, the committed row and the
// outstanding bind attempts (token + row). Keys, operations and tokens are chosen with
// zzsym.Choice (concrete on every path); delivery times, the clock and the row metadata are
// symbolic. After every step the counter, both indexes, every result field and every returned
// row are compared with the model; at the end every key is acknowledged and compared.
// ---------------------------------------------------------------------------------------

const c32MaxKeys = 8

type c32Attempt struct {
	tok AckBindToken
	row PendingRecvAck
}

type c32Entry struct {
	present   bool
	committed bool
	row       PendingRecvAck // metadata of the last successfully finished attempt
	attempts  []c32Attempt   // binds that were neither finished nor cancelled
}

type c32Issued struct {
	tok AckBindToken
	key int
}

type c32State struct {
	t     *AckTracker
	now   int64
	dom   []int // key domain of this run (indexes into the 8-key table)
	full  bool  // full alphabet: invalid identities, forged tokens, every batch shape, every TTL
	limit int   // MaxPendingPerSession (0 = unlimited)
	m     [c32MaxKeys]c32Entry
	// issued lists every token handed out so far, including stale ones
	issued []c32Issued
}

// key index -> identity. Bit 0: message id, bit 1: session id (= shard), bit 2: uid.
func c32UID(k int) string {
	if k&4 != 0 {
		return "b"
	}
	return "a"
}
func c32SID(k int) uint64 { return uint64(1 + (k>>1)&1) }
func c32MID(k int) uint64 { return uint64(1 + k&1) }

func c32KeyOf(uid string, sid, mid uint64) int {
	k := 0
	switch uid {
	case "a":
	case "b":
		k |= 4
	default:
		return -1
	}
	switch sid {
	case 1:
	case 2:
		k |= 2
	default:
		return -1
	}
	switch mid {
	case 1:
	case 2:
		k |= 1
	default:
		return -1
	}
	return k
}

// c32Reach records a reachability witness. The label is not a constant at the call site, so the
// labels each entry must reach are listed per entry in check.json ("witnesses").
func c32Reach(label string) { zzsym.Reach(label) }

// c32Time: a Unix second in [0, 2^30), bounded by construction (no solver query needed).
func c32Time(name string) int64 { return int64(zzsym.U32(name) >> 2) }

// identity of key k; k = -1, -2, -3 are the three invalid identities.
func c32Ident(k int) (string, uint64, uint64) {
	switch {
	case k >= 0:
		return c32UID(k), c32SID(k), c32MID(k)
	case k == -1:
		return "a", 0, 1
	case k == -2:
		return "", 1, 1
	default:
		return "a", 1, 0
	}
}

// c32Row builds a delivery row for key k with symbolic metadata. clock: leave DeliveredAt zero
// so that the tracker stamps the row with its clock; otherwise the caller supplies a non-zero
// symbolic delivery second.
func c32Row(k int, clock bool) PendingRecvAck {
	row := PendingRecvAck{
		MessageSeq:  zzsym.U64("seq"),
		ChannelID:   "ch",
		ChannelType: zzsym.U8("ctype"),
	}
	if !clock {
		row.DeliveredAt = c32Time("at")
		zzsym.Assume(row.DeliveredAt != 0)
	}
	row.UID, row.SessionID, row.MessageID = c32Ident(k)
	return row
}

func (s *c32State) inDom(k int) bool {
	for _, d := range s.dom {
		if d == k {
			return true
		}
	}
	return false
}

// pickKey chooses a key of the domain or (full alphabet) one of the invalid identities.
func (s *c32State) pickKey() int {
	n := len(s.dom)
	if s.full {
		n += 3
	}
	c := zzsym.Choice("key", n)
	if c >= len(s.dom) {
		return len(s.dom) - c - 1
	}
	return s.dom[c]
}

func (s *c32State) size() int {
	n := 0
	for i := range s.m {
		if s.m[i].present {
			n++
		}
	}
	return n
}

func (s *c32State) sessionSize(k int) int {
	n := 0
	for i := range s.m {
		if s.m[i].present && i&^1 == k&^1 {
			n++
		}
	}
	return n
}

func (s *c32State) fresh(tok AckBindToken) bool {
	for i := range s.issued {
		if s.issued[i].tok == tok {
			return false
		}
	}
	return true
}

// admits: the per-session limit only rejects keys that are not outstanding yet.
func (s *c32State) admits(k int) bool {
	return s.limit <= 0 || s.m[k].present || s.sessionSize(k) < s.limit
}

// modelBind records one accepted bind attempt; it returns whether the key is new.
func (s *c32State) modelBind(k int, row PendingRecvAck, tok AckBindToken) bool {
	e := &s.m[k]
	added := !e.present
	if added {
		*e = c32Entry{present: true}
	}
	e.attempts = append(e.attempts, c32Attempt{tok: tok, row: row})
	s.issued = append(s.issued, c32Issued{tok: tok, key: k})
	return added
}

// takeAttempt removes and returns the outstanding attempt owning tok.
func (e *c32Entry) takeAttempt(tok AckBindToken) (c32Attempt, bool) {
	if !e.present || !tok.Valid() {
		return c32Attempt{}, false
	}
	for i := range e.attempts {
		if e.attempts[i].tok == tok {
			a := e.attempts[i]
			e.attempts = append(append([]c32Attempt{}, e.attempts[:i]...), e.attempts[i+1:]...)
			return a, true
		}
	}
	return c32Attempt{}, false
}

// rowOK: the row handed back for a removed key is the committed one, or, when no delivery
// completed yet, the row of one of the still outstanding attempts.
func (e *c32Entry) rowOK(got PendingRecvAck) bool {
	if e.committed {
		return got == e.row
	}
	ok := false
	for i := range e.attempts {
		if got == e.attempts[i].row {
			ok = true
		}
	}
	return ok
}

// c32CeilSeconds: the smallest whole number of seconds that is >= ttl (ttl concrete, > 0).
func c32CeilSeconds(ttl time.Duration) int64 {
	sec := int64(0)
	for time.Duration(sec)*time.Second < ttl {
		sec++
	}
	return sec
}

// idle reports whether every delivery candidate of the entry (committed row, outstanding
// attempts) was delivered at or before clock - ttlSec.
func (s *c32State) idle(e *c32Entry, ttlSec int64) bool {
	all := true
	if e.committed {
		all = all && e.row.DeliveredAt <= s.now-ttlSec
	}
	for i := range e.attempts {
		all = all && e.attempts[i].row.DeliveredAt <= s.now-ttlSec
	}
	return all
}

// stamp mirrors the documented defaulting of DeliveredAt: a row without a delivery second gets
// the tracker clock (DeliveredAt is concrete 0 or assumed non-zero, see c32Row).
func (s *c32State) stamp(row PendingRecvAck, clock bool) PendingRecvAck {
	if clock {
		row.DeliveredAt = s.now
	}
	return row
}

// checkCounts: the O(1) counter, both indexes and the model agree; every model key is stored
// in the shard of its session with the model's committed flag and number of reservations.
func (s *c32State) checkCounts() {
	want := s.size()
	zzsym.Assert(s.t.PendingCount() == want, "PendingCount differs from the number of outstanding keys")
	byMsg, bySess := 0, 0
	for i := range s.t.shards {
		sh := &s.t.shards[i]
		byMsg += len(sh.byMessage)
		for sk, msgs := range sh.bySession {
			bySess += len(msgs)
			zzsym.Assert(len(msgs) > 0 && sk.uid != "", "empty session index left behind")
		}
	}
	zzsym.Assert(byMsg == want, "sum of len(byMessage) differs from the model size")
	zzsym.Assert(bySess == want, "sum of len(bySession[.]) differs from the model size")
	for k := 0; k < c32MaxKeys; k++ {
		e := &s.m[k]
		sh := s.t.shard(c32SID(k))
		got, ok := sh.byMessage[ackMessageKey{uid: c32UID(k), sessionID: c32SID(k), messageID: c32MID(k)}]
		zzsym.Assert(ok == e.present, "key presence differs from the model")
		if !ok || !e.present {
			continue
		}
		_, indexed := sh.bySession[ackSessionKey{uid: c32UID(k), sessionID: c32SID(k)}][c32MID(k)]
		zzsym.Assert(indexed, "pending key missing from the session index")
		zzsym.Assert(got.committed == e.committed, "committed flag differs from the model")
		n := len(got.extraAttempts)
		if got.primary.Valid() {
			n++
		}
		zzsym.Assert(n == len(e.attempts), "number of in-flight reservations differs from the model")
	}
}

func (s *c32State) bindResult(k int, clock bool) {
	row := c32Row(k, clock)
	before := s.size()
	res := s.t.BindResult(row)
	if k < 0 || !s.admits(k) {
		if k < 0 {
			c32Reach("bind-invalid")
		} else {
			c32Reach("bind-over-limit")
		}
		zzsym.Assert(!res.Bound && !res.Added && !res.Token.Valid(), "a row that must be rejected was bound")
		zzsym.Assert(res.PendingCount == before, "rejected BindResult changed PendingCount")
		return
	}
	row = s.stamp(row, clock)
	zzsym.Assert(res.Bound && res.Token.Valid(), "valid row was not bound")
	zzsym.Assert(s.fresh(res.Token), "bind token reused")
	added := s.modelBind(k, row, res.Token)
	if added {
		c32Reach("bind-new")
	} else {
		c32Reach("bind-again")
	}
	zzsym.Assert(res.Added == added, "BindResult.Added differs from the model")
	zzsym.Assert(res.PendingCount == s.size(), "BindResult.PendingCount differs from the model")
	zzsym.Observe("bind", zzsym.B2U(res.Added), uint64(res.PendingCount), res.Token.id)
}

func (s *c32State) bindCompat(k int, clock bool) {
	row := c32Row(k, clock)
	before := s.size()
	ok := s.t.Bind(row)
	if k < 0 || !s.admits(k) {
		zzsym.Assert(!ok, "Bind accepted a row that must be rejected")
		zzsym.Assert(s.t.PendingCount() == before, "rejected Bind changed PendingCount")
		return
	}
	c32Reach("bind-compat")
	zzsym.Assert(ok, "Bind rejected a valid row")
	e := &s.m[k]
	if !e.present {
		*e = c32Entry{present: true}
	}
	// reserve + finish: the row becomes the committed one, other reservations are untouched
	e.committed = true
	e.row = s.stamp(row, clock)
}

func (s *c32State) bindBatch(keys []int, clock bool) {
	n := len(keys)
	rows := make([]PendingRecvAck, n)
	for i := range keys {
		rows[i] = c32Row(keys[i], clock)
	}
	before := s.size()
	res := s.t.BindBatch(rows)
	zzsym.Assert(len(res.Tokens) == n, "BindBatch tokens not aligned with the input")
	// items are admitted shard by shard (shard 0 = session 2 first), input order inside a shard
	bound, added := 0, 0
	var shardUsed [2]bool
	for shard := 0; shard < 2; shard++ {
		for i := 0; i < n; i++ {
			k := keys[i]
			if k < 0 {
				if shard == 0 {
					zzsym.Assert(!res.Tokens[i].Valid(), "BindBatch bound an invalid row")
				}
				continue
			}
			if int(c32SID(k)%2) != shard {
				continue
			}
			shardUsed[shard] = true
			if !s.admits(k) {
				c32Reach("batch-over-limit")
				zzsym.Assert(!res.Tokens[i].Valid(), "BindBatch bound a row over the session limit")
				continue
			}
			zzsym.Assert(res.Tokens[i].Valid(), "BindBatch rejected a valid row")
			zzsym.Assert(s.fresh(res.Tokens[i]), "batch bind token reused")
			if s.modelBind(k, s.stamp(rows[i], clock), res.Tokens[i]) {
				added++
			}
			bound++
		}
	}
	shards := 0
	for _, u := range shardUsed {
		if u {
			shards++
		}
	}
	if bound == 2 {
		c32Reach("batch-two")
	}
	zzsym.Assert(res.Bound == bound, "BindBatch.Bound differs from the model")
	zzsym.Assert(res.Added == added, "BindBatch.Added differs from the model")
	zzsym.Assert(res.Shards == shards, "BindBatch.Shards differs from the model")
	zzsym.Assert(res.PendingCount == s.size() && s.size() == before+added, "BindBatch.PendingCount differs from the model")
	zzsym.Observe("batch", uint64(res.Bound), uint64(res.Added), uint64(res.Shards), uint64(res.PendingCount))
}

// c32Pairs: the batch shapes used by the reduced alphabet, as indexes into the key domain:
// the same key twice, two messages of one session, two sessions in shard order and against it.
var c32Pairs = [...][2]int{{0, 0}, {0, 1}, {0, 2}, {2, 0}, {0, 3}}

func (s *c32State) opBindBatch() {
	if !s.full {
		np := len(c32Pairs)
		if len(s.dom) < 4 {
			np--
		}
		p := c32Pairs[zzsym.Choice("batch.pair", np)]
		s.bindBatch([]int{s.dom[p[0]%len(s.dom)], s.dom[p[1]%len(s.dom)]}, false)
		return
	}
	n := zzsym.Choice("batch.n", 3)
	keys := make([]int, n)
	for i := range keys {
		keys[i] = s.pickKey()
	}
	s.bindBatch(keys, n > 0 && zzsym.Choice("batch.clock", 2) == 1)
}

// pickToken chooses one of the tokens handed out so far, paired with the key it was bound for
// or with the sibling message of the same session; with the full alphabet also with any other
// key, the zero token and a token that was never handed out.
func (s *c32State) pickToken() (AckBindToken, int) {
	n := len(s.issued) + 1
	if s.full {
		n++
	}
	i := zzsym.Choice("tok", n)
	if i == len(s.issued) {
		return AckBindToken{}, s.dom[0]
	}
	if i > len(s.issued) {
		return AckBindToken{id: 1 << 40}, s.dom[0]
	}
	k := s.issued[i].key
	if s.full {
		return s.issued[i].tok, s.dom[zzsym.Choice("tok.key", len(s.dom))]
	}
	if zzsym.Choice("tok.key", 2) == 1 && s.inDom(k^1) {
		k ^= 1
	}
	return s.issued[i].tok, k
}

func (s *c32State) opFinishBind() {
	tok, k := s.pickToken()
	row := c32Row(k, false) // only the identity of the row matters to FinishBind
	got := s.t.FinishBind(row, tok)
	e := &s.m[k]
	a, ok := e.takeAttempt(tok)
	zzsym.Assert(got == ok, "FinishBind result differs from the model")
	if ok {
		c32Reach("finish")
		if e.committed {
			c32Reach("finish-redelivery")
		}
		e.committed = true
		e.row = a.row
	} else {
		c32Reach("finish-stale")
	}
}

func (s *c32State) opCancelBind() {
	tok, k := s.pickToken()
	row := c32Row(k, false)
	res := s.t.CancelBind(row, tok)
	e := &s.m[k]
	wasCommitted := e.present && e.committed
	_, ok := e.takeAttempt(tok)
	removed := false
	if ok && !e.committed && len(e.attempts) == 0 {
		*e = c32Entry{}
		removed = true
	}
	zzsym.Assert(res.Canceled == ok, "CancelBind.Canceled differs from the model")
	zzsym.Assert(res.Removed == removed, "CancelBind.Removed differs from the model")
	zzsym.Assert(res.PendingCount == s.size(), "CancelBind.PendingCount differs from the model")
	if ok && wasCommitted {
		c32Reach("cancel-redelivery")
		zzsym.Assert(!res.Removed && e.present && e.committed, "cancelling a failed re-delivery removed a committed entry")
		sh := s.t.shard(c32SID(k))
		kept, still := sh.byMessage[ackMessageKey{uid: c32UID(k), sessionID: c32SID(k), messageID: c32MID(k)}]
		zzsym.Assert(still && kept.committed && kept.pending == e.row, "committed delivery lost or altered by a cancelled re-delivery")
	}
	if removed {
		c32Reach("cancel-removes-tentative")
	}
	if !ok {
		c32Reach("cancel-stale")
	}
}

func (s *c32State) ackKey(k int) {
	ack := Recvack{MessageSeq: zzsym.U64("ackseq")}
	ack.UID, ack.SessionID, ack.MessageID = c32Ident(k)
	got, found := s.t.Ack(ack)
	if k < 0 {
		zzsym.Assert(!found && got == PendingRecvAck{}, "Ack with an invalid identity matched something")
		return
	}
	e := &s.m[k]
	if e.present {
		c32Reach("ack-hit")
		zzsym.Assert(found, "Ack missed an outstanding delivery")
		zzsym.Assert(e.rowOK(got), "Ack returned a row that is not the delivery's")
		if e.committed && len(e.attempts) > 0 {
			c32Reach("ack-committed-with-redelivery")
		}
		*e = c32Entry{}
	} else {
		c32Reach("ack-miss")
		zzsym.Assert(!found && got == PendingRecvAck{}, "Ack matched a delivery that is not outstanding")
	}
}

func (s *c32State) opSessionClosed() {
	// the sessions of the key domain, each once
	var sess []int
	for _, d := range s.dom {
		dup := false
		for _, b := range sess {
			if b == d&^1 {
				dup = true
			}
		}
		if !dup {
			sess = append(sess, d&^1)
		}
	}
	n := len(sess)
	if s.full {
		n += 2
	}
	c := zzsym.Choice("sess", n)
	if c >= len(sess) {
		var got []PendingRecvAck
		if c == len(sess) {
			got = s.t.SessionClosed("", 1)
		} else {
			got = s.t.SessionClosed("a", 0)
		}
		zzsym.Assert(len(got) == 0, "SessionClosed with an invalid identity removed something")
		return
	}
	base := sess[c] // keys base and base|1 are the session's two messages
	got := s.t.SessionClosed(c32UID(base), c32SID(base))
	n = s.checkRemoved(got, func(k int) bool { return k&^1 == base })
	if n > 0 {
		c32Reach("session-removed")
	}
	if n > 1 {
		c32Reach("session-removed-several")
	}
}

// checkRemoved compares the rows returned by a bulk removal with the model: exactly the
// present keys selected by sel, each once, each with the model's row; then removes them.
func (s *c32State) checkRemoved(got []PendingRecvAck, sel func(k int) bool) int {
	var seen [c32MaxKeys]bool
	for i := range got {
		k := c32KeyOf(got[i].UID, got[i].SessionID, got[i].MessageID)
		zzsym.Assert(k >= 0, "removed row with an unknown identity")
		if k < 0 {
			continue
		}
		zzsym.Assert(!seen[k], "the same key was removed twice")
		seen[k] = true
		zzsym.Assert(s.m[k].present, "removed a key that is not outstanding")
		zzsym.Assert(s.m[k].present && sel(k), "removed a key outside the requested set")
		zzsym.Assert(s.m[k].present && s.m[k].rowOK(got[i]), "removed row is not the delivery's row")
	}
	n := 0
	for k := 0; k < c32MaxKeys; k++ {
		if s.m[k].present && sel(k) {
			n++
			zzsym.Assert(seen[k], "a key of the requested set was not removed")
			s.m[k] = c32Entry{}
		}
	}
	zzsym.Assert(len(got) == n, "number of removed rows differs from the model")
	return n
}

// c32TTLs are the concrete TTLs used inside histories (delivery times and the clock stay
// symbolic); the rounding of a symbolic TTL to whole seconds is checked by Harness_C32_ExpireTTL.
var c32TTLs = [...]time.Duration{1500 * time.Millisecond, 0, time.Nanosecond, time.Second, -time.Second, 3 * time.Second}

func (s *c32State) opExpire() {
	if !s.full {
		s.expire(c32TTLs[0])
		return
	}
	s.expire(c32TTLs[zzsym.Choice("ttl", len(c32TTLs))])
}

func (s *c32State) expire(ttl time.Duration) {
	got := s.t.Expire(ttl)
	if ttl <= 0 {
		c32Reach("expire-nonpositive-ttl")
		zzsym.Assert(len(got) == 0, "Expire with a non-positive ttl removed something")
		return
	}
	ttlSec := c32CeilSeconds(ttl)
	kept := 0
	for k := 0; k < c32MaxKeys; k++ {
		if s.m[k].present && !s.idle(&s.m[k], ttlSec) {
			kept++
		}
	}
	if kept > 0 {
		c32Reach("expire-kept")
	}
	n := s.checkRemoved(got, func(k int) bool { return s.idle(&s.m[k], ttlSec) })
	if n > 0 {
		c32Reach("expire-removed")
	}
}

func (s *c32State) opReset() {
	s.t.Reset()
	for k := range s.m {
		s.m[k] = c32Entry{}
	}
	c32Reach("reset")
}

func (s *c32State) step() {
	s.now = c32Time("now")
	switch zzsym.Choice("op", 9) {
	case 0:
		s.bindResult(s.pickKey(), s.full && zzsym.Choice("clock", 2) == 1)
	case 1:
		s.opFinishBind()
	case 2:
		s.opCancelBind()
	case 3:
		s.ackKey(s.pickKey())
	case 4:
		s.opSessionClosed()
	case 5:
		s.opExpire()
	case 6:
		s.opBindBatch()
	case 7:
		s.bindCompat(s.pickKey(), !s.full || zzsym.Choice("clock", 2) == 1)
	default:
		s.opReset()
	}
	s.checkCounts()
}

// drain acknowledges every key: what is observable through Ack is exactly the model's set, and
// the tracker ends empty.
func (s *c32State) drain() {
	for k := 0; k < c32MaxKeys; k++ {
		s.ackKey(k)
	}
	s.checkCounts()
	zzsym.Assert(s.t.PendingCount() == 0, "tracker not empty after acknowledging every key")
	zzsym.Observe("end", uint64(len(s.issued)))
}

func c32New(dom []int, limit int) *c32State {
	s := &c32State{dom: dom, limit: limit}
	s.t = NewAckTracker(AckTrackerOptions{ShardCount: 2, MaxPendingPerSession: limit, Now: func() int64 { return s.now }})
	return s
}

// key domains. Tri: two messages of one session and a second session of the same uid in the
// other shard. Quad adds a different uid with the same session and message ids as key 0.
var (
	c32Tri  = []int{0, 1, 2}
	c32Quad = []int{0, 1, 2, 4}
)

func c32Depth(quick, thorough int) int {
	if zzsym.Thorough() {
		return thorough
	}
	return quick
}

// Harness_C32_History: every history of k operations (reduced alphabet) from the empty tracker.
func Harness_C32_History() {
	s := c32New(c32Tri, 0)
	for i, k := 0, c32Depth(3, 4); i < k; i++ {
		s.step()
	}
	s.drain()
}

// Harness_C32_HistoryUIDs: shorter histories over the domain with two uids that share session
// and message ids.
func Harness_C32_HistoryUIDs() {
	s := c32New(c32Quad, 0)
	for i, k := 0, c32Depth(2, 3); i < k; i++ {
		s.step()
	}
	s.drain()
}

// seedRedelivery builds, with the real operations, the state of the property's rollback clause:
// key 0 delivered successfully once and being re-delivered, key 1 delivered but not finished.
func (s *c32State) seedRedelivery() {
	s.now = c32Time("now")
	s.bindResult(0, false)
	tok := s.issued[0].tok
	zzsym.Assert(s.t.FinishBind(c32Row(0, false), tok), "seed: FinishBind failed")
	a, _ := s.m[0].takeAttempt(tok)
	s.m[0].committed, s.m[0].row = true, a.row
	s.now = c32Time("now")
	s.bindResult(0, true)
	s.bindResult(1, false)
	s.checkCounts()
}

// Harness_C32_Redelivery: histories of k operations starting from the re-delivery state.
func Harness_C32_Redelivery() {
	s := c32New(c32Tri, 0)
	s.seedRedelivery()
	for i, k := 0, c32Depth(2, 3); i < k; i++ {
		s.step()
	}
	s.drain()
}

// seedOverlap: three delivery attempts of key 0 overlap (bound, none finished or cancelled yet), the
// situation in which the tracker keeps one primary and two extra attempts for one entry.
func (s *c32State) seedOverlap() {
	for i := 0; i < 3; i++ {
		s.now = c32Time("now")
		s.bindResult(0, false)
	}
	s.checkCounts()
}

// Harness_C32_OverlappingAttempts: histories of k operations from three overlapping attempts of one
// (uid, session, message): cancelling or finishing them in any order (tokens presented in any order,
// also stale ones) keeps the per-token outcomes, the pending count and what Ack returns exact.
func Harness_C32_OverlappingAttempts() {
	s := c32New(c32Tri, 0)
	s.seedOverlap()
	for i, k := 0, c32Depth(2, 3); i < k; i++ {
		s.step()
	}
	s.drain()
}

// Harness_C32_SingleOp: one operation of the full alphabet (invalid identities, zero and forged
// tokens, tokens presented with any key, every batch shape up to 2 items, non-positive and
// fractional TTLs, clock-stamped rows) on the re-delivery state extended by a second uid.
func Harness_C32_SingleOp() {
	s := c32New(c32Quad, 0)
	s.seedRedelivery()
	s.bindCompat(4, true)
	s.full = true
	s.step()
	s.drain()
}

// Harness_C32_SessionLimit: histories with MaxPendingPerSession = 1: a second message of a
// session is rejected without any effect, re-binding an outstanding key is still accepted.
func Harness_C32_SessionLimit() {
	s := c32New(c32Tri, 1)
	for i, k := 0, c32Depth(2, 3); i < k; i++ {
		s.step()
	}
	s.drain()
}

// Harness_C32_ExpireTTL: the TTL is rounded up to whole seconds: with ttl = q s + r ns
// (0 <= r < 1e9) an entry is removed exactly when its age in seconds is >= q + (r > 0 ? 1 : 0),
// i.e. exactly when age * 1s >= ttl.
func Harness_C32_ExpireTTL() {
	s := c32New(c32Tri, 0)
	s.now = c32Time("now")
	s.bindResult(0, false)
	s.now = c32Time("now")
	q := int64(zzsym.Choice("ttl.sec", 4))
	r := int64(zzsym.U32("ttl.nsec") >> 2)
	zzsym.Assume(r < 1000000000)
	ttl := time.Duration(q)*time.Second + time.Duration(r)
	zzsym.Assume(ttl > 0)
	need := q
	if r > 0 {
		need++
	}
	got := s.t.Expire(ttl)
	due := s.m[0].attempts[0].row.DeliveredAt <= s.now-need
	if len(got) == 0 {
		c32Reach("ttl-kept")
		zzsym.Assert(!due, "an entry idle for at least the ttl was kept")
	} else {
		c32Reach("ttl-removed")
		zzsym.Assert(due, "an entry idle for less than the ttl was removed")
		zzsym.Assert(len(got) == 1 && s.m[0].rowOK(got[0]), "Expire returned a foreign row")
		s.m[0] = c32Entry{}
	}
	zzsym.Observe("ttl", uint64(ttl), uint64(len(got)))
	s.checkCounts()
	s.drain()
}
