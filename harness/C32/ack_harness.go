package delivery

import (
	"time"

	"github.com/WuKongIM/WuKongIM/internal/zzsym"
)

// ---------------------------------------------------------------------------------------
// C32 — receive-acknowledgement tracking is exact.
//
// A bounded history of AckTracker operations is executed against the real tracker (2 shards,
// harness clock) and, in lock step, against the reference model below: a fixed table of the
// outstanding (uid, session, message) keys with a committed flag, the committed row and the
// outstanding bind attempts (token + row). Keys, operations and tokens are chosen with
// zzsym.Choice (concrete on every path); delivery times, the clock, the TTL and the row
// metadata are symbolic.
// ---------------------------------------------------------------------------------------

const c32MaxKeys = 8

type c32Attempt struct {
	tok AckBindToken
	row PendingRecvAck
}

type c32Entry struct {
	present   bool
	committed bool
	row       PendingRecvAck // metadata of the last successfully finished attempt
	attempts  []c32Attempt   // binds that were neither finished nor cancelled
}

type c32Issued struct {
	tok AckBindToken
	key int
}

type c32State struct {
	t      *AckTracker
	now    int64
	nkeys  int // size of the key domain on this run
	m      [c32MaxKeys]c32Entry
	issued []c32Issued
}

// key index -> identity. Bit 0: message id, bit 1: session id (= shard), bit 2: uid.
func c32UID(k int) string {
	if k&4 != 0 {
		return "b"
	}
	return "a"
}
func c32SID(k int) uint64 { return uint64(1 + (k>>1)&1) }
func c32MID(k int) uint64 { return uint64(1 + k&1) }

func c32KeyOf(uid string, sid, mid uint64) int {
	k := 0
	switch uid {
	case "a":
	case "b":
		k |= 4
	default:
		return -1
	}
	switch sid {
	case 1:
	case 2:
		k |= 2
	default:
		return -1
	}
	switch mid {
	case 1:
	case 2:
		k |= 1
	default:
		return -1
	}
	return k
}

func c32Time(name string) int64 {
	v := zzsym.I64(name)
	zzsym.Assume(v >= 0 && v < 1<<30)
	return v
}

// c32Row builds a delivery row for key k (k < 0: an invalid row) with symbolic metadata.
func c32Row(k int) PendingRecvAck {
	row := PendingRecvAck{
		MessageSeq:  zzsym.U64("seq"),
		ChannelID:   "ch",
		ChannelType: zzsym.U8("ctype"),
		DeliveredAt: c32Time("at"),
	}
	switch {
	case k >= 0:
		row.UID, row.SessionID, row.MessageID = c32UID(k), c32SID(k), c32MID(k)
	case k == -1:
		row.UID, row.SessionID, row.MessageID = "a", 0, 1
	case k == -2:
		row.UID, row.SessionID, row.MessageID = "", 1, 1
	default:
		row.UID, row.SessionID, row.MessageID = "a", 1, 0
	}
	return row
}

// c32PickKey chooses a key of the domain or (last value) an invalid identity.
func (s *c32State) pickKey(name string) int {
	k := zzsym.Choice(name, s.nkeys+1)
	if k == s.nkeys {
		return -1 - zzsym.Choice(name+".bad", 3)
	}
	return k
}

func (s *c32State) size() int {
	n := 0
	for i := range s.m {
		if s.m[i].present {
			n++
		}
	}
	return n
}

func (s *c32State) fresh(tok AckBindToken) bool {
	for i := range s.issued {
		if s.issued[i].tok == tok {
			return false
		}
	}
	return true
}

// modelBind records one accepted bind attempt; it returns whether the key is new.
func (s *c32State) modelBind(k int, row PendingRecvAck, tok AckBindToken) bool {
	e := &s.m[k]
	added := !e.present
	if added {
		*e = c32Entry{present: true}
	}
	e.attempts = append(e.attempts, c32Attempt{tok: tok, row: row})
	s.issued = append(s.issued, c32Issued{tok: tok, key: k})
	return added
}

// takeAttempt removes and returns the outstanding attempt owning tok.
func (e *c32Entry) takeAttempt(tok AckBindToken) (c32Attempt, bool) {
	if !e.present || !tok.Valid() {
		return c32Attempt{}, false
	}
	for i := range e.attempts {
		if e.attempts[i].tok == tok {
			a := e.attempts[i]
			e.attempts = append(append([]c32Attempt{}, e.attempts[:i]...), e.attempts[i+1:]...)
			return a, true
		}
	}
	return c32Attempt{}, false
}

// rowOK: the row handed back for a removed key is the committed one, or, when no delivery
// completed yet, the row of one of the still outstanding attempts.
func (e *c32Entry) rowOK(got PendingRecvAck) bool {
	if e.committed {
		return got == e.row
	}
	ok := false
	for i := range e.attempts {
		if got == e.attempts[i].row {
			ok = true
		}
	}
	return ok
}

// idle reports whether every delivery candidate of the entry (committed row, outstanding
// attempts) has been delivered at least ttl ago.
func (s *c32State) idle(e *c32Entry, ttl time.Duration) bool {
	all := true
	if e.committed {
		all = all && time.Duration(s.now-e.row.DeliveredAt)*time.Second >= ttl
	}
	for i := range e.attempts {
		all = all && time.Duration(s.now-e.attempts[i].row.DeliveredAt)*time.Second >= ttl
	}
	return all
}

func (s *c32State) normalize(row PendingRecvAck) PendingRecvAck {
	if row.DeliveredAt == 0 {
		row.DeliveredAt = s.now
	}
	return row
}

// checkCounts: the O(1) counter, both indexes and the model agree; every model key is stored
// in the shard of its session with the model's committed flag and number of reservations.
func (s *c32State) checkCounts() {
	want := s.size()
	zzsym.Assert(s.t.PendingCount() == want, "PendingCount differs from the number of outstanding keys")
	byMsg, bySess := 0, 0
	for i := range s.t.shards {
		sh := &s.t.shards[i]
		byMsg += len(sh.byMessage)
		for sk, msgs := range sh.bySession {
			bySess += len(msgs)
			zzsym.Assert(len(msgs) > 0 && sk.uid != "", "empty session index left behind")
		}
	}
	zzsym.Assert(byMsg == want, "sum of len(byMessage) differs from the model size")
	zzsym.Assert(bySess == want, "sum of len(bySession[.]) differs from the model size")
	for k := 0; k < s.nkeys; k++ {
		e := &s.m[k]
		sh := s.t.shard(c32SID(k))
		got, ok := sh.byMessage[ackMessageKey{uid: c32UID(k), sessionID: c32SID(k), messageID: c32MID(k)}]
		zzsym.Assert(ok == e.present, "key presence differs from the model")
		if !ok || !e.present {
			continue
		}
		_, indexed := sh.bySession[ackSessionKey{uid: c32UID(k), sessionID: c32SID(k)}][c32MID(k)]
		zzsym.Assert(indexed, "pending key missing from the session index")
		zzsym.Assert(got.committed == e.committed, "committed flag differs from the model")
		n := len(got.extraAttempts)
		if got.primary.Valid() {
			n++
		}
		zzsym.Assert(n == len(e.attempts), "number of in-flight reservations differs from the model")
	}
}

func (s *c32State) opBindResult() {
	k := s.pickKey("key")
	row := c32Row(k)
	before := s.size()
	res := s.t.BindResult(row)
	if k < 0 {
		zzsym.Reach("bind-invalid")
		zzsym.Assert(!res.Bound && !res.Added && !res.Token.Valid(), "invalid row was bound")
		zzsym.Assert(res.PendingCount == before, "BindResult(invalid).PendingCount")
		return
	}
	row = s.normalize(row)
	zzsym.Assert(res.Bound && res.Token.Valid(), "valid row was not bound")
	zzsym.Assert(s.fresh(res.Token), "bind token reused")
	added := s.modelBind(k, row, res.Token)
	if added {
		zzsym.Reach("bind-new")
	} else {
		zzsym.Reach("bind-again")
	}
	zzsym.Assert(res.Added == added, "BindResult.Added differs from the model")
	zzsym.Assert(res.PendingCount == s.size(), "BindResult.PendingCount differs from the model")
	zzsym.Observe("bind", zzsym.B2U(res.Added), uint64(res.PendingCount), res.Token.id)
}

func (s *c32State) opBind() {
	k := s.pickKey("key")
	row := c32Row(k)
	ok := s.t.Bind(row)
	if k < 0 {
		zzsym.Assert(!ok, "Bind accepted an invalid row")
		return
	}
	zzsym.Reach("bind-compat")
	zzsym.Assert(ok, "Bind rejected a valid row")
	row = s.normalize(row)
	e := &s.m[k]
	if !e.present {
		*e = c32Entry{present: true}
	}
	// reserve + finish: the row becomes the committed one, other reservations are untouched
	e.committed = true
	e.row = row
}

func (s *c32State) opBindBatch() {
	n := zzsym.Choice("batch.n", 3)
	var keys [2]int
	rows := make([]PendingRecvAck, n)
	for i := 0; i < n; i++ {
		if i == 0 {
			keys[i] = s.pickKey("key")
		} else {
			// second item relative to the first: same key, sibling message, other session
			// (= other shard), other uid, or invalid
			base := keys[0]
			if base < 0 {
				base = 0
			}
			switch zzsym.Choice("batch.rel", 5) {
			case 0:
				keys[i] = base
			case 1:
				keys[i] = base ^ 1
			case 2:
				keys[i] = base ^ 2
			case 3:
				keys[i] = base ^ 4
			default:
				keys[i] = -1
			}
			if keys[i] >= s.nkeys {
				keys[i] = base
			}
		}
		rows[i] = c32Row(keys[i])
	}
	before := s.size()
	res := s.t.BindBatch(rows)
	zzsym.Assert(len(res.Tokens) == n, "BindBatch tokens not aligned with the input")
	bound, added := 0, 0
	var shardUsed [2]bool
	for i := 0; i < n; i++ {
		if keys[i] < 0 {
			zzsym.Assert(!res.Tokens[i].Valid(), "BindBatch bound an invalid row")
			continue
		}
		zzsym.Assert(res.Tokens[i].Valid(), "BindBatch rejected a valid row")
		zzsym.Assert(s.fresh(res.Tokens[i]), "batch bind token reused")
		if s.modelBind(keys[i], s.normalize(rows[i]), res.Tokens[i]) {
			added++
		}
		bound++
		shardUsed[c32SID(keys[i])%2] = true
	}
	shards := 0
	for _, u := range shardUsed {
		if u {
			shards++
		}
	}
	if n == 2 && bound == 2 {
		zzsym.Reach("batch-two")
	}
	zzsym.Assert(res.Bound == bound, "BindBatch.Bound differs from the model")
	zzsym.Assert(res.Added == added, "BindBatch.Added differs from the model")
	zzsym.Assert(res.Shards == shards, "BindBatch.Shards differs from the model")
	zzsym.Assert(res.PendingCount == s.size() && s.size() == before+added, "BindBatch.PendingCount differs from the model")
	zzsym.Observe("batch", uint64(res.Bound), uint64(res.Added), uint64(res.Shards), uint64(res.PendingCount))
}

// pickToken chooses one of the tokens handed out so far (with the key it was bound for, or a
// neighbouring key), the zero token, or a token that was never handed out.
func (s *c32State) pickToken() (AckBindToken, int) {
	i := zzsym.Choice("tok", len(s.issued)+2)
	if i == len(s.issued) {
		return AckBindToken{}, 0
	}
	if i == len(s.issued)+1 {
		return AckBindToken{id: 1 << 40}, 0
	}
	k := s.issued[i].key
	switch zzsym.Choice("tok.key", 4) {
	case 1:
		k ^= 1
	case 2:
		k ^= 2
	case 3:
		k ^= 4
	}
	if k >= s.nkeys {
		k = s.issued[i].key
	}
	return s.issued[i].tok, k
}

func (s *c32State) opFinishBind() {
	tok, k := s.pickToken()
	row := c32Row(k) // only the identity of the row matters to FinishBind
	got := s.t.FinishBind(row, tok)
	e := &s.m[k]
	a, ok := e.takeAttempt(tok)
	zzsym.Assert(got == ok, "FinishBind result differs from the model")
	if ok {
		zzsym.Reach("finish")
		if e.committed {
			zzsym.Reach("finish-redelivery")
		}
		e.committed = true
		e.row = a.row
	} else {
		zzsym.Reach("finish-stale")
	}
}

func (s *c32State) opCancelBind() {
	tok, k := s.pickToken()
	row := c32Row(k)
	res := s.t.CancelBind(row, tok)
	e := &s.m[k]
	wasCommitted := e.present && e.committed
	_, ok := e.takeAttempt(tok)
	removed := false
	if ok && !e.committed && len(e.attempts) == 0 {
		*e = c32Entry{}
		removed = true
	}
	zzsym.Assert(res.Canceled == ok, "CancelBind.Canceled differs from the model")
	zzsym.Assert(res.Removed == removed, "CancelBind.Removed differs from the model")
	zzsym.Assert(res.PendingCount == s.size(), "CancelBind.PendingCount differs from the model")
	if ok && wasCommitted {
		zzsym.Reach("cancel-redelivery")
		zzsym.Assert(!res.Removed && e.present && e.committed, "cancelling a failed re-delivery removed a committed entry")
		sh := s.t.shard(c32SID(k))
		kept, still := sh.byMessage[ackMessageKey{uid: c32UID(k), sessionID: c32SID(k), messageID: c32MID(k)}]
		zzsym.Assert(still && kept.committed && kept.pending == e.row, "committed delivery lost or altered by a cancelled re-delivery")
	}
	if removed {
		zzsym.Reach("cancel-removes-tentative")
	}
	if !ok {
		zzsym.Reach("cancel-stale")
	}
}

func (s *c32State) ackKey(k int) {
	ack := Recvack{MessageSeq: zzsym.U64("ackseq")}
	switch {
	case k >= 0:
		ack.UID, ack.SessionID, ack.MessageID = c32UID(k), c32SID(k), c32MID(k)
	case k == -1:
		ack.UID, ack.SessionID, ack.MessageID = "a", 0, 1
	case k == -2:
		ack.UID, ack.SessionID, ack.MessageID = "", 1, 1
	default:
		ack.UID, ack.SessionID, ack.MessageID = "a", 1, 0
	}
	got, found := s.t.Ack(ack)
	if k < 0 {
		zzsym.Assert(!found && got == PendingRecvAck{}, "Ack with an invalid identity matched something")
		return
	}
	e := &s.m[k]
	if e.present {
		zzsym.Reach("ack-hit")
		zzsym.Assert(found, "Ack missed an outstanding delivery")
		zzsym.Assert(e.rowOK(got), "Ack returned a row that is not the delivery's")
		if e.committed && len(e.attempts) > 0 {
			zzsym.Reach("ack-committed-with-redelivery")
		}
		*e = c32Entry{}
	} else {
		zzsym.Reach("ack-miss")
		zzsym.Assert(!found && got == PendingRecvAck{}, "Ack matched a delivery that is not outstanding")
	}
}

func (s *c32State) opAck() {
	s.ackKey(s.pickKey("key"))
}

func (s *c32State) opSessionClosed() {
	c := zzsym.Choice("sess", 5)
	if c == 4 {
		bad := zzsym.Choice("sess.bad", 2)
		var got []PendingRecvAck
		if bad == 0 {
			got = s.t.SessionClosed("", 1)
		} else {
			got = s.t.SessionClosed("a", 0)
		}
		zzsym.Assert(len(got) == 0, "SessionClosed with an invalid identity removed something")
		return
	}
	base := c << 1 // keys base and base|1 are the session's two messages
	if base >= s.nkeys {
		base = 0
	}
	got := s.t.SessionClosed(c32UID(base), c32SID(base))
	n := s.checkRemoved(got, func(k int) bool { return k&^1 == base })
	if n > 0 {
		zzsym.Reach("session-removed")
	}
	if n > 1 {
		zzsym.Reach("session-removed-several")
	}
}

// checkRemoved compares the rows returned by a bulk removal with the model: exactly the
// present keys selected by sel, each once, each with the model's row; then removes them.
func (s *c32State) checkRemoved(got []PendingRecvAck, sel func(k int) bool) int {
	var seen [c32MaxKeys]bool
	for i := range got {
		k := c32KeyOf(got[i].UID, got[i].SessionID, got[i].MessageID)
		zzsym.Assert(k >= 0 && k < s.nkeys, "removed row with an unknown identity")
		if k < 0 || k >= s.nkeys {
			continue
		}
		zzsym.Assert(!seen[k], "the same key was removed twice")
		seen[k] = true
		zzsym.Assert(s.m[k].present, "removed a key that is not outstanding")
		zzsym.Assert(s.m[k].present && sel(k), "removed a key outside the requested set")
		zzsym.Assert(s.m[k].present && s.m[k].rowOK(got[i]), "removed row is not the delivery's row")
	}
	n := 0
	for k := 0; k < s.nkeys; k++ {
		if s.m[k].present && sel(k) {
			n++
			zzsym.Assert(seen[k], "a key of the requested set was not removed")
			s.m[k] = c32Entry{}
		}
	}
	zzsym.Assert(len(got) == n, "number of removed rows differs from the model")
	return n
}

// c32TTLs are the concrete TTLs used inside histories (delivery times and the clock stay
// symbolic); the rounding of a symbolic TTL to whole seconds is checked by Harness_C32_ExpireTTL.
var c32TTLs = [...]time.Duration{0, 1500 * time.Millisecond, time.Nanosecond, time.Second, -time.Second, 3 * time.Second}

func (s *c32State) opExpire() {
	n := 2
	if zzsym.Thorough() {
		n = len(c32TTLs)
	}
	s.expire(c32TTLs[zzsym.Choice("ttl", n)])
}

func (s *c32State) expire(ttl time.Duration) {
	got := s.t.Expire(ttl)
	if ttl <= 0 {
		zzsym.Reach("expire-nonpositive-ttl")
		zzsym.Assert(len(got) == 0, "Expire with a non-positive ttl removed something")
		return
	}
	kept := 0
	for k := 0; k < s.nkeys; k++ {
		if s.m[k].present && !s.idle(&s.m[k], ttl) {
			kept++
		}
	}
	if kept > 0 {
		zzsym.Reach("expire-kept")
	}
	n := s.checkRemoved(got, func(k int) bool { return s.idle(&s.m[k], ttl) })
	if n > 0 {
		zzsym.Reach("expire-removed")
	}
}

func (s *c32State) opReset() {
	s.t.Reset()
	for k := range s.m {
		s.m[k] = c32Entry{}
	}
	zzsym.Reach("reset")
}

func (s *c32State) step(ops int) {
	s.now = c32Time("now")
	switch zzsym.Choice("op", ops) {
	case 0:
		s.opBindResult()
	case 1:
		s.opFinishBind()
	case 2:
		s.opCancelBind()
	case 3:
		s.opAck()
	case 4:
		s.opSessionClosed()
	case 5:
		s.opExpire()
	case 6:
		s.opBindBatch()
	case 7:
		s.opBind()
	default:
		s.opReset()
	}
	s.checkCounts()
}

// drain acknowledges every key of the domain: what is observable through Ack is exactly the
// model's set, and the tracker ends empty.
func (s *c32State) drain() {
	for k := 0; k < s.nkeys; k++ {
		s.ackKey(k)
	}
	s.checkCounts()
	zzsym.Assert(s.t.PendingCount() == 0, "tracker not empty after acknowledging every key")
}

func c32New(nkeys int) *c32State {
	s := &c32State{nkeys: nkeys}
	s.t = NewAckTracker(AckTrackerOptions{ShardCount: 2, Now: func() int64 { return s.now }})
	return s
}

// Harness_C32_History: every history of k operations over the full operation set.
func Harness_C32_History() {
	k, nkeys := 2, 8
	if zzsym.Thorough() {
		k = 4
	}
	s := c32New(nkeys)
	for i := 0; i < k; i++ {
		s.step(9)
	}
	s.drain()
	zzsym.Observe("end", uint64(len(s.issued)))
}
