package meta

import "github.com/WuKongIM/WuKongIM/pkg/db/internal/engine"

// ZZC13ResetStores / ZZC13Dump expose the in-memory engine's harness helpers to packages that may
// not import pkg/db/internal (verification overlay only).
func ZZC13ResetStores() { engine.ZZResetStores() }

func ZZC13Dump(path string) (keys [][]byte, values [][]byte) { return engine.ZZDump(path) }

// ZZC13SlotAppliedKey is the key of the slot's durable applied index (recovery bookkeeping).
func ZZC13SlotAppliedKey(slot uint64) []byte { return encodeSlotAppliedIndexKey(slot) }
