package fsm

import (
	"context"

	"github.com/WuKongIM/WuKongIM/internal/zzsym"
	metadb "github.com/WuKongIM/WuKongIM/pkg/db/meta"
	runtimechannelid "github.com/WuKongIM/WuKongIM/pkg/protocol/channelid"
	"github.com/WuKongIM/WuKongIM/pkg/slot/multiraft"
)

// Batch transparency over the commands that share a person channel's runtime-metadata row, its
// directory generation and its directory task: the in-batch overlays of these commands
// (runtimeMeta, channel rows, person directory tasks) are what makes one WriteBatch look like
// sequential application.

func c13PersonMeta(channelID string, tag string) metadb.ChannelRuntimeMeta {
	return metadb.ChannelRuntimeMeta{
		ChannelID: channelID, ChannelType: 1,
		ChannelEpoch: 1 + uint64(zzsym.U8(tag+"-chepoch")&1), LeaderEpoch: 1 + uint64(zzsym.U8(tag+"-ldepoch")&1),
		Replicas: []uint64{1}, ISR: []uint64{1}, Leader: 1, MinISR: 1,
	}
}

func c13PersonCommand(index uint64, channelID string, tag string) multiraft.Command {
	var data []byte
	var err error
	switch zzsym.Choice(tag+"-kind", 7) {
	case 0:
		data, err = EncodeAdmitPersonDirectoryTaskBatchCommandChecked([]PersonDirectoryAdmissionBatchItem{{
			HashSlot:    1,
			Task:        metadb.PersonDirectoryTask{ChannelID: channelID, ChannelType: 1, CommittedTail: 1 + uint64(zzsym.U8(tag+"-tail")&3), CreatedAt: 100 + int64(index)},
			RuntimeMeta: c13PersonMeta(channelID, tag),
		}})
	case 1:
		data = EncodeDeleteChannelCommand(channelID, 1)
	case 2:
		data = EncodeUpsertChannelRuntimeMetaCommand(c13PersonMeta(channelID, tag))
	case 3:
		data, err = EncodeCompletePersonDirectoryTaskBatchCommandChecked([]PersonDirectoryCompletionBatchItem{{
			HashSlot: 1, ChannelID: channelID, ChannelType: 1, Generation: uint64(zzsym.U8(tag+"-gen") & 3),
		}})
	case 4:
		data = EncodeUpsertChannelCommand(metadb.Channel{ChannelID: channelID, ChannelType: 1, Ban: c13Small(tag + "-ban")})
	case 5:
		data = EncodeAdvanceChannelRetentionThroughSeqCommand(metadb.ChannelRetentionAdvance{
			ChannelID: channelID, ChannelType: 1, ExpectedChannelEpoch: 1 + uint64(zzsym.U8(tag+"-xchepoch")&1),
			ExpectedLeaderEpoch: 1 + uint64(zzsym.U8(tag+"-xldepoch")&1), ExpectedLeader: 1,
			RetentionThroughSeq: uint64(zzsym.U8(tag+"-through") & 3), RetentionUpdatedAtMS: 7,
		})
	default:
		data = EncodeDeleteChannelRuntimeMetaCommand(channelID, 1)
	}
	zzsym.Assume(err == nil)
	return multiraft.Command{SlotID: 1, HashSlot: 1, Index: index, Term: 1, Data: data}
}

// Harness_C13_BatchTransparencyPerson: log = admit(p); X; Y (thorough: X; Y; Z) with X, Y drawn
// from admit / delete channel / upsert runtime meta / complete task (generation 0..3) / upsert
// channel / advance retention / delete runtime meta on the same person channel; every split of
// the log into two batches versus one batch.
func Harness_C13_BatchTransparencyPerson() {
	metadb.ZZC13ResetStores()
	channelID := runtimechannelid.EncodePersonChannel("u1", "u2")
	admit, err := EncodeAdmitPersonDirectoryTaskBatchCommandChecked([]PersonDirectoryAdmissionBatchItem{{
		HashSlot:    1,
		Task:        metadb.PersonDirectoryTask{ChannelID: channelID, ChannelType: 1, CommittedTail: 1, CreatedAt: 100},
		RuntimeMeta: metadb.ChannelRuntimeMeta{ChannelID: channelID, ChannelType: 1, ChannelEpoch: 1, LeaderEpoch: 1, Replicas: []uint64{1}, ISR: []uint64{1}, Leader: 1, MinISR: 1},
	}})
	zzsym.Assume(err == nil)
	n := 3
	if zzsym.Thorough() {
		n = 4
	}
	cmds := make([]multiraft.Command, n)
	cmds[0] = multiraft.Command{SlotID: 1, HashSlot: 1, Index: 1, Term: 1, Data: admit}
	tags := []string{"", "x", "y", "z"}
	for i := 1; i < n; i++ {
		cmds[i] = c13PersonCommand(uint64(i+1), channelID, tags[i])
	}
	ctx := context.Background()
	smA, _ := c13Machine("c13-a")
	smB, _ := c13Machine("c13-b")
	// replica A: one command per batch (the sequential reference)
	var resA [][]byte
	var errA error
	for i := range cmds {
		r, e := smA.ApplyBatch(ctx, cmds[i:i+1])
		if e != nil {
			errA = e
			break
		}
		resA = append(resA, r...)
	}
	// replica B: two batches split at a symbolic point (split == n: one batch)
	split := 1 + zzsym.Choice("split", n)
	resB, errB := smB.ApplyBatch(ctx, cmds[:split])
	if errB == nil && split < n {
		var r2 [][]byte
		r2, errB = smB.ApplyBatch(ctx, cmds[split:])
		resB = append(resB, r2...)
	}
	zzsym.Reach("both-applied")
	if errA != nil || errB != nil {
		// an apply error aborts the batch it occurs in (the slot fails closed); which earlier
		// commands of that batch are durable then legitimately depends on the grouping
		zzsym.Assert((errA != nil) == (errB != nil), "one grouping of the same log fails and the other succeeds")
		return
	}
	zzsym.Reach("both-succeeded")
	zzsym.Assert(c13SameResults(resA, resB), "apply results depend on how the log is grouped into batches")
	zzsym.Assert(c13SameStores("c13-a", "c13-b"), "stored metadata depends on how the log is grouped into batches")
	zzsym.Observe("rows", uint64(len(resA)))
}

// --- channel migration task commands (JSON-framed commands 30..41) -------------------------------

func c13MigTask(id string) metadb.ChannelMigrationTask {
	return metadb.ChannelMigrationTask{TaskID: id, ChannelID: "g1", ChannelType: 2, Kind: metadb.ChannelMigrationKindLeaderTransfer,
		Status: metadb.ChannelMigrationStatusPending, Phase: metadb.ChannelMigrationPhaseValidate, SourceNode: 1, TargetNode: 2, DesiredLeader: 2, UpdatedAtMS: 10}
}

// c13MigOp describes one command of the migration log for the known-finding pattern.
type c13MigOp struct {
	task     int  // 1 or 2: the task row the command writes; 0: none (garbage collection)
	advance  bool // an advance of that task (create otherwise)
	terminal bool // the advance makes the task terminal
	gc       bool
}

func c13MigAdvance(id string, tag string) ([]byte, bool) {
	status := metadb.ChannelMigrationStatusRunning
	completed := int64(0)
	switch zzsym.Choice(tag+"-status", 3) {
	case 1:
		status = metadb.ChannelMigrationStatusCompleted
		completed = 20
	case 2:
		status = metadb.ChannelMigrationStatusAborted
		completed = 20
	}
	// the guard names the row as CreateChannelMigrationTask stored it
	return EncodeAdvanceChannelMigrationTaskCommand(metadb.ChannelMigrationTaskAdvance{
		Guard: metadb.ChannelMigrationTaskGuard{ChannelID: "g1", ChannelType: 2, TaskID: id,
			ExpectedStatus: metadb.ChannelMigrationStatusPending, ExpectedPhase: metadb.ChannelMigrationPhaseValidate, ExpectedUpdatedAtMS: 10},
		Status: status, Phase: metadb.ChannelMigrationPhaseValidate, UpdatedAtMS: 10, CompletedAtMS: completed}), completed != 0
}

func c13MigCommand(index uint64, tag string) (multiraft.Command, c13MigOp) {
	var data []byte
	var op c13MigOp
	switch zzsym.Choice(tag+"-kind", 5) {
	case 0:
		data, op = EncodeCreateChannelMigrationTaskCommand(c13MigTask("t1")), c13MigOp{task: 1}
	case 1:
		data, op = EncodeCreateChannelMigrationTaskCommand(c13MigTask("t2")), c13MigOp{task: 2}
	case 2:
		var terminal bool
		data, terminal = c13MigAdvance("t1", tag)
		op = c13MigOp{task: 1, advance: true, terminal: terminal}
	case 3:
		var terminal bool
		data, terminal = c13MigAdvance("t2", tag)
		op = c13MigOp{task: 2, advance: true, terminal: terminal}
	default:
		data, op = EncodeGarbageCollectTerminalChannelMigrationTasksCommand(metadb.ChannelMigrationTaskGCRequest{BeforeMS: 30, Limit: 10}), c13MigOp{gc: true}
	}
	return multiraft.Command{SlotID: 1, HashSlot: 1, Index: index, Term: 1, Data: data}, op
}

// c13MigKnown is the input pattern of finding C13-F2: inside ONE apply batch a migration command
// reads a task row, the channel's active-task index or the terminal-task index that an EARLIER
// command of the same batch wrote, and sees committed storage instead:
//   - an advance of task T after a create / advance of T in the same batch
//     (Shard.stageUpsertChannelMigrationTask reads the previous row from committed storage, and
//     WriteBatch.migrationActive keeps T registered as active for later creates);
//   - a garbage collection after an advance that made a task terminal in the same batch
//     (DeleteTerminalChannelMigrationTasksBefore scans committed storage at staging time).
func c13MigKnown(ops []c13MigOp, lo, hi int) bool {
	for j := lo; j < hi; j++ {
		for i := lo; i < j; i++ {
			if ops[j].advance && ops[i].task == ops[j].task {
				return true
			}
			if ops[j].gc && ops[i].terminal {
				return true
			}
		}
	}
	return false
}

// Harness_C13_BatchTransparencyMigration: logs of 3 (thorough 4) channel-migration task commands
// (create t1 / create t2 / advance t1 or t2 to running, completed or aborted / collect terminal
// tasks) on one channel: one command per batch versus every split into two batches or one batch.
func Harness_C13_BatchTransparencyMigration() {
	metadb.ZZC13ResetStores()
	n := 3
	if zzsym.Thorough() {
		n = 4
	}
	cmds := make([]multiraft.Command, n)
	ops := make([]c13MigOp, n)
	tags := []string{"w", "x", "y", "z"}
	for i := 0; i < n; i++ {
		cmds[i], ops[i] = c13MigCommand(uint64(i+1), tags[i])
	}
	ctx := context.Background()
	smA, _ := c13Machine("c13-a")
	smB, _ := c13Machine("c13-b")
	var resA [][]byte
	var errA error
	for i := range cmds {
		r, e := smA.ApplyBatch(ctx, cmds[i:i+1])
		if e != nil {
			errA = e
			break
		}
		resA = append(resA, r...)
	}
	split := 1 + zzsym.Choice("split", n)
	resB, errB := smB.ApplyBatch(ctx, cmds[:split])
	if errB == nil && split < n {
		var r2 [][]byte
		r2, errB = smB.ApplyBatch(ctx, cmds[split:])
		resB = append(resB, r2...)
	}
	known := c13MigKnown(ops, 0, split) || c13MigKnown(ops, split, n)
	zzsym.Reach("both-applied")
	if errA != nil || errB != nil {
		zzsym.Assert((errA != nil) == (errB != nil), "one grouping of the same log fails and the other succeeds")
		return
	}
	zzsym.Reach("both-succeeded")
	zzsym.AssertKnown(c13SameResults(resA, resB), "apply results depend on how the log is grouped into batches", "C13-F2", known)
	zzsym.AssertKnown(c13SameMetadata("c13-a", "c13-b"), "stored metadata depends on how the log is grouped into batches", "C13-F2", known)
}

// c13SameMetadata compares two stores row by row except for the slot's durable applied index: a
// batch of ONE command whose commit is refused as stale is answered stale_meta without a commit
// (stateMachine.ApplyBatch), so that bookkeeping row legitimately trails on the replica that
// applied the refused command alone; after a restart the command is replayed and refused again.
func c13SameMetadata(a, b string) bool {
	skip := string(metadb.ZZC13SlotAppliedKey(1))
	ka, va := metadb.ZZC13Dump(a)
	kb, vb := metadb.ZZC13Dump(b)
	i, j := 0, 0
	for {
		if i < len(ka) && string(ka[i]) == skip {
			i++
			continue
		}
		if j < len(kb) && string(kb[j]) == skip {
			j++
			continue
		}
		if i >= len(ka) || j >= len(kb) {
			break
		}
		if string(ka[i]) != string(kb[j]) || string(va[i]) != string(vb[j]) {
			return false
		}
		i++
		j++
	}
	return i == len(ka) && j == len(kb)
}
