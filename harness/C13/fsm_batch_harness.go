package fsm

import (
	"context"

	"github.com/WuKongIM/WuKongIM/internal/zzsym"
	metadb "github.com/WuKongIM/WuKongIM/pkg/db/meta"
	"github.com/WuKongIM/WuKongIM/pkg/slot/multiraft"
)

// The batch-transparency / replay obligations run the REAL slot state machine and meta DB on the
// in-memory engine and synchronous commit coordinator overlays (see DESIGN 2.4).

func c13Small(name string) int64 { return int64(zzsym.U8(name) & 0x3f) }

// c13Command builds one metadata command of a symbolically chosen kind with symbolic (small)
// field values over a tiny id space, so that commands in one log can touch the same rows.
func c13Command(index uint64) multiraft.Command { return c13CommandOf(index, 6) }

// c13CommandOf restricts the command kinds to the first `kinds` cases when kinds < 6 is given as a
// negative selector: kinds == -3 selects the three subscriber/channel commands that share counters.
func c13CommandOf(index uint64, kinds int) multiraft.Command {
	uid := "u1"
	if zzsym.Choice("uid", 2) == 1 {
		uid = "u2"
	}
	var data []byte
	kind := 0
	if kinds == -3 {
		kind = 1 + zzsym.Choice("kind", 3)
	} else {
		kind = zzsym.Choice("kind", kinds)
	}
	switch kind {
	case 0:
		data = EncodeUpsertUserCommand(metadb.User{UID: uid, Token: "t", DeviceFlag: c13Small("deviceflag"), DeviceLevel: c13Small("devicelevel")})
	case 1:
		data = EncodeUpsertChannelCommand(metadb.Channel{ChannelID: "g1", ChannelType: 2, Ban: c13Small("ban"), Disband: c13Small("disband"), SendBan: c13Small("sendban")})
	case 2:
		data = EncodeAddSubscribersCommand("g1", 2, []string{uid})
	case 3:
		data = EncodeRemoveSubscribersCommand("g1", 2, []string{uid})
	case 4:
		data = EncodeDeleteChannelCommand("g1", 2)
	default:
		data = EncodeUpsertUserChannelMembershipsCommand([]metadb.UserChannelMembership{{UID: uid, ChannelID: "g1", ChannelType: 2,
			JoinSeq: uint64(c13Small("joinseq")), ReadSeq: uint64(c13Small("readseq")), SourceVersion: uint64(c13Small("sourceversion")), UpdatedAt: c13Small("updatedat")}})
	}
	return multiraft.Command{SlotID: 1, HashSlot: 1, Index: index, Term: 1, Data: data}
}

func c13Machine(path string) (*stateMachine, *metadb.DB) {
	db, err := metadb.Open(path)
	zzsym.Assume(err == nil)
	sm, err := NewStateMachineWithHashSlots(db, 1, []uint16{1})
	zzsym.Assume(err == nil)
	return sm.(*stateMachine), db
}

func c13SameStores(a, b string) bool {
	ka, va := metadb.ZZC13Dump(a)
	kb, vb := metadb.ZZC13Dump(b)
	if len(ka) != len(kb) {
		return false
	}
	same := true
	for i := range ka {
		if len(ka[i]) != len(kb[i]) || len(va[i]) != len(vb[i]) {
			return false
		}
		for j := range ka[i] {
			if ka[i][j] != kb[i][j] {
				same = false
			}
		}
		for j := range va[i] {
			if va[i][j] != vb[i][j] {
				same = false
			}
		}
	}
	return same
}

func c13SameResults(a, b [][]byte) bool {
	if len(a) != len(b) {
		return false
	}
	for i := range a {
		if string(a[i]) != string(b[i]) {
			return false
		}
	}
	return true
}

// Harness_C13_BatchTransparency: the same committed log applied as one batch, or split at any
// point into two batches (which includes one command at a time for n = 2), yields identical
// results and byte-identical stores.
func Harness_C13_BatchTransparency() { c13BatchTransparency(false) }

// Harness_C13_BatchTransparencySubscribers: logs of three commands over the channel / add / remove
// subscriber commands, whose in-batch overlays (subscriber rows, counters) interact.
func Harness_C13_BatchTransparencySubscribers() { c13BatchTransparency(true) }

func c13BatchTransparency(subscribers bool) {
	n := 2
	if zzsym.Thorough() || subscribers {
		n = 3
	}
	metadb.ZZC13ResetStores()
	cmds := make([]multiraft.Command, n)
	for i := range cmds {
		if subscribers {
			cmds[i] = c13CommandOf(uint64(i+1), -3)
		} else {
			cmds[i] = c13Command(uint64(i + 1))
		}
	}
	ctx := context.Background()
	smA, _ := c13Machine("c13-a")
	smB, _ := c13Machine("c13-b")
	resA, errA := smA.ApplyBatch(ctx, cmds)
	split := 1 + zzsym.Choice("split", n-1)
	resB1, errB1 := smB.ApplyBatch(ctx, cmds[:split])
	var resB [][]byte
	errB := errB1
	if errB1 == nil {
		resB2, errB2 := smB.ApplyBatch(ctx, cmds[split:])
		errB = errB2
		resB = append(append(resB, resB1...), resB2...)
	}
	zzsym.Reach("both-applied")
	zzsym.Assert((errA == nil) == (errB == nil), "one grouping of the same log fails and the other succeeds")
	if errA != nil || errB != nil {
		return
	}
	zzsym.Reach("both-succeeded")
	zzsym.Assert(c13SameResults(resA, resB), "apply results depend on how the log is grouped into batches")
	zzsym.Assert(c13SameStores("c13-a", "c13-b"), "stored metadata depends on how the log is grouped into batches")
	zzsym.Observe("rows", uint64(len(resA)))
}

// Harness_C13_ReplayIsIdempotentOnState: re-applying an already applied prefix after a restart
// (fresh state machine on the same store) and then the rest converges to the same store as
// applying the log once.
func Harness_C13_ReplayAfterRestart() {
	metadb.ZZC13ResetStores()
	cmds := []multiraft.Command{c13Command(1), c13Command(2)}
	ctx := context.Background()
	smA, _ := c13Machine("c13-a")
	_, errA := smA.ApplyBatch(ctx, cmds)
	smB, dbB := c13Machine("c13-b")
	_, errB := smB.ApplyBatch(ctx, cmds[:1])
	zzsym.Assume(errA == nil && errB == nil)
	applied, err := smB.DurableAppliedIndex(ctx)
	zzsym.Assert(err == nil && applied == 1, "durable applied index does not name the last applied command")
	// restart: a new state machine over the same store resumes after the durable index
	zzsym.Assume(dbB.Close() == nil)
	smB2, _ := c13Machine("c13-b")
	_, errB2 := smB2.ApplyBatch(ctx, cmds[applied:])
	zzsym.Reach("restarted")
	zzsym.Assert(errB2 == nil, "the remaining log fails after a restart")
	zzsym.Assert(c13SameStores("c13-a", "c13-b"), "a restart between two commands changes the resulting metadata")
}

// Harness_C13_UnownedHashSlotRefused: a command for a hash slot the slot does not own is refused
// and leaves the store untouched.
func Harness_C13_UnownedHashSlotRefused() {
	metadb.ZZC13ResetStores()
	ctx := context.Background()
	sm, _ := c13Machine("c13-a")
	_, err0 := sm.ApplyBatch(ctx, []multiraft.Command{c13Command(1)})
	zzsym.Assume(err0 == nil)
	kBefore, vBefore := metadb.ZZC13Dump("c13-a")
	cmd := c13Command(2)
	cmd.HashSlot = 2 + uint16(zzsym.U8("foreignslot")&7)
	_, err := sm.ApplyBatch(ctx, []multiraft.Command{cmd})
	zzsym.Reach("foreign-applied")
	zzsym.Assert(err != nil, "a command for a hash slot the slot does not own was applied")
	kAfter, vAfter := metadb.ZZC13Dump("c13-a")
	same := len(kBefore) == len(kAfter)
	if same {
		for i := range kBefore {
			if string(kBefore[i]) != string(kAfter[i]) || string(vBefore[i]) != string(vAfter[i]) {
				same = false
			}
		}
	}
	zzsym.Assert(same, "a refused command changed the store")
}
