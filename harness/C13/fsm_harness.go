package fsm

import (
	"errors"
	"time"

	"github.com/WuKongIM/WuKongIM/internal/zzsym"
	metadb "github.com/WuKongIM/WuKongIM/pkg/db/meta"
	"github.com/WuKongIM/WuKongIM/pkg/slot/multiraft"
)

// ---------------------------------------------------------------------------------------------
// (a) dispatcher + every registered decoder on arbitrary bytes
// ---------------------------------------------------------------------------------------------

// c13Registered lists every command type registered in commandDecoders (command.go). The harness
// asserts that the table has exactly these keys, so a decoder added later makes the check fail
// instead of silently staying uncovered.
var c13Registered = []uint8{
	cmdTypeUpsertUser, cmdTypeUpsertChannel, cmdTypeDeleteChannel, cmdTypeUpsertChannelRuntimeMeta,
	cmdTypeDeleteChannelRuntimeMeta, cmdTypeCreateUser, cmdTypeUpsertDevice, cmdTypeAddSubscribers,
	cmdTypeRemoveSubscribers, cmdTypeAdvanceChannelRetention, cmdTypeNoop,
	cmdTypeUpsertUserChannelMemberships, cmdTypeDeleteUserChannelMemberships, cmdTypeUpsertChannelLatest,
	cmdTypeUpsertChannelLatestBatch, cmdTypeAppendMessageEvent, cmdTypeAppendMessageEventsBatch,
	cmdTypeCreateChannel, cmdTypePatchChannelBusinessFlags, cmdTypeAdvanceUserChannelMembershipReadSeq,
	cmdTypeHideUserChannelMembership, cmdTypeActivateUserChannelMembership,
	cmdTypeUpsertUserCMDChannelMemberships, cmdTypeAdvanceUserCMDChannelMembershipAcks,
	cmdTypeTombstoneUserCMDChannelMemberships, cmdTypeCreateChannelRuntimeMeta,
	cmdTypeAdmitPersonDirectoryTaskBatch, cmdTypeEnsureUserChannelMembershipBatch,
	cmdTypeCompletePersonDirectoryTaskBatch, cmdTypeBindPluginUser, cmdTypeUnbindPluginUser,
	cmdTypeApplyDelta, cmdTypeEnterFence, cmdTypeAckMigrationOutbox, cmdTypeCleanupMigrationOutbox,
	cmdTypeCreateChannelMigrationTask, cmdTypeClaimChannelMigrationTask, cmdTypeAdvanceChannelMigrationTask,
	cmdTypeSetChannelWriteFence, cmdTypeResetChannelWriteFence, cmdTypeCommitChannelLeaderTransfer,
	cmdTypeAddChannelLearner, cmdTypePromoteLearnerAndRemoveReplica, cmdTypeClearChannelWriteFence,
	cmdTypeAbortChannelMigration, cmdTypeGarbageCollectMigrationTasks, cmdTypeCreateChannelMigrationGuarded,
}

// c13Unregistered is a type byte with no decoder (ids 10..14 and 16 are reserved, 200 was never used).
const c13Unregistered uint8 = 200

func c13IsRegistered(t uint8) bool {
	for _, r := range c13Registered {
		if r == t {
			return true
		}
	}
	return false
}

// Harness_C13_DecoderTable: the static list above is exactly the key set of commandDecoders.
func Harness_C13_DecoderTable() {
	n := 0
	for _, t := range c13Registered {
		if dec, ok := commandDecoders[t]; ok && dec != nil {
			n++
		}
	}
	_, extra := commandDecoders[c13Unregistered]
	zzsym.Reach("decoder-table")
	zzsym.Assert(n == len(c13Registered), "a listed command type has no decoder")
	zzsym.Assert(len(commandDecoders) == len(c13Registered), "commandDecoders has a decoder the harness does not list")
	zzsym.Assert(!extra, "the unregistered probe type has a decoder")
	zzsym.Observe("table", uint64(n), uint64(len(commandDecoders)))
}

// c13JSONBodied: the twelve channel-migration commands (ids 30..41) carry one TLV whose value is a JSON
// document parsed with encoding/json (streaming decoder); that parse is outside this slice. Their TLV
// framing (findSingleChannelMigrationJSONPayload) is covered by Harness_C13_GarbageJSONFraming.
func c13JSONBodied(t uint8) bool {
	return t >= cmdTypeCreateChannelMigrationTask && t <= cmdTypeCreateChannelMigrationGuarded
}

// c13TLVTypes: the 35 registered command types whose decoders are pure TLV walkers.
func c13TLVTypes() []uint8 {
	var out []uint8
	for _, t := range c13Registered {
		if !c13JSONBodied(t) {
			out = append(out, t)
		}
	}
	return out
}

// c13GarbageLen: the largest garbage length for a command type. The number of paths grows with
// (number of tags)^(number of TLVs that fit), so the quick tier stops at 12 bytes (two TLVs with empty values, or one TLV with up to five value bytes); the
// subscriber decoders additionally split their uid set on NUL bytes of symbolic content.
func c13GarbageLen(t uint8) int {
	if t == cmdTypeAddSubscribers || t == cmdTypeRemoveSubscribers {
		if zzsym.Thorough() {
			return 13
		}
		return 11
	}
	if zzsym.Thorough() {
		return 20
	}
	return 12
}

// c13Garbage feeds decodeCommand with an arbitrary byte string of length 0..max whose type byte is one of
// the TLV command types with index from..to-1 (withProbe: or the unregistered probe). The version byte
// and everything after the type byte are unconstrained. Nothing may panic (uncaught panics are reported
// by the executor), and the result is a command or an error, never neither.
func c13Garbage(from, to int, withProbe bool) {
	types := c13TLVTypes()
	if to > len(types) {
		to = len(types)
	}
	span := to - from
	if withProbe {
		span++
	}
	k := zzsym.Choice("type", span)
	typ := c13Unregistered
	if k < to-from {
		typ = types[from+k]
	}
	n := zzsym.Choice("len", c13GarbageLen(typ)+1)
	data := zzsym.Bytes("data", n)
	if n >= 2 {
		zzsym.Assume(data[1] == typ)
	}
	env := zzsym.U16("envelope")
	cmd, err := decodeCommand(data)
	if err != nil {
		zzsym.Reach("rejected")
		zzsym.Observe("rejected", uint64(n), uint64(typ))
		return
	}
	zzsym.Reach("accepted")
	zzsym.Assert(cmd != nil, "decodeCommand returned neither a command nor an error")
	zzsym.Assert(n >= headerSize && data[0] == commandVersion, "bytes without a valid header were accepted")
	zzsym.Assert(typ != c13Unregistered, "a command type without a decoder was accepted")
	// the hash slots the state machine will check for the decoded command: never empty, and the
	// envelope hash slot for every command that does not carry its own
	hs := commandApplyHashSlots(cmd, env)
	zzsym.Assert(len(hs) >= 1, "decoded command touches no hash slot")
	if _, scoped := cmd.(scopedHashSlotCommand); !scoped {
		zzsym.Assert(len(hs) == 1 && hs[0] == env, "unscoped command does not apply to the envelope hash slot")
	}
	zzsym.Observe("accepted", uint64(n), uint64(typ), uint64(len(hs)))
}

// The 35 TLV decoders are split over three entries so that the workers share them.
func Harness_C13_GarbageA() { c13Garbage(0, 12, true) }
func Harness_C13_GarbageB() { c13Garbage(12, 24, false) }
func Harness_C13_GarbageC() { c13Garbage(24, 35, false) }

// Harness_C13_GarbageJSONFraming: the TLV framing shared by the twelve JSON-bodied decoders on arbitrary
// bytes: no panic, at most one payload, and a reported payload is never longer than the input.
func Harness_C13_GarbageJSONFraming() {
	max := 16
	if zzsym.Thorough() {
		max = 20
	}
	n := zzsym.Choice("len", max+1)
	data := zzsym.Bytes("data", n)
	payload, found, err := findSingleChannelMigrationJSONPayload(data)
	if err != nil {
		zzsym.Reach("framing-rejected")
		zzsym.Assert(!found && payload == nil, "rejected framing returns a payload")
		return
	}
	if found {
		zzsym.Reach("framing-payload")
		zzsym.Assert(len(payload)+tlvOverhead <= n, "payload longer than the bytes available")
	} else {
		zzsym.Reach("framing-none")
		zzsym.Assert(payload == nil, "payload without the payload tag")
	}
	zzsym.Observe("framing", uint64(n), zzsym.B2U(found), uint64(len(payload)))
}

// Harness_C13_GarbageJSONDispatch: the twelve JSON-bodied command types through decodeCommand, on bytes
// that do NOT contain a payload TLV (a single TLV with any other tag, or a truncated one): rejected by
// the dispatcher path before encoding/json is reached.
func Harness_C13_GarbageJSONDispatch() {
	k := zzsym.Choice("type", 12)
	typ := cmdTypeCreateChannelMigrationTask + uint8(k)
	zzsym.Assert(c13JSONBodied(typ) && c13IsRegistered(typ), "JSON-bodied type range is not registered")
	n := zzsym.Choice("len", 13)
	data := zzsym.Bytes("data", n)
	if n >= 2 {
		zzsym.Assume(data[0] == commandVersion && data[1] == typ)
	}
	if n >= 3 {
		zzsym.Assume(data[2] != tagChannelMigrationCommandPayload)
	}
	if n >= 8 {
		// at most one TLV fits in 12 bytes unless the first one is empty; keep its declared length
		// such that no second TLV header fits
		zzsym.Assume(data[3] != 0 || data[4] != 0 || data[5] != 0 || data[6] != 0)
	}
	cmd, err := decodeCommand(data)
	zzsym.Reach("json-dispatch-rejected")
	zzsym.Assert(err != nil && cmd == nil, "JSON-bodied command without a payload was accepted")
	zzsym.Assert(errors.Is(err, metadb.ErrCorruptValue), "missing payload is not a corrupt-value error")
}

// Harness_C13_GarbageHeader: lengths 0 and 1, a wrong version byte and an unregistered type byte with an
// arbitrary tail of up to 24 (thorough 40) bytes are rejected by the dispatcher itself.
func Harness_C13_GarbageHeader() {
	max := 24
	if zzsym.Thorough() {
		max = 40
	}
	n := zzsym.Choice("len", max+1)
	data := zzsym.Bytes("data", n)
	if n >= 2 {
		zzsym.Assume(data[0] != commandVersion || !c13IsRegistered(data[1]))
	}
	cmd, err := decodeCommand(data)
	zzsym.Reach("header-rejected")
	zzsym.Assert(err != nil, "bytes without a valid header / registered type were accepted")
	zzsym.Assert(cmd == nil, "dispatcher returned a command together with its own error")
	if n >= 2 && data[0] == commandVersion {
		zzsym.Reach("unknown-type")
		zzsym.Assert(errors.Is(err, metadb.ErrInvalidArgument), "unknown command type is not an invalid-argument error")
	} else {
		zzsym.Assert(errors.Is(err, metadb.ErrCorruptValue), "short or wrong-version command is not a corrupt-value error")
	}
	hs, herr := DecodeCommandHashSlots(data, zzsym.U16("envelope"))
	zzsym.Assert(herr != nil && hs == nil, "DecodeCommandHashSlots accepted bytes decodeCommand rejects")
	zzsym.Observe("hdr", uint64(n))
}

// ---------------------------------------------------------------------------------------------
// (b) ownership
// ---------------------------------------------------------------------------------------------

func c13U16s(name string, n int) []uint16 {
	out := make([]uint16, n)
	for i := range out {
		out[i] = zzsym.U16(name)
	}
	return out
}

func c13Owned(owned []uint16, h uint16) bool {
	for _, o := range owned {
		if o == h {
			return true
		}
	}
	return false
}

func c13AnyUnowned(owned []uint16, hs []uint16) bool {
	for _, h := range hs {
		if !c13Owned(owned, h) {
			return true
		}
	}
	return false
}

func c13MaxItems() int {
	if zzsym.Thorough() {
		return 3
	}
	return 2
}

// c13ClosedMachine builds the real state machine over a closed metadata DB (a *metadb.DB without an engine:
// every read and every write-batch operation answers dberrors.ErrClosed, nothing touches Pebble).
func c13ClosedMachine(slot uint64, owned []uint16, legacy bool) *stateMachine {
	var sm multiraft.StateMachine
	var err error
	if legacy {
		sm, err = newStateMachine(&metadb.DB{}, slot, owned, true)
	} else {
		sm, err = NewStateMachineWithHashSlots(&metadb.DB{}, slot, owned)
	}
	if err != nil {
		panic("c13: state machine construction failed")
	}
	return sm.(*stateMachine)
}

// c13Ctx is a never-cancelled context (the executor's context.Background model has no Err method).
type c13Ctx struct{}

func (c13Ctx) Deadline() (time.Time, bool) { return time.Time{}, false }
func (c13Ctx) Done() <-chan struct{}       { return nil }
func (c13Ctx) Err() error                  { return nil }
func (c13Ctx) Value(any) any               { return nil }

// c13ErrClosed is the error every operation on the closed DB returns (dberrors.ErrClosed; the package is
// internal to pkg/db, so the value is obtained through the public API).
func c13ErrClosed() error { return (*metadb.DB)(nil).NewWriteBatch().Commit() }

// Harness_C13_ValidateHashSlots: validateCommandHashSlots refuses exactly the lists that contain a hash
// slot outside the owned set. The owned set goes through the real normalizeOwnedHashSlots /
// UpdateOwnedHashSlots (sorted, de-duplicated).
func Harness_C13_ValidateHashSlots() {
	no := zzsym.Choice("owned.len", 4)
	owned := c13U16s("owned", no)
	m := &stateMachine{}
	m.UpdateOwnedHashSlots(owned)
	zzsym.Assert(len(m.ownedHashSlots) == len(m.ownedHashSlotList) && len(m.ownedHashSlotList) <= no, "owned list and set disagree")
	for _, o := range owned {
		_, ok := m.ownedHashSlots[o]
		zzsym.Assert(ok, "a configured hash slot is missing from the owned set")
	}
	nh := zzsym.Choice("touched.len", c13MaxItems()+2)
	hs := c13U16s("touched", nh)
	err := m.validateCommandHashSlots(hs)
	want := c13AnyUnowned(owned, hs)
	if err != nil {
		zzsym.Reach("validate-refused")
		zzsym.Assert(want, "a command touching only owned hash slots was refused")
		zzsym.Assert(errors.Is(err, metadb.ErrInvalidArgument), "ownership refusal is not an invalid-argument error")
	} else {
		zzsym.Reach("validate-accepted")
		zzsym.Assert(!want, "a command touching a hash slot that is not owned passed validation")
	}
	zzsym.Observe("validate", uint64(no), uint64(nh), zzsym.B2U(err != nil))
}

func c13Meta(id string) metadb.ChannelRuntimeMeta {
	return metadb.ChannelRuntimeMeta{ChannelID: id, ChannelType: 2, ChannelEpoch: 1, LeaderEpoch: 1, Leader: 1, Replicas: []uint64{1}, ISR: []uint64{1}, MinISR: 1}
}

// c13ScopedCommand builds one of the five commands that carry their own hash slots, with 0..max items of
// symbolic hash slot, and returns it with the hash slots its items name.
func c13ScopedCommand(kind int) (command, []uint16) {
	n := zzsym.Choice("items", c13MaxItems()+1)
	hs := c13U16s("item.hashSlot", n)
	switch kind {
	case 0:
		c := &upsertChannelLatestBatchCmd{}
		for _, h := range hs {
			c.items = append(c.items, ChannelLatestBatchItem{HashSlot: h, Latest: metadb.ChannelLatest{ChannelID: "c", ChannelType: 2}})
		}
		return c, hs
	case 1:
		c := &createChannelRuntimeMetaBatchCmd{}
		for _, h := range hs {
			c.items = append(c.items, CreateChannelRuntimeMetaBatchItem{HashSlot: h, Meta: c13Meta("c")})
		}
		return c, hs
	case 2:
		c := &admitPersonDirectoryTaskBatchCmd{}
		for _, h := range hs {
			c.items = append(c.items, PersonDirectoryAdmissionBatchItem{HashSlot: h, RuntimeMeta: c13Meta("c")})
		}
		return c, hs
	case 3:
		c := &ensureUserChannelMembershipBatchCmd{}
		for _, h := range hs {
			c.items = append(c.items, UserChannelMembershipBatchItem{HashSlot: h, Membership: metadb.UserChannelMembership{UID: "u", ChannelID: "c", ChannelType: 1}})
		}
		return c, hs
	default:
		c := &completePersonDirectoryTaskBatchCmd{}
		for _, h := range hs {
			c.items = append(c.items, PersonDirectoryCompletionBatchItem{HashSlot: h, ChannelID: "c", ChannelType: 1})
		}
		return c, hs
	}
}

// Harness_C13_ScopedCommandOwnership: for each command type that names its own hash slots,
// commandApplyHashSlots followed by validateCommandHashSlots (the two steps ApplyBatch performs before
// it stages anything) refuses the command iff one of its items names a hash slot that is not owned; a
// batch without items falls back to the envelope hash slot.
func Harness_C13_ScopedCommandOwnership() {
	owned := c13U16s("owned", 1+zzsym.Choice("owned.len", 2))
	m := &stateMachine{}
	m.UpdateOwnedHashSlots(owned)
	kind := zzsym.Choice("kind", 5)
	cmd, items := c13ScopedCommand(kind)
	env := zzsym.U16("envelope")
	_, scoped := cmd.(scopedHashSlotCommand)
	zzsym.Assert(scoped, "batch command does not declare its hash slots")
	hs := commandApplyHashSlots(cmd, env)
	// every item hash slot is in the list that gets validated
	for _, h := range items {
		zzsym.Assert(c13Owned(hs, h), "an item hash slot is missing from commandApplyHashSlots")
	}
	err := m.validateCommandHashSlots(hs)
	want := c13AnyUnowned(owned, items)
	if len(items) == 0 {
		want = !c13Owned(owned, env)
	}
	if err != nil {
		zzsym.Reach("scoped-refused")
		zzsym.Assert(want, "batch naming only owned hash slots was refused")
	} else {
		zzsym.Reach("scoped-accepted")
		zzsym.Assert(!want, "batch naming a hash slot that is not owned passed validation")
	}
	zzsym.Observe("scoped", uint64(kind), uint64(len(items)), uint64(len(hs)), zzsym.B2U(err != nil))
}

// Harness_C13_ApplyBatchRefusal runs the real ApplyBatch. The metadata DB is closed, so the first read or
// write that reaches it answers ErrClosed: a command refused for ownership must fail with
// ErrInvalidArgument WITHOUT ErrClosed (nothing was read, staged or applied), and a command whose hash
// slots are all owned must get past the ownership checks (it then fails with ErrClosed at the first DB
// access, the migration-fence lookup that precedes apply).
func Harness_C13_ApplyBatchRefusal() {
	owned := c13U16s("owned", 1+zzsym.Choice("owned.len", 2))
	legacy := zzsym.Choice("legacy", 2) == 1
	const slot = 7
	m := c13ClosedMachine(slot, owned, legacy)
	env := zzsym.U16("envelope")
	kind := zzsym.Choice("kind", 4)
	var data []byte
	var items []uint16
	switch kind {
	case 0:
		data = EncodeUpsertUserCommand(metadb.User{UID: "u", Token: "t"})
	case 1:
		data = EncodeNoopCommand()
	case 2:
		n := 1 + zzsym.Choice("items", c13MaxItems())
		items = c13U16s("item.hashSlot", n)
		var batch []ChannelLatestBatchItem
		for _, h := range items {
			batch = append(batch, ChannelLatestBatchItem{HashSlot: h, Latest: metadb.ChannelLatest{ChannelID: "c", ChannelType: 2, LastMessageID: 1, LastMessageSeq: 1}})
		}
		data = EncodeUpsertChannelLatestBatchCommand(batch)
	default:
		items = c13U16s("item.hashSlot", 1)
		var eerr error
		data, eerr = EncodeCreateChannelRuntimeMetaBatchCommandChecked([]CreateChannelRuntimeMetaBatchItem{{HashSlot: items[0], Meta: c13Meta("c")}})
		if eerr != nil {
			panic("c13: runtime meta batch encoder refused a valid item")
		}
	}
	slotID := multiraft.SlotID(slot)
	wrongSlot := zzsym.Choice("wrongSlot", 2) == 1
	if wrongSlot {
		slotID = multiraft.SlotID(zzsym.U64("slotID"))
		zzsym.Assume(uint64(slotID) != slot)
	}
	results, err := m.ApplyBatch(c13Ctx{}, []multiraft.Command{{SlotID: slotID, HashSlot: env, Index: 5, Term: 1, Data: data}})

	effEnv := env
	if legacy && env == 0 {
		effEnv = m.legacyHashSlot
	}
	refuse := wrongSlot || !c13Owned(owned, effEnv) || c13AnyUnowned(owned, items)
	closed := c13ErrClosed()
	zzsym.Assert(err != nil && results == nil, "ApplyBatch on a closed DB reported success")
	if refuse {
		zzsym.Reach("applybatch-refused")
		zzsym.Assert(errors.Is(err, metadb.ErrInvalidArgument), "command for a foreign slot / hash slot is not refused as invalid argument")
		zzsym.Assert(!errors.Is(err, closed), "refused command reached the metadata DB")
	} else {
		zzsym.Reach("applybatch-owned")
		zzsym.Assert(errors.Is(err, closed), "owned command did not get past the ownership checks")
	}
	zzsym.Observe("applybatch", uint64(kind), zzsym.B2U(refuse), zzsym.B2U(errors.Is(err, metadb.ErrInvalidArgument)), zzsym.B2U(errors.Is(err, closed)))
}
