package fsm

import (
	"time"

	"github.com/WuKongIM/WuKongIM/internal/zzsym"
	"github.com/WuKongIM/WuKongIM/pkg/controller/command"
	"github.com/WuKongIM/WuKongIM/pkg/controller/state"
)

// Batch-partition equivalence, untouched state after rejects / no-ops and revision accounting over a
// catalogue of all 14 mutation kinds of applyMutation (plus init on an initialised state and an unknown
// kind), decided through the real StateMachine.ApplyBatch / applyMutation and the real handlers, guards and
// helpers of mutation_handlers.go / mutation_guards.go / mutation_helpers.go / task_transition.go and the real
// Clone / Normalize / Validate of pkg/controller/state. Store, context: the fakes of fsm_harness.go.

// ---- base state ----

func c18bNode(id uint64, addr string, voter bool) state.Node {
	roles := []state.NodeRole{state.NodeRoleData}
	if voter {
		roles = []state.NodeRole{state.NodeRoleControllerVoter, state.NodeRoleData}
	}
	return state.Node{NodeID: id, Addr: addr, Roles: roles, JoinState: state.NodeJoinStateActive, Status: state.NodeStatusAlive, CapacityWeight: 1}
}

func c18bBootstrapTask(id string, slot uint32, leader uint64, peers []uint64, epoch uint64) state.ReconcileTask {
	return state.ReconcileTask{TaskID: id, SlotID: slot, Kind: state.TaskKindBootstrap, Step: state.TaskStepCreateSlot,
		TargetNode: leader, TargetPeers: peers, ConfigEpoch: epoch, Status: state.TaskStatusPending}
}

// c18bBase is a valid, normalised state: nodes 1,2 (controller_voter+data) and 3 (data); one controller voter
// (node 1); 3 slot ids, 4 hash slots, 2 replicas; slot 1 = {1,2} with the active bootstrap task "t1"
// (all_target_peers, participants 1 and 2 pending); slot 2 = {2,3} with the active replica move "m2" (3 -> 1, step
// remove_voter, phase 3); slot 3 unassigned. Every call builds fresh memory, so two results never alias.
func c18bBase(revision, applied uint64) state.ClusterState {
	t1 := c18bBootstrapTask("t1", 1, 1, []uint64{1, 2}, 1)
	t1.CompletionPolicy = state.TaskCompletionPolicyAllTargetPeers
	t1.ParticipantProgress = []state.TaskParticipantProgress{{NodeID: 1, Status: state.TaskParticipantStatusPending}, {NodeID: 2, Status: state.TaskParticipantStatusPending}}
	m2 := state.ReconcileTask{TaskID: "m2", SlotID: 2, Kind: state.TaskKindSlotReplicaMove, Step: state.TaskStepRemoveVoter,
		SourceNode: 3, TargetNode: 1, TargetPeers: []uint64{1, 2}, CompletionPolicy: state.TaskCompletionPolicySingleObserver,
		ConfigEpoch: 1, Status: state.TaskStatusPending, PhaseIndex: 3, ObservedConfigIndex: 7, ObservedVoters: []uint64{1, 2, 3}}
	return state.ClusterState{
		SchemaVersion: state.CurrentSchemaVersion, ClusterID: "c", Revision: revision, AppliedRaftIndex: applied,
		UpdatedAt:   time.Unix(1700000000, 0).UTC(),
		Config:      state.ClusterConfig{SlotCount: 3, HashSlotCount: 4, ReplicaCount: 2},
		Controllers: []state.ControllerVoter{{NodeID: 1, Addr: "a", Role: state.ControllerRoleVoter}},
		Nodes:       []state.Node{c18bNode(1, "a", true), c18bNode(2, "b", true), c18bNode(3, "c", false)},
		Slots: []state.SlotAssignment{
			{SlotID: 1, DesiredPeers: []uint64{1, 2}, ConfigEpoch: 1, PreferredLeader: 1},
			{SlotID: 2, DesiredPeers: []uint64{2, 3}, ConfigEpoch: 1, PreferredLeader: 2}},
		HashSlots: state.HashSlotTable{Version: state.CurrentHashSlotTableVersion, SlotCount: 4,
			Ranges: []state.HashSlotRange{{From: 0, To: 1, SlotID: 1}, {From: 2, To: 2, SlotID: 2}, {From: 3, To: 3, SlotID: 3}}},
		Tasks: []state.ReconcileTask{t1, m2},
	}
}

// ---- command catalogue ----

const (
	c18bBogus              = iota // unknown kind: invalid_command
	c18bNodeNew                   // UpsertNode 4: changed
	c18bNodeSame                  // UpsertNode 3 as stored: no_change (also with a stale ExpectedRevision)
	c18bNodeRemovedPeer           // UpsertNode 2 as removed: node 2 is a desired peer and a task target: invalid_state
	c18bVotersAdd2                // UpdateControllerVoters {1,2}: changed, then no_change
	c18bVotersOnly3               // UpdateControllerVoters {3}: node 3 has no controller_voter role: invalid_state (changed after Promote3)
	c18bPromote3                  // PromoteControllerVoter 3, proof {1,3}, previous {1}, symbolic observed index
	c18bPromote2                  // PromoteControllerVoter 2, proof {1,2}: changed, no-op after VotersAdd2
	c18bHashSlots                 // ReplaceHashSlotTable, slot id of the middle range symbolic: no_change / changed / invalid_state
	c18bBackup                    // ReplaceScheduledBackupState {Revision, ManagerSessionEpoch symbolic}
	c18bMCPOwner1                 // ReplaceOpsMCPState enabled, owner 1
	c18bMCPOwner2                 // ReplaceOpsMCPState enabled, owner 2: owner change while enabled after MCPOwner1
	c18bMCPUnknownOwner           // ReplaceOpsMCPState disabled, owner 9: invalid_state
	c18bBootstrap3                // UpsertSlotAssignmentAndTask slot 3 = {1,3} + bootstrap "t3": changed, duplicate = no_change
	c18bBootstrap3BadPeer         // ... desired peer 9 is not a node: invalid_state
	c18bBootstrap3Mismatch        // ... task slot 2 != assignment slot 3: task_slot_mismatch
	c18bBootstrap1Replace         // slot 1 = {1,3} epoch 2 + bootstrap "t1" replaced: changed
	c18bLeaderTransfer1           // slot 1 leader 2 + leader_transfer "lt1": invalid_state while "t1" is active
	c18bMoveTask1                 // UpsertSlotReplicaMoveTask "m1" slot 1, 2 -> 3: invalid_state while "t1" is active
	c18bMoveTaskWrongKind         // UpsertSlotReplicaMoveTask with a bootstrap task: invalid_command
	c18bMoveTask2Again            // UpsertSlotReplicaMoveTask "m2" as stored but symbolic Attempt: no_change / changed
	c18bAdvance2Commit            // AdvanceSlotReplicaMovePhase "m2" -> commit_assignment, slot/epoch/attempt/phase/index symbolic
	c18bAdvance2Remove            // AdvanceSlotReplicaMovePhase "m2" -> remove_voter (stays), observed {1,3}
	c18bCommit2                   // CommitSlotReplicaMove "m2", slot/epoch/attempt/index symbolic: step mismatch unless advanced
	c18bCompleteT1                // CompleteTask "t1", slot/epoch/attempt symbolic
	c18bCompleteM2                // CompleteTask "m2"
	c18bFailT1                    // FailTask "t1"
	c18bProgressDone              // ReportTaskProgress "t1" done, participant / attempts symbolic
	c18bProgressFailed            // ReportTaskProgress "t1" failed
	c18bHealth1                   // ReportNodeHealth node 1, symbolic seq / time: updated, no_change, invalid_state (negative time)
	c18bHealthUnknown             // ReportNodeHealth node 9: invalid_state
	c18bInitConflict              // InitClusterState on an initialised state with slots: init_conflict
	c18bNilPayload                // UpsertSlotAssignmentAndTask without payload: invalid_command
	c18bNumVariants
)

type c18bItem struct {
	variant int
	guarded bool // carries a symbolic ExpectedRevision
}

// c18bSetup: commands that each move the base state in a different way (or are rejected / no-ops on it). They are
// drawn with the field values the base state accepts, so each has one outcome. The quick tier uses the first
// c18bSetupQuick items, the three-command logs the first c18bSetupThree.
var c18bSetup = []c18bItem{
	{c18bBootstrap3BadPeer, false}, {c18bNodeNew, false}, {c18bBootstrap3, false}, {c18bCompleteT1, false}, {c18bFailT1, false}, {c18bAdvance2Commit, false},
	{c18bVotersAdd2, false}, {c18bMCPOwner1, false}, {c18bProgressDone, false}, {c18bMoveTask2Again, false}, {c18bHealth1, false}, {c18bHashSlots, false},
	{c18bBogus, false}, {c18bNodeSame, false}, {c18bPromote3, false}, {c18bBackup, false},
}

const (
	c18bSetupThree = 6
	c18bSetupQuick = 12
)

// c18bCore: every variant once, ExpectedRevision on one command per guard function of applyMutation (the guarded
// form covers the unguarded behaviour on its "revision matches" side). The quick tier leaves out the last
// c18bCoreThoroughOnly items (second variants of handlers that the first part already exercises).
var c18bCore = []c18bItem{
	{c18bBogus, false}, {c18bNodeNew, false}, {c18bNodeSame, true}, {c18bNodeRemovedPeer, false},
	{c18bVotersAdd2, false}, {c18bVotersOnly3, false}, {c18bPromote3, false}, {c18bPromote2, false},
	{c18bHashSlots, false}, {c18bBackup, false}, {c18bMCPOwner1, false}, {c18bMCPOwner2, false}, {c18bMCPUnknownOwner, false},
	{c18bBootstrap3, false}, {c18bBootstrap3, true}, {c18bBootstrap3BadPeer, false}, {c18bBootstrap3Mismatch, false}, {c18bBootstrap1Replace, false},
	{c18bLeaderTransfer1, true}, {c18bMoveTask1, false}, {c18bMoveTaskWrongKind, false}, {c18bMoveTask2Again, true},
	{c18bAdvance2Commit, false}, {c18bCommit2, false},
	{c18bCompleteT1, false}, {c18bCompleteT1, true}, {c18bFailT1, true},
	{c18bProgressDone, true}, {c18bHealth1, true}, {c18bHealthUnknown, false},
	{c18bInitConflict, false}, {c18bNilPayload, false},
	{c18bAdvance2Remove, false}, {c18bCompleteM2, false}, {c18bProgressFailed, false},
}

const c18bCoreThoroughOnly = 3

// catalogues
const (
	c18bListSetup  = iota // c18bSetup (quick: its first c18bSetupQuick items)
	c18bListSetup3        // the first c18bSetupThree items of c18bSetup
	c18bListCore          // c18bCore (quick: without its last c18bCoreThoroughOnly items)
	c18bListFull          // every variant, with and without ExpectedRevision
)

// 0001-01-01T00:00:00Z as Unix seconds: time.Unix(c18bZeroSec, 0).UTC() is the zero time.Time.
const c18bZeroSec = -62135596800

// c18bIssuedAt: any whole second of 1970..2242 and, if zeroAllowed, also the zero time; chosen by the solver.
func c18bIssuedAt(zeroAllowed bool) time.Time {
	sec := zzsym.I64("cmd.issuedAtSec")
	if zeroAllowed {
		zzsym.Assume(sec == c18bZeroSec || (sec > 0 && sec < 1<<33))
	} else {
		zzsym.Assume(sec > 0)
		zzsym.Assume(sec < 1<<33)
	}
	return time.Unix(sec, 0).UTC()
}

// scalar command fields: symbolic, or the value the base state accepts
func c18bU32(sym bool, name string, accepted uint32) uint32 {
	if sym {
		return zzsym.U32(name)
	}
	return accepted
}

func c18bU64(sym bool, name string, accepted uint64) uint64 {
	if sym {
		return zzsym.U64(name)
	}
	return accepted
}

// c18bCommand draws one command: the item from the given catalogue; sym selects symbolic scalar fields (else the
// values the base state accepts), zeroTime allows the zero IssuedAt; guarded items carry a symbolic ExpectedRevision.
func c18bCommand(list int, sym, zeroTime bool) command.Command {
	var item c18bItem
	switch list {
	case c18bListSetup:
		n := c18bSetupQuick
		if zzsym.Thorough() {
			n = len(c18bSetup)
		}
		item = c18bSetup[zzsym.Choice("cmd.setup", n)]
	case c18bListSetup3:
		item = c18bSetup[zzsym.Choice("cmd.setup3", c18bSetupThree)]
	case c18bListCore:
		n := len(c18bCore) - c18bCoreThoroughOnly
		if zzsym.Thorough() {
			n = len(c18bCore)
		}
		item = c18bCore[zzsym.Choice("cmd.core", n)]
	default:
		item = c18bItem{zzsym.Choice("cmd.variant", c18bNumVariants), zzsym.Choice("cmd.guarded", 2) == 1}
	}
	cmd := c18bPayload(item.variant, sym)
	cmd.IssuedAt = c18bIssuedAt(zeroTime)
	if item.guarded {
		exp := zzsym.U64("cmd.expectedRevision")
		cmd.ExpectedRevision = &exp
	}
	return cmd
}

func c18bMCP(enabled bool, owner uint64) *state.OpsMCPState {
	return &state.OpsMCPState{Enabled: enabled, OwnerNodeID: owner, Credentials: []state.OpsMCPCredential{{ID: "k",
		DigestSHA256: "0000000000000000000000000000000000000000000000000000000000000000", CreatedAtUnixMillis: 1}}}
}

func c18bPayload(variant int, sym bool) command.Command {
	switch variant {
	case c18bNodeNew:
		n := c18bNode(4, "d", false)
		return command.Command{Kind: command.KindUpsertNode, Node: &n}
	case c18bNodeSame:
		n := c18bNode(3, "c", false)
		return command.Command{Kind: command.KindUpsertNode, Node: &n}
	case c18bNodeRemovedPeer:
		n := c18bNode(2, "b", true)
		n.JoinState = state.NodeJoinStateRemoved
		return command.Command{Kind: command.KindUpsertNode, Node: &n}
	case c18bVotersAdd2:
		return command.Command{Kind: command.KindUpdateControllerVoters, Controllers: []state.ControllerVoter{
			{NodeID: 2, Addr: "b", Role: state.ControllerRoleVoter}, {NodeID: 1, Addr: "a", Role: state.ControllerRoleVoter}}}
	case c18bVotersOnly3:
		return command.Command{Kind: command.KindUpdateControllerVoters, Controllers: []state.ControllerVoter{{NodeID: 3, Addr: "c", Role: state.ControllerRoleVoter}}}
	case c18bPromote3:
		return command.Command{Kind: command.KindPromoteControllerVoter, ControllerVoterPromotion: &command.ControllerVoterPromotion{
			TargetNodeID: 3, TargetAddr: "c", ExpectedPreviousVoters: []uint64{1}, ObservedConfigIndex: c18bU64(sym, "cmd.observedIndex", 9), ObservedVoters: []uint64{3, 1}}}
	case c18bPromote2:
		return command.Command{Kind: command.KindPromoteControllerVoter, ControllerVoterPromotion: &command.ControllerVoterPromotion{
			TargetNodeID: 2, TargetAddr: "b", ObservedConfigIndex: c18bU64(sym, "cmd.observedIndex", 9), ObservedVoters: []uint64{1, 2}}}
	case c18bHashSlots:
		return command.Command{Kind: command.KindReplaceHashSlotTable, HashSlots: &state.HashSlotTable{Version: state.CurrentHashSlotTableVersion, SlotCount: 4,
			Ranges: []state.HashSlotRange{{From: 0, To: 1, SlotID: 1}, {From: 2, To: 2, SlotID: c18bU32(sym, "cmd.rangeSlot", 1)}, {From: 3, To: 3, SlotID: 3}}}}
	case c18bBackup:
		return command.Command{Kind: command.KindReplaceScheduledBackupState, ScheduledBackup: &state.ScheduledBackupState{
			Revision: c18bU64(sym, "cmd.backupRevision", 1), ManagerSessionEpoch: c18bU64(sym, "cmd.backupEpoch", 1)}}
	case c18bMCPOwner1:
		return command.Command{Kind: command.KindReplaceOpsMCPState, OpsMCP: c18bMCP(true, 1)}
	case c18bMCPOwner2:
		return command.Command{Kind: command.KindReplaceOpsMCPState, OpsMCP: c18bMCP(true, 2)}
	case c18bMCPUnknownOwner:
		return command.Command{Kind: command.KindReplaceOpsMCPState, OpsMCP: c18bMCP(false, 9)}
	case c18bBootstrap3, c18bBootstrap3BadPeer, c18bBootstrap3Mismatch:
		peers := []uint64{3, 1}
		if variant == c18bBootstrap3BadPeer {
			peers = []uint64{9, 1}
		}
		task := c18bBootstrapTask("t3", 3, 1, []uint64{peers[0], peers[1]}, 1)
		if variant == c18bBootstrap3Mismatch {
			task.SlotID = 2
		}
		return command.Command{Kind: command.KindUpsertSlotAssignmentAndTask, Task: &task,
			Assignment: &state.SlotAssignment{SlotID: 3, DesiredPeers: peers, ConfigEpoch: 1, PreferredLeader: 1}}
	case c18bBootstrap1Replace:
		task := c18bBootstrapTask("t1", 1, 1, []uint64{1, 3}, 2)
		return command.Command{Kind: command.KindUpsertSlotAssignmentAndTask, Task: &task,
			Assignment: &state.SlotAssignment{SlotID: 1, DesiredPeers: []uint64{1, 3}, ConfigEpoch: 2, PreferredLeader: 1}}
	case c18bLeaderTransfer1:
		task := state.ReconcileTask{TaskID: "lt1", SlotID: 1, Kind: state.TaskKindLeaderTransfer, Step: state.TaskStepTransferLeader,
			SourceNode: 1, TargetNode: 2, TargetPeers: []uint64{1, 2}, ConfigEpoch: 1, Status: state.TaskStatusPending}
		return command.Command{Kind: command.KindUpsertSlotAssignmentAndTask, Task: &task,
			Assignment: &state.SlotAssignment{SlotID: 1, DesiredPeers: []uint64{1, 2}, ConfigEpoch: 1, PreferredLeader: 2}}
	case c18bMoveTask1:
		task := state.ReconcileTask{TaskID: "m1", SlotID: 1, Kind: state.TaskKindSlotReplicaMove, Step: state.TaskStepOpenLearner,
			SourceNode: 2, TargetNode: 3, TargetPeers: []uint64{1, 3}, ConfigEpoch: 1, Status: state.TaskStatusPending}
		return command.Command{Kind: command.KindUpsertSlotReplicaMoveTask, Task: &task}
	case c18bMoveTaskWrongKind:
		task := c18bBootstrapTask("m1", 1, 1, []uint64{1, 2}, 1)
		return command.Command{Kind: command.KindUpsertSlotReplicaMoveTask, Task: &task}
	case c18bMoveTask2Again:
		task := state.ReconcileTask{TaskID: "m2", SlotID: 2, Kind: state.TaskKindSlotReplicaMove, Step: state.TaskStepRemoveVoter,
			SourceNode: 3, TargetNode: 1, TargetPeers: []uint64{1, 2}, CompletionPolicy: state.TaskCompletionPolicySingleObserver,
			ConfigEpoch: 1, Attempt: c18bU32(sym, "cmd.attempt", 1), Status: state.TaskStatusPending, PhaseIndex: 3, ObservedConfigIndex: 7, ObservedVoters: []uint64{1, 2, 3}}
		return command.Command{Kind: command.KindUpsertSlotReplicaMoveTask, Task: &task}
	case c18bAdvance2Commit, c18bAdvance2Remove:
		phase := &command.SlotReplicaMovePhaseAdvance{TaskID: "m2", SlotID: c18bU32(sym, "cmd.slot", 2), ConfigEpoch: c18bU64(sym, "cmd.epoch", 1),
			Attempt: c18bU32(sym, "cmd.attempt", 0), ExpectedPhaseIndex: c18bU32(sym, "cmd.phase", 3), NextStep: state.TaskStepCommitAssignment,
			ObservedConfigIndex: c18bU64(sym, "cmd.observedIndex", 9), ObservedVoters: []uint64{2, 1}}
		if variant == c18bAdvance2Remove {
			phase.NextStep = state.TaskStepRemoveVoter
			phase.ObservedVoters = []uint64{3, 1}
		}
		return command.Command{Kind: command.KindAdvanceSlotReplicaMovePhase, SlotReplicaMovePhase: phase}
	case c18bCommit2:
		return command.Command{Kind: command.KindCommitSlotReplicaMove, SlotReplicaMoveCommit: &command.SlotReplicaMoveCommit{TaskID: "m2",
			SlotID: c18bU32(sym, "cmd.slot", 2), ConfigEpoch: c18bU64(sym, "cmd.epoch", 1), Attempt: c18bU32(sym, "cmd.attempt", 0),
			ObservedConfigIndex: c18bU64(sym, "cmd.observedIndex", 9), ObservedVoters: []uint64{2, 1}}}
	case c18bCompleteT1, c18bFailT1:
		res := &command.TaskResult{TaskID: "t1", SlotID: c18bU32(sym, "cmd.slot", 1), TaskKind: state.TaskKindBootstrap,
			ConfigEpoch: c18bU64(sym, "cmd.epoch", 1), Attempt: c18bU32(sym, "cmd.attempt", 0)}
		if variant == c18bFailT1 {
			res.Err = "e"
			return command.Command{Kind: command.KindFailTask, TaskResult: res}
		}
		return command.Command{Kind: command.KindCompleteTask, TaskResult: res}
	case c18bCompleteM2:
		return command.Command{Kind: command.KindCompleteTask, TaskResult: &command.TaskResult{TaskID: "m2", SlotID: c18bU32(sym, "cmd.slot", 2),
			TaskKind: state.TaskKindSlotReplicaMove, ConfigEpoch: c18bU64(sym, "cmd.epoch", 1), Attempt: c18bU32(sym, "cmd.attempt", 0)}}
	case c18bProgressDone, c18bProgressFailed:
		p := &command.TaskProgress{TaskID: "t1", SlotID: c18bU32(sym, "cmd.slot", 1), TaskKind: state.TaskKindBootstrap, ConfigEpoch: c18bU64(sym, "cmd.epoch", 1),
			TaskAttempt: c18bU32(sym, "cmd.attempt", 0), ParticipantNodeID: c18bU64(sym, "cmd.participant", 1), ParticipantAttempt: c18bU32(sym, "cmd.participantAttempt", 0),
			Status: state.TaskParticipantStatusDone}
		if variant == c18bProgressFailed {
			p.Status = state.TaskParticipantStatusFailed
			p.Err = "e"
		}
		return command.Command{Kind: command.KindReportTaskProgress, TaskProgress: p}
	case c18bHealth1, c18bHealthUnknown:
		h := &state.NodeHealthReport{NodeID: 1, Status: state.NodeStatusAlive, RuntimeReady: true, ObservedControlRevision: 1,
			ReportSeq: c18bU64(sym, "cmd.reportSeq", 1), ReportedAtUnixMilli: int64(c18bU64(sym, "cmd.reportedAt", 5))}
		if variant == c18bHealthUnknown {
			h.NodeID = 9
		}
		return command.Command{Kind: command.KindReportNodeHealth, NodeHealth: h}
	case c18bInitConflict:
		return command.Command{Kind: command.KindInitClusterState, Init: &command.InitClusterState{ClusterID: "c",
			Config:      state.ClusterConfig{SlotCount: 3, HashSlotCount: 4, ReplicaCount: 2},
			Controllers: []state.ControllerVoter{{NodeID: 1, Addr: "a", Role: state.ControllerRoleVoter}},
			Nodes:       []state.Node{c18bNode(1, "a", true), c18bNode(2, "b", true), c18bNode(3, "c", false)}}}
	case c18bNilPayload:
		return command.Command{Kind: command.KindUpsertSlotAssignmentAndTask}
	default:
		return command.Command{Kind: command.Kind("bogus")}
	}
}

// c18bLog draws a committed log with strictly increasing indexes above the applied index: the last command from
// lastList with symbolic fields and a possibly zero IssuedAt, the commands before it from firstList with accepted
// field values (firstZero: their IssuedAt may be zero).
func c18bLog(applied uint64, n int, firstList int, firstZero bool, lastList int) []AppliedCommand {
	entries := make([]AppliedCommand, n)
	prev := applied
	for i := range entries {
		var cmd command.Command
		if i == n-1 {
			cmd = c18bCommand(lastList, true, true)
		} else {
			cmd = c18bCommand(firstList, false, firstZero)
		}
		idx := zzsym.U64("entry.index")
		zzsym.Assume(idx > prev)
		prev = idx
		entries[i] = AppliedCommand{Index: idx, Term: 1, Command: cmd}
	}
	return entries
}

// ---- branch-free field-by-field equality (1 = equal). Slice shapes are concrete on every path. ----

func c18bU64s(a, b []uint64) uint64 {
	if len(a) != len(b) || (a == nil) != (b == nil) {
		return 0
	}
	acc := uint64(1)
	for i := range a {
		acc &= zzsym.B2U(a[i] == b[i])
	}
	return acc
}

func c18bNodesEq(a, b []state.Node) uint64 {
	if len(a) != len(b) || (a == nil) != (b == nil) {
		return 0
	}
	acc := uint64(1)
	for i := range a {
		x, y := a[i], b[i]
		acc &= zzsym.B2U(x.NodeID == y.NodeID && x.Name == y.Name && x.Addr == y.Addr && x.JoinState == y.JoinState && x.Status == y.Status && x.CapacityWeight == y.CapacityWeight)
		if len(x.Roles) != len(y.Roles) || (x.Roles == nil) != (y.Roles == nil) {
			return 0
		}
		for j := range x.Roles {
			acc &= zzsym.B2U(x.Roles[j] == y.Roles[j])
		}
	}
	return acc
}

func c18bVotersEq(a, b []state.ControllerVoter) uint64 {
	if len(a) != len(b) || (a == nil) != (b == nil) {
		return 0
	}
	acc := uint64(1)
	for i := range a {
		acc &= zzsym.B2U(a[i] == b[i])
	}
	return acc
}

func c18bSlotsEq(a, b []state.SlotAssignment) uint64 {
	if len(a) != len(b) || (a == nil) != (b == nil) {
		return 0
	}
	acc := uint64(1)
	for i := range a {
		acc &= zzsym.B2U(a[i].SlotID == b[i].SlotID && a[i].ConfigEpoch == b[i].ConfigEpoch && a[i].PreferredLeader == b[i].PreferredLeader)
		acc &= c18bU64s(a[i].DesiredPeers, b[i].DesiredPeers)
	}
	return acc
}

func c18bHealthEq(a, b []state.NodeHealthReport) uint64 {
	if len(a) != len(b) || (a == nil) != (b == nil) {
		return 0
	}
	acc := uint64(1)
	for i := range a {
		acc &= zzsym.B2U(a[i] == b[i])
	}
	return acc
}

func c18bHashSlotsEq(a, b state.HashSlotTable) uint64 {
	if len(a.Ranges) != len(b.Ranges) || (a.Ranges == nil) != (b.Ranges == nil) {
		return 0
	}
	acc := zzsym.B2U(a.Version == b.Version && a.SlotCount == b.SlotCount)
	for i := range a.Ranges {
		acc &= zzsym.B2U(a.Ranges[i] == b.Ranges[i])
	}
	return acc
}

func c18bTaskEq(x, y state.ReconcileTask) uint64 {
	if len(x.ParticipantProgress) != len(y.ParticipantProgress) || (x.ParticipantProgress == nil) != (y.ParticipantProgress == nil) {
		return 0
	}
	acc := zzsym.B2U(x.TaskID == y.TaskID && x.SlotID == y.SlotID && x.Kind == y.Kind && x.Step == y.Step && x.SourceNode == y.SourceNode &&
		x.TargetNode == y.TargetNode && x.CompletionPolicy == y.CompletionPolicy && x.ConfigEpoch == y.ConfigEpoch && x.Attempt == y.Attempt &&
		x.Status == y.Status && x.LastError == y.LastError && x.PhaseIndex == y.PhaseIndex && x.ObservedConfigIndex == y.ObservedConfigIndex)
	acc &= c18bU64s(x.TargetPeers, y.TargetPeers) & c18bU64s(x.ObservedVoters, y.ObservedVoters) & c18bU64s(x.ObservedLearners, y.ObservedLearners)
	for j := range x.ParticipantProgress {
		acc &= zzsym.B2U(x.ParticipantProgress[j] == y.ParticipantProgress[j])
	}
	return acc
}

func c18bTasksEq(a, b []state.ReconcileTask) uint64 {
	if len(a) != len(b) || (a == nil) != (b == nil) {
		return 0
	}
	acc := uint64(1)
	for i := range a {
		acc &= c18bTaskEq(a[i], b[i])
	}
	return acc
}

// c18bBackupEq: the catalogue only produces scheduled-backup states without plan, jobs, archive operation and
// history; anything else counts as a difference.
func c18bBackupEq(a, b *state.ScheduledBackupState) uint64 {
	if a == nil || b == nil {
		return zzsym.B2U(a == nil && b == nil)
	}
	if a.Plan != nil || b.Plan != nil || a.ActiveBackup != nil || b.ActiveBackup != nil || a.ActiveRestore != nil || b.ActiveRestore != nil ||
		a.ActiveArchiveOperation != nil || b.ActiveArchiveOperation != nil || len(a.History) != 0 || len(b.History) != 0 || (a.History == nil) != (b.History == nil) {
		return 0
	}
	return zzsym.B2U(a.Revision == b.Revision && a.ManagerSessionEpoch == b.ManagerSessionEpoch)
}

func c18bMCPEq(a, b *state.OpsMCPState) uint64 {
	if a == nil || b == nil {
		return zzsym.B2U(a == nil && b == nil)
	}
	if len(a.Credentials) != len(b.Credentials) || (a.Credentials == nil) != (b.Credentials == nil) {
		return 0
	}
	acc := zzsym.B2U(a.Enabled == b.Enabled && a.OwnerNodeID == b.OwnerNodeID && a.ProfileFenceUntilUnixMillis == b.ProfileFenceUntilUnixMillis)
	for i := range a.Credentials {
		acc &= zzsym.B2U(a.Credentials[i] == b.Credentials[i])
	}
	return acc
}

// c18bCmp holds the component-wise comparison of two cluster states.
type c18bCmp struct {
	revision, applied, health uint64
	rest                      uint64 // schema version, cluster id, config, UpdatedAt, voters, nodes, slots, hash slots, tasks, backup, MCP
}

func c18bCompare(a, b state.ClusterState) c18bCmp {
	rest := zzsym.B2U(a.SchemaVersion == b.SchemaVersion && a.ClusterID == b.ClusterID && a.Config == b.Config && a.UpdatedAt == b.UpdatedAt)
	rest &= c18bVotersEq(a.Controllers, b.Controllers) & c18bNodesEq(a.Nodes, b.Nodes) & c18bSlotsEq(a.Slots, b.Slots)
	rest &= c18bHashSlotsEq(a.HashSlots, b.HashSlots) & c18bTasksEq(a.Tasks, b.Tasks)
	rest &= c18bBackupEq(a.ScheduledBackup, b.ScheduledBackup) & c18bMCPEq(a.OpsMCP, b.OpsMCP)
	return c18bCmp{revision: zzsym.B2U(a.Revision == b.Revision), applied: zzsym.B2U(a.AppliedRaftIndex == b.AppliedRaftIndex),
		health: c18bHealthEq(a.NodeHealthReports, b.NodeHealthReports), rest: rest}
}

// logical: everything the revision versions (all but the health reports, the applied index and the checksum).
func (c c18bCmp) logical() bool { return c.revision&c.rest == 1 }

// untouched: everything but the applied index (ApplyBatch advances it for every handled entry) and the checksum.
func (c c18bCmp) untouched() bool { return c.revision&c.rest&c.health == 1 }

// identical: every field but the checksum string (an opaque constant in the symbolic run).
func (c c18bCmp) identical() bool { return c.revision&c.rest&c.health&c.applied == 1 }

func c18bTransitionsEq(a, b []TaskTransition) uint64 {
	if len(a) != len(b) {
		return 0
	}
	acc := uint64(1)
	for i := range a {
		x, y := a[i], b[i]
		acc &= zzsym.B2U(x.AppliedRaftIndex == y.AppliedRaftIndex && x.AppliedRaftTerm == y.AppliedRaftTerm && x.CommandKind == y.CommandKind &&
			x.IssuedAt == y.IssuedAt && x.BeforeValid == y.BeforeValid && x.AfterValid == y.AfterValid && x.ParticipantNode == y.ParticipantNode)
		acc &= c18bTaskEq(x.Before, y.Before) & c18bTaskEq(x.After, y.After)
	}
	return acc
}

func c18bResultEq(a, b ApplyResult) bool {
	return zzsym.B2U(a.Changed == b.Changed && a.Updated == b.Updated && a.Noop == b.Noop && a.Rejected == b.Rejected && a.Reason == b.Reason &&
		a.Revision == b.Revision && a.AppliedRaftIndex == b.AppliedRaftIndex)&c18bTransitionsEq(a.TaskTransitions, b.TaskTransitions) == 1
}

func c18bOutcomes(r ApplyResult) uint64 {
	return zzsym.B2U(r.Changed) + zzsym.B2U(r.Updated) + zzsym.B2U(r.Noop) + zzsym.B2U(r.Rejected)
}

// ---- applying a log under a batch partition ----

type c18bRun struct {
	results []ApplyResult
	states  []state.ClusterState // states[i]: FinalState of the ApplyBatch call that ended with entry i (zero value inside a chunk)
	final   state.ClusterState
	failed  bool // an ApplyBatch call failed, degraded the machine, lost a result or did not save exactly once (concrete)
	same    bool // saved = published = returned final state after every call
}

// c18bApply applies the log on a fresh state machine publishing c18bBase(rev, applied), one ApplyBatch call per
// chunk; cuts lists the chunk ends (exclusive), the last one being len(entries).
func c18bApply(rev, applied uint64, entries []AppliedCommand, cuts []int) c18bRun {
	store := &c18Store{}
	sm, err := New(store)
	if err != nil {
		panic("c18: New failed")
	}
	sm.state = c18bBase(rev, applied)
	run := c18bRun{states: make([]state.ClusterState, len(entries))}
	ok := uint64(1)
	from := 0
	for k, to := range cuts {
		out, aerr := sm.ApplyBatch(c18Ctx{}, entries[from:to])
		if aerr != nil || len(out.Results) != to-from || sm.degraded || store.saves != k+1 {
			run.failed = true
			return run
		}
		ok &= zzsym.B2U(c18bCompare(store.last, sm.state).identical() && c18bCompare(out.FinalState, sm.state).identical())
		ok &= zzsym.B2U(store.last.Checksum == sm.state.Checksum && out.FinalState.Checksum == sm.state.Checksum)
		run.results = append(run.results, out.Results...)
		run.states[to-1] = out.FinalState
		run.final = out.FinalState
		from = to
	}
	run.same = ok == 1
	return run
}

// c18bCheckSteps: the per-command obligations on a run that applied one command per ApplyBatch call.
func c18bCheckSteps(rev, applied uint64, entries []AppliedCommand, single c18bRun) {
	prev := c18bBase(rev, applied)
	for i := range entries {
		r, after := single.results[i], single.states[i]
		zzsym.Assert(c18bOutcomes(r) == 1, "result is not exactly one of changed / updated / noop / rejected")
		zzsym.Assert(r.Reason != ReasonAlreadyApplied, "entry above the applied index answered already_applied")
		zzsym.Assert(!r.Changed || (r.Revision == prev.Revision+1 && r.Revision != 0), "a changed command did not increase the revision by exactly one")
		zzsym.Assert(r.Changed || r.Revision == prev.Revision, "a command that is not reported changed moved the revision")
		zzsym.Assert(r.AppliedRaftIndex == entries[i].Index, "applied index is not the index of the applied entry")
		zzsym.Assert(after.Revision == r.Revision && after.AppliedRaftIndex == r.AppliedRaftIndex, "published state disagrees with the result of its last entry")
		cmp := c18bCompare(prev, after)
		zzsym.Assert(!(r.Rejected || r.Noop) || cmp.untouched(), "a rejected or no-op command modified the state")
		zzsym.Assert(r.Changed || cmp.logical(), "logical state changed without a revision increase")
		zzsym.Assert(after.Validate() == nil, "persisted state does not pass cluster-state validation")
		prev = after
	}
}

// c18bCheckBatch: the obligations on a run under any partition, against the one-command-per-call run.
func c18bCheckBatch(rev uint64, entries []AppliedCommand, run, single c18bRun) {
	zzsym.Assert(!run.failed, "ApplyBatch failed, degraded the state machine or did not save exactly once per call")
	if run.failed {
		return
	}
	zzsym.Assert(run.same, "saved, published and returned final state differ")
	curRev := rev
	for i := range entries {
		r := run.results[i]
		zzsym.Assert(c18bResultEq(r, single.results[i]), "per-command result depends on the batch partition")
		zzsym.Assert(r.Revision == curRev+zzsym.B2U(r.Changed), "revision inside a batch is not previous + 1 for a change, previous otherwise")
		zzsym.Assert(r.AppliedRaftIndex == entries[i].Index, "applied index inside a batch is not the entry index")
		curRev = r.Revision
	}
	zzsym.Assert(run.final.Revision == curRev && run.final.AppliedRaftIndex == entries[len(entries)-1].Index, "final state is not at the last revision / last entry index")
	zzsym.Assert(c18bCompare(run.final, single.final).identical(), "final state depends on the batch partition")
}

// c18bCheckCandidate: applyMutation directly on an in-flight candidate while the state machine publishes the
// pre-batch state. For every position k >= 1: a command that is rejected or a no-op leaves the candidate exactly
// as the first k commands left it (compared with an independently computed copy on its own memory, not a Clone),
// a changed one adds exactly one revision, and the published state is never written by a handler.
func c18bCheckCandidate(rev, applied uint64, entries []AppliedCommand) {
	sm, err := New(&c18Store{})
	if err != nil {
		panic("c18: New failed")
	}
	sm.state = c18bBase(rev, applied)
	ref := c18bBase(rev, applied)
	next := c18bBase(rev, applied)
	sm.applyMutation(&ref, entries[0].Index, entries[0].Term, entries[0].Command)
	sm.applyMutation(&next, entries[0].Index, entries[0].Term, entries[0].Command)
	for k := 1; k < len(entries); k++ {
		zzsym.Assert(c18bCompare(ref, next).identical(), "applyMutation is not deterministic")
		r := sm.applyMutation(&next, entries[k].Index, entries[k].Term, entries[k].Command)
		cmp := c18bCompare(ref, next)
		zzsym.Assert(c18bOutcomes(r) == 1, "applyMutation result is not exactly one of changed / updated / noop / rejected")
		zzsym.Assert(!(r.Rejected || r.Noop) || cmp.identical(), "a rejected or no-op command modified the in-flight candidate")
		zzsym.Assert(!r.Changed || (next.Revision == ref.Revision+1 && next.Revision != 0), "a changed command did not add exactly one revision to the candidate")
		zzsym.Assert(r.Changed || cmp.logical(), "the candidate's logical state changed without a revision increase")
		zzsym.Assert(cmp.applied == 1, "a mutation handler moved the applied index of an initialised candidate")
		sm.applyMutation(&ref, entries[k].Index, entries[k].Term, entries[k].Command)
	}
	zzsym.Assert(c18bCompare(sm.state, c18bBase(rev, applied)).identical(), "a mutation handler wrote to the published state")
}

// Harness_C18_BatchPartition2: a log of two commands on the base state with symbolic Revision, AppliedRaftIndex
// and entry indexes, applied as [c1 c2] and as [c1][c2]. c1 comes from the setup list with accepted field values
// (quick: 12 items, non-zero IssuedAt; thorough: 16 items, IssuedAt may be zero), c2 has symbolic fields and a
// possibly zero IssuedAt (quick: core list; thorough: every variant with and without ExpectedRevision).
func Harness_C18_BatchPartition2() {
	rev := zzsym.U64("revision")
	applied := zzsym.U64("appliedRaftIndex")
	zzsym.Assume(rev != 0)
	var entries []AppliedCommand
	if zzsym.Thorough() {
		entries = c18bLog(applied, 2, c18bListSetup, true, c18bListFull)
	} else {
		entries = c18bLog(applied, 2, c18bListSetup, false, c18bListCore)
	}
	zzsym.Assert(c18bBase(rev, applied).Validate() == nil, "base state is not valid")

	single := c18bApply(rev, applied, entries, []int{1, 2})
	batch := c18bApply(rev, applied, entries, []int{2})
	zzsym.Assert(!single.failed && !batch.failed, "ApplyBatch failed, degraded the state machine or did not save exactly once per call")
	if single.failed || batch.failed {
		return
	}
	zzsym.Assert(single.same, "saved, published and returned final state differ")

	r0, r1 := single.results[0], single.results[1]
	if r0.Changed {
		if r1.Rejected {
			zzsym.Reach("second command rejected after a change")
		}
		if r1.Noop {
			zzsym.Reach("second command no-op after a change")
		}
		if r1.Changed {
			zzsym.Reach("two changes")
		}
	}
	if r1.Updated {
		zzsym.Reach("health report updated without revision")
	}
	c18bCheckSteps(rev, applied, entries, single)
	c18bCheckBatch(rev, entries, batch, single)
	c18bCheckCandidate(rev, applied, entries)
	zzsym.Observe("partition2", batch.final.Revision-rev, zzsym.B2U(r0.Changed), zzsym.B2U(r1.Changed), zzsym.B2U(r1.Rejected), zzsym.B2U(r1.Noop),
		uint64(len(batch.final.Nodes)), uint64(len(batch.final.Tasks)), uint64(len(batch.final.Slots)))
}

// Harness_C18_BatchPartition3 (thorough only): three commands, c1 and c2 from the first six setup items with accepted
// field values and non-zero IssuedAt, c3 from the core list with symbolic fields, under all four partitions.
func Harness_C18_BatchPartition3() {
	rev := zzsym.U64("revision")
	applied := zzsym.U64("appliedRaftIndex")
	zzsym.Assume(rev != 0)
	entries := c18bLog(applied, 3, c18bListSetup3, false, c18bListCore)

	single := c18bApply(rev, applied, entries, []int{1, 2, 3})
	whole := c18bApply(rev, applied, entries, []int{3})
	zzsym.Assert(!single.failed && !whole.failed, "ApplyBatch failed, degraded the state machine or did not save exactly once per call")
	if single.failed || whole.failed {
		return
	}
	zzsym.Assert(single.same, "saved, published and returned final state differ")
	if single.results[0].Changed && single.results[1].Changed && (single.results[2].Rejected || single.results[2].Noop) {
		zzsym.Reach("third command rejected or no-op after two changes")
	}
	c18bCheckSteps(rev, applied, entries, single)
	c18bCheckBatch(rev, entries, whole, single)
	c18bCheckBatch(rev, entries, c18bApply(rev, applied, entries, []int{1, 3}), single)
	c18bCheckBatch(rev, entries, c18bApply(rev, applied, entries, []int{2, 3}), single)
	c18bCheckCandidate(rev, applied, entries)
	zzsym.Observe("partition3", whole.final.Revision-rev, uint64(len(whole.final.Nodes)), uint64(len(whole.final.Tasks)), uint64(len(whole.final.Slots)))
}
