package fsm

import (
	"time"

	"github.com/WuKongIM/WuKongIM/internal/zzsym"
	"github.com/WuKongIM/WuKongIM/pkg/controller/state"
)

// Restart through the REAL state codec: the state a machine published is encoded with state.Encode
// (what the state file and the Raft snapshot hold), decoded with state.Decode, loaded into a new
// machine, and the log continues on both machines. encoding/json runs exactly (the real library on
// a reflect mirror, engine/intr_C38.go), so every value is concrete here: commands come from the
// setup catalogue with the field values the base state accepts.

// Harness_C18_RestartThroughCodec: base state; command X (changes, is rejected or is a no-op);
// restart of replica B through Encode/Decode; then command Y = X again (the idempotent
// re-publication) or another catalogue command: the restarted replica answers Y exactly as the
// uninterrupted one and both end in the same state; the decoded state equals the published one.
func Harness_C18_RestartThroughCodec() {
	const rev, applied = uint64(2), uint64(10)
	x := c18bPayload(c18bSetup[zzsym.Choice("first.setup", len(c18bSetup))].variant, false)
	x.IssuedAt = time.Unix(1700000000, 0).UTC()
	var y = x
	if zzsym.Choice("second", 2) == 1 {
		y = c18bPayload(c18bSetup[zzsym.Choice("second.setup", len(c18bSetup))].variant, false)
		y.IssuedAt = x.IssuedAt
	}
	entries := []AppliedCommand{{Index: applied + 1, Term: 1, Command: x}, {Index: applied + 2, Term: 1, Command: y}}
	// replica A: uninterrupted
	steady := c18bApply(rev, applied, entries, []int{1, 2})
	zzsym.Assume(!steady.failed)
	// replica B: applies X, restarts through the codec, applies Y
	storeB := &c18Store{}
	smB, err := New(storeB)
	zzsym.Assume(err == nil)
	smB.state = c18bBase(rev, applied)
	out1, err1 := smB.ApplyBatch(c18Ctx{}, entries[:1])
	zzsym.Assume(err1 == nil && len(out1.Results) == 1)
	published := smB.state.Clone()
	data, eerr := state.Encode(published)
	zzsym.Reach("encoded")
	zzsym.Assert(eerr == nil && len(data) > 0, "a published state cannot be encoded")
	decoded, derr := state.Decode(data)
	zzsym.Assert(derr == nil, "the encoding of a published state is refused by Decode")
	if eerr != nil || derr != nil {
		return
	}
	zzsym.Assert(c18bCompare(decoded, published).identical() && decoded.Checksum == published.Checksum,
		"the state recovered through Encode / Decode differs from the published one")
	storeR := &c18Store{saves: 1, last: decoded}
	smR, err := New(storeR)
	zzsym.Assume(err == nil)
	zzsym.Assert(smR.Load(c18Ctx{}) == nil, "Load of a decoded state fails")
	out2, err2 := smR.ApplyBatch(c18Ctx{}, entries[1:])
	zzsym.Reach("restarted-applied")
	zzsym.Assert(err2 == nil && len(out2.Results) == 1, "the restarted machine fails on the next command")
	if err2 != nil || len(out2.Results) != 1 {
		return
	}
	zzsym.Assert(c18bResultEq(out2.Results[0], steady.results[1]), "a command is answered differently after a restart through the state codec")
	zzsym.Assert(c18bCompare(out2.FinalState, steady.final).identical(), "the final state depends on a restart through the state codec")
	zzsym.Observe("restart", c18bOutcomes(out1.Results[0]), c18bOutcomes(out2.Results[0]))
}
