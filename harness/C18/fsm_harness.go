package fsm

import (
	"context"
	"errors"
	"os"
	"time"

	"github.com/WuKongIM/WuKongIM/internal/zzsym"
	"github.com/WuKongIM/WuKongIM/pkg/controller/command"
	"github.com/WuKongIM/WuKongIM/pkg/controller/state"
)

// ---- fake of the package's own Store port ----

// c18Store records what the state machine persists. Save may fail (symbolic choice made by the harness);
// Load returns what was saved last, or os.ErrNotExist before the first save.
type c18Store struct {
	saves    int
	last     state.ClusterState
	failSave bool
}

var errC18Save = errors.New("c18: save failed")

func (s *c18Store) Load(context.Context) (state.ClusterState, error) {
	if s.saves == 0 {
		return state.ClusterState{}, os.ErrNotExist
	}
	return s.last.Clone(), nil
}

func (s *c18Store) Save(_ context.Context, st state.ClusterState) error {
	if s.failSave {
		return errC18Save
	}
	s.saves++
	s.last = st.Clone()
	return nil
}

// c18Ctx is a never-cancelled context.
type c18Ctx struct{}

func (c18Ctx) Deadline() (time.Time, bool) { return time.Time{}, false }
func (c18Ctx) Done() <-chan struct{}       { return nil }
func (c18Ctx) Err() error                  { return nil }
func (c18Ctx) Value(any) any               { return nil }

// ---- states and commands ----

func c18Node(id uint64, addr string) state.Node {
	return state.Node{NodeID: id, Addr: addr, Roles: []state.NodeRole{state.NodeRoleControllerVoter, state.NodeRoleData},
		JoinState: state.NodeJoinStateActive, Status: state.NodeStatusAlive, CapacityWeight: 1}
}

// c18Base: the smallest state that passes the real Validate: one active controller/data node, one
// controller voter, one slot id, four hash slots in one range, no assignments, no tasks.
func c18Base(revision, applied uint64) state.ClusterState {
	return state.ClusterState{
		SchemaVersion: state.CurrentSchemaVersion, ClusterID: "c", Revision: revision, AppliedRaftIndex: applied,
		Config:      state.ClusterConfig{SlotCount: 1, HashSlotCount: 4, ReplicaCount: 1},
		Controllers: []state.ControllerVoter{{NodeID: 1, Addr: "a", Role: state.ControllerRoleVoter}},
		Nodes:       []state.Node{c18Node(1, "a")},
		Slots:       []state.SlotAssignment{},
		HashSlots:   state.HashSlotTable{Version: state.CurrentHashSlotTableVersion, SlotCount: 4, Ranges: []state.HashSlotRange{{From: 0, To: 3, SlotID: 1}}},
		Tasks:       []state.ReconcileTask{},
	}
}

const (
	c18Bogus       = iota // unknown command kind: semantic reject
	c18NewNode            // upsert of a node id not present: logical change
	c18BadNode            // upsert of a node without address: the new state fails Validate, rolled back
	c18SameNode           // upsert of node 1 exactly as stored: idempotent no-op
	c18StaleNode          // upsert guarded by a symbolic ExpectedRevision
	c18NilNode            // upsert without payload: invalid command
	c18NumCommands
)

// c18Command builds the i-th command of a batch. Everything goes through the real applyMutation and the
// real handlers (applyUpsertNode -> Normalize -> reflect.DeepEqual -> validateChanged -> Validate).
func c18Command(i int) (command.Command, int) {
	kind := zzsym.Choice("cmd.kind", c18NumCommands)
	switch kind {
	case c18Bogus:
		return command.Command{Kind: command.Kind("bogus")}, kind
	case c18NewNode:
		n := c18Node(uint64(10+i), "b")
		return command.Command{Kind: command.KindUpsertNode, Node: &n}, kind
	case c18BadNode:
		n := c18Node(uint64(20+i), "")
		return command.Command{Kind: command.KindUpsertNode, Node: &n}, kind
	case c18SameNode:
		n := c18Node(1, "a")
		return command.Command{Kind: command.KindUpsertNode, Node: &n}, kind
	case c18StaleNode:
		n := c18Node(uint64(30+i), "c")
		exp := zzsym.U64("cmd.expectedRevision")
		return command.Command{Kind: command.KindUpsertNode, Node: &n, ExpectedRevision: &exp}, kind
	default:
		return command.Command{Kind: command.KindUpsertNode}, kind
	}
}

func c18Outcomes(r ApplyResult) int {
	n := 0
	if r.Changed {
		n++
	}
	if r.Noop {
		n++
	}
	if r.Rejected {
		n++
	}
	return n
}

func c18BatchLen() int {
	if zzsym.Thorough() {
		return 1 + zzsym.Choice("batch.len", 3)
	}
	return 1 + zzsym.Choice("batch.len", 2)
}

// ---- ApplyBatch on an initialised state: replay guard, revision accounting, save-once ----

// Harness_C18_ApplyBatchInitialised: a valid published state with symbolic Revision (non-zero) and
// AppliedRaftIndex, a batch of 1..2 (thorough ..3) entries with arbitrary (also non-monotonic) symbolic
// indexes and commands chosen from the six classes above.
func Harness_C18_ApplyBatchInitialised() {
	rev := zzsym.U64("revision")
	applied := zzsym.U64("appliedRaftIndex")
	zzsym.Assume(rev != 0)
	store := &c18Store{failSave: zzsym.Choice("saveFails", 2) == 1}
	sm, err := New(store)
	if err != nil {
		panic("c18: New failed")
	}
	sm.state = c18Base(rev, applied)

	n := c18BatchLen()
	entries := make([]AppliedCommand, n)
	kinds := make([]int, n)
	for i := range entries {
		cmd, kind := c18Command(i)
		entries[i] = AppliedCommand{Index: zzsym.U64("entry.index"), Term: 1, Command: cmd}
		kinds[i] = kind
	}
	out, aerr := sm.ApplyBatch(c18Ctx{}, entries)

	zzsym.Assert(len(out.Results) == n, "one result per entry")
	curRev, curApplied := rev, applied
	nodes := 1
	for i, r := range out.Results {
		if entries[i].Index <= curApplied {
			// replay guard: the entry never reaches applyMutation
			zzsym.Reach("guard-hit")
			zzsym.Assert(r.Noop && !r.Changed && !r.Rejected && !r.Updated && r.Reason == ReasonAlreadyApplied, "entry at or below the applied index is not answered already_applied")
			zzsym.Assert(r.Revision == curRev && r.AppliedRaftIndex == curApplied, "already-applied entry moved revision or applied index")
			zzsym.Assert(len(r.TaskTransitions) == 0, "already-applied entry produced task transitions")
			continue
		}
		zzsym.Reach("guard-passed")
		zzsym.Assert(r.Reason != ReasonAlreadyApplied, "entry above the applied index answered already_applied")
		zzsym.Assert(c18Outcomes(r) == 1, "result is not exactly one of changed / noop / rejected")
		if r.Changed {
			zzsym.Reach("mutation-changed")
			zzsym.Assert(r.Revision == curRev+1 && curRev+1 != 0, "a change did not increase the revision by exactly one")
			zzsym.Assert(kinds[i] == c18NewNode || kinds[i] == c18StaleNode, "a command that cannot change the state reported a change")
			nodes++
		} else {
			zzsym.Assert(r.Revision == curRev, "a rejected / no-op command changed the revision")
		}
		switch kinds[i] {
		case c18Bogus, c18NilNode:
			zzsym.Assert(r.Rejected && r.Reason == ReasonInvalidCommand, "invalid command not rejected as invalid_command")
		case c18BadNode:
			zzsym.Reach("mutation-rolled-back")
			zzsym.Assert(r.Rejected && r.Reason == ReasonInvalidState, "state failing validation not rejected as invalid_state")
		case c18SameNode:
			zzsym.Assert(r.Noop && r.Reason == ReasonNoChange, "idempotent upsert is not a no_change no-op")
		case c18StaleNode:
			exp := *entries[i].Command.ExpectedRevision
			if exp != curRev {
				zzsym.Reach("mutation-stale-revision")
				zzsym.Assert(r.Rejected && r.Reason == ReasonExpectedRevisionMismatch, "stale expected revision not rejected")
			} else if curRev+1 != 0 {
				zzsym.Assert(r.Changed, "matching expected revision did not apply")
			}
		case c18NewNode:
			if curRev+1 != 0 {
				zzsym.Assert(r.Changed, "valid upsert of a new node did not apply")
			}
		}
		zzsym.Assert(r.AppliedRaftIndex == entries[i].Index, "applied index does not follow the applied entry")
		zzsym.Assert(r.AppliedRaftIndex > curApplied, "applied index decreased")
		curRev, curApplied = r.Revision, r.AppliedRaftIndex
	}
	zzsym.Assert(curApplied >= applied, "AppliedRaftIndex decreased over the batch")

	if store.failSave {
		zzsym.Reach("save-failed")
		zzsym.Assert(aerr != nil && sm.degraded && store.saves == 0, "failed save not reported")
		zzsym.Assert(sm.state.Revision == rev && sm.state.AppliedRaftIndex == applied && len(sm.state.Nodes) == 1, "state published although the save failed")
		return
	}
	zzsym.Reach("saved")
	zzsym.Assert(aerr == nil && !sm.degraded, "ApplyBatch failed")
	zzsym.Assert(store.saves == 1, "state not saved exactly once per batch")
	zzsym.Assert(store.last.Revision == curRev && store.last.AppliedRaftIndex == curApplied && len(store.last.Nodes) == nodes, "saved state is not the state after the last entry")
	zzsym.Assert(out.FinalState.Revision == curRev && out.FinalState.AppliedRaftIndex == curApplied && len(out.FinalState.Nodes) == nodes, "final state is not the state after the last entry")
	zzsym.Assert(sm.state.Revision == curRev && sm.state.AppliedRaftIndex == curApplied && len(sm.state.Nodes) == nodes, "published state is not the saved state")
	zzsym.Assert(store.last.Validate() == nil, "persisted state does not pass cluster-state validation")
	zzsym.Observe("batch", uint64(n), curRev-rev, zzsym.B2U(curApplied == applied), uint64(nodes))
}

// ---- before initialisation ----

// Harness_C18_BeforeInit: with no state (revision 0) every command except a valid init is rejected,
// nothing is saved and nothing is published; a valid init saves exactly once.
func Harness_C18_BeforeInit() {
	store := &c18Store{}
	sm, err := New(store)
	if err != nil {
		panic("c18: New failed")
	}
	if zzsym.Choice("loadFirst", 2) == 1 {
		// a missing state file loads as the empty state
		zzsym.Assert(sm.Load(c18Ctx{}) == nil && sm.state.Revision == 0 && !sm.degraded, "missing state file is not the empty state")
	}
	n := c18BatchLen()
	entries := make([]AppliedCommand, n)
	withInit := zzsym.Choice("withInit", 2) == 1
	for i := range entries {
		var cmd command.Command
		if withInit && i == n-1 {
			cmd = command.Command{Kind: command.KindInitClusterState, Init: &command.InitClusterState{
				ClusterID: "c", Config: state.ClusterConfig{SlotCount: 1, HashSlotCount: 4, ReplicaCount: 1},
				Controllers: []state.ControllerVoter{{NodeID: 1, Addr: "a", Role: state.ControllerRoleVoter}},
				Nodes:       []state.Node{c18Node(1, "a")},
			}}
		} else if zzsym.Choice("cmd.nilInit", 2) == 1 {
			cmd = command.Command{Kind: command.KindInitClusterState}
		} else {
			cmd, _ = c18Command(i)
		}
		entries[i] = AppliedCommand{Index: zzsym.U64("entry.index"), Term: 1, Command: cmd}
	}
	out, aerr := sm.ApplyBatch(c18Ctx{}, entries)
	zzsym.Assert(aerr == nil && len(out.Results) == n, "ApplyBatch before init failed")
	last := n
	if withInit {
		last = n - 1
	}
	for i := 0; i < last; i++ {
		r := out.Results[i]
		zzsym.Assert(r.Rejected && !r.Changed && !r.Noop && r.Revision == 0, "command before initialisation was not rejected")
	}
	if !withInit {
		zzsym.Reach("uninitialised-nothing-saved")
		zzsym.Assert(store.saves == 0, "state saved before initialisation")
		zzsym.Assert(sm.state.Revision == 0 && sm.state.AppliedRaftIndex == 0 && len(sm.state.Nodes) == 0, "state published before initialisation")
		zzsym.Assert(out.FinalState.Revision == 0, "final state has a revision before initialisation")
		zzsym.Observe("beforeInit", uint64(n), uint64(store.saves))
		return
	}
	zzsym.Reach("initialised")
	r := out.Results[n-1]
	zzsym.Assert(r.Changed && r.Revision == 1 && r.AppliedRaftIndex == entries[n-1].Index, "valid init did not create revision 1 at its index")
	zzsym.Assert(store.saves == 1 && store.last.Revision == 1 && store.last.AppliedRaftIndex == entries[n-1].Index, "init not saved exactly once")
	zzsym.Assert(store.last.Validate() == nil, "persisted initial state does not pass validation")
	zzsym.Observe("init", uint64(n), uint64(store.saves))
}

// ---- restart ----

// Harness_C18_ReplayAfterRestart: apply a batch, "restart" (a new state machine loading what the store
// holds) and apply the same entries again: every entry is answered already_applied and the state is the
// same as before the replay.
func Harness_C18_ReplayAfterRestart() {
	rev := zzsym.U64("revision")
	applied := zzsym.U64("appliedRaftIndex")
	zzsym.Assume(rev != 0)
	store := &c18Store{}
	sm, _ := New(store)
	sm.state = c18Base(rev, applied)
	n := c18BatchLen()
	entries := make([]AppliedCommand, n)
	prev := applied
	for i := range entries {
		cmd, _ := c18Command(i)
		idx := zzsym.U64("entry.index")
		zzsym.Assume(idx > prev) // a committed log: strictly increasing indexes above the applied index
		prev = idx
		entries[i] = AppliedCommand{Index: idx, Term: 1, Command: cmd}
	}
	first, aerr := sm.ApplyBatch(c18Ctx{}, entries)
	zzsym.Assert(aerr == nil && store.saves == 1, "first application failed")

	sm2, _ := New(store)
	zzsym.Assert(sm2.Load(c18Ctx{}) == nil, "load after restart failed")
	zzsym.Assert(sm2.state.Revision == first.FinalState.Revision && sm2.state.AppliedRaftIndex == prev, "restart did not load the saved state")
	second, aerr2 := sm2.ApplyBatch(c18Ctx{}, entries)
	zzsym.Reach("replayed-after-restart")
	zzsym.Assert(aerr2 == nil && len(second.Results) == n, "replay failed")
	for _, r := range second.Results {
		zzsym.Assert(r.Noop && r.Reason == ReasonAlreadyApplied && !r.Changed && !r.Rejected, "replayed entry not answered already_applied")
		zzsym.Assert(r.Revision == first.FinalState.Revision && r.AppliedRaftIndex == prev, "replayed entry moved revision or applied index")
	}
	zzsym.Assert(second.FinalState.Revision == first.FinalState.Revision && second.FinalState.AppliedRaftIndex == first.FinalState.AppliedRaftIndex &&
		len(second.FinalState.Nodes) == len(first.FinalState.Nodes), "replay after restart changed the state")
	zzsym.Assert(store.last.Revision == first.FinalState.Revision && store.last.AppliedRaftIndex == prev, "replay after restart changed the persisted state")
	zzsym.Observe("restart", uint64(n), first.FinalState.Revision-rev, uint64(len(first.FinalState.Nodes)))
}

// ---- validateChanged ----

// Harness_C18_ValidateChanged: validateChanged with the real Validate on a candidate derived from an
// arbitrary base: schema version, revision, slot/replica counts symbolic, one appended node whose id and
// address make the candidate valid or invalid (zero id, duplicate id, empty address).
func Harness_C18_ValidateChanged() {
	before := c18Base(zzsym.U64("revision"), zzsym.U64("appliedRaftIndex"))
	before.SchemaVersion = zzsym.U32("schemaVersion")
	before.Config.SlotCount = zzsym.U32("slotCount")
	before.Config.ReplicaCount = zzsym.U16("replicaCount")
	next := before.Clone()
	nodeID := zzsym.U64("node.id")
	addr := zzsym.String("node.addr", zzsym.Choice("node.addr.len", 2))
	next.Nodes = append(next.Nodes, c18Node(nodeID, addr))
	var cmd command.Command
	if zzsym.Choice("issuedAt", 2) == 1 {
		cmd.IssuedAt = time.Unix(1700000000, 0)
	}
	res := validateChanged(&next, before, cmd)

	zzsym.Assert(res.Changed != res.Rejected && !res.Noop, "validateChanged result is not exactly changed or rejected")
	if res.Changed {
		zzsym.Reach("validate-changed")
		zzsym.Assert(next.Revision == before.Revision+1 && next.Revision != 0, "revision not increased by exactly one")
		zzsym.Assert(len(next.Nodes) == 2 && next.AppliedRaftIndex == before.AppliedRaftIndex, "candidate not kept")
		zzsym.Assert(next.Validate() == nil, "a state reported as changed does not pass validation")
		// what makes the candidate valid
		zzsym.Assert(before.SchemaVersion == state.CurrentSchemaVersion && before.Config.SlotCount >= 1 && before.Config.SlotCount <= 4 &&
			before.Config.ReplicaCount != 0 && nodeID != 0 && nodeID != 1 && len(addr) != 0, "an invalid candidate was accepted")
		if !cmd.IssuedAt.IsZero() {
			zzsym.Assert(next.UpdatedAt.Equal(cmd.IssuedAt), "UpdatedAt not taken from the command")
		}
	} else {
		zzsym.Reach("validate-rolled-back")
		zzsym.Assert(res.Reason == ReasonInvalidState, "rollback is not reported as invalid_state")
		zzsym.Assert(next.Revision == before.Revision && next.AppliedRaftIndex == before.AppliedRaftIndex && len(next.Nodes) == 1 &&
			next.SchemaVersion == before.SchemaVersion && next.Config == before.Config && next.UpdatedAt == before.UpdatedAt,
			"state not restored to the pre-state after a failed validation")
	}
	zzsym.Observe("validateChanged", zzsym.B2U(res.Changed), next.Revision-before.Revision, uint64(len(next.Nodes)))
}
