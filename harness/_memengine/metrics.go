package engine

// MetricsSnapshot is a stable, Pebble-neutral view of one local storage engine.
type MetricsSnapshot struct {
	// DiskSpaceUsageBytes is the engine's local disk usage, including live and obsolete files.
	DiskSpaceUsageBytes uint64
	// ReadAmplification is the current LSM read amplification estimate.
	ReadAmplification int
	// MemTableSizeBytes is the bytes allocated by active memtables and flushable batches.
	MemTableSizeBytes uint64
	// MemTableCount is the number of active memtables.
	MemTableCount int64
	// WALFiles is the number of live WAL files.
	WALFiles int64
	// WALSizeBytes is the live logical size of WAL files.
	WALSizeBytes uint64
	// WALPhysicalSizeBytes is the physical on-disk size of WAL files.
	WALPhysicalSizeBytes uint64
	// WALBytesIn is the logical bytes written to the WAL.
	WALBytesIn uint64
	// WALBytesWritten is the physical bytes written to the WAL.
	WALBytesWritten uint64
	// SSTableSizeBytes is the current physical size of live SSTables across all levels.
	SSTableSizeBytes uint64
	// FlushBytesWritten is the cumulative bytes written to SSTables by flushes.
	FlushBytesWritten uint64
	// CompactionBytesRead is the cumulative SSTable bytes read by compactions.
	CompactionBytesRead uint64
	// CompactionBytesWritten is the cumulative SSTable bytes written by compactions.
	CompactionBytesWritten uint64
	// FlushCount is the number of completed flushes since this engine opened.
	FlushCount int64
	// FlushesInProgress is the current number of flushes in progress.
	FlushesInProgress int64
	// CompactionCount is the number of completed compactions since this engine opened.
	CompactionCount int64
	// CompactionEstimatedDebtBytes is Pebble's estimate of bytes that need compaction.
	CompactionEstimatedDebtBytes uint64
	// CompactionInProgressBytes is the bytes being written by in-progress compactions.
	CompactionInProgressBytes int64
	// CompactionsInProgress is the current number of compactions in progress.
	CompactionsInProgress int64
}

// MetricsSnapshot returns an empty snapshot for the in-memory engine.
func (e *DB) MetricsSnapshot() MetricsSnapshot { return MetricsSnapshot{} }
