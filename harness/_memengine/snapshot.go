package engine

import "github.com/WuKongIM/WuKongIM/pkg/db/internal/dberrors"

// Snapshot is a stable read-only engine view that does not block later writes.
type Snapshot struct {
	snapshot *memStore
}

// NewSnapshot pins the current engine view until the returned snapshot is closed.
func (e *DB) NewSnapshot() (*Snapshot, error) {
	if e == nil || e.pdb == nil {
		return nil, dberrors.ErrClosed
	}
	if e.pdb.crash != nil && e.pdb.crash.dead {
		return nil, errMemCrashed
	}
	cp := &memStore{rows: make([]memKV, len(e.pdb.rows))}
	for i, r := range e.pdb.rows {
		cp.rows[i] = memKV{key: memCopy(r.key), value: memCopy(r.value)}
	}
	return &Snapshot{snapshot: cp}, nil
}

// NewIter creates an iterator over span in the pinned view.
func (s *Snapshot) NewIter(span Span, opts IterOptions) (*Iter, error) {
	if s == nil || s.snapshot == nil {
		return nil, dberrors.ErrClosed
	}
	return &Iter{iter: &memIter{rows: s.snapshot.view(span), pos: -1}}, nil
}

// Get returns a copied value from the pinned view.
func (s *Snapshot) Get(key []byte) ([]byte, bool, error) {
	if s == nil || s.snapshot == nil {
		return nil, false, dberrors.ErrClosed
	}
	v, ok := s.snapshot.get(key)
	return v, ok, nil
}

// Close releases the pinned engine view.
func (s *Snapshot) Close() error {
	if s == nil || s.snapshot == nil {
		return nil
	}
	s.snapshot = nil
	return nil
}
