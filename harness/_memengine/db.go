// Verification overlay of pkg/db/internal/engine: an in-memory ordered key/value engine with the
// same API and the same observable semantics as the thin Pebble wrapper it replaces (copied keys
// and values, atomic batches applied in staging order, half-open spans, stable snapshots,
// iterators over the view taken at creation). It carries no durability or crash behaviour unless a
// harness switches on the crash model at the end of this file (ZZCrashTrack; used by C09 only).
// Stores are registered by path so that Close followed by Open sees the committed data.
package engine

import (
	"github.com/WuKongIM/WuKongIM/pkg/db/internal/dberrors"
	"github.com/WuKongIM/WuKongIM/pkg/wklog"
)

// Options controls engine tuning (ignored by the in-memory engine, kept for API compatibility).
type Options struct {
	CacheSize                      int64
	MemTableSize                   int64
	CompactionDebtConcurrencyBytes int64
	ReadOnly                       bool
	Logger                         wklog.Logger
}

type memKV struct {
	key   []byte
	value []byte
}

type memStore struct {
	rows []memKV // sorted by key (bytewise)
	// crash is nil unless a harness tracks the commits of this store (crash model at the end of this
	// file); with crash == nil the store behaves exactly as before the crash model was added.
	crash *memCrashState
}

var memStores = map[string]*memStore{}

// ZZResetStores forgets every in-memory store (harness helper).
func ZZResetStores() { memStores = map[string]*memStore{} }

// DB is an in-memory engine handle.
type DB struct {
	pdb      *memStore
	readOnly bool
}

func memCompare(a, b []byte) int {
	n := len(a)
	if len(b) < n {
		n = len(b)
	}
	for i := 0; i < n; i++ {
		if a[i] < b[i] {
			return -1
		}
		if a[i] > b[i] {
			return 1
		}
	}
	if len(a) < len(b) {
		return -1
	}
	if len(a) > len(b) {
		return 1
	}
	return 0
}

func memCopy(b []byte) []byte { return append([]byte(nil), b...) }

// Open opens (or creates) the in-memory store registered under path.
func Open(path string, opts Options) (*DB, error) {
	if path == "" {
		return nil, dberrors.ErrInvalidArgument
	}
	st := memStores[path]
	if st == nil {
		st = &memStore{}
		memStores[path] = st
	}
	return &DB{pdb: st, readOnly: opts.ReadOnly}, nil
}

// Close closes the handle; the store content stays registered under its path.
func (e *DB) Close() error {
	if e == nil || e.pdb == nil {
		return nil
	}
	e.pdb = nil
	return nil
}

func (s *memStore) find(key []byte) (int, bool) {
	for i := range s.rows {
		c := memCompare(s.rows[i].key, key)
		if c == 0 {
			return i, true
		}
		if c > 0 {
			return i, false
		}
	}
	return len(s.rows), false
}

func (s *memStore) get(key []byte) ([]byte, bool) {
	if i, ok := s.find(key); ok {
		return memCopy(s.rows[i].value), true
	}
	return nil, false
}

func (s *memStore) set(key, value []byte) {
	i, ok := s.find(key)
	if ok {
		s.rows[i].value = memCopy(value)
		return
	}
	s.rows = append(s.rows, memKV{})
	copy(s.rows[i+1:], s.rows[i:])
	s.rows[i] = memKV{key: memCopy(key), value: memCopy(value)}
}

func (s *memStore) del(key []byte) {
	if i, ok := s.find(key); ok {
		s.rows = append(s.rows[:i], s.rows[i+1:]...)
	}
}

func (s *memStore) delRange(start, end []byte) {
	kept := s.rows[:0]
	for _, r := range s.rows {
		if memCompare(r.key, start) >= 0 && memCompare(r.key, end) < 0 {
			continue
		}
		kept = append(kept, r)
	}
	s.rows = kept
}

func (s *memStore) view(span Span) []memKV {
	var out []memKV
	for _, r := range s.rows {
		if len(span.Start) > 0 && memCompare(r.key, span.Start) < 0 {
			continue
		}
		if len(span.End) > 0 && memCompare(r.key, span.End) >= 0 {
			continue
		}
		out = append(out, memKV{key: r.key, value: r.value})
	}
	return out
}

// Get returns a copied value for key.
func (e *DB) Get(key []byte) ([]byte, bool, error) {
	if e == nil || e.pdb == nil {
		return nil, false, dberrors.ErrClosed
	}
	if e.pdb.crash != nil && e.pdb.crash.dead {
		return nil, false, errMemCrashed
	}
	v, ok := e.pdb.get(key)
	return v, ok, nil
}

// NewBatch creates a write batch. The caller must close it.
func (e *DB) NewBatch() *Batch {
	if e == nil || e.pdb == nil {
		return &Batch{}
	}
	return &Batch{batch: &memBatch{store: e.pdb, readOnly: e.readOnly}}
}

// NewIter creates an iterator over span (a view of the content at creation time).
func (e *DB) NewIter(span Span, opts IterOptions) (*Iter, error) {
	if e == nil || e.pdb == nil {
		return nil, dberrors.ErrClosed
	}
	if e.pdb.crash != nil && e.pdb.crash.dead {
		return nil, errMemCrashed
	}
	return &Iter{iter: &memIter{rows: e.pdb.view(span), pos: -1}}, nil
}

// ZZDump returns the committed rows of the store registered under path, in key order (harness helper).
func ZZDump(path string) (keys [][]byte, values [][]byte) {
	st := memStores[path]
	if st == nil {
		return nil, nil
	}
	for _, r := range st.rows {
		keys = append(keys, memCopy(r.key))
		values = append(values, memCopy(r.value))
	}
	return keys, values
}

// ---------------------------------------------------------------------------------------------
// Crash model (added for C09; inert unless a harness calls ZZCrashTrack on a store).
//
// It implements the documented contract of the engine underneath (Pebble), taken as an axiom:
//   (A1) a batch commit is atomic: a recovered store contains all or none of its operations;
//   (A2) commits become durable in commit order: a recovered store is the content at tracking start
//        plus a PREFIX of the commits issued since;
//   (A3) a commit with sync=true that returned nil is durable, and so is every commit before it;
//        commits after the last synced one may be lost, as a suffix, at a power loss. A process kill
//        loses nothing that was committed.
// ZZCrashArm makes the (afterCommits+1)-th commit from now fail as if the process died just BEFORE
// it was applied; from then on every call on the store fails (the process is gone). ZZCrashRestart
// registers a NEW live store under the path whose content is the recovered content; handles on the
// old store stay dead.

// memCommitRec is one committed batch: its operations in staging order and its sync flag.
type memCommitRec struct {
	ops  []memOp
	sync bool
}

type memCrashState struct {
	base    []memKV        // content when tracking started
	commits []memCommitRec // every commit applied since, in commit order
	armed   bool
	allow   int  // commits still admitted before the crash point (when armed)
	dead    bool // the process died: every later call on this store fails
}

func memCopyRows(rows []memKV) []memKV {
	out := make([]memKV, len(rows))
	for i, r := range rows {
		out[i] = memKV{key: memCopy(r.key), value: memCopy(r.value)}
	}
	return out
}

// admit is called by Batch.Commit before the batch is applied.
func (c *memCrashState) admit(ops []memOp, sync bool) error {
	if c.dead {
		return errMemCrashed
	}
	if c.armed {
		if c.allow <= 0 {
			c.dead = true
			return errMemCrashed
		}
		c.allow--
	}
	c.commits = append(c.commits, memCommitRec{ops: ops, sync: sync})
	return nil
}

// durable returns the number of recorded commits covered by a synced commit (A3).
func (c *memCrashState) durable() int {
	n := 0
	for i, rec := range c.commits {
		if rec.sync {
			n = i + 1
		}
	}
	return n
}

func (s *memStore) applyOps(ops []memOp) {
	for _, op := range ops {
		switch op.kind {
		case 0:
			s.set(op.key, op.value)
		case 1:
			s.del(op.key)
		case 2:
			s.delRange(op.key, op.end)
		}
	}
}

// ZZCrashTrack starts (or restarts) recording the commits of the store registered under path.
func ZZCrashTrack(path string) {
	st := memStores[path]
	if st == nil {
		st = &memStore{}
		memStores[path] = st
	}
	st.crash = &memCrashState{base: memCopyRows(st.rows)}
}

// ZZCrashArm: the (afterCommits+1)-th commit from now on the tracked store fails before it is
// applied, and every later call on that store fails.
func ZZCrashArm(path string, afterCommits int) {
	if st := memStores[path]; st != nil && st.crash != nil {
		st.crash.armed = true
		st.crash.allow = afterCommits
	}
}

// ZZCrashDisarm removes a crash point that was not reached.
func ZZCrashDisarm(path string) {
	if st := memStores[path]; st != nil && st.crash != nil {
		st.crash.armed = false
	}
}

// ZZCrashDead reports whether the armed crash point was reached (the store is dead).
func ZZCrashDead(path string) bool {
	st := memStores[path]
	return st != nil && st.crash != nil && st.crash.dead
}

// ZZCrashCommits returns, for the tracked store, the number of commits applied since tracking
// started and how many of them are durable under A3 (covered by a synced commit).
func ZZCrashCommits(path string) (applied int, durable int) {
	st := memStores[path]
	if st == nil || st.crash == nil {
		return 0, 0
	}
	return len(st.crash.commits), st.crash.durable()
}

// ZZCrashSynced reports the sync flag of the i-th commit (0-based) applied since tracking started.
func ZZCrashSynced(path string, i int) bool {
	st := memStores[path]
	if st == nil || st.crash == nil || i < 0 || i >= len(st.crash.commits) {
		return false
	}
	return st.crash.commits[i].sync
}

// ZZCrashRestart models the stop and the restart: the tracked store dies (if it has not yet) and a
// new live store is registered under path with content = content at tracking start + the durable
// commits + the first keepUnsynced commits after the last synced one. keepUnsynced >= the number of
// un-synced tail commits is a process kill (nothing committed is lost); smaller values are a power
// loss. It returns the number of applied commits that were lost. The new store is tracked from its
// recovered content.
func ZZCrashRestart(path string, keepUnsynced int) (lost int) {
	st := memStores[path]
	if st == nil || st.crash == nil {
		return 0
	}
	cs := st.crash
	cs.dead = true
	n := cs.durable()
	if keepUnsynced > 0 {
		n += keepUnsynced
	}
	if n > len(cs.commits) {
		n = len(cs.commits)
	}
	ns := &memStore{rows: memCopyRows(cs.base)}
	for _, rec := range cs.commits[:n] {
		ns.applyOps(rec.ops)
	}
	ns.crash = &memCrashState{base: memCopyRows(ns.rows)}
	memStores[path] = ns
	return len(cs.commits) - n
}
