// Verification overlay of pkg/db/internal/engine: an in-memory ordered key/value engine with the
// same API and the same observable semantics as the thin Pebble wrapper it replaces (copied keys
// and values, atomic batches applied in staging order, half-open spans, stable snapshots,
// iterators over the view taken at creation). It carries no durability or crash behaviour.
// Stores are registered by path so that Close followed by Open sees the committed data.
package engine

import (
	"github.com/WuKongIM/WuKongIM/pkg/db/internal/dberrors"
	"github.com/WuKongIM/WuKongIM/pkg/wklog"
)

// Options controls engine tuning (ignored by the in-memory engine, kept for API compatibility).
type Options struct {
	CacheSize                      int64
	MemTableSize                   int64
	CompactionDebtConcurrencyBytes int64
	ReadOnly                       bool
	Logger                         wklog.Logger
}

type memKV struct {
	key   []byte
	value []byte
}

type memStore struct {
	rows []memKV // sorted by key (bytewise)
}

var memStores = map[string]*memStore{}

// ZZResetStores forgets every in-memory store (harness helper).
func ZZResetStores() { memStores = map[string]*memStore{} }

// DB is an in-memory engine handle.
type DB struct {
	pdb      *memStore
	readOnly bool
}

func memCompare(a, b []byte) int {
	n := len(a)
	if len(b) < n {
		n = len(b)
	}
	for i := 0; i < n; i++ {
		if a[i] < b[i] {
			return -1
		}
		if a[i] > b[i] {
			return 1
		}
	}
	if len(a) < len(b) {
		return -1
	}
	if len(a) > len(b) {
		return 1
	}
	return 0
}

func memCopy(b []byte) []byte { return append([]byte(nil), b...) }

// Open opens (or creates) the in-memory store registered under path.
func Open(path string, opts Options) (*DB, error) {
	if path == "" {
		return nil, dberrors.ErrInvalidArgument
	}
	st := memStores[path]
	if st == nil {
		st = &memStore{}
		memStores[path] = st
	}
	return &DB{pdb: st, readOnly: opts.ReadOnly}, nil
}

// Close closes the handle; the store content stays registered under its path.
func (e *DB) Close() error {
	if e == nil || e.pdb == nil {
		return nil
	}
	e.pdb = nil
	return nil
}

func (s *memStore) find(key []byte) (int, bool) {
	for i := range s.rows {
		c := memCompare(s.rows[i].key, key)
		if c == 0 {
			return i, true
		}
		if c > 0 {
			return i, false
		}
	}
	return len(s.rows), false
}

func (s *memStore) get(key []byte) ([]byte, bool) {
	if i, ok := s.find(key); ok {
		return memCopy(s.rows[i].value), true
	}
	return nil, false
}

func (s *memStore) set(key, value []byte) {
	i, ok := s.find(key)
	if ok {
		s.rows[i].value = memCopy(value)
		return
	}
	s.rows = append(s.rows, memKV{})
	copy(s.rows[i+1:], s.rows[i:])
	s.rows[i] = memKV{key: memCopy(key), value: memCopy(value)}
}

func (s *memStore) del(key []byte) {
	if i, ok := s.find(key); ok {
		s.rows = append(s.rows[:i], s.rows[i+1:]...)
	}
}

func (s *memStore) delRange(start, end []byte) {
	kept := s.rows[:0]
	for _, r := range s.rows {
		if memCompare(r.key, start) >= 0 && memCompare(r.key, end) < 0 {
			continue
		}
		kept = append(kept, r)
	}
	s.rows = kept
}

func (s *memStore) view(span Span) []memKV {
	var out []memKV
	for _, r := range s.rows {
		if len(span.Start) > 0 && memCompare(r.key, span.Start) < 0 {
			continue
		}
		if len(span.End) > 0 && memCompare(r.key, span.End) >= 0 {
			continue
		}
		out = append(out, memKV{key: r.key, value: r.value})
	}
	return out
}

// Get returns a copied value for key.
func (e *DB) Get(key []byte) ([]byte, bool, error) {
	if e == nil || e.pdb == nil {
		return nil, false, dberrors.ErrClosed
	}
	v, ok := e.pdb.get(key)
	return v, ok, nil
}

// NewBatch creates a write batch. The caller must close it.
func (e *DB) NewBatch() *Batch {
	if e == nil || e.pdb == nil {
		return &Batch{}
	}
	return &Batch{batch: &memBatch{store: e.pdb, readOnly: e.readOnly}}
}

// NewIter creates an iterator over span (a view of the content at creation time).
func (e *DB) NewIter(span Span, opts IterOptions) (*Iter, error) {
	if e == nil || e.pdb == nil {
		return nil, dberrors.ErrClosed
	}
	return &Iter{iter: &memIter{rows: e.pdb.view(span), pos: -1}}, nil
}

// ZZDump returns the committed rows of the store registered under path, in key order (harness helper).
func ZZDump(path string) (keys [][]byte, values [][]byte) {
	st := memStores[path]
	if st == nil {
		return nil, nil
	}
	for _, r := range st.rows {
		keys = append(keys, memCopy(r.key))
		values = append(values, memCopy(r.value))
	}
	return keys, values
}
