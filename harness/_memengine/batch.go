package engine

import (
	"errors"

	"github.com/WuKongIM/WuKongIM/pkg/db/internal/dberrors"
)

type memOp struct {
	kind  int // 0 set, 1 delete, 2 delete range
	key   []byte
	value []byte
	end   []byte
}

type memBatch struct {
	store     *memStore
	ops       []memOp
	committed bool
	readOnly  bool
}

// Batch stages multiple writes for atomic commit.
type Batch struct {
	batch *memBatch
}

var errMemReadOnly = errors.New("engine: read-only")

// errMemCrashed is returned by every call on a store whose armed crash point was reached (crash
// model in db.go; never returned unless a harness armed a crash).
var errMemCrashed = errors.New("engine: process crashed (verification crash model)")

// Set stages a key/value write.
func (b *Batch) Set(key []byte, value []byte) error {
	if b == nil || b.batch == nil {
		return dberrors.ErrClosed
	}
	b.batch.ops = append(b.batch.ops, memOp{kind: 0, key: memCopy(key), value: memCopy(value)})
	return nil
}

// SetDeferred stages a key/value write while allowing the caller to fill engine-owned buffers.
func (b *Batch) SetDeferred(keyLen int, valueLen int, fill func(key, value []byte) error) error {
	if b == nil || b.batch == nil {
		return dberrors.ErrClosed
	}
	if keyLen < 0 || valueLen < 0 || fill == nil {
		return dberrors.ErrInvalidArgument
	}
	key := make([]byte, keyLen)
	value := make([]byte, valueLen)
	if err := fill(key, value); err != nil {
		return err
	}
	b.batch.ops = append(b.batch.ops, memOp{kind: 0, key: key, value: value})
	return nil
}

// Delete stages a point delete.
func (b *Batch) Delete(key []byte) error {
	if b == nil || b.batch == nil {
		return dberrors.ErrClosed
	}
	b.batch.ops = append(b.batch.ops, memOp{kind: 1, key: memCopy(key)})
	return nil
}

// DeleteRange stages a range delete over span.
func (b *Batch) DeleteRange(span Span) error {
	if b == nil || b.batch == nil {
		return dberrors.ErrClosed
	}
	if len(span.Start) == 0 || len(span.End) == 0 {
		return dberrors.ErrInvalidArgument
	}
	b.batch.ops = append(b.batch.ops, memOp{kind: 2, key: memCopy(span.Start), end: memCopy(span.End)})
	return nil
}

// Commit applies the staged operations atomically, in staging order.
func (b *Batch) Commit(sync bool) error {
	if b == nil || b.batch == nil {
		return dberrors.ErrClosed
	}
	if b.batch.readOnly {
		return errMemReadOnly
	}
	if b.batch.committed {
		return dberrors.ErrClosed
	}
	if cs := b.batch.store.crash; cs != nil {
		// crash model: record the commit and its sync flag, or fail at / after the armed crash point
		if err := cs.admit(b.batch.ops, sync); err != nil {
			return err
		}
	}
	b.batch.committed = true
	for _, op := range b.batch.ops {
		switch op.kind {
		case 0:
			b.batch.store.set(op.key, op.value)
		case 1:
			b.batch.store.del(op.key)
		case 2:
			b.batch.store.delRange(op.key, op.end)
		}
	}
	return nil
}

// Close releases batch resources.
func (b *Batch) Close() error {
	if b == nil || b.batch == nil {
		return nil
	}
	b.batch = nil
	return nil
}
