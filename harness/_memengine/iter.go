package engine

type memIter struct {
	rows []memKV
	pos  int
}

// Iter iterates a stable view and returns copied keys and values.
type Iter struct {
	iter *memIter
}

func (it *Iter) valid() bool {
	return it != nil && it.iter != nil && it.iter.pos >= 0 && it.iter.pos < len(it.iter.rows)
}

// First positions the iterator at the first key in bounds.
func (it *Iter) First() bool {
	if it == nil || it.iter == nil {
		return false
	}
	it.iter.pos = 0
	return it.valid()
}

// SeekGE positions the iterator at the first key greater than or equal to key.
func (it *Iter) SeekGE(key []byte) bool {
	if it == nil || it.iter == nil {
		return false
	}
	it.iter.pos = len(it.iter.rows)
	for i := range it.iter.rows {
		if memCompare(it.iter.rows[i].key, key) >= 0 {
			it.iter.pos = i
			break
		}
	}
	return it.valid()
}

// Last positions the iterator at the last key in bounds.
func (it *Iter) Last() bool {
	if it == nil || it.iter == nil {
		return false
	}
	it.iter.pos = len(it.iter.rows) - 1
	return it.valid()
}

// SeekLT positions the iterator at the last key strictly less than key.
func (it *Iter) SeekLT(key []byte) bool {
	if it == nil || it.iter == nil {
		return false
	}
	it.iter.pos = -1
	for i := len(it.iter.rows) - 1; i >= 0; i-- {
		if memCompare(it.iter.rows[i].key, key) < 0 {
			it.iter.pos = i
			break
		}
	}
	return it.valid()
}

// Next advances the iterator.
func (it *Iter) Next() bool {
	if it == nil || it.iter == nil {
		return false
	}
	if it.iter.pos < len(it.iter.rows) {
		it.iter.pos++
	}
	return it.valid()
}

// Prev moves the iterator to the previous key.
func (it *Iter) Prev() bool {
	if it == nil || it.iter == nil {
		return false
	}
	if it.iter.pos >= 0 {
		it.iter.pos--
	}
	return it.valid()
}

// Key returns a copy of the current key.
func (it *Iter) Key() []byte {
	if !it.valid() {
		return nil
	}
	return memCopy(it.iter.rows[it.iter.pos].key)
}

// Value returns a copy of the current value.
func (it *Iter) Value() ([]byte, error) {
	if !it.valid() {
		return nil, nil
	}
	return memCopy(it.iter.rows[it.iter.pos].value), nil
}

// Error returns any accumulated iterator error.
func (it *Iter) Error() error { return nil }

// Close releases iterator resources.
func (it *Iter) Close() error {
	if it == nil || it.iter == nil {
		return nil
	}
	it.iter = nil
	return nil
}
