package engine

// Span identifies an ordered half-open key range [Start, End).
type Span struct {
	// Start is the inclusive lower bound.
	Start []byte
	// End is the exclusive upper bound. Empty means unbounded.
	End []byte
}

// IterOptions configures iterator behavior.
type IterOptions struct {
	// Reverse is reserved for future reverse-scan helpers.
	Reverse bool
}
