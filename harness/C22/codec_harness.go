package codec

// C22 — WKProto frames round-trip exactly.
//
// One entry per frame type. Every entry calls the real WKProto.EncodeFrame,
// encodedFrameSize and WKProto.DecodeFrame. Reading of "equal frame" (DESIGN §3):
// equality of the fields the wire format carries for that type at that version.
//
// Choices made where the wire format is narrower than the Go struct:
//   - ClientSeq (SEND, SENDACK) is written as uint32(ClientSeq) without a range check, so
//     the harness compares the decoded value with the truncated value uint64(uint32(x))
//     and leaves the field fully symbolic (64 bits).
//   - MessageSeq (SENDACK, RECV, RECVACK) is rejected by the encoder with an error when it
//     exceeds 32 bits at version <= LegacyMessageSeqVersion. That is the protocol limit:
//     the harness ASSUMES it fits in those versions and then demands exact equality.
//   - Header flags: the four flags for every type except CONNACK (only HasServerVersion)
//     and PING/PONG (the encoder writes type<<4 only: no flag is carried).
//   - FrameSize, RemainingLength, End and Framer.FrameType of the input are decoder side /
//     ignored by the encoder; the harness makes them symbolic to show they are ignored.

import (
	"bytes"

	"github.com/WuKongIM/WuKongIM/internal/zzsym"
	"github.com/WuKongIM/WuKongIM/pkg/protocol/frame"
)

func c22Version() uint8 {
	return uint8(zzsym.Choice("version", int(frame.LatestVersion)+1))
}

func c22MaxLen() int {
	if zzsym.Thorough() {
		return 4
	}
	return 2
}

func c22Str(name string) string {
	n := zzsym.Choice(name+".len", c22MaxLen()+1)
	return zzsym.String(name, n)
}

// c22Lens chooses the lengths of n (<= 8) variable-length fields of one frame (SEND, RECV: 6 and 7
// fields, where the full product of lengths is too large for the quick tier).
//   - quick: a strength-2 orthogonal array over lengths 0..2 (27 rows from three Choices a,b,c in Z_3,
//     field i has length <coef_i,(a,b,c)> mod 3 with pairwise linearly independent coef_i): every
//     PAIR of fields takes all 9 length combinations, every single field every length.
//   - thorough: either the full product of lengths 0..2, or the same construction over Z_5
//     (125 rows, lengths 0..4, all 25 combinations for every pair of fields).
func c22Lens(n int) []int {
	out := make([]int, n)
	q := 3
	if zzsym.Thorough() {
		if zzsym.Choice("lens.full", 2) == 1 {
			for i := range out {
				out[i] = zzsym.Choice("lens.len", 3)
			}
			return out
		}
		q = 5
	}
	a, b, c := zzsym.Choice("lens.a", q), zzsym.Choice("lens.b", q), zzsym.Choice("lens.c", q)
	coef := [8][3]int{{1, 0, 0}, {0, 1, 0}, {0, 0, 1}, {1, 1, 0}, {1, 0, 1}, {0, 1, 1}, {1, 1, 1}, {1, 2, 0}}
	for i := range out {
		out[i] = (coef[i][0]*a + coef[i][1]*b + coef[i][2]*c) % q
	}
	return out
}

func c22Bytes(name string) []byte {
	n := zzsym.Choice(name+".len", c22MaxLen()+1)
	return zzsym.Bytes(name, n)
}

// c22Framer: every Framer field symbolic. Only the flags are wire-carried.
func c22Framer() frame.Framer {
	return frame.Framer{
		FrameType:        frame.FrameType(zzsym.U8("hdr.frameType")),
		RemainingLength:  zzsym.U32("hdr.remainingLength"),
		NoPersist:        zzsym.Bool("hdr.noPersist"),
		RedDot:           zzsym.Bool("hdr.redDot"),
		SyncOnce:         zzsym.Bool("hdr.syncOnce"),
		DUP:              zzsym.Bool("hdr.dup"),
		HasServerVersion: zzsym.Bool("hdr.hasServerVersion"),
		End:              zzsym.Bool("hdr.end"),
		FrameSize:        zzsym.I64("hdr.frameSize"),
	}
}

func c22FlagsEq(got frame.Framer, want frame.Framer) bool {
	return got.NoPersist == want.NoPersist && got.RedDot == want.RedDot &&
		got.SyncOnce == want.SyncOnce && got.DUP == want.DUP
}

// c22Encode: EncodeFrame succeeds and produces exactly encodedFrameSize bytes.
func c22Encode(p *WKProto, f frame.Frame, v uint8) ([]byte, bool) {
	data, err := p.EncodeFrame(f, v)
	zzsym.Assert(err == nil, "EncodeFrame returned an error for an in-limits frame")
	if err != nil {
		return nil, false
	}
	zzsym.Assert(len(data) == encodedFrameSize(f, v), "encodedFrameSize differs from the number of bytes produced")
	return data, true
}

// c22Decode: DecodeFrame(data) succeeds, yields a frame and consumes len(data).
func c22Decode(p *WKProto, data []byte, v uint8) (frame.Frame, bool) {
	got, n, err := p.DecodeFrame(data, v)
	zzsym.Assert(err == nil, "DecodeFrame returned an error on EncodeFrame output")
	zzsym.Assert(got != nil, "DecodeFrame returned no frame on EncodeFrame output")
	zzsym.Assert(n == len(data), "DecodeFrame did not consume exactly the encoded length")
	zzsym.Observe("consumed", uint64(n), uint64(len(data)))
	return got, err == nil && got != nil
}

// c22Trailing: for 1 and for 2 arbitrary trailing bytes, DecodeFrame(data ++ trailing) succeeds,
// yields a frame and consumes len(data); returns whether same() held for both decoded frames.
func c22Trailing(p *WKProto, data []byte, v uint8, same func(frame.Frame) bool) bool {
	all := true
	for nt := 1; nt <= 2; nt++ {
		ext := make([]byte, 0, len(data)+nt)
		ext = append(ext, data...)
		ext = append(ext, zzsym.Bytes("trail", nt)...)
		got, n, err := p.DecodeFrame(ext, v)
		zzsym.Assert(err == nil, "DecodeFrame returned an error when trailing bytes follow the frame")
		zzsym.Assert(got != nil, "DecodeFrame returned no frame when trailing bytes follow the frame")
		zzsym.Assert(n == len(data), "trailing bytes changed the consumed count")
		if err != nil || got == nil {
			return false
		}
		all = all && same(got)
	}
	return all
}

// ---------------------------------------------------------------- CONNECT

func c22ConnectEq(g, w *frame.ConnectPacket) bool {
	return g.Version == w.Version && g.DeviceFlag == w.DeviceFlag && g.DeviceID == w.DeviceID &&
		g.UID == w.UID && g.Token == w.Token && g.ClientTimestamp == w.ClientTimestamp &&
		g.ClientKey == w.ClientKey && c22FlagsEq(g.Framer, w.Framer)
}

func Harness_C22_Connect() {
	v := c22Version()
	w := &frame.ConnectPacket{
		Framer:          c22Framer(),
		Version:         zzsym.U8("connect.version"),
		DeviceFlag:      frame.DeviceFlag(zzsym.U8("connect.deviceFlag")),
		DeviceID:        c22Str("connect.deviceID"),
		UID:             c22Str("connect.uid"),
		Token:           c22Str("connect.token"),
		ClientTimestamp: zzsym.I64("connect.clientTimestamp"),
		ClientKey:       c22Str("connect.clientKey"),
	}
	p := New()
	data, ok := c22Encode(p, w, v)
	if !ok {
		return
	}
	f, ok := c22Decode(p, data, v)
	if !ok {
		return
	}
	g, isT := f.(*frame.ConnectPacket)
	zzsym.Assert(isT, "CONNECT decoded to another frame type")
	if !isT {
		return
	}
	zzsym.Reach("connect-roundtrip")
	zzsym.Assert(g.Framer.FrameType == frame.CONNECT, "CONNECT: header frame type")
	zzsym.Assert(c22FlagsEq(g.Framer, w.Framer), "CONNECT: header flags differ")
	zzsym.Assert(g.Version == w.Version, "CONNECT: Version differs")
	zzsym.Assert(g.DeviceFlag == w.DeviceFlag, "CONNECT: DeviceFlag differs")
	zzsym.Assert(g.DeviceID == w.DeviceID, "CONNECT: DeviceID differs")
	zzsym.Assert(g.UID == w.UID, "CONNECT: UID differs")
	zzsym.Assert(g.Token == w.Token, "CONNECT: Token differs")
	zzsym.Assert(g.ClientTimestamp == w.ClientTimestamp, "CONNECT: ClientTimestamp differs")
	zzsym.Assert(g.ClientKey == w.ClientKey, "CONNECT: ClientKey differs")
	zzsym.Observe("connect", uint64(g.Version), uint64(g.DeviceFlag), uint64(g.ClientTimestamp), uint64(len(data)), uint64(g.RemainingLength))
	zzsym.Reach("connect-trailing")
	zzsym.Assert(c22Trailing(p, data, v, func(f2 frame.Frame) bool {
		g2, isT := f2.(*frame.ConnectPacket)
		return isT && c22ConnectEq(g2, w)
	}), "CONNECT: trailing bytes changed the decoded frame")
}

// ---------------------------------------------------------------- CONNACK

func c22ConnackEq(g, w *frame.ConnackPacket, v uint8) bool {
	ok := g.HasServerVersion == w.HasServerVersion && g.TimeDiff == w.TimeDiff &&
		g.ReasonCode == w.ReasonCode && g.ServerKey == w.ServerKey && g.Salt == w.Salt
	if w.HasServerVersion {
		ok = ok && g.ServerVersion == w.ServerVersion
	}
	if v >= 4 {
		ok = ok && g.NodeId == w.NodeId
	}
	return ok
}

func Harness_C22_Connack() {
	v := c22Version()
	w := &frame.ConnackPacket{
		Framer:        c22Framer(),
		ServerVersion: zzsym.U8("connack.serverVersion"),
		ServerKey:     c22Str("connack.serverKey"),
		Salt:          c22Str("connack.salt"),
		TimeDiff:      zzsym.I64("connack.timeDiff"),
		ReasonCode:    frame.ReasonCode(zzsym.U8("connack.reasonCode")),
		NodeId:        zzsym.U64("connack.nodeId"),
	}
	p := New()
	data, ok := c22Encode(p, w, v)
	if !ok {
		return
	}
	f, ok := c22Decode(p, data, v)
	if !ok {
		return
	}
	g, isT := f.(*frame.ConnackPacket)
	zzsym.Assert(isT, "CONNACK decoded to another frame type")
	if !isT {
		return
	}
	zzsym.Reach("connack-roundtrip")
	zzsym.Assert(g.Framer.FrameType == frame.CONNACK, "CONNACK: header frame type")
	zzsym.Assert(g.HasServerVersion == w.HasServerVersion, "CONNACK: HasServerVersion flag differs")
	if w.HasServerVersion {
		zzsym.Reach("connack-with-server-version")
		zzsym.Assert(g.ServerVersion == w.ServerVersion, "CONNACK: ServerVersion differs")
	}
	zzsym.Assert(g.TimeDiff == w.TimeDiff, "CONNACK: TimeDiff differs")
	zzsym.Assert(g.ReasonCode == w.ReasonCode, "CONNACK: ReasonCode differs")
	zzsym.Assert(g.ServerKey == w.ServerKey, "CONNACK: ServerKey differs")
	zzsym.Assert(g.Salt == w.Salt, "CONNACK: Salt differs")
	if v >= 4 {
		zzsym.Reach("connack-node-id")
		zzsym.Assert(g.NodeId == w.NodeId, "CONNACK: NodeId differs (version >= 4)")
	}
	zzsym.Observe("connack", uint64(g.ServerVersion), uint64(g.TimeDiff), uint64(g.ReasonCode), g.NodeId, uint64(len(data)), uint64(g.RemainingLength))
	zzsym.Reach("connack-trailing")
	zzsym.Assert(c22Trailing(p, data, v, func(f2 frame.Frame) bool {
		g2, isT := f2.(*frame.ConnackPacket)
		return isT && c22ConnackEq(g2, w, v)
	}), "CONNACK: trailing bytes changed the decoded frame")
}

// ---------------------------------------------------------------- SEND

func c22SendStreamCarried(s frame.Setting, v uint8) bool {
	return v >= 2 && v < 5 && s.IsSet(frame.SettingStream)
}

func c22SendEq(g, w *frame.SendPacket, v uint8) bool {
	ok := c22FlagsEq(g.Framer, w.Framer) && g.Setting == w.Setting &&
		g.ClientSeq == uint64(uint32(w.ClientSeq)) && g.ClientMsgNo == w.ClientMsgNo &&
		g.ChannelID == w.ChannelID && g.ChannelType == w.ChannelType && g.MsgKey == w.MsgKey &&
		bytes.Equal(g.Payload, w.Payload)
	if c22SendStreamCarried(w.Setting, v) {
		ok = ok && g.StreamNo == w.StreamNo
	}
	if v >= 3 {
		ok = ok && g.Expire == w.Expire
	}
	if w.Setting.IsSet(frame.SettingTopic) {
		ok = ok && g.Topic == w.Topic
	}
	return ok
}

func c22NewSend() *frame.SendPacket {
	l := c22Lens(6)
	return &frame.SendPacket{
		Framer:      c22Framer(),
		Setting:     frame.Setting(zzsym.U8("send.setting")),
		MsgKey:      zzsym.String("send.msgKey", l[0]),
		Expire:      zzsym.U32("send.expire"),
		ClientSeq:   zzsym.U64("send.clientSeq"),
		ClientMsgNo: zzsym.String("send.clientMsgNo", l[1]),
		StreamNo:    zzsym.String("send.streamNo", l[2]),
		ChannelID:   zzsym.String("send.channelID", l[3]),
		ChannelType: zzsym.U8("send.channelType"),
		Topic:       zzsym.String("send.topic", l[4]),
		Payload:     zzsym.Bytes("send.payload", l[5]),
	}
}

func Harness_C22_Send() {
	v := c22Version()
	w := c22NewSend()
	c22CheckSend(w, v)
}

func c22CheckSend(w *frame.SendPacket, v uint8) {
	p := New()
	data, ok := c22Encode(p, w, v)
	if !ok {
		return
	}
	f, ok := c22Decode(p, data, v)
	if !ok {
		return
	}
	g, isT := f.(*frame.SendPacket)
	zzsym.Assert(isT, "SEND decoded to another frame type")
	if !isT {
		return
	}
	zzsym.Reach("send-roundtrip")
	zzsym.Assert(g.Framer.FrameType == frame.SEND, "SEND: header frame type")
	zzsym.Assert(c22FlagsEq(g.Framer, w.Framer), "SEND: header flags differ")
	zzsym.Assert(g.Setting == w.Setting, "SEND: Setting differs")
	zzsym.Assert(g.ClientSeq == uint64(uint32(w.ClientSeq)), "SEND: ClientSeq differs from its 32-bit wire value")
	zzsym.Assert(g.ClientMsgNo == w.ClientMsgNo, "SEND: ClientMsgNo differs")
	if c22SendStreamCarried(w.Setting, v) {
		zzsym.Reach("send-stream-no")
		zzsym.Assert(g.StreamNo == w.StreamNo, "SEND: StreamNo differs (v2..v4, stream setting)")
	}
	zzsym.Assert(g.ChannelID == w.ChannelID, "SEND: ChannelID differs")
	zzsym.Assert(g.ChannelType == w.ChannelType, "SEND: ChannelType differs")
	if v >= 3 {
		zzsym.Reach("send-expire")
		zzsym.Assert(g.Expire == w.Expire, "SEND: Expire differs (version >= 3)")
	}
	zzsym.Assert(g.MsgKey == w.MsgKey, "SEND: MsgKey differs")
	if w.Setting.IsSet(frame.SettingTopic) {
		zzsym.Reach("send-topic")
		zzsym.Assert(g.Topic == w.Topic, "SEND: Topic differs (topic setting)")
	}
	zzsym.Assert(bytes.Equal(g.Payload, w.Payload), "SEND: Payload differs")
	zzsym.Observe("send", uint64(g.Setting), g.ClientSeq, uint64(g.ChannelType), uint64(g.Expire), uint64(len(g.Payload)), uint64(len(data)), uint64(g.RemainingLength))
	zzsym.Reach("send-trailing")
	zzsym.Assert(c22Trailing(p, data, v, func(f2 frame.Frame) bool {
		g2, isT := f2.(*frame.SendPacket)
		return isT && c22SendEq(g2, w, v)
	}), "SEND: trailing bytes changed the decoded frame")
}

// ---------------------------------------------------------------- SENDACK

func c22SendackEq(g, w *frame.SendackPacket) bool {
	return c22FlagsEq(g.Framer, w.Framer) && g.MessageID == w.MessageID && g.MessageSeq == w.MessageSeq &&
		g.ClientSeq == uint64(uint32(w.ClientSeq)) && g.ClientMsgNo == w.ClientMsgNo && g.ReasonCode == w.ReasonCode
}

func Harness_C22_Sendack() {
	v := c22Version()
	w := &frame.SendackPacket{
		Framer:      c22Framer(),
		MessageID:   zzsym.I64("sendack.messageID"),
		MessageSeq:  zzsym.U64("sendack.messageSeq"),
		ClientSeq:   zzsym.U64("sendack.clientSeq"),
		ClientMsgNo: c22Str("sendack.clientMsgNo"),
		ReasonCode:  frame.ReasonCode(zzsym.U8("sendack.reasonCode")),
	}
	if v <= frame.LegacyMessageSeqVersion {
		zzsym.Assume(w.MessageSeq <= 0xFFFFFFFF) // protocol limit enforced by encodeMessageSeq
	}
	p := New()
	data, ok := c22Encode(p, w, v)
	if !ok {
		return
	}
	f, ok := c22Decode(p, data, v)
	if !ok {
		return
	}
	g, isT := f.(*frame.SendackPacket)
	zzsym.Assert(isT, "SENDACK decoded to another frame type")
	if !isT {
		return
	}
	zzsym.Reach("sendack-roundtrip")
	if v > frame.LegacyMessageSeqVersion {
		zzsym.Reach("sendack-u64-seq")
	}
	zzsym.Assert(g.Framer.FrameType == frame.SENDACK, "SENDACK: header frame type")
	zzsym.Assert(c22FlagsEq(g.Framer, w.Framer), "SENDACK: header flags differ")
	zzsym.Assert(g.MessageID == w.MessageID, "SENDACK: MessageID differs")
	zzsym.Assert(g.MessageSeq == w.MessageSeq, "SENDACK: MessageSeq differs")
	zzsym.Assert(g.ClientSeq == uint64(uint32(w.ClientSeq)), "SENDACK: ClientSeq differs from its 32-bit wire value")
	zzsym.Assert(g.ClientMsgNo == w.ClientMsgNo, "SENDACK: ClientMsgNo differs")
	zzsym.Assert(g.ReasonCode == w.ReasonCode, "SENDACK: ReasonCode differs")
	zzsym.Observe("sendack", uint64(g.MessageID), g.MessageSeq, g.ClientSeq, uint64(g.ReasonCode), uint64(len(data)), uint64(g.RemainingLength))
	zzsym.Reach("sendack-trailing")
	zzsym.Assert(c22Trailing(p, data, v, func(f2 frame.Frame) bool {
		g2, isT := f2.(*frame.SendackPacket)
		return isT && c22SendackEq(g2, w)
	}), "SENDACK: trailing bytes changed the decoded frame")
}

// ---------------------------------------------------------------- RECV

func c22RecvStreamCarried(s frame.Setting, v uint8) bool {
	return v >= 2 && v < 5 && s.IsSet(frame.SettingStream)
}

func c22RecvEq(g, w *frame.RecvPacket, v uint8) bool {
	ok := c22FlagsEq(g.Framer, w.Framer) && g.Setting == w.Setting && g.MsgKey == w.MsgKey &&
		g.FromUID == w.FromUID && g.ChannelID == w.ChannelID && g.ChannelType == w.ChannelType &&
		g.ClientMsgNo == w.ClientMsgNo && g.MessageID == w.MessageID && g.MessageSeq == w.MessageSeq &&
		g.Timestamp == w.Timestamp && bytes.Equal(g.Payload, w.Payload)
	if v >= 3 {
		ok = ok && g.Expire == w.Expire
	}
	if c22RecvStreamCarried(w.Setting, v) {
		ok = ok && g.StreamFlag == w.StreamFlag && g.StreamNo == w.StreamNo && g.StreamId == w.StreamId
	}
	if w.Setting.IsSet(frame.SettingTopic) {
		ok = ok && g.Topic == w.Topic
	}
	return ok
}

func Harness_C22_Recv() {
	v := c22Version()
	l := c22Lens(7)
	w := &frame.RecvPacket{
		Framer:      c22Framer(),
		Setting:     frame.Setting(zzsym.U8("recv.setting")),
		MsgKey:      zzsym.String("recv.msgKey", l[0]),
		Expire:      zzsym.U32("recv.expire"),
		MessageID:   zzsym.I64("recv.messageID"),
		MessageSeq:  zzsym.U64("recv.messageSeq"),
		ClientMsgNo: zzsym.String("recv.clientMsgNo", l[1]),
		StreamNo:    zzsym.String("recv.streamNo", l[2]),
		StreamId:    zzsym.U64("recv.streamId"),
		StreamFlag:  frame.StreamFlag(zzsym.U8("recv.streamFlag")),
		Timestamp:   zzsym.I32("recv.timestamp"),
		ChannelID:   zzsym.String("recv.channelID", l[3]),
		ChannelType: zzsym.U8("recv.channelType"),
		Topic:       zzsym.String("recv.topic", l[4]),
		FromUID:     zzsym.String("recv.fromUID", l[5]),
		Payload:     zzsym.Bytes("recv.payload", l[6]),
		ClientSeq:   zzsym.U64("recv.clientSeq"), // not wire-carried
	}
	if v <= frame.LegacyMessageSeqVersion {
		zzsym.Assume(w.MessageSeq <= 0xFFFFFFFF) // protocol limit enforced by encodeMessageSeq
	}
	p := New()
	data, ok := c22Encode(p, w, v)
	if !ok {
		return
	}
	f, ok := c22Decode(p, data, v)
	if !ok {
		return
	}
	g, isT := f.(*frame.RecvPacket)
	zzsym.Assert(isT, "RECV decoded to another frame type")
	if !isT {
		return
	}
	zzsym.Reach("recv-roundtrip")
	zzsym.Assert(g.Framer.FrameType == frame.RECV, "RECV: header frame type")
	zzsym.Assert(c22FlagsEq(g.Framer, w.Framer), "RECV: header flags differ")
	zzsym.Assert(g.Setting == w.Setting, "RECV: Setting differs")
	zzsym.Assert(g.MsgKey == w.MsgKey, "RECV: MsgKey differs")
	zzsym.Assert(g.FromUID == w.FromUID, "RECV: FromUID differs")
	zzsym.Assert(g.ChannelID == w.ChannelID, "RECV: ChannelID differs")
	zzsym.Assert(g.ChannelType == w.ChannelType, "RECV: ChannelType differs")
	if v >= 3 {
		zzsym.Reach("recv-expire")
		zzsym.Assert(g.Expire == w.Expire, "RECV: Expire differs (version >= 3)")
	}
	zzsym.Assert(g.ClientMsgNo == w.ClientMsgNo, "RECV: ClientMsgNo differs")
	if c22RecvStreamCarried(w.Setting, v) {
		zzsym.Reach("recv-stream")
		zzsym.Assert(g.StreamFlag == w.StreamFlag, "RECV: StreamFlag differs (v2..v4, stream setting)")
		zzsym.Assert(g.StreamNo == w.StreamNo, "RECV: StreamNo differs (v2..v4, stream setting)")
		zzsym.Assert(g.StreamId == w.StreamId, "RECV: StreamId differs (v2..v4, stream setting)")
	}
	zzsym.Assert(g.MessageID == w.MessageID, "RECV: MessageID differs")
	zzsym.Assert(g.MessageSeq == w.MessageSeq, "RECV: MessageSeq differs")
	zzsym.Assert(g.Timestamp == w.Timestamp, "RECV: Timestamp differs")
	if w.Setting.IsSet(frame.SettingTopic) {
		zzsym.Reach("recv-topic")
		zzsym.Assert(g.Topic == w.Topic, "RECV: Topic differs (topic setting)")
	}
	zzsym.Assert(bytes.Equal(g.Payload, w.Payload), "RECV: Payload differs")
	zzsym.Observe("recv", uint64(g.Setting), uint64(g.MessageID), g.MessageSeq, uint64(g.Timestamp), uint64(g.Expire), uint64(len(g.Payload)), uint64(len(data)), uint64(g.RemainingLength))
	zzsym.Reach("recv-trailing")
	zzsym.Assert(c22Trailing(p, data, v, func(f2 frame.Frame) bool {
		g2, isT := f2.(*frame.RecvPacket)
		return isT && c22RecvEq(g2, w, v)
	}), "RECV: trailing bytes changed the decoded frame")
}

// ---------------------------------------------------------------- RECVACK

func Harness_C22_Recvack() {
	v := c22Version()
	w := &frame.RecvackPacket{
		Framer:     c22Framer(),
		MessageID:  zzsym.I64("recvack.messageID"),
		MessageSeq: zzsym.U64("recvack.messageSeq"),
	}
	if v <= frame.LegacyMessageSeqVersion {
		zzsym.Assume(w.MessageSeq <= 0xFFFFFFFF) // protocol limit enforced by encodeMessageSeq
	}
	p := New()
	data, ok := c22Encode(p, w, v)
	if !ok {
		return
	}
	f, ok := c22Decode(p, data, v)
	if !ok {
		return
	}
	g, isT := f.(*frame.RecvackPacket)
	zzsym.Assert(isT, "RECVACK decoded to another frame type")
	if !isT {
		return
	}
	zzsym.Reach("recvack-roundtrip")
	if v > frame.LegacyMessageSeqVersion {
		zzsym.Reach("recvack-u64-seq")
	}
	zzsym.Assert(g.Framer.FrameType == frame.RECVACK, "RECVACK: header frame type")
	zzsym.Assert(c22FlagsEq(g.Framer, w.Framer), "RECVACK: header flags differ")
	zzsym.Assert(g.MessageID == w.MessageID, "RECVACK: MessageID differs")
	zzsym.Assert(g.MessageSeq == w.MessageSeq, "RECVACK: MessageSeq differs")
	zzsym.Observe("recvack", uint64(g.MessageID), g.MessageSeq, uint64(len(data)), uint64(g.RemainingLength))
	zzsym.Reach("recvack-trailing")
	zzsym.Assert(c22Trailing(p, data, v, func(f2 frame.Frame) bool {
		g2, isT := f2.(*frame.RecvackPacket)
		return isT && c22FlagsEq(g2.Framer, w.Framer) && g2.MessageID == w.MessageID && g2.MessageSeq == w.MessageSeq
	}), "RECVACK: trailing bytes changed the decoded frame")
}

// ---------------------------------------------------------------- DISCONNECT

func Harness_C22_Disconnect() {
	v := c22Version()
	w := &frame.DisconnectPacket{
		Framer:     c22Framer(),
		ReasonCode: frame.ReasonCode(zzsym.U8("disconnect.reasonCode")),
		Reason:     c22Str("disconnect.reason"),
	}
	c22CheckDisconnect(w, v)
}

func c22CheckDisconnect(w *frame.DisconnectPacket, v uint8) {
	p := New()
	data, ok := c22Encode(p, w, v)
	if !ok {
		return
	}
	f, ok := c22Decode(p, data, v)
	if !ok {
		return
	}
	g, isT := f.(*frame.DisconnectPacket)
	zzsym.Assert(isT, "DISCONNECT decoded to another frame type")
	if !isT {
		return
	}
	zzsym.Reach("disconnect-roundtrip")
	zzsym.Assert(g.Framer.FrameType == frame.DISCONNECT, "DISCONNECT: header frame type")
	zzsym.Assert(c22FlagsEq(g.Framer, w.Framer), "DISCONNECT: header flags differ")
	zzsym.Assert(g.ReasonCode == w.ReasonCode, "DISCONNECT: ReasonCode differs")
	zzsym.Assert(g.Reason == w.Reason, "DISCONNECT: Reason differs")
	zzsym.Observe("disconnect", uint64(g.ReasonCode), uint64(len(g.Reason)), uint64(len(data)), uint64(g.RemainingLength))
	zzsym.Reach("disconnect-trailing")
	zzsym.Assert(c22Trailing(p, data, v, func(f2 frame.Frame) bool {
		g2, isT := f2.(*frame.DisconnectPacket)
		return isT && c22FlagsEq(g2.Framer, w.Framer) && g2.ReasonCode == w.ReasonCode && g2.Reason == w.Reason
	}), "DISCONNECT: trailing bytes changed the decoded frame")
}

// ---------------------------------------------------------------- SUB

func c22SubEq(g, w *frame.SubPacket) bool {
	return c22FlagsEq(g.Framer, w.Framer) && g.Setting == w.Setting && g.SubNo == w.SubNo &&
		g.ChannelID == w.ChannelID && g.ChannelType == w.ChannelType && g.Action == w.Action && g.Param == w.Param
}

func Harness_C22_Sub() {
	v := c22Version()
	w := &frame.SubPacket{
		Framer:      c22Framer(),
		Setting:     frame.Setting(zzsym.U8("sub.setting")),
		SubNo:       c22Str("sub.subNo"),
		ChannelID:   c22Str("sub.channelID"),
		ChannelType: zzsym.U8("sub.channelType"),
		Action:      frame.Action(zzsym.U8("sub.action")),
		Param:       c22Str("sub.param"),
	}
	p := New()
	data, ok := c22Encode(p, w, v)
	if !ok {
		return
	}
	f, ok := c22Decode(p, data, v)
	if !ok {
		return
	}
	g, isT := f.(*frame.SubPacket)
	zzsym.Assert(isT, "SUB decoded to another frame type")
	if !isT {
		return
	}
	zzsym.Reach("sub-roundtrip")
	zzsym.Assert(g.Framer.FrameType == frame.SUB, "SUB: header frame type")
	zzsym.Assert(c22FlagsEq(g.Framer, w.Framer), "SUB: header flags differ")
	zzsym.Assert(g.Setting == w.Setting, "SUB: Setting differs")
	zzsym.Assert(g.SubNo == w.SubNo, "SUB: SubNo differs")
	zzsym.Assert(g.ChannelID == w.ChannelID, "SUB: ChannelID differs")
	zzsym.Assert(g.ChannelType == w.ChannelType, "SUB: ChannelType differs")
	zzsym.Assert(g.Action == w.Action, "SUB: Action differs")
	zzsym.Assert(g.Param == w.Param, "SUB: Param differs")
	zzsym.Observe("sub", uint64(g.Setting), uint64(g.ChannelType), uint64(g.Action), uint64(len(data)), uint64(g.RemainingLength))
	zzsym.Reach("sub-trailing")
	zzsym.Assert(c22Trailing(p, data, v, func(f2 frame.Frame) bool {
		g2, isT := f2.(*frame.SubPacket)
		return isT && c22SubEq(g2, w)
	}), "SUB: trailing bytes changed the decoded frame")
}

// ---------------------------------------------------------------- SUBACK

func c22SubackEq(g, w *frame.SubackPacket) bool {
	return c22FlagsEq(g.Framer, w.Framer) && g.SubNo == w.SubNo && g.ChannelID == w.ChannelID &&
		g.ChannelType == w.ChannelType && g.Action == w.Action && g.ReasonCode == w.ReasonCode
}

func Harness_C22_Suback() {
	v := c22Version()
	w := &frame.SubackPacket{
		Framer:      c22Framer(),
		SubNo:       c22Str("suback.subNo"),
		ChannelID:   c22Str("suback.channelID"),
		ChannelType: zzsym.U8("suback.channelType"),
		Action:      frame.Action(zzsym.U8("suback.action")),
		ReasonCode:  frame.ReasonCode(zzsym.U8("suback.reasonCode")),
	}
	p := New()
	data, ok := c22Encode(p, w, v)
	if !ok {
		return
	}
	f, ok := c22Decode(p, data, v)
	if !ok {
		return
	}
	g, isT := f.(*frame.SubackPacket)
	zzsym.Assert(isT, "SUBACK decoded to another frame type")
	if !isT {
		return
	}
	zzsym.Reach("suback-roundtrip")
	zzsym.Assert(g.Framer.FrameType == frame.SUBACK, "SUBACK: header frame type")
	zzsym.Assert(c22FlagsEq(g.Framer, w.Framer), "SUBACK: header flags differ")
	zzsym.Assert(g.SubNo == w.SubNo, "SUBACK: SubNo differs")
	zzsym.Assert(g.ChannelID == w.ChannelID, "SUBACK: ChannelID differs")
	zzsym.Assert(g.ChannelType == w.ChannelType, "SUBACK: ChannelType differs")
	zzsym.Assert(g.Action == w.Action, "SUBACK: Action differs")
	zzsym.Assert(g.ReasonCode == w.ReasonCode, "SUBACK: ReasonCode differs")
	zzsym.Observe("suback", uint64(g.ChannelType), uint64(g.Action), uint64(g.ReasonCode), uint64(len(data)), uint64(g.RemainingLength))
	zzsym.Reach("suback-trailing")
	zzsym.Assert(c22Trailing(p, data, v, func(f2 frame.Frame) bool {
		g2, isT := f2.(*frame.SubackPacket)
		return isT && c22SubackEq(g2, w)
	}), "SUBACK: trailing bytes changed the decoded frame")
}

// ---------------------------------------------------------------- EVENT

func c22EventEq(g, w *frame.EventPacket) bool {
	return c22FlagsEq(g.Framer, w.Framer) && g.Id == w.Id && g.Type == w.Type &&
		g.Timestamp == w.Timestamp && bytes.Equal(g.Data, w.Data)
}

func Harness_C22_Event() {
	v := c22Version()
	w := &frame.EventPacket{
		Framer:    c22Framer(),
		Id:        c22Str("event.id"),
		Type:      c22Str("event.type"),
		Timestamp: zzsym.I64("event.timestamp"),
		Data:      c22Bytes("event.data"),
	}
	c22CheckEvent(w, v)
}

func c22CheckEvent(w *frame.EventPacket, v uint8) {
	p := New()
	data, ok := c22Encode(p, w, v)
	if !ok {
		return
	}
	f, ok := c22Decode(p, data, v)
	if !ok {
		return
	}
	g, isT := f.(*frame.EventPacket)
	zzsym.Assert(isT, "EVENT decoded to another frame type")
	if !isT {
		return
	}
	zzsym.Reach("event-roundtrip")
	zzsym.Assert(g.Framer.FrameType == frame.EVENT, "EVENT: header frame type")
	zzsym.Assert(c22FlagsEq(g.Framer, w.Framer), "EVENT: header flags differ")
	zzsym.Assert(g.Id == w.Id, "EVENT: Id differs")
	zzsym.Assert(g.Type == w.Type, "EVENT: Type differs")
	zzsym.Assert(g.Timestamp == w.Timestamp, "EVENT: Timestamp differs")
	zzsym.Assert(bytes.Equal(g.Data, w.Data), "EVENT: Data differs")
	zzsym.Observe("event", uint64(g.Timestamp), uint64(len(g.Data)), uint64(len(data)), uint64(g.RemainingLength))
	zzsym.Reach("event-trailing")
	zzsym.Assert(c22Trailing(p, data, v, func(f2 frame.Frame) bool {
		g2, isT := f2.(*frame.EventPacket)
		return isT && c22EventEq(g2, w)
	}), "EVENT: trailing bytes changed the decoded frame")
}

// ---------------------------------------------------------------- PING / PONG

// PING and PONG are one byte (type<<4). The encoder writes no header flag for them, so no
// flag is wire-carried: the harness leaves the input flags symbolic (they must be ignored)
// and asserts type, size and consumed count. See the note in check.json ("observations").
func Harness_C22_PingPong() {
	v := c22Version()
	p := New()
	var w frame.Frame
	var want frame.FrameType
	if zzsym.Choice("pong", 2) == 1 {
		w = &frame.PongPacket{Framer: c22Framer()}
		want = frame.PONG
	} else {
		w = &frame.PingPacket{Framer: c22Framer()}
		want = frame.PING
	}
	data, ok := c22Encode(p, w, v)
	if !ok {
		return
	}
	zzsym.Assert(len(data) == 1, "PING/PONG must encode to exactly one byte")
	f, ok := c22Decode(p, data, v)
	if !ok {
		return
	}
	zzsym.Assert(f.GetFrameType() == want, "PING/PONG decoded to another frame type")
	if want == frame.PING {
		zzsym.Reach("ping-roundtrip")
		_, isT := f.(*frame.PingPacket)
		zzsym.Assert(isT, "PING decoded to a non-PingPacket")
	} else {
		zzsym.Reach("pong-roundtrip")
		_, isT := f.(*frame.PongPacket)
		zzsym.Assert(isT, "PONG decoded to a non-PongPacket")
	}
	zzsym.Observe("pingpong", uint64(data[0]), uint64(f.GetFrameType()))
	zzsym.Reach("pingpong-trailing")
	zzsym.Assert(c22Trailing(p, data, v, func(f2 frame.Frame) bool { return f2.GetFrameType() == want }),
		"PING/PONG: trailing bytes changed the decoded frame")
}

// ---------------------------------------------------------------- boundaries

func c22Const(n int, b byte) []byte {
	out := make([]byte, n)
	for i := range out {
		out[i] = b
	}
	return out
}

// Harness_C22_Boundaries: one field at a protocol boundary, constant content (kind chosen by Choice):
//
//	0: a length-prefixed string (DISCONNECT.Reason, 2-byte length prefix) of math.MaxInt16 = 32767
//	   bytes, the largest the encoder accepts (3-byte remaining-length varint);
//	1: a SEND payload (not length-prefixed) of PayloadMaxSize bytes, the other strings empty;
//	2..5: EVENT frames whose body size (12 + len(Data), empty Id/Type) is 127, 128, 16383, 16384:
//	   the 1/2-byte and 2/3-byte boundaries of the remaining-length varint.
//
// Under Thorough() kinds 0 and 1 are also run one byte below the limit.
func Harness_C22_Boundaries() {
	v := c22Version()
	kind := zzsym.Choice("boundary.kind", 6)
	below := 0
	if zzsym.Thorough() && kind < 2 {
		below = zzsym.Choice("boundary.below", 2)
	}
	switch kind {
	case 0:
		w := &frame.DisconnectPacket{
			Framer:     c22Framer(),
			ReasonCode: frame.ReasonCode(zzsym.U8("disconnect.reasonCode")),
			Reason:     string(c22Const(32767-below, 'r')),
		}
		zzsym.Reach("string-boundary")
		c22CheckDisconnect(w, v)
	case 1:
		w := &frame.SendPacket{
			Framer:      c22Framer(),
			Setting:     frame.Setting(zzsym.U8("send.setting")),
			Expire:      zzsym.U32("send.expire"),
			ClientSeq:   zzsym.U64("send.clientSeq"),
			ChannelType: zzsym.U8("send.channelType"),
			Payload:     c22Const(PayloadMaxSize-below, 'p'),
		}
		zzsym.Reach("payload-boundary")
		c22CheckSend(w, v)
	default:
		sizes := [4]int{127, 128, 16383, 16384}
		body := sizes[kind-2]
		w := &frame.EventPacket{
			Framer:    c22Framer(),
			Timestamp: zzsym.I64("event.timestamp"),
			Data:      c22Const(body-12, 'd'),
		}
		zzsym.Assert(encodeEventSize(w, v) == body, "harness: EVENT body size is not the intended boundary")
		zzsym.Reach("varint-boundary")
		c22CheckEvent(w, v)
	}
}
