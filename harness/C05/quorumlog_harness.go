package quorumlog

import (
	"github.com/WuKongIM/WuKongIM/internal/zzsym"
)

func c05MaxLen() int {
	if zzsym.Thorough() {
		return 2
	}
	return 1
}

func c05Arr32(name string) (a [32]byte) {
	b := zzsym.Bytes(name, 32)
	copy(a[:], b)
	return a
}

func c05Entry(p string) EntryIdentity {
	return EntryIdentity{
		Version:        zzsym.U16(p + ".version"),
		ChannelEpoch:   zzsym.U64(p + ".epoch"),
		LeaderTerm:     zzsym.U64(p + ".term"),
		FenceVersion:   zzsym.U64(p + ".fence"),
		Index:          zzsym.U64(p + ".index"),
		PreviousTerm:   zzsym.U64(p + ".prevterm"),
		PreviousIndex:  zzsym.U64(p + ".previndex"),
		CommandID:      CommandID(c05Arr32(p + ".cmd")),
		PreviousDigest: EntryDigest(c05Arr32(p + ".prevdigest")),
	}
}

func c05Record(p string) Record { return c05RecordN(p, c05MaxLen(), true) }

// c05RecordN: strings of length 0..max; with vary=false the client message number has the fixed
// length 1 (keeps the quick tier small; the thorough tier varies everything).
func c05RecordN(p string, max int, vary bool) Record {
	if !vary {
		return Record{
			ID: zzsym.U64(p + ".id"), Index: zzsym.U64(p + ".recindex"), Epoch: zzsym.U64(p + ".recepoch"),
			Setting:           zzsym.U8(p + ".setting"),
			FromUID:           zzsym.String(p+".from", zzsym.Choice(p+".fromlen", max+1)),
			ClientMsgNo:       zzsym.String(p+".cno", 1),
			ServerTimestampMS: zzsym.I64(p + ".ts"), SyncOnce: zzsym.Choice(p+".synconce", 2) == 1,
			Payload: zzsym.Bytes(p+".payload", zzsym.Choice(p+".payloadlen", max+1)),
		}
	}
	return Record{
		ID:                zzsym.U64(p + ".id"),
		Index:             zzsym.U64(p + ".recindex"),
		Epoch:             zzsym.U64(p + ".recepoch"),
		Setting:           zzsym.U8(p + ".setting"),
		FromUID:           zzsym.String(p+".from", zzsym.Choice(p+".fromlen", max+1)),
		ClientMsgNo:       zzsym.String(p+".cno", zzsym.Choice(p+".cnolen", max+1)),
		ServerTimestampMS: zzsym.I64(p + ".ts"),
		SyncOnce:          zzsym.Choice(p+".synconce", 2) == 1,
		Payload:           zzsym.Bytes(p+".payload", zzsym.Choice(p+".payloadlen", max+1)),
	}
}

func c05BytesEq(a, b []byte) bool {
	if len(a) != len(b) {
		return false
	}
	eq := true
	for i := range a {
		if a[i] != b[i] {
			eq = false
		}
	}
	return eq
}

// c05SameBound reports equality of every field the digest is documented to bind.
func c05SameBound(e1 EntryIdentity, r1 Record, e2 EntryIdentity, r2 Record) bool {
	return e1.ChannelEpoch == e2.ChannelEpoch && e1.LeaderTerm == e2.LeaderTerm && e1.FenceVersion == e2.FenceVersion &&
		e1.Index == e2.Index && e1.PreviousTerm == e2.PreviousTerm && e1.PreviousIndex == e2.PreviousIndex &&
		e1.CommandID == e2.CommandID && e1.PreviousDigest == e2.PreviousDigest &&
		r1.ID == r2.ID && r1.Setting == r2.Setting && r1.SyncOnce == r2.SyncOnce && r1.ServerTimestampMS == r2.ServerTimestampMS &&
		r1.FromUID == r2.FromUID && r1.ClientMsgNo == r2.ClientMsgNo && c05BytesEq(r1.Payload, r2.Payload)
}

// Harness_C05_DigestBindsEveryField: the byte stream fed to SHA-256 is an injective encoding of
// (authority, index, predecessor, command, message fields): equal digests <=> equal bound fields.
func Harness_C05_DigestBindsEveryField() {
	e1, r1 := c05Entry("a"), c05Record("a")
	e2, r2 := c05Entry("b"), c05Record("b")
	d1 := digestProposalEntry(e1, r1)
	d2 := digestProposalEntry(e2, r2)
	same := c05SameBound(e1, r1, e2, r2)
	zzsym.Reach("digests-computed")
	if d1 == d2 {
		zzsym.Assert(same, "two entries that differ in a bound field have the same digest")
	} else {
		zzsym.Assert(!same, "digest is not a function of the bound fields")
	}
	zzsym.Assert(d1 != EntryDigest{}, "zero digest")
	zzsym.Observe("same", zzsym.B2U(same), zzsym.B2U(d1 == d2))
}

// Harness_C05_VerifyAcceptsExactlySealedContent: VerifyEntry(entry, r) holds exactly for records
// equal, on the bound fields, to the record the entry was derived from.
func Harness_C05_VerifyAcceptsExactlySealedContent() {
	m := ProposalManifest{
		Version: ProposalManifestVersion, ChannelEpoch: zzsym.U64("epoch"), LeaderTerm: zzsym.U64("term"),
		FenceVersion: zzsym.U64("fence"), CommandID: CommandID(c05Arr32("cmd")), BaseOffset: zzsym.U64("base"),
		PreviousTerm: zzsym.U64("prevterm"), PreviousDigest: EntryDigest(c05Arr32("prevdigest")),
	}
	m.PreviousIndex = m.BaseOffset
	n := 1 + zzsym.Choice("records", 2)
	m.LastOffset = m.BaseOffset + uint64(n)
	records := make([]Record, n)
	for i := range records {
		records[i] = c05RecordN("rec", c05MaxLen(), zzsym.Thorough())
	}
	// the documented validity predicate of a proposal (refusals are covered by Harness_C05_SealRefusals)
	zzsym.Assume(m.ChannelEpoch != 0 && m.LeaderTerm != 0 && m.FenceVersion != 0 && m.CommandID != CommandID{})
	zzsym.Assume(m.BaseOffset < 1<<62)
	if m.BaseOffset == 0 {
		zzsym.Assume(m.PreviousTerm == 0 && m.PreviousDigest == EntryDigest{})
	} else {
		zzsym.Assume(m.PreviousTerm != 0 && m.PreviousDigest != EntryDigest{})
	}
	for i := range records {
		zzsym.Assume(records[i].ID != 0 && records[i].Epoch == m.ChannelEpoch && records[i].ServerTimestampMS > 0)
		zzsym.Assume(records[i].Index == 0 || records[i].Index == m.BaseOffset+uint64(i)+1)
	}
	sealed, entries, ok := SealProposalManifest(m, records)
	zzsym.Assert(ok, "a valid proposal was refused")
	zzsym.Reach("sealed")
	zzsym.Assert(len(entries) == n, "entry count")
	zzsym.Assert(sealed.Digest == entries[n-1].Digest, "manifest digest is not the last entry digest")
	zzsym.Assert(sealed.StructurallyValid(), "sealed manifest is not structurally valid")
	for i := range entries {
		zzsym.Assert(entries[i].Index == m.BaseOffset+uint64(i)+1, "entry index")
		zzsym.Assert(VerifyEntry(entries[i], records[i]), "VerifyEntry rejects the content the identity was sealed from")
		if i > 0 {
			zzsym.Assert(entries[i].PreviousDigest == entries[i-1].Digest && entries[i].PreviousIndex == entries[i-1].Index &&
				entries[i].PreviousTerm == entries[i-1].LeaderTerm, "predecessor chain broken inside a proposal")
		} else {
			zzsym.Assert(entries[0].PreviousDigest == m.PreviousDigest && entries[0].PreviousIndex == m.BaseOffset &&
				entries[0].PreviousTerm == m.PreviousTerm, "first entry does not chain to the manifest predecessor")
		}
	}
	// a different candidate record is accepted only if it equals the sealed one on every bound field
	k := zzsym.Choice("which", n)
	other := c05RecordN("other", c05MaxLen(), zzsym.Thorough())
	if VerifyEntry(entries[k], other) {
		zzsym.Reach("other-accepted")
		zzsym.Assert(c05SameBound(entries[k], records[k], entries[k], other), "VerifyEntry accepts content the identity was not sealed from")
		zzsym.Assert(other.Epoch == entries[k].ChannelEpoch && (other.Index == 0 || other.Index == entries[k].Index), "VerifyEntry accepts a record with a foreign epoch or index")
	} else {
		zzsym.Reach("other-rejected")
	}
	// determinism: sealing again gives the same identities
	sealed2, entries2, ok2 := SealProposalManifest(m, records)
	zzsym.Assert(ok2 && sealed2 == sealed && entries2[n-1] == entries[n-1], "SealProposalManifest is not deterministic")
}

// Harness_C05_SealRefusals: a proposal violating the validity predicate is refused, never sealed.
func Harness_C05_SealRefusals() {
	m := ProposalManifest{
		Version: zzsym.U16("version"), ChannelEpoch: zzsym.U64("epoch"), LeaderTerm: zzsym.U64("term"),
		FenceVersion: zzsym.U64("fence"), BaseOffset: zzsym.U64("base"), LastOffset: zzsym.U64("last"),
		PreviousTerm: zzsym.U64("prevterm"), PreviousIndex: zzsym.U64("previndex"),
	}
	m.CommandID[0] = zzsym.U8("cmd0")
	m.PreviousDigest[0] = zzsym.U8("prevdigest0")
	r := Record{ID: zzsym.U64("id"), Index: zzsym.U64("recindex"), Epoch: zzsym.U64("recepoch"), ServerTimestampMS: zzsym.I64("ts")}
	valid := m.Version == ProposalManifestVersion && m.ChannelEpoch != 0 && m.LeaderTerm != 0 && m.FenceVersion != 0 &&
		m.CommandID[0] != 0 && m.LastOffset == m.BaseOffset+1 && m.BaseOffset != ^uint64(0) && m.PreviousIndex == m.BaseOffset &&
		((m.BaseOffset == 0 && m.PreviousTerm == 0 && m.PreviousDigest[0] == 0) || (m.BaseOffset != 0 && m.PreviousTerm != 0 && m.PreviousDigest[0] != 0)) &&
		r.ID != 0 && (r.Index == 0 || r.Index == m.BaseOffset+1) && r.Epoch == m.ChannelEpoch && r.ServerTimestampMS > 0
	_, entries, ok := SealProposalManifest(m, []Record{r})
	if ok {
		zzsym.Reach("accepted")
		zzsym.Assert(valid, "an invalid proposal was sealed")
		zzsym.Assert(len(entries) == 1 && entries[0].Index == m.BaseOffset+1, "sealed entry index")
	} else {
		zzsym.Reach("refused")
		zzsym.Assert(!valid, "a valid proposal was refused")
	}
}
