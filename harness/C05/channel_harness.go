package channel

import (
	"github.com/WuKongIM/WuKongIM/internal/zzsym"
)

func c05ChanRecord(p string, epoch uint64) Record {
	var r Record
	r.ID = zzsym.U64(p + ".id")
	r.Epoch = epoch
	r.Setting = zzsym.U8(p + ".setting")
	r.FromUID = zzsym.String(p+".from", zzsym.Choice(p+".fromlen", 2))
	r.ClientMsgNo = zzsym.String(p+".cno", zzsym.Choice(p+".cnolen", 2))
	r.ServerTimestampMS = zzsym.I64(p + ".ts")
	r.SyncOnce = zzsym.Choice(p+".synconce", 2) == 1
	r.Payload = zzsym.Bytes(p+".payload", zzsym.Choice(p+".payloadlen", 2))
	return r
}

// Harness_C05_ChannelWrapperPassesEveryField: the pkg/channel adapter hands every semantic field
// of a channel Record to the digest: two single-record proposals under the same manifest have the
// same tail digest only if the records agree on all of them.
func Harness_C05_ChannelWrapperPassesEveryField() {
	m := ProposalManifest{Version: ProposalManifestVersion, ChannelEpoch: zzsym.U64("epoch"), LeaderTerm: zzsym.U64("term"),
		FenceVersion: zzsym.U64("fence"), BaseOffset: 0, LastOffset: 1}
	m.CommandID[0] = 1
	zzsym.Assume(m.ChannelEpoch != 0 && m.LeaderTerm != 0 && m.FenceVersion != 0)
	a := c05ChanRecord("a", m.ChannelEpoch)
	b := c05ChanRecord("b", m.ChannelEpoch)
	zzsym.Assume(a.ID != 0 && b.ID != 0 && a.ServerTimestampMS > 0 && b.ServerTimestampMS > 0)
	ma, _, oka := SealProposalManifest(m, []Record{a})
	mb, _, okb := SealProposalManifest(m, []Record{b})
	zzsym.Assert(oka && okb, "valid single-record proposal refused")
	zzsym.Reach("both-sealed")
	payloadEq := len(a.Payload) == len(b.Payload)
	if payloadEq {
		for i := range a.Payload {
			if a.Payload[i] != b.Payload[i] {
				payloadEq = false
			}
		}
	}
	same := a.ID == b.ID && a.Setting == b.Setting && a.FromUID == b.FromUID && a.ClientMsgNo == b.ClientMsgNo &&
		a.ServerTimestampMS == b.ServerTimestampMS && a.SyncOnce == b.SyncOnce && payloadEq
	if ma.Digest == mb.Digest {
		zzsym.Assert(same, "channel records differing in a semantic field seal to the same digest")
	} else {
		zzsym.Assert(!same, "equal channel records seal to different digests")
	}
}
