package workload

import (
	"github.com/WuKongIM/WuKongIM/internal/zzsym"
	"github.com/WuKongIM/WuKongIM/pkg/cluster/routing"
	"github.com/WuKongIM/WuKongIM/pkg/hashslot"
)

func c21KeyLen() int {
	max := 6
	if zzsym.Thorough() {
		max = 6
	}
	return zzsym.Choice("len", max+1)
}

// Harness_C21_Agree: the three free-standing key->hash-slot functions agree for every key
// (arbitrary bytes, including non-UTF-8 and empty) and every count, and the result is < count.
func Harness_C21_Agree() {
	n := c21KeyLen()
	key := zzsym.String("key", n)
	count := zzsym.U16("count")
	a := routing.HashSlotForKey(key, count)
	b := hashslot.HashSlotForKey(key, count)
	c := physicalHashSlotForKey(key, count)
	zzsym.Reach("computed")
	zzsym.Assert(a == b, "routing.HashSlotForKey != hashslot.HashSlotForKey")
	zzsym.Assert(a == c, "routing.HashSlotForKey != workload.physicalHashSlotForKey")
	if count > 0 {
		zzsym.Reach("nonzero-count")
		zzsym.Assert(a < count && b < count && c < count, "hash slot not below count")
	} else {
		zzsym.Assert(a == 0 && b == 0 && c == 0, "count 0 must map to slot 0")
	}
	zzsym.Observe("slot", uint64(a), uint64(b), uint64(c))
}

// Harness_C21_Deterministic: two evaluations on equal (key,count) give equal results
// even though they are separated by an arbitrary other evaluation (no hidden state).
func Harness_C21_Deterministic() {
	n := c21KeyLen()
	key := zzsym.String("key", n)
	other := zzsym.String("other", 2)
	count := zzsym.U16("count")
	a1 := routing.HashSlotForKey(key, count)
	_ = routing.HashSlotForKey(other, zzsym.U16("othercount"))
	_ = hashslot.HashSlotForKey(other, zzsym.U16("othercount2"))
	a2 := routing.HashSlotForKey(key, count)
	b2 := hashslot.HashSlotForKey(key, count)
	zzsym.Reach("twice")
	zzsym.Assert(a1 == a2 && a1 == b2, "result depends on something other than key and count")
}
