package hashslot

import (
	"errors"

	"github.com/WuKongIM/WuKongIM/internal/zzsym"
	"github.com/WuKongIM/WuKongIM/pkg/slot/multiraft"
)

// ---------------------------------------------------------------- bounds and builders

func c20MaxH() int {
	if zzsym.Thorough() {
		return 8
	}
	return 6
}

func c20MaxSlot() int {
	if zzsym.Thorough() {
		return 4
	}
	return 3
}

// c20SlotID returns a symbolic physical slot id in lo..hi.
func c20SlotID(name string, lo, hi int) multiraft.SlotID {
	id := multiraft.SlotID(zzsym.U64(name))
	zzsym.Assume(id >= multiraft.SlotID(lo) && id <= multiraft.SlotID(hi))
	return id
}

// c20Table builds, through the package's own constructor and Reassign, a fully assigned table of h hash slots
// whose owners are arbitrary slot ids in 1..c20MaxSlot(). want is the harness' own record of the assignment it
// asked for. With enumerate the executor explores every assignment on its own path (the rebalancer keys maps and
// sorts by owner, so it would fork over them anyway); otherwise the owners stay symbolic solver variables.
func c20Table(h int, enumerate bool) (*HashSlotTable, []multiraft.SlotID) {
	t := NewHashSlotTable(uint16(h), 0)
	want := make([]multiraft.SlotID, h)
	for i := 0; i < h; i++ {
		var id multiraft.SlotID
		if enumerate {
			id = multiraft.SlotID(1 + zzsym.Choice("owner", c20MaxSlot()))
		} else {
			id = c20SlotID("owner", 1, c20MaxSlot())
		}
		t.Reassign(uint16(i), id)
		want[i] = id
	}
	return t, want
}

// c20Counts returns, for every slot id 0..c20MaxSlot()+1, how many hash slots Lookup maps to it (branch free).
func c20Counts(t *HashSlotTable, h int) []int {
	cnt := make([]int, c20MaxSlot()+2)
	for i := 0; i < h; i++ {
		owner := t.Lookup(uint16(i))
		for s := range cnt {
			cnt[s] += int(zzsym.B2U(owner == multiraft.SlotID(s)))
		}
	}
	return cnt
}

// c20Balanced: every participating slot owns floor(h/n) or ceil(h/n) hash slots, n being the number of
// participating slots, and no other slot owns anything. (n == 0: nothing may be owned at all.)
func c20Balanced(cnt []int, part []bool, h int) bool {
	n := 0
	for s := range part {
		if part[s] {
			n++
		}
	}
	lo, hi := 0, 0
	if n > 0 {
		lo = h / n
		hi = (h + n - 1) / n
	}
	ok := true
	for s := range cnt {
		if part[s] {
			ok = ok && cnt[s] >= lo && cnt[s] <= hi
		} else {
			ok = ok && cnt[s] == 0
		}
	}
	return ok
}

// c20ActiveSet: the slot ids that own at least one hash slot (owners are enumerated, so this is concrete).
func c20ActiveSet(cnt []int) []bool {
	part := make([]bool, len(cnt))
	for s := 1; s < len(cnt); s++ {
		part[s] = cnt[s] > 0
	}
	return part
}

func c20CountTrue(b []bool) int {
	n := 0
	for _, x := range b {
		if x {
			n++
		}
	}
	return n
}

// c20AddMigrations starts up to two migrations with symbolic arguments (effective ones: the source is the
// current owner) and moves each to a symbolic phase.
func c20AddMigrations(t *HashSlotTable, h int) int {
	if h == 0 {
		return 0
	}
	m := zzsym.Choice("migrations", 3)
	for k := 0; k < m; k++ {
		hs := zzsym.U16("mig.hashslot")
		zzsym.Assume(int(hs) < h)
		src := t.Lookup(hs)
		dst := c20SlotID("mig.target", 1, c20MaxSlot()+1)
		zzsym.Assume(dst != src)
		t.StartMigration(hs, src, dst)
		t.AdvanceMigration(hs, MigrationPhase(zzsym.U8("mig.phase")))
	}
	return m
}

// c20Snapshot is the harness' copy of the observable state of a table.
type c20Snapshot struct {
	version    uint64
	count      uint16
	assignment []multiraft.SlotID
	migrations []HashSlotMigration // sorted by hash slot (ActiveMigrations)
}

func c20Snap(t *HashSlotTable) c20Snapshot {
	s := c20Snapshot{version: t.Version(), count: t.HashSlotCount()}
	s.assignment = append(s.assignment, t.assignment...)
	s.migrations = append(s.migrations, t.ActiveMigrations()...)
	return s
}

// c20SameState compares everything except the version.
func c20SameState(a, b c20Snapshot) bool {
	if a.count != b.count || len(a.assignment) != len(b.assignment) || len(a.migrations) != len(b.migrations) {
		return false
	}
	same := true
	for i := range a.assignment {
		same = same && a.assignment[i] == b.assignment[i]
	}
	for i := range a.migrations {
		same = same && a.migrations[i] == b.migrations[i]
	}
	return same
}

// c20VersionDiscipline is the obligation of every mutator.
func c20VersionDiscipline(before, after c20Snapshot) {
	same := c20SameState(before, after)
	if same {
		zzsym.Reach("no-op")
	} else {
		zzsym.Reach("effective")
	}
	zzsym.Assert(!same || after.version == before.version, "state unchanged but the version moved")
	zzsym.Assert(same || after.version == before.version+1, "state changed but the version did not increase by exactly one")
	zzsym.Assert(after.version >= before.version, "version decreased")
	zzsym.Observe("version", before.version, after.version, zzsym.B2U(same))
}

// c20MutatorState: a table with arbitrary owners and up to two active migrations.
func c20MutatorState() (*HashSlotTable, int) {
	h := zzsym.Choice("H", c20MaxH()+1)
	t, _ := c20Table(h, false)
	c20AddMigrations(t, h)
	// one arbitrary earlier step of the history: a reassignment issued while migrations are active
	// (e.g. the migrating hash slot already handed to its target) is a reachable pre-state too
	if zzsym.Choice("pre.reassign", 2) == 1 {
		t.Reassign(zzsym.U16("pre.hashslot"), c20SlotID("pre.slot", 1, c20MaxSlot()+1))
	}
	return t, h
}

// ---------------------------------------------------------------- Lookup

// Harness_C20_LookupTotal: Lookup is total and single valued: inside the table it returns exactly the owner that
// was assigned (never 0, never another id), outside it returns 0; active migrations do not change it.
func Harness_C20_LookupTotal() {
	h := zzsym.Choice("H", c20MaxH()+1)
	t, want := c20Table(h, false)
	c20AddMigrations(t, h)
	q := zzsym.U16("q")
	got := t.Lookup(q)
	again := t.Lookup(q)
	zzsym.Assert(got == again, "Lookup is not single valued")
	if int(q) < h {
		zzsym.Reach("inside")
		zzsym.Assert(got == want[q], "Lookup differs from the assigned owner")
		zzsym.Assert(got >= 1 && got <= multiraft.SlotID(c20MaxSlot()), "Lookup of an assigned hash slot is not a slot id")
	} else {
		zzsym.Reach("outside")
		zzsym.Assert(got == 0, "Lookup outside the table must be 0")
	}
	zzsym.Assert(int(t.HashSlotCount()) == h && len(t.assignment) == h, "hash slot count differs from the assignment length")
	var none *HashSlotTable
	zzsym.Assert(none.Lookup(q) == 0, "nil table Lookup must be 0")
	zzsym.Observe("lookup", uint64(got), uint64(t.Version()))
}

// Harness_C20_Partition: HashSlotsOf partitions the hash slots: every hash slot is listed by exactly one slot id
// (its Lookup), lists are strictly increasing, ids outside 1..S own nothing.
func Harness_C20_Partition() {
	h := zzsym.Choice("H", c20MaxH()+1)
	t, _ := c20Table(h, true)
	total := 0
	listed := make([]int, h)
	for s := 0; s <= c20MaxSlot()+1; s++ {
		hs := t.HashSlotsOf(multiraft.SlotID(s))
		if s == 0 || s == c20MaxSlot()+1 {
			zzsym.Assert(len(hs) == 0, "a slot id outside the assigned range owns hash slots")
		}
		total += len(hs)
		for i, x := range hs {
			zzsym.Assert(int(x) < h, "HashSlotsOf lists a hash slot outside the table")
			zzsym.Assert(t.Lookup(x) == multiraft.SlotID(s), "HashSlotsOf lists a hash slot that Lookup maps elsewhere")
			zzsym.Assert(i == 0 || hs[i-1] < x, "HashSlotsOf is not strictly increasing")
			if int(x) < h {
				listed[x]++
			}
		}
	}
	zzsym.Reach("partition")
	zzsym.Assert(total == h, "hash slots are not partitioned among the slot ids")
	for i := 0; i < h; i++ {
		zzsym.Assert(listed[i] == 1, "a hash slot is not owned by exactly one slot")
	}
	zzsym.Observe("partition", uint64(total), t.Version())
}

// ---------------------------------------------------------------- encode / decode

// Harness_C20_EncodeDecode: DecodeHashSlotTable(Encode(t)) equals t: version, count, assignment, migrations
// with their phases. Owners, targets, phases and the version are arbitrary 64/8-bit values here.
func Harness_C20_EncodeDecode() {
	h := zzsym.Choice("H", c20MaxH()+1)
	t := NewHashSlotTable(uint16(h), 0)
	assigned := h
	if h > 0 && zzsym.Choice("last-unassigned", 2) == 1 {
		assigned = h - 1 // the last hash slot keeps owner 0
	}
	for i := 0; i < assigned; i++ {
		owner := multiraft.SlotID(zzsym.U64("owner"))
		zzsym.Assume(owner != 0)
		t.Reassign(uint16(i), owner)
	}
	m := 0
	if h > 0 {
		m = zzsym.Choice("migrations", 3)
	}
	for k := 0; k < m; k++ {
		hs := zzsym.U16("mig.hashslot")
		zzsym.Assume(int(hs) < h)
		src, dst := t.Lookup(hs), multiraft.SlotID(zzsym.U64("mig.target"))
		zzsym.Assume(src != 0 && dst != 0 && dst != src) // an effective StartMigration
		t.StartMigration(hs, src, dst)
		t.AdvanceMigration(hs, MigrationPhase(zzsym.U8("mig.phase")))
	}
	t.version = zzsym.U64("version") // any version, not only the small ones the mutators above produce
	before := c20Snap(t)

	enc := t.Encode()
	dec, err := DecodeHashSlotTable(enc)
	zzsym.Reach("round-trip")
	if len(before.migrations) == 2 {
		zzsym.Reach("two-migrations")
	}
	zzsym.Assert(err == nil && dec != nil, "encoded table does not decode")
	if err != nil || dec == nil {
		return
	}
	after := c20Snap(dec)
	zzsym.Assert(after.version == before.version, "version changed by encode/decode")
	zzsym.Assert(after.count == before.count && int(after.count) == h, "hash slot count changed by encode/decode")
	zzsym.Assert(c20SameState(before, after), "assignment or migrations changed by encode/decode")
	zzsym.Assert(len(dec.migrations) == len(t.migrations), "number of migrations changed by encode/decode")
	// Encode must not have modified t
	zzsym.Assert(c20SameState(before, c20Snap(t)) && t.Version() == before.version, "Encode modified the table")
	// canonical: re-encoding the decoded table gives the same bytes
	enc2 := dec.Encode()
	same := len(enc) == len(enc2)
	for i := 0; same && i < len(enc); i++ {
		same = enc[i] == enc2[i]
	}
	zzsym.Assert(same, "re-encoding the decoded table gives different bytes")
	zzsym.Observe("enc", uint64(len(enc)), before.version, uint64(len(before.migrations)))
}

// Harness_C20_DecodeArbitrary: arbitrary bytes never make the decoder panic (an uncaught panic is reported by the
// executor); an error comes with a nil table and wraps ErrInvalidTable, a success with a table on which Lookup is
// total and whose size explains the input length.
func Harness_C20_DecodeArbitrary() {
	max := 40
	if zzsym.Thorough() {
		max = 62
	}
	n := zzsym.Choice("n", max+1)
	data := zzsym.Bytes("data", n)
	if n >= 4 {
		// the decoder allocates hashSlotCount entries before it looks at the length: every count that can fit
		// (and the first that cannot) is explored, larger ones by representatives
		cnt := int(data[2])<<8 | int(data[3])
		fit := 4
		if zzsym.Thorough() {
			fit = 7
		}
		zzsym.Assume(cnt <= fit || cnt == 255 || cnt == 256 || cnt == 65535)
	}
	t, err := DecodeHashSlotTable(data)
	if err != nil {
		zzsym.Reach("rejected")
		zzsym.Assert(t == nil, "decode error with a non-nil table")
		zzsym.Assert(errors.Is(err, ErrInvalidTable), "decode error does not wrap ErrInvalidTable")
		zzsym.Observe("rejected", uint64(n))
		return
	}
	zzsym.Reach("accepted")
	zzsym.Assert(t != nil, "decode success with a nil table")
	if t == nil {
		return
	}
	if len(t.migrations) > 0 {
		zzsym.Reach("accepted-with-migration")
	}
	h := int(t.HashSlotCount())
	zzsym.Assert(len(t.assignment) == h, "decoded assignment length differs from the hash slot count")
	zzsym.Assert(n >= 12+8*h, "decoded more hash slots than the input holds")
	zzsym.Assert(n == 12+8*h || n >= 14+8*h, "accepted input has a truncated migration section")
	q := zzsym.U16("q")
	got := t.Lookup(q)
	if int(q) < h {
		zzsym.Assert(got == t.assignment[q], "Lookup on a decoded table differs from its assignment")
	} else {
		zzsym.Assert(got == 0, "Lookup outside a decoded table must be 0")
	}
	zzsym.Observe("accepted", uint64(n), uint64(h), t.Version(), uint64(len(t.migrations)))
}

// ---------------------------------------------------------------- mutators and the version

func c20AnyHashSlot() uint16 { return zzsym.U16("op.hashslot") }

func Harness_C20_Reassign() {
	t, _ := c20MutatorState()
	before := c20Snap(t)
	t.Reassign(c20AnyHashSlot(), c20SlotID("op.slot", 0, c20MaxSlot()+1))
	c20VersionDiscipline(before, c20Snap(t))
}

func Harness_C20_StartMigration() {
	t, _ := c20MutatorState()
	before := c20Snap(t)
	t.StartMigration(c20AnyHashSlot(), c20SlotID("op.source", 0, c20MaxSlot()+1), c20SlotID("op.target", 0, c20MaxSlot()+1))
	c20VersionDiscipline(before, c20Snap(t))
}

func Harness_C20_AdvanceMigration() {
	t, _ := c20MutatorState()
	before := c20Snap(t)
	t.AdvanceMigration(c20AnyHashSlot(), MigrationPhase(zzsym.U8("op.phase")))
	c20VersionDiscipline(before, c20Snap(t))
}

func Harness_C20_FinalizeMigration() {
	t, _ := c20MutatorState()
	before := c20Snap(t)
	hs := c20AnyHashSlot()
	mig := t.GetMigration(hs)
	t.FinalizeMigration(hs)
	after := c20Snap(t)
	c20VersionDiscipline(before, after)
	if mig != nil {
		zzsym.Reach("finalized")
		zzsym.Assert(!c20SameState(before, after), "finalizing an active migration changed nothing")
	}
}

func Harness_C20_AbortMigration() {
	t, _ := c20MutatorState()
	before := c20Snap(t)
	hs := c20AnyHashSlot()
	mig := t.GetMigration(hs)
	t.AbortMigration(hs)
	after := c20Snap(t)
	c20VersionDiscipline(before, after)
	if mig != nil {
		zzsym.Reach("aborted")
		zzsym.Assert(!c20SameState(before, after), "aborting an active migration changed nothing")
	}
}

// ---------------------------------------------------------------- plans

// c20CheckAndApply asserts the per-plan obligations (hash slots pairwise distinct and inside the table, From is
// the current owner, To differs from From and is a slot id) and applies the plan through the table's own
// StartMigration/FinalizeMigration.
func c20CheckAndApply(t *HashSlotTable, h int, plan []MigrationPlan) {
	distinct := true
	for i := range plan {
		for j := i + 1; j < len(plan); j++ {
			distinct = distinct && plan[i].HashSlot != plan[j].HashSlot
		}
	}
	zzsym.Assert(distinct, "a plan moves the same hash slot more than once")
	zzsym.Assert(len(plan) <= h, "a plan has more steps than there are hash slots")
	for _, step := range plan {
		zzsym.Assert(int(step.HashSlot) < h, "plan step names a hash slot outside the table")
		zzsym.Assert(step.From == t.Lookup(step.HashSlot), "plan step From is not the current owner of the hash slot")
		zzsym.Assert(step.To != step.From, "plan step moves a hash slot to its current owner")
		zzsym.Assert(step.To != 0, "plan step moves a hash slot to slot 0")
		v := t.Version()
		t.StartMigration(step.HashSlot, step.From, step.To)
		t.FinalizeMigration(step.HashSlot)
		zzsym.Assert(t.Version() == v+2, "applying a plan step did not start and finalize one migration")
	}
}

// Harness_C20_RebalancePlan: from ANY fully assigned table, the rebalance plan is well formed and after applying
// it every participating (active) slot holds floor(H/n) or ceil(H/n) hash slots; nothing goes to other slots.
func Harness_C20_RebalancePlan() {
	h := zzsym.Choice("H", c20MaxH()+1)
	t, _ := c20Table(h, true)
	pre := c20Counts(t, h)
	part := c20ActiveSet(pre) // the participating slots of a rebalance are the active ones
	plan := ComputeRebalancePlan(t)
	c20CheckAndApply(t, h, plan)
	post := c20Counts(t, h)
	zzsym.Reach("rebalanced")
	if len(plan) > 0 {
		zzsym.Reach("rebalance-moves")
	}
	zzsym.Assert(c20Balanced(post, part, h), "after the rebalance plan a participating slot is not within floor/ceil of H/n")
	zzsym.Observe("rebalance", uint64(len(plan)), uint64(c20CountTrue(part)), t.Version())
}

// Harness_C20_AddSlotPlan: from a BALANCED fully assigned table, the add plan is well formed and afterwards the
// table is balanced for the old slots plus the new one.
func Harness_C20_AddSlotPlan() {
	h := zzsym.Choice("H", c20MaxH()+1)
	t, _ := c20Table(h, true)
	pre := c20Counts(t, h)
	part := c20ActiveSet(pre)
	zzsym.Assume(c20Balanced(pre, part, h))
	newID := 1 + zzsym.Choice("new", c20MaxSlot())
	wasActive := part[newID]
	plan := ComputeAddSlotPlan(t, multiraft.SlotID(newID))
	c20CheckAndApply(t, h, plan)
	post := c20Counts(t, h)
	zzsym.Reach("added")
	if wasActive {
		zzsym.Reach("added-existing-slot")
	} else {
		zzsym.Reach("added-new-slot")
	}
	if len(plan) > 0 {
		zzsym.Reach("add-moves")
	}
	part[newID] = true // participating: the previously active slots and the new one
	zzsym.Assert(c20Balanced(post, part, h), "after the add plan a participating slot is not within floor/ceil of H/(n+1)")
	zzsym.Observe("add", uint64(len(plan)), uint64(c20CountTrue(part)), t.Version())
}

// Harness_C20_RemoveSlotPlan: from a BALANCED fully assigned table with at least one other active slot, the
// remove plan is well formed, afterwards the removed slot holds nothing and the rest is balanced.
func Harness_C20_RemoveSlotPlan() {
	h := zzsym.Choice("H", c20MaxH()+1)
	t, _ := c20Table(h, true)
	pre := c20Counts(t, h)
	part := c20ActiveSet(pre)
	zzsym.Assume(c20Balanced(pre, part, h))
	rmID := 1 + zzsym.Choice("remove", c20MaxSlot())
	holds := part[rmID]
	// a slot can only be emptied when another slot remains to receive its hash slots
	zzsym.Assume(!holds || c20CountTrue(part) >= 2)
	plan := ComputeRemoveSlotPlan(t, multiraft.SlotID(rmID))
	c20CheckAndApply(t, h, plan)
	post := c20Counts(t, h)
	zzsym.Reach("removed")
	if holds {
		zzsym.Reach("removed-active-slot")
	} else {
		zzsym.Reach("removed-idle-slot")
	}
	if len(plan) > 0 {
		zzsym.Reach("remove-moves")
	}
	zzsym.Assert(post[rmID] == 0, "the removed slot still holds hash slots")
	part[rmID] = false // participating: the remaining active slots
	zzsym.Assert(c20Balanced(post, part, h), "after the remove plan a remaining slot is not within floor/ceil of H/(n-1)")
	zzsym.Observe("remove", uint64(len(plan)), uint64(c20CountTrue(part)), t.Version())
}
