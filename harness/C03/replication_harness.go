package replication

import (
	"context"
	"errors"

	"github.com/WuKongIM/WuKongIM/internal/zzsym"
	ch "github.com/WuKongIM/WuKongIM/pkg/channel"
)

// ---------------------------------------------------------------------------------------------
// Fakes of the quorumLog ports (ReplicaStore + commandStore, recoveryDispatcher,
// durabilityDispatcher). ONE fact table - the local durable log - backs all of them, every
// completion callback is invoked synchronously, every call is counted.
// ---------------------------------------------------------------------------------------------

const (
	c03Key   = ch.ChannelKey("1:c")
	c03Local = ch.NodeID(1)
)

var c03ChanID = ch.ChannelID{ID: "c", Type: 1}

type c03PortErr struct{}

func (*c03PortErr) Error() string { return "c03: port failure" }

// local durability behaviours
const (
	c03LocalHonest        = iota // the store contract without faults: Durable / AlreadyDurable / Conflict
	c03LocalLostWritten          // Unknown + error, the write happened (response lost)
	c03LocalLostUnwritten        // Unknown + error, nothing written
	c03LocalRefused              // DefinitelyNotWritten + error
	c03LocalSubmitError          // submit returns an error, no completion is transferred
	c03LocalModes
)

// follower durability behaviours
const (
	c03FolDurable = iota
	c03FolUnknown
	c03FolConflict
	c03FolRefused
	c03FolSubmitError
	c03FolModes
)

type c03Env struct {
	// behaviour scripts: consumed one element per call, afterwards the behaviour is a fresh
	// zzsym.Choice per call.
	localPlan []int
	folPlan   []int
	// the behaviours an unscripted call chooses from (nil = all)
	localChoices []int
	folChoices   []int
	// recovery behaviour, decided when recovery first reaches the port: 0 = decide by zzsym.Choice,
	// 1 = works, 2 = fails (every probe submission refused / ReplicaStore.Load fails)
	probeMode int
	loadMode  int

	// the cluster log: `log` holds every proposal that is durable on the local store, in order.
	// Followers and the committed frontier are reported identical to the local store.
	log []durableProposal
	// base is the local frontier below the first element of log (a channel built directly in a
	// ready state); only its tail entry is known.
	base ReplicaState

	probes, fetches                      int
	loads, syncs, replaces, storeFetches int
	lookups                              int
	localSubmits, replicaSubmits         int
	folDurableAcks                       int
	lastLocal                            durableProposal
}

func (e *c03Env) dispatches() int  { return e.localSubmits + e.replicaSubmits }
func (e *c03Env) storeWrites() int { return e.syncs + e.replaces }
func (e *c03Env) portCalls() int {
	return e.probes + e.fetches + e.loads + e.syncs + e.replaces + e.storeFetches + e.lookups + e.localSubmits + e.replicaSubmits
}

func (e *c03Env) next(plan *[]int, choices []int, name string, n int) int {
	if len(*plan) > 0 {
		v := (*plan)[0]
		*plan = (*plan)[1:]
		return v
	}
	if len(choices) > 0 {
		return choices[zzsym.Choice(name, len(choices))]
	}
	return zzsym.Choice(name, n)
}

// localState is the exact durable frontier of the fake store.
func (e *c03Env) localState() ReplicaState {
	if len(e.log) == 0 {
		return e.base
	}
	last := e.log[len(e.log)-1]
	_, entries, ok := ch.SealProposalManifest(last.manifest, last.records)
	if !ok {
		panic("c03: stored proposal does not seal")
	}
	return ReplicaState{LEO: last.last, Committed: last.last, Manifest: last.manifest, TailIdentity: entries[len(entries)-1]}
}

func (e *c03Env) identityAt(index uint64) (ch.EntryIdentity, bool) {
	if index != 0 && index == e.base.LEO {
		return e.base.TailIdentity, true
	}
	for _, p := range e.log {
		if index < p.first || index > p.last {
			continue
		}
		_, entries, ok := ch.SealProposalManifest(p.manifest, p.records)
		if !ok {
			panic("c03: stored proposal does not seal")
		}
		return entries[index-p.first], true
	}
	return ch.EntryIdentity{}, false
}

func (e *c03Env) probeEntries(indexes []uint64) []EntryProbe {
	var out []EntryProbe
	for _, index := range indexes {
		identity, present := e.identityAt(index)
		out = append(out, EntryProbe{Index: index, Present: present, Identity: identity})
	}
	return out
}

// --- recoveryDispatcher
func (e *c03Env) submitRecoveryProbe(_ context.Context, query recoveryProbeQuery, complete func(ProbeResult, error)) error {
	e.probes++
	if e.probeMode == 0 {
		e.probeMode = 1 + zzsym.Choice("probe.fails", 2)
	}
	if e.probeMode == 2 {
		return &c03PortErr{}
	}
	request := ProbeRequest{ChannelKey: query.ChannelKey, ChannelID: query.ChannelID, Leader: query.Leader, Follower: query.Voter, Indexes: query.Indexes}
	complete(ProbeResult{Proof: probeProofFor(request), State: e.localState(), Entries: e.probeEntries(query.Indexes)}, nil)
	return nil
}

func (e *c03Env) submitRecoveryFetch(_ context.Context, _ recoveryFetchQuery, _ func(FetchResult, error)) error {
	e.fetches++
	return &c03PortErr{} // no donor page is ever needed: every voter already holds the proved prefix
}

// --- ReplicaStore + commandStore
func (e *c03Env) Load(_ context.Context, batch LoadBatch) (LoadBatchResult, error) {
	e.loads++
	if e.loadMode == 0 {
		e.loadMode = 1 + zzsym.Choice("load.fails", 2)
	}
	if e.loadMode == 2 {
		return LoadBatchResult{}, &c03PortErr{}
	}
	var out LoadBatchResult
	for _, item := range batch.Items {
		out.Items = append(out.Items, LoadResult{State: e.localState(), Entries: e.probeEntries(item.ProbeIndexes)})
	}
	return out, nil
}

func (e *c03Env) Sync(_ context.Context, mutations []Mutation) []MutationResult {
	e.syncs++
	out := make([]MutationResult, len(mutations))
	for i := range out {
		out[i] = MutationResult{Outcome: ch.AppendOutcomeDefinitelyNotWritten, Err: &c03PortErr{}}
	}
	return out
}

func (e *c03Env) Replace(_ context.Context, items []RecoveryReplacement) []RecoveryReplacementResult {
	e.replaces++
	out := make([]RecoveryReplacementResult, len(items))
	for i := range out {
		out[i] = RecoveryReplacementResult{Outcome: ch.AppendOutcomeDefinitelyNotWritten, Err: &c03PortErr{}}
	}
	return out
}

func (e *c03Env) Fetch(_ context.Context, items []FetchRange) []FetchRangeResult {
	e.storeFetches++
	out := make([]FetchRangeResult, len(items))
	for i := range out {
		out[i] = FetchRangeResult{Err: &c03PortErr{}}
	}
	return out
}

func (e *c03Env) LookupCommands(_ context.Context, lookups []CommandLookup) []CommandLookupResult {
	e.lookups++
	out := make([]CommandLookupResult, len(lookups))
	for i, lookup := range lookups {
		for _, p := range e.log {
			if p.manifest.CommandID == lookup.CommandID {
				out[i] = CommandLookupResult{Manifest: p.manifest, Records: cloneRecords(p.records), Found: true}
			}
		}
	}
	return out
}

// --- durabilityDispatcher
func (e *c03Env) submitLocal(_ context.Context, proposal durableProposal, complete func(durabilityCompletion)) error {
	e.localSubmits++
	e.lastLocal = proposal
	mode := e.next(&e.localPlan, e.localChoices, "local.mode", c03LocalModes)
	if mode == c03LocalSubmitError {
		return &c03PortErr{}
	}
	// what the exact-base store contract says about this proposal
	known, identical := false, false
	for _, p := range e.log {
		if p.manifest.CommandID == proposal.manifest.CommandID {
			known = true
			identical = p.manifest == proposal.manifest
		}
	}
	honest := ch.AppendOutcomeConflict
	switch {
	case known && identical:
		honest = ch.AppendOutcomeAlreadyDurable
	case !known && proposal.manifest.BaseOffset == e.localState().LEO:
		honest = ch.AppendOutcomeDurable
	}
	written := honest == ch.AppendOutcomeDurable && (mode == c03LocalHonest || mode == c03LocalLostWritten)
	if written {
		e.log = append(e.log, proposal.freeze())
	}
	switch mode {
	case c03LocalHonest:
		if honest.Durable() {
			complete(durabilityCompletion{outcome: honest})
		} else {
			complete(durabilityCompletion{outcome: honest, err: ch.ErrLogConflict})
		}
	case c03LocalLostWritten, c03LocalLostUnwritten:
		complete(durabilityCompletion{outcome: ch.AppendOutcomeUnknown, err: &c03PortErr{}})
	default:
		complete(durabilityCompletion{outcome: ch.AppendOutcomeDefinitelyNotWritten, err: ch.ErrBackpressured})
	}
	return nil
}

func (e *c03Env) submitReplica(_ context.Context, _ ch.NodeID, _ durableProposal, complete func(durabilityCompletion)) error {
	e.replicaSubmits++
	switch e.next(&e.folPlan, e.folChoices, "follower.mode", c03FolModes) {
	case c03FolDurable:
		e.folDurableAcks++
		complete(durabilityCompletion{outcome: ch.AppendOutcomeDurable})
	case c03FolUnknown:
		complete(durabilityCompletion{outcome: ch.AppendOutcomeUnknown, err: &c03PortErr{}})
	case c03FolConflict:
		complete(durabilityCompletion{outcome: ch.AppendOutcomeConflict, err: ch.ErrLogConflict})
	case c03FolRefused:
		complete(durabilityCompletion{outcome: ch.AppendOutcomeDefinitelyNotWritten, err: ch.ErrBackpressured})
	default:
		return &c03PortErr{}
	}
	return nil
}

// ---------------------------------------------------------------------------------------------
// builders
// ---------------------------------------------------------------------------------------------

func c03NewLog(env *c03Env, maxRetained int) *quorumLog {
	l, err := newQuorumLog(quorumLogConfig{
		Local: c03Local, Store: env, Recovery: env, Durability: env,
		RecoveryTimeout: 1000000000, RecoveryPageBytes: 1 << 16,
		MaxChannels: 2, MaxVoters: 3, MaxProposalRecords: 2, MaxProposalBytes: 1 << 12, MaxRetainedCommands: maxRetained,
	})
	if err != nil || l == nil {
		panic("c03: newQuorumLog refused a valid configuration")
	}
	return l
}

func c03SymID(name string) AuthorityID {
	return AuthorityID{ChannelEpoch: zzsym.U64(name + ".epoch"), LeaderTerm: zzsym.U64(name + ".term"), FenceVersion: zzsym.U64(name + ".fence")}
}

// c03Topology: a few valid voter configurations that all contain the local node.
func c03Topology(name string, n int) ([]ch.NodeID, int) {
	switch zzsym.Choice(name+".topology", n) {
	case 0:
		return []ch.NodeID{1, 2, 3}, 2
	case 1:
		return []ch.NodeID{1}, 1
	case 2:
		return []ch.NodeID{1, 2, 3}, 3
	default:
		return []ch.NodeID{1, 3, 2}, 2
	}
}

func c03Authority(name string, topologies int) Authority {
	voters, quorum := c03Topology(name, topologies)
	a := Authority{Key: c03Key, ChannelID: c03ChanID, ID: c03SymID(name), Leader: c03Local, Voters: voters, WriteQuorum: quorum}
	zzsym.Assume(a.ID.ChannelEpoch != 0 && a.ID.LeaderTerm != 0 && a.ID.FenceVersion != 0)
	return a
}

// c03Record: a record that passes validProposalRecords; every semantic field is symbolic. String and
// payload lengths are 1/0/1 in quick and 0..1 each in thorough.
func c03Record(name string, epoch uint64) ch.Record {
	fromLen, noLen, payloadLen := 1, 0, 1
	if zzsym.Thorough() {
		fromLen, noLen, payloadLen = zzsym.Choice(name+".fromlen", 2), zzsym.Choice(name+".nolen", 2), zzsym.Choice(name+".payloadlen", 2)
	}
	r := ch.Record{ID: zzsym.U64(name + ".id"), Epoch: epoch, Setting: zzsym.U8(name + ".setting"),
		FromUID: zzsym.String(name+".from", fromLen), ClientMsgNo: zzsym.String(name+".no", noLen),
		ServerTimestampMS: zzsym.I64(name + ".ts"),
		Payload:           zzsym.Bytes(name+".payload", payloadLen), SizeBytes: payloadLen}
	if zzsym.Thorough() {
		r.SyncOnce = zzsym.Bool(name + ".synconce") // forks at every digest computation (a hash write per value)
	}
	zzsym.Assume(r.ID != 0 && r.ServerTimestampMS > 0)
	return r
}

func c03Records(name string, epoch uint64, n int) []ch.Record {
	var out []ch.Record
	for i := 0; i < n; i++ {
		out = append(out, c03Record(name, epoch))
	}
	return out
}

// c03SameContent: equality of the semantic content of two proposals (what the entry digest binds).
func c03SameContent(a, b []ch.Record) bool {
	if len(a) != len(b) {
		return false
	}
	same := true
	for i := range a {
		x, y := a[i], b[i]
		same = same && x.ID == y.ID && x.Epoch == y.Epoch && x.Setting == y.Setting && x.FromUID == y.FromUID && x.ClientMsgNo == y.ClientMsgNo &&
			x.ServerTimestampMS == y.ServerTimestampMS && x.SyncOnce == y.SyncOnce && len(x.Payload) == len(y.Payload)
		for k := 0; k < len(x.Payload) && k < len(y.Payload); k++ {
			same = same && x.Payload[k] == y.Payload[k]
		}
	}
	return same
}

func c03Command(tag byte) ch.CommandID {
	var id ch.CommandID
	id[31] = tag
	return id
}

// c03Digest: digests of the pre-existing frontier are opaque to the code under test (compared with
// zero and fed into the next entry's hash stream): a non-zero constant in quick, symbolic bytes in
// thorough.
func c03Digest(name string, tag byte) ch.EntryDigest {
	var d ch.EntryDigest
	if zzsym.Thorough() {
		copy(d[:], zzsym.Bytes(name, len(d)))
		return d
	}
	d[0], d[31] = tag, tag
	return d
}

// c03Frontier: the empty frontier or an arbitrary valid non-empty one (validReplicaState is the
// package's own frontier invariant) whose last proposal holds one entry of command 9.
func c03Frontier() ReplicaState {
	if zzsym.Choice("frontier.empty", 2) == 0 {
		return ReplicaState{}
	}
	var f ReplicaState
	f.LEO = zzsym.U64("frontier.leo")
	zzsym.Assume(f.LEO != 0)
	f.Committed = f.LEO
	f.Manifest = ch.ProposalManifest{Version: ch.ProposalManifestVersion, ChannelEpoch: zzsym.U64("frontier.epoch"), LeaderTerm: zzsym.U64("frontier.term"),
		FenceVersion: zzsym.U64("frontier.fence"), CommandID: c03Command(9), BaseOffset: f.LEO - 1, LastOffset: f.LEO,
		PreviousIndex: f.LEO - 1, Digest: c03Digest("frontier.digest", 0xd1)}
	if f.LEO > 1 {
		f.Manifest.PreviousTerm = zzsym.U64("frontier.prevterm")
		f.Manifest.PreviousDigest = c03Digest("frontier.prevdigest", 0xd2)
	}
	m := f.Manifest
	f.TailIdentity = ch.EntryIdentity{Version: m.Version, ChannelEpoch: m.ChannelEpoch, LeaderTerm: m.LeaderTerm, FenceVersion: m.FenceVersion,
		Index: f.LEO, PreviousTerm: m.PreviousTerm, PreviousIndex: m.PreviousIndex, CommandID: m.CommandID, PreviousDigest: m.PreviousDigest, Digest: m.Digest}
	zzsym.Assume(validReplicaState(f))
	return f
}

// c03ReadyChannel puts a ready quorumChannel under authority a with frontier f (hw = LEO, as both
// Install and finishCommit leave it) and an empty command cache into the owner, and makes the fake
// store hold exactly that frontier.
func c03ReadyChannel(l *quorumLog, env *c03Env, a Authority, f ReplicaState) *quorumChannel {
	s := &quorumChannel{id: a.ChannelID, authority: cloneAuthority(a), frontier: f, hw: f.LEO, ready: true,
		retained: make(map[ch.CommandID]retainedProposal, l.cfg.MaxRetainedCommands)}
	l.channels[a.Key] = s
	env.base = f
	return s
}

func c03Durable(env *c03Env) {
	env.localPlan, env.folPlan = []int{c03LocalHonest}, []int{c03FolDurable, c03FolDurable}
}

func c03Count(name string) int {
	return 1 + zzsym.Choice(name, 2)
}

// ---------------------------------------------------------------------------------------------
// sealBusinessProposal fixes the exact range before any I/O
// ---------------------------------------------------------------------------------------------

func Harness_C03_SealRange() {
	a := c03Authority("A", 1)
	f := c03Frontier()
	hw := zzsym.U64("hw")
	n := c03Count("records")
	records := c03Records("r", zzsym.U64("record.epoch"), n)
	cmd := c03Command(1)
	overflow := f.LEO > ^uint64(0)-uint64(n)
	epochOK := records[0].Epoch == a.ID.ChannelEpoch

	p, err := sealBusinessProposal(a, f, hw, cmd, records, false)

	zzsym.Observe("seal", zzsym.B2U(err != nil), p.first, p.last)
	if err != nil {
		zzsym.Reach("seal: refused")
		zzsym.Assert(overflow || !epochOK, "sealBusinessProposal refused a valid proposal on a valid frontier")
		zzsym.Assert(p.first == 0 && p.last == 0 && len(p.records) == 0, "refused seal returned a range")
		return
	}
	zzsym.Reach("seal: sealed")
	zzsym.Assert(!overflow && epochOK, "sealBusinessProposal accepted a range beyond 2^64-1 or records of another channel epoch")
	zzsym.Assert(p.first == f.LEO+1, "First != LEO+1")
	zzsym.Assert(p.last == f.LEO+uint64(n), "Last != LEO+len(records)")
	m := p.manifest
	zzsym.Assert(m.BaseOffset == f.LEO && m.LastOffset == p.last && m.PreviousIndex == f.LEO, "manifest range differs from the assigned range")
	zzsym.Assert(m.PreviousTerm == f.TailIdentity.LeaderTerm && m.PreviousDigest == f.TailIdentity.Digest, "manifest is not chained to the frontier tail")
	zzsym.Assert(m.ChannelEpoch == a.ID.ChannelEpoch && m.LeaderTerm == a.ID.LeaderTerm && m.FenceVersion == a.ID.FenceVersion && m.CommandID == cmd, "manifest does not carry the authority and command")
	zzsym.Assert(p.committed == hw && len(p.records) == n, "sealed proposal does not carry hw / all records")
	zzsym.Assert(m.StructurallyValid() && m.ValidFor(f.LEO, n), "sealed manifest is not valid for the frontier")
	// the sealed records are frozen: later changes by the caller do not reach them
	if len(records[0].Payload) > 0 && len(p.records[0].Payload) > 0 { // thorough also draws empty payloads
		old := p.records[0].Payload[0]
		records[0].Payload[0] = old + 1
		zzsym.Assert(p.records[0].Payload[0] == old, "sealed proposal aliases the caller's payload")
	}
}

// ---------------------------------------------------------------------------------------------
// one new command on an arbitrary ready channel, arbitrary durability answers
// ---------------------------------------------------------------------------------------------

func Harness_C03_NewCommand() {
	env := &c03Env{}
	l := c03NewLog(env, 2)
	a := c03Authority("A", 2)
	f := c03Frontier()
	s := c03ReadyChannel(l, env, a, f)
	n := c03Count("records")
	p := Proposal{Key: c03Key, Expected: a.ID, CommandID: c03Command(1), Records: c03Records("r", a.ID.ChannelEpoch, n)}
	overflow := f.LEO > ^uint64(0)-uint64(n)
	if !zzsym.Thorough() {
		env.localChoices = []int{c03LocalHonest, c03LocalLostWritten, c03LocalRefused, c03LocalSubmitError}
		env.folChoices = []int{c03FolDurable, c03FolUnknown, c03FolConflict}
	}

	receipt, err := l.Commit(context.Background(), p)

	zzsym.Observe("new", zzsym.B2U(err != nil), receipt.First, receipt.Last, receipt.HW, uint64(env.dispatches()))
	zzsym.Assert(err == nil || receipt == (Receipt{}), "failed Commit returned a non-zero receipt")
	if overflow {
		zzsym.Reach("new: range would overflow")
		zzsym.Assert(err != nil && env.portCalls() == 0 && s.pending == nil && s.frontier == f, "Commit beyond offset 2^64-1 was not refused before any I/O")
		return
	}
	zzsym.Assert(env.localSubmits == 1, "a new command was not submitted to the local store exactly once")
	zzsym.Assert(env.lastLocal.first == f.LEO+1 && env.lastLocal.last == f.LEO+uint64(n) && env.lastLocal.committed == f.LEO, "the dispatched proposal does not carry the range LEO+1..LEO+n")
	if err != nil {
		zzsym.Reach("new: not acknowledged")
		zzsym.Assert(s.frontier == f && s.hw == f.LEO && len(s.retained) == 0, "failed Commit moved the frontier or retained a receipt")
		if s.pending != nil {
			zzsym.Reach("new: left pending")
			zzsym.Assert(s.pending.proposal.first == f.LEO+1 && s.pending.proposal.last == f.LEO+uint64(n) && s.pending.proposal.manifest.CommandID == p.CommandID && !s.pending.durable,
				"pending proposal does not keep the assigned range")
		} else {
			zzsym.Reach("new: definite conflict")
			zzsym.Assert(errors.Is(err, ch.ErrLogConflict) && env.lookups == 1, "pending proposal dropped without a definite conflict and command lookup")
		}
		return
	}
	zzsym.Reach("new: acknowledged")
	want := Receipt{Authority: a.ID, CommandID: p.CommandID, First: f.LEO + 1, Last: f.LEO + uint64(n), HW: f.LEO + uint64(n)}
	zzsym.Assert(receipt == want, "receipt is not {authority, command, LEO+1, LEO+n, LEO+n}")
	zzsym.Assert(s.frontier.LEO == want.Last && s.hw == want.Last && s.frontier.Committed == f.LEO && s.frontier.Manifest == env.lastLocal.manifest, "success did not advance the frontier to Last")
	zzsym.Assert(s.frontier.TailIdentity.Index == want.Last && s.frontier.TailIdentity.Digest == s.frontier.Manifest.Digest && validReplicaState(s.frontier), "frontier after success is not a valid replica state")
	zzsym.Assert(s.pending == nil, "acknowledged command is still pending")
	kept, ok := s.retained[p.CommandID]
	zzsym.Assert(ok && kept.durable && kept.receipt == want && len(s.order) == 1, "acknowledged command is not retained with its receipt")
	// a receipt is backed by the local store and a write quorum
	zzsym.Assert(len(env.log) == 1 && env.log[0].manifest == env.lastLocal.manifest, "receipt issued although the local store does not hold the proposal")
	zzsym.Assert(1+env.folDurableAcks >= a.WriteQuorum, "receipt issued without a durable write quorum")
}

// ---------------------------------------------------------------------------------------------
// a second Commit after an acknowledged one: other command (adjacent range), exact retry (same
// receipt, no I/O), same command with other content (ErrLogConflict)
// ---------------------------------------------------------------------------------------------

func Harness_C03_SecondCommit() {
	env := &c03Env{}
	l := c03NewLog(env, 2)
	a := c03Authority("A", 2)
	f := c03Frontier()
	s := c03ReadyChannel(l, env, a, f)
	n1 := c03Count("records1")
	zzsym.Assume(f.LEO < ^uint64(0)-8)
	p1 := Proposal{Key: c03Key, Expected: a.ID, CommandID: c03Command(1), Records: c03Records("r1", a.ID.ChannelEpoch, n1)}
	c03Durable(env)
	r1, err := l.Commit(context.Background(), p1)
	zzsym.Assert(err == nil && r1.First == f.LEO+1 && r1.Last == f.LEO+uint64(n1), "first Commit with durable answers was not acknowledged at LEO+1..LEO+n")
	if err != nil {
		return
	}
	env.localPlan, env.folPlan = nil, nil
	if !zzsym.Thorough() {
		env.localChoices = []int{c03LocalHonest, c03LocalLostWritten}
		env.folChoices = []int{c03FolDurable, c03FolUnknown}
	}
	after1 := s.frontier
	calls := env.portCalls()

	p2 := Proposal{Key: c03Key, Expected: a.ID}
	p2.CommandID = c03Command(byte(1 + zzsym.Choice("second.command", 2)))
	if zzsym.Choice("second.records", 2) == 0 {
		p2.Records = cloneRecords(p1.Records) // the caller's exact retry buffer
	} else {
		p2.Records = c03Records("r2", a.ID.ChannelEpoch, c03Count("records2")) // may or may not equal p1's content
	}
	n2 := len(p2.Records)
	sameCommand := p2.CommandID == p1.CommandID
	sameContent := c03SameContent(p1.Records, p2.Records)

	r2, err2 := l.Commit(context.Background(), p2)

	zzsym.Observe("second", zzsym.B2U(err2 != nil), zzsym.B2U(sameCommand), zzsym.B2U(sameContent), r2.First, r2.Last)
	zzsym.Assert(err2 == nil || r2 == (Receipt{}), "failed Commit returned a non-zero receipt")
	switch {
	case sameCommand && sameContent:
		zzsym.Reach("second: exact retry")
		zzsym.Assert(err2 == nil && r2 == r1, "exact retry of a retained durable command did not return the same receipt")
		zzsym.Assert(env.portCalls() == calls, "exact retry of a retained durable command issued a store write, dispatch or lookup")
		zzsym.Assert(s.frontier == after1 && s.pending == nil, "exact retry changed the frontier")
	case sameCommand:
		zzsym.Reach("second: command reused with other content")
		zzsym.Assert(err2 != nil && errors.Is(err2, ch.ErrLogConflict), "reuse of a command id with different content was not rejected with ErrLogConflict")
		zzsym.Assert(env.portCalls() == calls && s.frontier == after1 && s.pending == nil, "conflicting reuse issued I/O or changed the frontier")
		zzsym.Assert(s.retained[p1.CommandID].receipt == r1, "conflicting reuse changed the retained receipt")
	default:
		if err2 != nil {
			zzsym.Reach("second: other command not acknowledged")
			zzsym.Assert(s.frontier == after1, "failed Commit moved the frontier")
		} else {
			zzsym.Reach("second: other command acknowledged")
			zzsym.Assert(r2.First == r1.Last+1 && r2.Last == r1.Last+uint64(n2) && r2.HW == r2.Last && r2.CommandID == p2.CommandID, "second command's range is not adjacent to the first one")
			zzsym.Assert(r2.First > r1.Last && r1.First <= r1.Last && r2.First <= r2.Last, "ranges of two different commands overlap")
			zzsym.Assert(s.frontier.LEO == r2.Last && s.hw == r2.Last, "frontier is not at the end of the second range")
			// both receipts stay retrievable without I/O
			calls = env.portCalls()
			again1, e1 := l.Commit(context.Background(), p1)
			again2, e2 := l.Commit(context.Background(), p2)
			zzsym.Assert(e1 == nil && again1 == r1 && e2 == nil && again2 == r2 && env.portCalls() == calls, "retries of two retained commands did not return their receipts without I/O")
		}
	}
}

// ---------------------------------------------------------------------------------------------
// an ambiguous Commit stays pending with its range: other commands are back-pressured, the exact
// retry re-submits the SAME proposal, other content under the pending id is a conflict
// ---------------------------------------------------------------------------------------------

func Harness_C03_PendingBlocks() {
	env := &c03Env{}
	l := c03NewLog(env, 2)
	a := c03Authority("A", 2)
	f := c03Frontier()
	s := c03ReadyChannel(l, env, a, f)
	n1 := c03Count("records1")
	zzsym.Assume(f.LEO < ^uint64(0)-8)
	p1 := Proposal{Key: c03Key, Expected: a.ID, CommandID: c03Command(1), Records: c03Records("r1", a.ID.ChannelEpoch, n1)}
	// every response of the first round is lost; the local write happened or not
	env.localPlan = []int{[]int{c03LocalLostWritten, c03LocalLostUnwritten}[zzsym.Choice("first.local", 2)]}
	env.folPlan = []int{c03FolUnknown, c03FolUnknown}
	r1, err1 := l.Commit(context.Background(), p1)
	zzsym.Assert(err1 != nil && r1 == (Receipt{}), "Commit was acknowledged although every durability response was lost")
	zzsym.Assert(s.pending != nil && s.frontier == f, "ambiguous Commit is not pending on the unchanged frontier")
	if s.pending == nil {
		return
	}
	env.localPlan, env.folPlan = nil, nil
	firstProposal := env.lastLocal
	calls := env.portCalls()

	switch zzsym.Choice("then", 3) {
	case 0:
		zzsym.Reach("pending: other command")
		p2 := Proposal{Key: c03Key, Expected: a.ID, CommandID: c03Command(2), Records: c03Records("r2", a.ID.ChannelEpoch, 1)}
		r2, err2 := l.Commit(context.Background(), p2)
		zzsym.Assert(err2 != nil && errors.Is(err2, ch.ErrBackpressured) && r2 == (Receipt{}), "another command was not back-pressured while a proposal is pending")
		zzsym.Assert(env.portCalls() == calls && s.frontier == f && s.pending != nil, "back-pressured command issued I/O or changed the state")
	case 1:
		zzsym.Reach("pending: same command, other content")
		p2 := Proposal{Key: c03Key, Expected: a.ID, CommandID: p1.CommandID, Records: c03Records("r2", a.ID.ChannelEpoch, c03Count("records2"))}
		zzsym.Assume(!c03SameContent(p1.Records, p2.Records))
		r2, err2 := l.Commit(context.Background(), p2)
		zzsym.Assert(err2 != nil && errors.Is(err2, ch.ErrLogConflict) && r2 == (Receipt{}), "different content under the pending command id was not rejected with ErrLogConflict")
		zzsym.Assert(env.portCalls() == calls && s.frontier == f && s.pending != nil, "conflicting retry issued I/O or changed the state")
	default:
		zzsym.Reach("pending: exact retry")
		if !zzsym.Thorough() {
			env.localChoices = []int{c03LocalHonest, c03LocalLostUnwritten}
			env.folChoices = []int{c03FolDurable, c03FolUnknown}
		}
		r2, err2 := l.Commit(context.Background(), Proposal{Key: c03Key, Expected: a.ID, CommandID: p1.CommandID, Records: cloneRecords(p1.Records)})
		zzsym.Assert(env.localSubmits == 2 && env.lastLocal.first == firstProposal.first && env.lastLocal.last == firstProposal.last &&
			env.lastLocal.manifest == firstProposal.manifest && env.lastLocal.committed == firstProposal.committed, "retry of a pending command did not re-submit the identical proposal")
		zzsym.Assert(env.lookups == 0, "retry of a pending command consulted the command index")
		if err2 == nil {
			zzsym.Reach("pending: retry acknowledged")
			zzsym.Assert(r2 == Receipt{Authority: a.ID, CommandID: p1.CommandID, First: f.LEO + 1, Last: f.LEO + uint64(n1), HW: f.LEO + uint64(n1)}, "retry of a pending command was acknowledged with another range")
			zzsym.Assert(s.pending == nil && s.frontier.LEO == r2.Last && len(env.log) == 1, "acknowledged retry did not advance the frontier once")
			// now the next command is admitted right behind it
			c03Durable(env)
			r3, err3 := l.Commit(context.Background(), Proposal{Key: c03Key, Expected: a.ID, CommandID: c03Command(2), Records: c03Records("r3", a.ID.ChannelEpoch, 1)})
			zzsym.Assert(err3 == nil && r3.First == r2.Last+1 && r3.Last == r3.First, "command after a resolved pending one is not adjacent")
		} else {
			zzsym.Reach("pending: retry still ambiguous")
			zzsym.Assert(r2 == (Receipt{}) && s.pending != nil && s.frontier == f, "failed retry changed the state")
		}
	}
}

// ---------------------------------------------------------------------------------------------
// eviction (MaxRetainedCommands = 1): the retry of an evicted durable command is re-sequenced,
// meets a definite conflict, and is reconciled through the durable command index
// ---------------------------------------------------------------------------------------------

func c03EvictedSetup(topologies int) (*c03Env, *quorumLog, *quorumChannel, Authority, Proposal, Receipt, Proposal, Receipt) {
	env := &c03Env{}
	l := c03NewLog(env, 1)
	a := c03Authority("A", topologies)
	f := c03Frontier()
	s := c03ReadyChannel(l, env, a, f)
	zzsym.Assume(f.LEO < ^uint64(0)-8)
	p1 := Proposal{Key: c03Key, Expected: a.ID, CommandID: c03Command(1), Records: c03Records("r1", a.ID.ChannelEpoch, c03Count("records1"))}
	p2 := Proposal{Key: c03Key, Expected: a.ID, CommandID: c03Command(2), Records: c03Records("r2", a.ID.ChannelEpoch, 1)}
	c03Durable(env)
	r1, err1 := l.Commit(context.Background(), p1)
	c03Durable(env)
	r2, err2 := l.Commit(context.Background(), p2)
	env.localPlan, env.folPlan = nil, nil
	zzsym.Assert(err1 == nil && err2 == nil && r2.First == r1.Last+1, "two durable commands were not acknowledged with adjacent ranges")
	_, kept1 := s.retained[p1.CommandID]
	zzsym.Assert(!kept1 && len(s.retained) == 1 && len(s.order) == 1, "MaxRetainedCommands = 1 did not evict the older command")
	return env, l, s, a, p1, r1, p2, r2
}

func Harness_C03_EvictedRetry() {
	env, l, s, a, p1, r1, _, r2 := c03EvictedSetup(2)
	after2 := s.frontier
	logLen := len(env.log)
	exact := zzsym.Choice("retry.exact", 2) == 0
	retry := Proposal{Key: c03Key, Expected: a.ID, CommandID: p1.CommandID}
	if exact {
		retry.Records = cloneRecords(p1.Records)
	} else {
		retry.Records = c03Records("r1x", a.ID.ChannelEpoch, c03Count("records1x"))
		zzsym.Assume(!c03SameContent(p1.Records, retry.Records))
	}
	// the local store holds command 1 at another position: its honest answer is Conflict; followers
	// hold it too (Conflict) or are unreachable
	definite := zzsym.Choice("retry.round", 2) == 0
	if definite {
		env.localPlan, env.folPlan = []int{c03LocalHonest}, []int{c03FolConflict, c03FolConflict}
	} else {
		env.localChoices = []int{c03LocalHonest, c03LocalLostUnwritten}
		env.folChoices = []int{c03FolConflict, c03FolUnknown}
	}

	got, err := l.Commit(context.Background(), retry)

	zzsym.Observe("evicted", zzsym.B2U(err != nil), zzsym.B2U(exact), zzsym.B2U(definite), got.First, got.Last)
	zzsym.Assert(len(env.log) == logLen && s.frontier == after2 && s.hw == r2.Last, "retry of an evicted command stored something or moved the frontier")
	zzsym.Assert(err == nil || got == (Receipt{}), "failed Commit returned a non-zero receipt")
	if !exact {
		zzsym.Reach("evicted: other content")
		zzsym.Assert(err != nil, "different content under an evicted command id was acknowledged")
		zzsym.Assert(!definite || (errors.Is(err, ch.ErrLogConflict) && s.pending == nil), "different content under an evicted command id with definite answers was not rejected with ErrLogConflict")
		return
	}
	if err == nil {
		zzsym.Reach("evicted: exact retry reconciled")
		zzsym.Assert(got == r1, "retry of an evicted command returned a receipt different from the original one")
		zzsym.Assert(env.lookups == 1 && s.pending == nil, "reconciliation did not go through the durable command index")
		kept, ok := s.retained[p1.CommandID]
		zzsym.Assert(ok && kept.durable && kept.receipt == r1 && len(s.retained) == 1, "reconciled command is not retained again")
	} else {
		zzsym.Reach("evicted: exact retry not answered")
	}
	zzsym.Assert(!definite || err == nil, "exact retry of an evicted command with definite conflict answers did not return the original receipt")
}

// Harness_C03_EvictedRetryAfterLostResponse: the retry of an evicted durable command whose round
// lost a response stays pending under its NEW range; the next exact retry gets definite conflict
// answers from every voter. The property (retry-stable receipts after eviction) asks for the
// original receipt.
func Harness_C03_EvictedRetryAfterLostResponse() {
	env, l, s, a, p1, r1, _, _ := c03EvictedSetup(1) // voters {1,2,3}, write quorum 2
	retry := Proposal{Key: c03Key, Expected: a.ID, CommandID: p1.CommandID, Records: cloneRecords(p1.Records)}
	// round 1: the local store answers Conflict, one follower is unreachable
	env.localPlan, env.folPlan = []int{c03LocalHonest}, []int{c03FolUnknown, c03FolUnknown}
	_, err := l.Commit(context.Background(), retry)
	zzsym.Assert(err != nil, "retry acknowledged without any durable answer")
	wedged := s.pending != nil
	// round 2: every voter answers definitely
	env.localPlan, env.folPlan = []int{c03LocalHonest}, []int{c03FolConflict, c03FolConflict}
	got, err := l.Commit(context.Background(), retry)
	zzsym.Reach("evicted: retry after an ambiguous retry")
	zzsym.Observe("evicted-lost", zzsym.B2U(err != nil), zzsym.B2U(wedged), got.First, got.Last)
	zzsym.Assert(err != nil || got == r1, "retry of an evicted command returned a receipt different from the original one")
	zzsym.AssertKnown(err == nil && got == r1, "exact retry of an evicted command with definite conflict answers did not return the original receipt after an earlier ambiguous retry", "C03-F1", wedged)
	// and the channel keeps refusing every other command
	c03Durable(env)
	_, errOther := l.Commit(context.Background(), Proposal{Key: c03Key, Expected: a.ID, CommandID: c03Command(3), Records: c03Records("r3", a.ID.ChannelEpoch, 1)})
	zzsym.AssertKnown(errOther == nil, "a new command is refused after the retry of an evicted command became pending although every voter answers", "C03-F1", wedged)
}

// ---------------------------------------------------------------------------------------------
// restart: a fresh owner over the same stores, Install (same or newer authority), exact retry
// ---------------------------------------------------------------------------------------------

func Harness_C03_Restart() {
	env := &c03Env{probeMode: 1, loadMode: 1}
	l := c03NewLog(env, 2)
	a := c03Authority("A", 2)
	_, err := l.Install(context.Background(), a)
	zzsym.Assert(err == nil, "Install over the empty log failed")
	p1 := Proposal{Key: c03Key, Expected: a.ID, CommandID: c03Command(1), Records: c03Records("r1", a.ID.ChannelEpoch, c03Count("records1"))}
	c03Durable(env)
	r1, err := l.Commit(context.Background(), p1)
	zzsym.Assert(err == nil && r1.First == 1, "first Commit after Install was not acknowledged at 1")
	if err != nil {
		return
	}
	env.localPlan, env.folPlan = nil, nil
	logLen := len(env.log)
	dispatched := env.dispatches()

	restarted := c03NewLog(env, 2)
	installed, err := restarted.Install(context.Background(), a)
	zzsym.Assert(err == nil && installed == Installed{Authority: a.ID, LEO: r1.Last, HW: r1.Last}, "Install after restart did not recover the acknowledged prefix under its own authority")
	zzsym.Assert(env.dispatches() == dispatched && env.storeWrites() == 0, "Install after restart over its own frontier wrote a barrier")
	if err != nil {
		return
	}
	s := restarted.channels[c03Key]
	exact := zzsym.Choice("retry.exact", 2) == 0
	retry := Proposal{Key: c03Key, Expected: a.ID, CommandID: p1.CommandID}
	if exact {
		retry.Records = cloneRecords(p1.Records)
	} else {
		retry.Records = c03Records("r1x", a.ID.ChannelEpoch, c03Count("records1x"))
		zzsym.Assume(!c03SameContent(p1.Records, retry.Records))
	}
	env.localPlan, env.folPlan = []int{c03LocalHonest}, []int{c03FolConflict, c03FolConflict}
	got, err := restarted.Commit(context.Background(), retry)
	zzsym.Observe("restart", zzsym.B2U(err != nil), zzsym.B2U(exact), got.First, got.Last)
	zzsym.Assert(len(env.log) == logLen && s.frontier.LEO == r1.Last, "retry after restart stored something or moved the frontier")
	if exact {
		zzsym.Reach("restart: exact retry")
		zzsym.Assert(err == nil && got == r1, "exact retry after restart did not return the original receipt")
	} else {
		zzsym.Reach("restart: other content")
		zzsym.Assert(err != nil && errors.Is(err, ch.ErrLogConflict) && got == (Receipt{}), "different content under a durable command id after restart was not rejected with ErrLogConflict")
	}
}

// Harness_C03_RetryUnderNewerAuthority: the owner is re-installed under a newer leader term of the
// same channel epoch (barrier written), then the command acknowledged under the old term is retried
// with identical content. Safety part of the property: nothing is stored again and no different
// range is acknowledged. (What the code answers is recorded by the reach labels: the durable
// command index holds the proposal under the OLD authority, which loadRetainedProposal refuses.)
func Harness_C03_RetryUnderNewerAuthority() {
	env := &c03Env{probeMode: 1, loadMode: 1}
	l := c03NewLog(env, 2)
	a := c03Authority("A", 2)
	_, err := l.Install(context.Background(), a)
	zzsym.Assert(err == nil, "Install over the empty log failed")
	p1 := Proposal{Key: c03Key, Expected: a.ID, CommandID: c03Command(1), Records: c03Records("r1", a.ID.ChannelEpoch, 1)}
	c03Durable(env)
	r1, err := l.Commit(context.Background(), p1)
	zzsym.Assert(err == nil && r1.First == 1 && r1.Last == 1, "first Commit after Install was not acknowledged at 1")
	if err != nil {
		return
	}
	b := a
	b.ID.LeaderTerm = zzsym.U64("B.term")
	b.ID.FenceVersion = zzsym.U64("B.fence")
	zzsym.Assume(b.ID.LeaderTerm > a.ID.LeaderTerm && b.ID.FenceVersion != 0)
	barrier, _ := recoveryBarrierContent(b)
	zzsym.Assume(barrier != c03Command(1)) // the barrier's SHA-256 command id is not the constant 00..01
	c03Durable(env)
	installed, err := l.Install(context.Background(), b)
	zzsym.Assert(err == nil && installed == Installed{Authority: b.ID, LEO: 2, HW: 2}, "Install of a newer leader term did not write its barrier at 2")
	if err != nil {
		return
	}
	s := l.channels[c03Key]
	logLen := len(env.log)
	retry := Proposal{Key: c03Key, Expected: b.ID, CommandID: p1.CommandID, Records: cloneRecords(p1.Records)}
	env.localPlan, env.folPlan = []int{c03LocalHonest}, []int{c03FolConflict, c03FolConflict}
	got, err := l.Commit(context.Background(), retry)
	zzsym.Observe("newer", zzsym.B2U(err != nil), got.First, got.Last)
	zzsym.Assert(len(env.log) == logLen && s.frontier.LEO == 2, "retry under a newer authority stored something or moved the frontier")
	zzsym.Assert(err != nil || (got.First == r1.First && got.Last == r1.Last), "retry under a newer authority was acknowledged with a different range")
	if err != nil && errors.Is(err, ch.ErrLogConflict) {
		zzsym.Reach("newer authority: exact retry answered ErrLogConflict")
		zzsym.Assert(s.pending == nil, "definite conflict left a pending proposal")
	}
}
