package wkprotoenc

import (
	"github.com/WuKongIM/WuKongIM/internal/zzsym"
	gatewaytypes "github.com/WuKongIM/WuKongIM/pkg/gateway/types"
	"github.com/WuKongIM/WuKongIM/pkg/protocol/frame"
)

type c25Session struct {
	key, iv any
}

func (s c25Session) Value(name string) any {
	switch name {
	case gatewaytypes.SessionValueAESKey:
		return s.key
	case gatewaytypes.SessionValueAESIV:
		return s.iv
	}
	return nil
}

func c25Eq(a, b []byte) bool {
	if len(a) != len(b) {
		return false
	}
	eq := true
	for i := range a {
		if a[i] != b[i] {
			eq = false
		}
	}
	return eq
}

// Harness_C25_GatewayWrappers: the gateway-side wrappers (keys read back from session values, stored as
// []byte or as string) pass key and IV through unchanged and in the right order: a payload encrypted under the
// negotiated keys opens under the keys read from the session, and a SEND signed under the one validates under
// the other, while a changed payload byte does not.
func Harness_C25_GatewayWrappers() {
	key := zzsym.Bytes("aeskey", 16)
	iv := zzsym.Bytes("aesiv", 16)
	negotiated := SessionKeys{AESKey: key, AESIV: iv}
	var sess c25Session
	if zzsym.Choice("stored-as-string", 2) == 1 {
		sess = c25Session{key: string(key), iv: string(iv)}
	} else {
		sess = c25Session{key: append([]byte(nil), key...), iv: append([]byte(nil), iv...)}
	}
	got, ok := SessionKeysFromSession(sess)
	zzsym.Assert(ok, "session keys not found in the session values")
	zzsym.Assert(c25Eq(got.AESKey, key) && c25Eq(got.AESIV, iv), "session keys read back differ from the stored ones")

	payload := zzsym.Bytes("payload", 1+zzsym.Choice("payloadlen", 2)*16)
	enc, err := EncryptPayload(payload, negotiated)
	zzsym.Assert(err == nil, "EncryptPayload failed")
	dec, err := DecryptPayload(enc, got)
	zzsym.Reach("gateway-roundtrip")
	zzsym.Assert(err == nil && c25Eq(dec, payload), "gateway DecryptPayload(EncryptPayload(p)) != p")

	pkt := &frame.SendPacket{ClientSeq: 12, ClientMsgNo: zzsym.String("clientmsgno", 2), ChannelID: zzsym.String("channelid", 2),
		ChannelType: 2, Payload: enc}
	mk, err := SendMsgKey(pkt, negotiated)
	zzsym.Assert(err == nil, "SendMsgKey failed")
	pkt.MsgKey = mk
	zzsym.Assert(ValidateSendPacket(pkt, got) == nil, "gateway ValidateSendPacket rejected an untouched packet")
	sc, err := NewSessionCrypto(got)
	zzsym.Assert(err == nil, "NewSessionCrypto failed")
	zzsym.Assert(ValidateSendPacketWithCrypto(pkt, sc) == nil, "gateway ValidateSendPacketWithCrypto rejected an untouched packet")
	i := zzsym.Int("idx")
	zzsym.Assume(i >= 0 && i < len(enc))
	v := zzsym.U8("newbyte")
	zzsym.Assume(v != enc[i])
	t := *pkt
	t.Payload = make([]byte, len(enc))
	for j := range enc {
		m := byte(0)
		if j == i {
			m = 0xff
		}
		t.Payload[j] = enc[j]&^m | v&m
	}
	zzsym.Reach("gateway-tamper")
	zzsym.Assert(ValidateSendPacket(&t, got) == ErrMsgKeyMismatch, "gateway ValidateSendPacket accepted a changed ciphertext byte")
	zzsym.Assert(ValidateSendPacketWithCrypto(&t, sc) == ErrMsgKeyMismatch, "gateway ValidateSendPacketWithCrypto accepted a changed ciphertext byte")
	zzsym.Observe("gateway", uint64(len(enc)), uint64(len(dec)), zzsym.B2U(ok))
}
