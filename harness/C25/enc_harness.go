package wkprotoenc

import (
	"encoding/base64"
	"errors"

	"github.com/WuKongIM/WuKongIM/internal/zzsym"
	"github.com/WuKongIM/WuKongIM/pkg/protocol/frame"
)

// ---------------------------------------------------------------- helpers

func c25Keys() SessionKeys {
	return SessionKeys{AESKey: zzsym.Bytes("aeskey", 16), AESIV: zzsym.Bytes("aesiv", 16)}
}

func c25BytesEq(a, b []byte) bool {
	if len(a) != len(b) {
		return false
	}
	eq := true
	for i := range a {
		if a[i] != b[i] {
			eq = false
		}
	}
	return eq
}

func c25MaxPayload() int {
	if zzsym.Thorough() {
		return 49
	}
	return 33
}

// ---------------------------------------------------------------- round trip

// Harness_C25_RoundTrip: DecryptPayload(EncryptPayload(p)) == p for every payload of every length
// 0..33 (49 thorough), i.e. on both sides of every block boundary, for every key and IV. Executes
// the hand-written CBC chaining, PKCS#7 pad/unpad and the real base64 encoder/decoder.
func Harness_C25_RoundTrip() {
	keys := c25Keys()
	n := zzsym.Choice("payloadlen", c25MaxPayload()+1)
	payload := zzsym.Bytes("payload", n)
	orig := append([]byte(nil), payload...)

	enc, err := EncryptPayload(payload, keys)
	zzsym.Assert(err == nil, "EncryptPayload failed with complete session keys")
	zzsym.Assert(c25BytesEq(payload, orig), "EncryptPayload modified the caller's payload")
	// ciphertext length: base64 of the payload padded to the next block boundary (always at least one pad byte)
	blocks := n/16 + 1
	zzsym.Assert(len(enc) == base64.StdEncoding.EncodedLen(16*blocks), "ciphertext length is not base64(padded length)")

	dec, err := DecryptPayload(enc, keys)
	zzsym.Reach("roundtrip-done")
	zzsym.Assert(err == nil, "DecryptPayload rejected a ciphertext produced by EncryptPayload")
	zzsym.Assert(c25BytesEq(dec, orig), "DecryptPayload(EncryptPayload(p)) != p")
	zzsym.Observe("roundtrip", uint64(n), uint64(len(enc)), uint64(len(dec)), zzsym.B2U(err == nil), zzsym.B2U(c25BytesEq(dec, orig)))
}

// Harness_C25_CachedCryptoRoundTrip: the same through one cached SessionCrypto used for both directions and
// for two consecutive payloads (the cached state must not carry chaining state from one packet to the next).
func Harness_C25_CachedCryptoRoundTrip() {
	keys := c25Keys()
	sc, err := NewSessionCrypto(keys)
	zzsym.Assert(err == nil && sc != nil, "NewSessionCrypto failed with complete session keys")
	lens := []int{0, 15, 16, 17}
	p1 := zzsym.Bytes("p1", lens[zzsym.Choice("len1", len(lens))])
	p2 := zzsym.Bytes("p2", lens[zzsym.Choice("len2", len(lens))])
	e1, err1 := EncryptPayloadWithCrypto(p1, sc)
	e2, err2 := EncryptPayloadWithCrypto(p2, sc)
	zzsym.Assert(err1 == nil && err2 == nil, "EncryptPayloadWithCrypto failed")
	// decrypt in the opposite order
	d2, derr2 := DecryptPayloadWithCrypto(e2, sc)
	d1, derr1 := DecryptPayloadWithCrypto(e1, sc)
	zzsym.Reach("cached-roundtrip-done")
	zzsym.Assert(derr1 == nil && derr2 == nil, "DecryptPayloadWithCrypto rejected a ciphertext of the same session")
	zzsym.Assert(c25BytesEq(d1, p1) && c25BytesEq(d2, p2), "cached session crypto: decrypt(encrypt(p)) != p")
	// the one-shot API and the cached API agree
	e1b, err := EncryptPayload(p1, keys)
	zzsym.Assert(err == nil && c25BytesEq(e1, e1b), "EncryptPayload and EncryptPayloadWithCrypto disagree")
	zzsym.Observe("cached", uint64(len(p1)), uint64(len(p2)), zzsym.B2U(c25BytesEq(d1, p1)), zzsym.B2U(c25BytesEq(e1, e1b)))
}

// Harness_C25_MissingKeys: incomplete keys are refused (never a panic from slicing a short key).
func Harness_C25_MissingKeys() {
	lens := []int{0, 15, 16, 17}
	if zzsym.Thorough() {
		lens = []int{0, 1, 8, 15, 16, 17, 24, 31, 32, 33}
	}
	kl := lens[zzsym.Choice("keylen", len(lens))]
	il := lens[zzsym.Choice("ivlen", len(lens))]
	keys := SessionKeys{AESKey: zzsym.Bytes("aeskey", kl), AESIV: zzsym.Bytes("aesiv", il)}
	p := zzsym.Bytes("payload", 3)
	enc, err := EncryptPayload(p, keys)
	zzsym.Reach("missing-keys-done")
	if kl < 16 || il < 16 {
		zzsym.Assert(errors.Is(err, ErrMissingSessionKey) && enc == nil, "short key or IV accepted")
		_, derr := DecryptPayload([]byte("AAAAAAAAAAAAAAAAAAAAAA=="), keys)
		zzsym.Assert(errors.Is(derr, ErrMissingSessionKey), "short key or IV accepted by DecryptPayload")
		verr := ValidateSendPacket(&frame.SendPacket{Payload: p}, keys)
		zzsym.Assert(errors.Is(verr, ErrMissingSessionKey), "short key or IV accepted by ValidateSendPacket")
	} else {
		zzsym.Assert(err == nil, "complete keys refused")
		// only the first block of key and IV is used
		k2 := SessionKeys{AESKey: keys.AESKey[:16], AESIV: keys.AESIV[:16]}
		dec, derr := DecryptPayload(enc, k2)
		zzsym.Assert(derr == nil && c25BytesEq(dec, p), "bytes beyond the first block of key/IV influence the session")
	}
	zzsym.Observe("missing", uint64(kl), uint64(il), zzsym.B2U(err == nil))
}

// ---------------------------------------------------------------- malformed ciphertexts

// c25WellFormedPad is the PKCS#7 validity predicate: last byte p in 1..block, the last p bytes all equal p.
func c25WellFormedPad(b []byte) (int, bool) {
	if len(b) == 0 {
		return 0, false
	}
	p := int(b[len(b)-1])
	if p == 0 || p > 16 || p > len(b) {
		return 0, false
	}
	ok := true
	for j := 0; j < 16 && j < len(b); j++ {
		if j < p && b[len(b)-1-j] != byte(p) {
			ok = false
		}
	}
	return p, ok
}

// Harness_C25_Unpad: pkcs7UnpadView on arbitrary bytes of every length 0..33 accepts exactly well-formed
// padding, returns exactly the bytes before it and never slices out of range (a panic is a violation).
func Harness_C25_Unpad() {
	n := zzsym.Choice("len", c25MaxPayload()+1)
	b := zzsym.Bytes("block", n)
	orig := append([]byte(nil), b...)
	out, err := pkcs7UnpadView(b, 16)
	p, wf := c25WellFormedPad(orig)
	zzsym.Reach("unpad-done")
	if n == 0 || n%16 != 0 {
		zzsym.Assert(err != nil, "unpad accepted a length that is not a positive multiple of the block size")
	} else if err == nil {
		zzsym.Reach("unpad-accepted")
		zzsym.Assert(wf, "malformed PKCS#7 padding accepted")
		zzsym.Assert(len(out) == n-p && c25BytesEq(out, orig[:n-p]), "unpad returned the wrong bytes")
	} else {
		zzsym.Reach("unpad-rejected")
		zzsym.Assert(!wf, "well-formed PKCS#7 padding rejected")
		zzsym.Assert(out == nil, "unpad returned data together with an error")
	}
	zzsym.Observe("unpad", uint64(n), zzsym.B2U(err == nil), uint64(len(out)), zzsym.B2U(wf))
}

// Harness_C25_DecryptArbitraryBlocks: DecryptPayload on the base64 form of ARBITRARY raw bytes (every length
// 0..33, so also lengths that are not a block multiple): never panics; accepts exactly when the CBC-decrypted
// plaintext ends in well-formed padding, and then returns exactly the bytes before the padding.
func Harness_C25_DecryptArbitraryBlocks() {
	keys := c25Keys()
	lens := []int{0, 1, 15, 16, 17, 32, 33}
	if zzsym.Thorough() {
		lens = append(lens, 31, 47, 48)
	}
	n := lens[zzsym.Choice("rawlen", len(lens))]
	raw := zzsym.Bytes("raw", n)
	text := make([]byte, base64.StdEncoding.EncodedLen(n))
	base64.StdEncoding.Encode(text, raw)

	out, err := DecryptPayload(text, keys)
	zzsym.Reach("decrypt-arbitrary-done")
	if n == 0 || n%16 != 0 {
		zzsym.Assert(err != nil && out == nil, "ciphertext that is not a positive number of blocks accepted")
		zzsym.Observe("arb-short", uint64(n), zzsym.B2U(err == nil))
		return
	}
	// reference plaintext: the package's own CBC decryption applied to the same raw bytes
	sc, serr := NewSessionCrypto(keys)
	zzsym.Assert(serr == nil, "NewSessionCrypto failed with complete session keys")
	plain := append([]byte(nil), raw...)
	decryptCBCBlocks(sc.block, sc.iv, plain)
	p, wf := c25WellFormedPad(plain)
	if err == nil {
		zzsym.Reach("arbitrary-accepted")
		zzsym.Assert(wf, "ciphertext whose plaintext has malformed padding accepted")
		zzsym.Assert(len(out) == n-p && c25BytesEq(out, plain[:n-p]), "DecryptPayload returned bytes other than the unpadded plaintext")
	} else {
		zzsym.Reach("arbitrary-rejected")
		zzsym.Assert(!wf, "ciphertext with well-formed padding rejected")
		zzsym.Assert(out == nil, "DecryptPayload returned data together with an error")
	}
	zzsym.Observe("arb", uint64(n), zzsym.B2U(err == nil), uint64(len(out)), zzsym.B2U(wf))
}

// Harness_C25_DecryptGarbageText: arbitrary (not necessarily base64) text never panics and never yields data
// with an error.
func Harness_C25_DecryptGarbageText() {
	keys := c25Keys()
	max := 6
	if zzsym.Thorough() {
		max = 9
	}
	n := zzsym.Choice("textlen", max+1)
	text := zzsym.Bytes("text", n)
	for i := range text {
		// base64 skips CR/LF anywhere; excluded only to keep the path count linear in the length
		zzsym.Assume(text[i] != '\n' && text[i] != '\r')
	}
	out, err := DecryptPayload(text, keys)
	zzsym.Reach("garbage-done")
	// fewer than 16 decoded bytes can never be a whole block
	zzsym.Assert(err != nil && out == nil, "text shorter than one encoded block accepted")
	zzsym.Observe("garbage", uint64(n), zzsym.B2U(err == nil))
}

// ---------------------------------------------------------------- session agreement

// Harness_C25_SessionAgreement: client key pair -> NegotiateServerSession(client public) -> DeriveClientSession(
// client private, server public, server IV): both sides hold the same AES key and IV, and a payload sealed by
// one side opens on the other.
func Harness_C25_SessionAgreement() {
	cpriv, cpub, err := GenerateKeyPair()
	zzsym.Assert(err == nil, "GenerateKeyPair failed")
	skeys, spubText, err := NegotiateServerSession(EncodePublicKey(cpub))
	zzsym.Assert(err == nil, "NegotiateServerSession failed for an honest client key")
	ckeys, err := DeriveClientSession(cpriv, spubText, string(skeys.AESIV))
	zzsym.Reach("agreement-done")
	zzsym.Assert(err == nil, "DeriveClientSession failed for an honest server key")
	zzsym.Assert(len(skeys.AESKey) == 16 && len(skeys.AESIV) == 16, "server session keys are not one AES block each")
	zzsym.Assert(c25BytesEq(skeys.AESKey, ckeys.AESKey), "client and server derive different AES keys")
	zzsym.Assert(c25BytesEq(skeys.AESIV, ckeys.AESIV), "client and server hold different IVs")
	// both are usable as session keys
	_, e1 := NewSessionCrypto(skeys)
	_, e2 := NewSessionCrypto(ckeys)
	zzsym.Assert(e1 == nil && e2 == nil, "negotiated keys refused by NewSessionCrypto")
	// the IV alphabet is the documented printable one (it travels as a string in CONNACK)
	for _, c := range skeys.AESIV {
		zzsym.Assert((c >= 'a' && c <= 'z') || (c >= 'A' && c <= 'Z') || (c >= '0' && c <= '9'), "IV byte outside the alphanumeric alphabet")
	}
	zzsym.Observe("agreement", zzsym.B2U(c25BytesEq(skeys.AESKey, ckeys.AESKey)), zzsym.B2U(c25BytesEq(skeys.AESIV, ckeys.AESIV)), uint64(len(skeys.AESKey)))
}

// Harness_C25_BadPublicKey: a client key that is not 32 bytes of base64 is refused.
func Harness_C25_BadPublicKey() {
	lens := []int{0, 31, 33}
	n := lens[zzsym.Choice("publen", len(lens))]
	text := base64.StdEncoding.EncodeToString(zzsym.Bytes("pub", n))
	_, _, err := NegotiateServerSession(text)
	zzsym.Reach("badkey-done")
	zzsym.Assert(errors.Is(err, ErrInvalidPublicKey), "public key of the wrong size accepted")
	var priv [32]byte
	_, err = DeriveClientSession(priv, text, "0123456789abcdef")
	zzsym.Assert(errors.Is(err, ErrInvalidPublicKey), "server public key of the wrong size accepted")
	zzsym.Observe("badkey", uint64(n), zzsym.B2U(err != nil))
}

// ---------------------------------------------------------------- message key

var c25Seqs = []uint64{0, 7, 10, 99, 18446744073709551615}

func c25Packet() *frame.SendPacket {
	max := 2
	if zzsym.Thorough() {
		max = 18
	}
	return &frame.SendPacket{
		ClientSeq:   c25Seqs[zzsym.Choice("clientseq", len(c25Seqs))],
		ClientMsgNo: zzsym.String("clientmsgno", 1+zzsym.Choice("clientmsgnolen", 2)),
		ChannelID:   zzsym.String("channelid", 1+zzsym.Choice("channelidlen", 2)),
		ChannelType: uint8(1 + zzsym.Choice("channeltype", 2)),
		Payload:     zzsym.Bytes("payload", zzsym.Choice("payloadlen", max+1)),
	}
}

// Harness_C25_MsgKeyAccept: a packet carrying the key SendMsgKey computed for it validates; the key is the
// 32 lower-case hex digits of an MD5.
func Harness_C25_MsgKeyAccept() {
	keys := c25Keys()
	pkt := c25Packet()
	key, err := SendMsgKey(pkt, keys)
	zzsym.Assert(err == nil, "SendMsgKey failed with complete session keys")
	zzsym.Assert(len(key) == 32, "message key is not 32 characters")
	pkt.MsgKey = key
	zzsym.Reach("msgkey-accept")
	zzsym.Assert(ValidateSendPacket(pkt, keys) == nil, "packet with the key computed by SendMsgKey rejected")
	sc, _ := NewSessionCrypto(keys)
	zzsym.Assert(ValidateSendPacketWithCrypto(pkt, sc) == nil, "packet rejected by the cached-crypto validation")
	zzsym.Observe("accept", uint64(len(key)), uint64(len(pkt.Payload)))
}

// c25SetAt returns a copy of b with b[i] = v for a SYMBOLIC index i (one path for all positions).
func c25SetAt(b []byte, i int, v byte) []byte {
	out := make([]byte, len(b))
	for j := range b {
		m := byte(0)
		if j == i {
			m = 0xff
		}
		out[j] = b[j]&^m | v&m
	}
	return out
}

// Harness_C25_MsgKeyTamper: after ONE covered field of the packet is changed (one payload byte, one message key
// byte, one byte of the client message number or of the channel id -- at any position --, the client sequence,
// the channel type), validation fails with ErrMsgKeyMismatch.
func Harness_C25_MsgKeyTamper() {
	keys := c25Keys()
	seqs := []uint64{7, 18446744073709551615}
	plens := []int{0, 3, 20}
	idlen := 2
	ctype := uint8(2)
	if zzsym.Thorough() {
		ctype = uint8(1 + zzsym.Choice("channeltype", 2))
		seqs = c25Seqs
		plens = []int{0, 1, 10, 11, 26}
		idlen = 1 + 2*zzsym.Choice("idlen", 2)
	}
	pkt := &frame.SendPacket{
		ClientSeq:   seqs[zzsym.Choice("clientseq", len(seqs))],
		ClientMsgNo: zzsym.String("clientmsgno", idlen),
		ChannelID:   zzsym.String("channelid", idlen),
		ChannelType: ctype,
		Payload:     zzsym.Bytes("payload", plens[zzsym.Choice("payloadlen", len(plens))]),
	}
	key, err := SendMsgKey(pkt, keys)
	zzsym.Assert(err == nil, "SendMsgKey failed with complete session keys")
	pkt.MsgKey = key
	t := *pkt
	v := zzsym.U8("newbyte")
	i := zzsym.Int("index")
	zzsym.Assume(i >= 0)
	switch zzsym.Choice("what", 7) {
	case 6:
		// the changed byte is given RELATIVE to the key's own bytes (xor mask at the first hex letter, or
		// at the first digit), so that a model found over the abstract digest replays on the real MD5
		// whatever its hex text is
		letter := zzsym.Bool("atletter")
		zzsym.Assume(v != 0)
		pos := -1
		for j := 0; j < len(key); j++ {
			if (key[j] >= 'a') == letter {
				pos = j
				break
			}
		}
		zzsym.Assume(pos >= 0)
		b := []byte(key)
		b[pos] ^= v
		t.MsgKey = string(b)
		zzsym.Reach("tamper-msgkey-relative")
	case 0:
		if len(pkt.Payload) == 0 {
			return
		}
		zzsym.Assume(i < len(pkt.Payload))
		zzsym.Fork(i / 16) // one path per 16-byte stretch of the payload: keeps each query local
		zzsym.Assume(v != pkt.Payload[i])
		t.Payload = c25SetAt(pkt.Payload, i, v)
		zzsym.Reach("tamper-payload")
	case 1:
		zzsym.Assume(i < len(pkt.MsgKey))
		zzsym.Assume(v != pkt.MsgKey[i])
		t.MsgKey = string(c25SetAt([]byte(pkt.MsgKey), i, v))
		zzsym.Reach("tamper-msgkey")
	case 2:
		zzsym.Assume(i < len(pkt.ClientMsgNo))
		zzsym.Assume(v != pkt.ClientMsgNo[i])
		t.ClientMsgNo = string(c25SetAt([]byte(pkt.ClientMsgNo), i, v))
		zzsym.Reach("tamper-clientmsgno")
	case 3:
		zzsym.Assume(i < len(pkt.ChannelID))
		zzsym.Assume(v != pkt.ChannelID[i])
		t.ChannelID = string(c25SetAt([]byte(pkt.ChannelID), i, v))
		zzsym.Reach("tamper-channelid")
	case 4:
		s := c25Seqs[zzsym.Choice("newclientseq", len(c25Seqs))]
		if s == t.ClientSeq {
			return
		}
		t.ClientSeq = s
		zzsym.Reach("tamper-clientseq")
	case 5:
		ct := []uint8{1, 2, 3, 10, 21, 200}[zzsym.Choice("newchanneltype", 6)]
		if ct == t.ChannelType {
			return
		}
		t.ChannelType = ct
		zzsym.Reach("tamper-channeltype")
	}
	verr := ValidateSendPacket(&t, keys)
	zzsym.Assert(verr != nil, "tampered SEND packet accepted")
	zzsym.Assert(errors.Is(verr, ErrMsgKeyMismatch), "tampered SEND packet not reported as a message key mismatch")
	zzsym.Assert(ValidateSendPacket(pkt, keys) == nil, "the untouched packet no longer validates")
	zzsym.Observe("tamper", zzsym.B2U(verr != nil), uint64(len(t.Payload)))
}

// ---------------------------------------------------------------- base64 lemma

// Harness_C25_Base64Lemma proves, on the real encoding/base64 code and with the engine's Decode(Encode(b)) rewrite
// switched off, the lemma that rewrite relies on in every other entry: for every b of one of the lengths the
// rewrite is applied to, StdEncoding.Decode(StdEncoding.Encode(b)) returns (len(b), nil) and exactly b.
func Harness_C25_Base64Lemma() {
	lens := []int{16, 32, 48}
	if zzsym.Thorough() {
		lens = append(lens, 64)
	}
	n := lens[zzsym.Choice("len", len(lens))]
	b := zzsym.Bytes("b", n)
	text := make([]byte, base64.StdEncoding.EncodedLen(n))
	base64.StdEncoding.Encode(text, b)
	dst := make([]byte, base64.StdEncoding.DecodedLen(len(text)))
	m, err := base64.StdEncoding.Decode(dst, text)
	zzsym.Reach("base64-lemma")
	zzsym.Assert(err == nil, "base64: Decode rejects the output of Encode")
	zzsym.Assert(m == n, "base64: Decode(Encode(b)) has the wrong length")
	zzsym.Assert(n <= len(dst), "base64: DecodedLen too small")
	for i := range b {
		// one obligation per byte: each involves one 4-character quantum only
		zzsym.Assert(dst[i] == b[i], "base64: Decode(Encode(b)) != b")
	}
	zzsym.Observe("b64", uint64(n), uint64(m), zzsym.B2U(err == nil))
}
