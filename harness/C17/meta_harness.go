package meta

import (
	"context"

	"github.com/WuKongIM/WuKongIM/internal/zzsym"
	"github.com/WuKongIM/WuKongIM/pkg/db/internal/engine"
)

const (
	c17Ch    = "g1"
	c17Type  = int64(2)
	c17Task  = "t1"
	c17Other = "t2"
	c17Slot  = uint16(1)
)

func c17Small(name string) uint64 { return uint64(zzsym.U8(name) & 0x3f) }

// c17Meta builds an arbitrary VALID runtime meta for the channel (small integers: the row codec
// writes varints, and a symbolic width would only multiply paths). fence selects the write fence:
// 0 none, 1 the task's own token, 2 another task's token, -1 any of the three.
func c17Meta(fence int) ChannelRuntimeMeta {
	m := ChannelRuntimeMeta{ChannelID: c17Ch, ChannelType: c17Type}
	shapes := 1
	if zzsym.Thorough() {
		shapes = 3
	}
	switch zzsym.Choice("meta.shape", shapes) {
	case 0:
		m.Replicas, m.ISR = []uint64{1, 2, 3, 4}, []uint64{1, 2, 3}
	case 1:
		m.Replicas, m.ISR = []uint64{1, 2, 3}, []uint64{1, 2}
	default:
		m.Replicas, m.ISR = []uint64{1, 2, 3}, []uint64{1, 2, 3}
	}
	m.Leader = uint64(zzsym.U8("meta.leader"))
	zzsym.Assume(m.Leader == 1 || m.Leader == 2)
	m.MinISR = int64(zzsym.U8("meta.minisr"))
	zzsym.Assume(m.MinISR == 1 || m.MinISR == 2)
	m.ChannelEpoch = 1 + c17Small("meta.epoch")
	m.LeaderEpoch = 1 + c17Small("meta.leaderepoch")
	m.LeaseUntilMS = int64(c17Small("meta.lease"))
	m.WriteFenceVersion = c17Small("meta.fencever")
	if fence < 0 {
		fence = zzsym.Choice("meta.fence", 3)
	}
	switch fence {
	case 0:
	case 1:
		m.WriteFenceToken = c17Task
	default:
		m.WriteFenceToken = c17Other
	}
	if m.WriteFenceToken != "" {
		m.WriteFenceReason = 1
		m.WriteFenceUntilMS = 1 + int64(c17Small("meta.fenceuntil"))
		zzsym.Assume(m.WriteFenceVersion != 0)
	}
	m.RouteGeneration = 1 + c17Small("meta.routegen")
	return m
}

// c17TaskRow builds an arbitrary VALID migration task row for the channel (validity stated
// constructively, field by field, so that no path is forked only to be discarded).
func c17TaskRow() ChannelMigrationTask { return c17TaskRowF(-1) }

// c17TaskRowF: fence 0 none, 1 own token, 2 foreign token, -1 any.
func c17TaskRowF(fence int) ChannelMigrationTask {
	t := ChannelMigrationTask{TaskID: c17Task, ChannelID: c17Ch, ChannelType: c17Type}
	t.Kind = ChannelMigrationKind(zzsym.U8("task.kind"))
	zzsym.Assume(t.Kind >= ChannelMigrationKindLeaderTransfer && t.Kind <= ChannelMigrationKindLeaderFailover)
	t.Status = ChannelMigrationStatus(zzsym.U8("task.status"))
	zzsym.Assume(t.Status >= ChannelMigrationStatusPending && t.Status <= ChannelMigrationStatusAborted)
	t.Phase = ChannelMigrationPhase(zzsym.U8("task.phase"))
	zzsym.Assume(t.Phase != 0)
	t.SourceNode = uint64(zzsym.U8("task.source"))
	t.TargetNode = uint64(zzsym.U8("task.target"))
	t.DesiredLeader = uint64(zzsym.U8("task.desired"))
	zzsym.Assume(t.Kind == ChannelMigrationKindReplicaReplace || t.DesiredLeader == 0 || t.DesiredLeader == t.TargetNode)
	t.EmbeddedLeaderTransfer = zzsym.Bool("task.embedded")
	t.EmbeddedDesiredLeader = uint64(zzsym.U8("task.embeddeddesired"))
	if fence < 0 {
		fence = zzsym.Choice("task.fence", 3)
	}
	switch fence {
	case 0:
	case 1:
		t.FenceToken = c17Task
	default:
		t.FenceToken = c17Other
	}
	t.FenceVersion = zzsym.U64("task.fencever")
	t.FenceUntilMS = zzsym.I64("task.fenceuntil")
	t.CutoverLEO = zzsym.U64("task.cutleo")
	t.CutoverHW = zzsym.U64("task.cuthw")
	t.DrainedLeaderNode = zzsym.U64("task.drainedleader")
	t.DrainedRuntimeGeneration = zzsym.U64("task.drainedgen")
	t.DrainedChannelEpoch = zzsym.U64("task.drainedepoch")
	t.DrainedLeaderEpoch = zzsym.U64("task.drainedleaderepoch")
	t.DrainedFenceVersion = zzsym.U64("task.drainedfence")
	t.OwnerNodeID = uint64(zzsym.U8("task.owner"))
	t.OwnerLeaseUntilMS = zzsym.I64("task.ownerlease")
	t.UpdatedAtMS = zzsym.I64("task.updated")
	t.CompletedAtMS = zzsym.I64("task.completed")
	terminal := t.Status == ChannelMigrationStatusCompleted || t.Status == ChannelMigrationStatusFailed || t.Status == ChannelMigrationStatusAborted
	zzsym.Assume(!terminal || t.CompletedAtMS > 0)
	return t
}

type c17Env struct {
	db    *DB
	store *ShardStore
}

// c17Seed writes the pre-state rows straight through the table layer (any valid state, not only
// states some command history produced).
func c17Seed(task ChannelMigrationTask, meta ChannelRuntimeMeta) c17Env {
	engine.ZZResetStores()
	db, err := Open("c17")
	zzsym.Assume(err == nil)
	ctx := context.Background()
	eb := db.engine.NewBatch()
	shard := &Shard{db: db.meta, hashSlot: HashSlot(c17Slot)}
	zzsym.Assume(shard.stageUpsertChannelMigrationTask(ctx, eb, task) == nil)
	metaKey := encodeChannelRuntimeMetaRowKey(HashSlot(c17Slot), c17Ch, c17Type, channelRuntimeMetaPrimaryFamilyID)
	value, err := channelRuntimeMetaTable.encodeValue(metaKey, meta)
	zzsym.Assume(err == nil)
	zzsym.Assume(eb.Set(metaKey, value) == nil)
	zzsym.Assume(eb.Commit(true) == nil)
	eb.Close()
	return c17Env{db: db, store: db.ForHashSlot(c17Slot)}
}

func (e c17Env) read() (ChannelMigrationTask, ChannelRuntimeMeta) {
	ctx := context.Background()
	t, err := e.store.GetChannelMigrationTask(ctx, c17Ch, c17Type, c17Task)
	zzsym.Assert(err == nil, "task row unreadable after a command")
	m, err := e.store.GetChannelRuntimeMeta(ctx, c17Ch, c17Type)
	zzsym.Assert(err == nil, "runtime meta row unreadable after a command")
	return t, m
}

func c17GuardOf(t ChannelMigrationTask) ChannelMigrationTaskGuard {
	return ChannelMigrationTaskGuard{ChannelID: t.ChannelID, ChannelType: t.ChannelType, TaskID: t.TaskID,
		ExpectedStatus: t.Status, ExpectedPhase: t.Phase, ExpectedOwnerNodeID: t.OwnerNodeID,
		ExpectedOwnerLeaseUntilMS: t.OwnerLeaseUntilMS, ExpectedUpdatedAtMS: t.UpdatedAtMS}
}

func c17RuntimeGuardOf(m ChannelRuntimeMeta) ChannelMigrationRuntimeGuard {
	return ChannelMigrationRuntimeGuard{ChannelID: m.ChannelID, ChannelType: m.ChannelType,
		ExpectedChannelEpoch: m.ChannelEpoch, ExpectedLeaderEpoch: m.LeaderEpoch, ExpectedLeader: m.Leader,
		ExpectedFenceToken: m.WriteFenceToken, ExpectedFenceVersion: m.WriteFenceVersion}
}

// c17SymRuntimeGuard: a runtime guard whose expectations are arbitrary (the request's claims).
func c17SymRuntimeGuard() ChannelMigrationRuntimeGuard {
	g := ChannelMigrationRuntimeGuard{ChannelID: c17Ch, ChannelType: c17Type}
	g.ExpectedChannelEpoch = zzsym.U64("rg.epoch")
	g.ExpectedLeaderEpoch = zzsym.U64("rg.leaderepoch")
	g.ExpectedLeader = uint64(zzsym.U8("rg.leader"))
	switch zzsym.Choice("rg.fence", 3) {
	case 0:
	case 1:
		g.ExpectedFenceToken = c17Task
	default:
		g.ExpectedFenceToken = c17Other
	}
	g.ExpectedFenceVersion = zzsym.U64("rg.fencever")
	return g
}

func c17Contains(xs []uint64, v uint64) bool {
	for _, x := range xs {
		if x == v {
			return true
		}
	}
	return false
}

func c17MetaValid(m ChannelRuntimeMeta) bool {
	if len(m.Replicas) == 0 || m.MinISR <= 0 || m.MinISR > int64(len(m.Replicas)) {
		return false
	}
	for _, x := range m.ISR {
		if !c17Contains(m.Replicas, x) {
			return false
		}
	}
	if m.Leader != 0 && !c17Contains(m.ISR, m.Leader) {
		return false
	}
	return true
}

func c17SameFence(a, b ChannelRuntimeMeta) bool {
	return a.WriteFenceToken == b.WriteFenceToken && a.WriteFenceVersion == b.WriteFenceVersion &&
		a.WriteFenceReason == b.WriteFenceReason && a.WriteFenceUntilMS == b.WriteFenceUntilMS
}

func c17SameMeta(a, b ChannelRuntimeMeta) bool { return channelRuntimeMetaEqual(a, b) }

// c17Apply stages one migration command (chosen by cmd) with request fields that are arbitrary
// except for the task guard, and commits it. It returns the commit result.
func c17Apply(e c17Env, cmd int, guard ChannelMigrationTaskGuard, rg ChannelMigrationRuntimeGuard) error {
	wb := e.db.NewWriteBatch()
	defer wb.Close()
	status := ChannelMigrationStatus(zzsym.U8("req.status"))
	phase := ChannelMigrationPhase(zzsym.U8("req.phase"))
	updated := zzsym.I64("req.updated")
	completed := zzsym.I64("req.completed")
	now := zzsym.I64("req.now")
	var err error
	switch cmd {
	case 0:
		err = wb.SetChannelWriteFence(c17Slot, ChannelMigrationFenceRequest{Guard: guard, RuntimeGuard: rg, Status: status, Phase: phase,
			FenceReason: 1, FenceUntilMS: 1 + int64(c17Small("req.fenceuntil")), UpdatedAtMS: updated})
	case 1:
		err = wb.ResetChannelWriteFenceToPreCutover(c17Slot, ChannelMigrationResetFenceRequest{Guard: guard, RuntimeGuard: rg, Status: status, Phase: phase, NowMS: now, UpdatedAtMS: updated})
	case 2:
		err = wb.CommitChannelLeaderTransfer(c17Slot, ChannelMigrationLeaderTransferRequest{Guard: guard, RuntimeGuard: rg, Status: status, Phase: phase,
			DesiredLeader: uint64(zzsym.U8("req.desired")), NextLeaderEpoch: c17Small("req.nextleaderepoch") + c17Small("req.nextleaderepoch2"),
			LeaseUntilMS: 1 + int64(c17Small("req.lease")), NowMS: now, UpdatedAtMS: updated})
	case 3:
		err = wb.AddChannelLearner(c17Slot, ChannelMigrationAddLearnerRequest{Guard: guard, RuntimeGuard: rg, Status: status, Phase: phase,
			TargetNode: uint64(zzsym.U8("req.target")), UpdatedAtMS: updated})
	case 4:
		err = wb.PromoteLearnerAndRemoveReplica(c17Slot, ChannelMigrationPromoteLearnerRequest{Guard: guard, RuntimeGuard: rg, Status: status, Phase: phase,
			SourceNode: uint64(zzsym.U8("req.source")), TargetNode: uint64(zzsym.U8("req.target")), NowMS: now, UpdatedAtMS: updated})
	case 5:
		err = wb.ClearChannelWriteFence(c17Slot, ChannelMigrationClearFenceRequest{Guard: guard, RuntimeGuard: rg, Status: status, Phase: phase, UpdatedAtMS: updated, CompletedAtMS: completed})
	case 6:
		err = wb.AbortChannelMigration(c17Slot, ChannelMigrationAbortRequest{Guard: guard, RuntimeGuard: rg, Status: status, Phase: phase, UpdatedAtMS: updated, CompletedAtMS: completed})
	case 7:
		err = wb.AdvanceChannelMigrationTask(c17Slot, ChannelMigrationTaskAdvance{Guard: guard, Status: status, Phase: phase, UpdatedAtMS: updated, CompletedAtMS: completed,
			CutoverProof: ChannelMigrationCutoverProof{CutoverLEO: zzsym.U64("req.proof.leo"), CutoverHW: zzsym.U64("req.proof.hw"), DrainedLeaderNode: zzsym.U64("req.proof.leader"),
				DrainedRuntimeGeneration: zzsym.U64("req.proof.gen"), DrainedChannelEpoch: zzsym.U64("req.proof.epoch"), DrainedLeaderEpoch: zzsym.U64("req.proof.leaderepoch"), DrainedFenceVersion: zzsym.U64("req.proof.fence")}})
	default:
		err = wb.ClaimChannelMigrationTask(c17Slot, ChannelMigrationTaskClaim{Guard: guard, Status: status, Phase: phase, OwnerNodeID: uint64(zzsym.U8("req.owner")),
			OwnerLeaseUntilMS: zzsym.I64("req.ownerlease"), NowMS: now, UpdatedAtMS: updated})
	}
	if err != nil {
		return err
	}
	return wb.Commit()
}

const c17NumCmds = 9

// Harness_C17_CutoverNeedsMatchingProof: a leader transfer commits (and a learner is promoted)
// only with a drain proof matching the channel's current fence version, channel epoch, leader
// epoch and leader, under the task's own unexpired fence; and the written meta stays valid.
func Harness_C17_CutoverNeedsMatchingProof() {
	// quick: the region where a cutover can succeed (own fence on both rows); thorough: every
	// combination of task / meta fence tokens
	tf, mf := 1, 1
	if zzsym.Thorough() {
		tf, mf = -1, -1
	}
	task, meta := c17TaskRowF(tf), c17Meta(mf)
	e := c17Seed(task, meta)
	cmd := 2
	if zzsym.Choice("cutover.kind", 2) == 1 {
		cmd = 4
	}
	rg := c17SymRuntimeGuard()
	err := c17Apply(e, cmd, c17GuardOf(task), rg)
	postTask, postMeta := e.read()
	if err != nil {
		zzsym.Reach("cutover-refused")
		zzsym.Assert(postTask == task && c17SameMeta(postMeta, normalizeChannelRuntimeMeta(meta)), "a refused cutover changed the stored rows")
		return
	}
	if postTask == task && c17SameMeta(postMeta, normalizeChannelRuntimeMeta(meta)) {
		return // accepted without effect (idempotent replay)
	}
	zzsym.Reach("cutover-committed")
	zzsym.Assert(task.DrainedFenceVersion == meta.WriteFenceVersion && task.DrainedChannelEpoch == meta.ChannelEpoch &&
		task.DrainedLeaderEpoch == meta.LeaderEpoch && task.DrainedLeaderNode == meta.Leader,
		"cutover committed without a drain proof matching the current fence version, channel epoch, leader epoch and leader")
	zzsym.Assert(task.FenceToken == c17Task && meta.WriteFenceToken == c17Task && task.FenceVersion == meta.WriteFenceVersion,
		"cutover committed without the task's own fence on the channel")
	zzsym.Assert(rg.ExpectedFenceVersion == meta.WriteFenceVersion && rg.ExpectedChannelEpoch == meta.ChannelEpoch &&
		rg.ExpectedLeaderEpoch == meta.LeaderEpoch && rg.ExpectedLeader == meta.Leader, "cutover committed under a stale runtime guard")
	zzsym.Assert(!task.IsTerminal(), "cutover committed on a terminal task")
	zzsym.Assert(c17MetaValid(postMeta), "cutover left invalid channel metadata (leader in ISR, ISR within replicas, MinISR satisfiable)")
	zzsym.Assert(postMeta.RouteGeneration > normalizeChannelRuntimeMeta(meta).RouteGeneration, "cutover changed the route without raising the route generation")
	zzsym.Observe("post", uint64(postTask.Phase), postMeta.Leader, postMeta.LeaderEpoch, uint64(len(postMeta.Replicas)))
}

// Harness_C17_NoAbortAfterCutover: once a leader transfer is committed or a learner promoted, an
// Abort with any request (matching guards) is refused and changes nothing.
func Harness_C17_NoAbortAfterCutover() {
	task, meta := c17TaskRowF(1), c17Meta(1) // a cutover needs the task's own fence (Harness_C17_CutoverNeedsMatchingProof)
	e := c17Seed(task, meta)
	cmd := 2
	if zzsym.Choice("cutover.kind", 2) == 1 {
		cmd = 4
	}
	zzsym.Assume(c17Apply(e, cmd, c17GuardOf(task), c17RuntimeGuardOf(meta)) == nil)
	midTask, midMeta := e.read()
	zzsym.Assume(midTask != task)
	zzsym.Reach("cutover-done")
	err := c17Apply(e, 6, c17GuardOf(midTask), c17RuntimeGuardOf(midMeta))
	postTask, postMeta := e.read()
	zzsym.Assert(err != nil, "Abort accepted after the cutover was committed")
	zzsym.Assert(postTask == midTask && c17SameMeta(postMeta, midMeta), "Abort after cutover changed the stored rows")
}

// Harness_C17_NoAbortAfterCutoverHistory: same, with one arbitrary other command between the
// cutover and the Abort. Advance/Claim copy the request's phase into the task without a
// post-cutover guard (recorded finding C17-F1); every other interposed command is a hard obligation.
func Harness_C17_NoAbortAfterCutoverHistory() {
	task, meta := c17TaskRowF(1), c17Meta(1)
	// a task kind whose cutover is final: plain leader transfer/failover, or a promoted replica replace
	cmd := 2
	if zzsym.Choice("cutover.kind", 2) == 1 {
		cmd = 4
	} else {
		zzsym.Assume(task.Kind != ChannelMigrationKindReplicaReplace)
	}
	e := c17Seed(task, meta)
	zzsym.Assume(c17Apply(e, cmd, c17GuardOf(task), c17RuntimeGuardOf(meta)) == nil)
	midTask, midMeta := e.read()
	zzsym.Assume(midTask != task)
	// quick: the interposed command is Advance (the recorded finding); thorough: any command but Abort
	second := 7
	if zzsym.Thorough() {
		second = zzsym.Choice("second.cmd", c17NumCmds)
		zzsym.Assume(second != 6)
	}
	_ = c17Apply(e, second, c17GuardOf(midTask), c17RuntimeGuardOf(midMeta))
	mid2Task, mid2Meta := e.read()
	zzsym.Reach("second-applied")
	err := c17Apply(e, 6, c17GuardOf(mid2Task), c17RuntimeGuardOf(mid2Meta))
	postTask, _ := e.read()
	aborted := err == nil && postTask.Status == ChannelMigrationStatusAborted && mid2Task.Status != ChannelMigrationStatusAborted
	if second == 1 {
		// ResetChannelWriteFenceToPreCutover is accepted in the post-promotion phase once the fence
		// lease has expired and moves the task back to WarmCatchUp (recorded finding C17-F2)
		zzsym.AssertKnown(!aborted, "a committed or promoted task was aborted after one more command", "C17-F2", true)
		return
	}
	zzsym.AssertKnown(!aborted, "a committed or promoted task was aborted after one more command", "C17-F1", second == 7 || second == 8)
}

// Harness_C17_ForeignFenceUntouched: no command of task t1 overwrites or clears a fence whose
// token belongs to another task.
func Harness_C17_ForeignFenceUntouched() {
	tf := 1
	if zzsym.Thorough() {
		tf = -1
	}
	task, meta := c17TaskRowF(tf), c17Meta(2)
	e := c17Seed(task, meta)
	cmd := zzsym.Choice("cmd", c17NumCmds)
	err := c17Apply(e, cmd, c17GuardOf(task), c17SymRuntimeGuard())
	_, postMeta := e.read()
	zzsym.Reach("foreign-fence-checked")
	zzsym.Assert(c17SameFence(postMeta, meta), "a command of one task overwrote or cleared another task's fence")
	if err == nil {
		zzsym.Assert(c17MetaValid(postMeta), "accepted step left invalid channel metadata")
	}
}

// Harness_C17_GuardMismatchWritesNothing: a command whose task guard does not name the current
// status/phase/owner/update stamp changes nothing.
func Harness_C17_GuardMismatchWritesNothing() {
	task, meta := c17TaskRowF(1), c17Meta(1)
	e := c17Seed(task, meta)
	guard := c17GuardOf(task)
	guard.ExpectedStatus = ChannelMigrationStatus(zzsym.U8("g.status"))
	guard.ExpectedPhase = ChannelMigrationPhase(zzsym.U8("g.phase"))
	guard.ExpectedOwnerNodeID = uint64(zzsym.U8("g.owner"))
	guard.ExpectedUpdatedAtMS = zzsym.I64("g.updated")
	zzsym.Assume(!guard.matches(task))
	cmd := zzsym.Choice("cmd", c17NumCmds)
	_ = c17Apply(e, cmd, guard, c17RuntimeGuardOf(meta))
	postTask, postMeta := e.read()
	zzsym.Reach("mismatch-checked")
	zzsym.Assert(postTask == task && c17SameMeta(postMeta, normalizeChannelRuntimeMeta(meta)), "a command with a mismatching task guard changed stored state")
}

// Harness_C17_AcceptedStepKeepsMetaValid: every accepted step of every command leaves valid metadata
// and never lets a terminal task change.
func Harness_C17_AcceptedStepKeepsMetaValid() {
	f := zzsym.Choice("fence", 2)
	task, meta := c17TaskRowF(f), c17Meta(f)
	e := c17Seed(task, meta)
	cmd := zzsym.Choice("cmd", c17NumCmds)
	err := c17Apply(e, cmd, c17GuardOf(task), c17SymRuntimeGuard())
	postTask, postMeta := e.read()
	if err != nil {
		zzsym.Reach("step-refused")
		zzsym.Assert(postTask == task && c17SameMeta(postMeta, normalizeChannelRuntimeMeta(meta)), "a refused step changed the stored rows")
		return
	}
	zzsym.Reach("step-accepted")
	zzsym.Assert(c17MetaValid(postMeta), "accepted step left invalid channel metadata")
	if cmd <= 6 {
		zzsym.Assert(!task.IsTerminal() || postTask == task, "a fenced migration command changed a terminal task")
	}
}

// Harness_C17_OneActiveTask: a second active task for the same channel is refused.
func Harness_C17_OneActiveTask() {
	task := c17TaskRow()
	meta := ChannelRuntimeMeta{ChannelID: c17Ch, ChannelType: c17Type, Replicas: []uint64{1, 2, 3}, ISR: []uint64{1, 2, 3}, Leader: 1, MinISR: 2, ChannelEpoch: 1, LeaderEpoch: 1, RouteGeneration: 1}
	zzsym.Assume(task.IsActive())
	e := c17Seed(task, meta)
	second := c17TaskRow()
	second.TaskID = c17Other
	zzsym.Assume(second.IsActive())
	wb := e.db.NewWriteBatch()
	defer wb.Close()
	err := wb.CreateChannelMigrationTask(c17Slot, second)
	if err == nil {
		err = wb.Commit()
	}
	zzsym.Reach("second-create-tried")
	zzsym.Assert(err != nil, "a second active migration task was created for the channel")
	_, gerr := e.store.GetChannelMigrationTask(context.Background(), c17Ch, c17Type, c17Other)
	zzsym.Assert(gerr != nil, "the refused second task is stored")
}

// Harness_C17_OneActiveTaskHistory: "at most one active task per channel" over a short history with
// THREE task ids: task A is terminal, task B is created and active; then one more command is
// accepted for the terminal task A (Advance / Claim with A's own guard and a terminal result
// status - rewriting a terminal row), and then a third task C is offered: it must be refused while
// B is active, and the channel's active task is B throughout.
func Harness_C17_OneActiveTaskHistory() {
	taskA := c17TaskRow()
	zzsym.Assume(taskA.IsTerminal())
	meta := ChannelRuntimeMeta{ChannelID: c17Ch, ChannelType: c17Type, Replicas: []uint64{1, 2, 3}, ISR: []uint64{1, 2, 3}, Leader: 1, MinISR: 2, ChannelEpoch: 1, LeaderEpoch: 1, RouteGeneration: 1}
	e := c17Seed(taskA, meta)
	ctx := context.Background()
	taskB := ChannelMigrationTask{TaskID: c17Other, ChannelID: c17Ch, ChannelType: c17Type, Kind: ChannelMigrationKindLeaderTransfer,
		Status: ChannelMigrationStatusPending, Phase: ChannelMigrationPhaseValidate, SourceNode: 1, TargetNode: 2, DesiredLeader: 2, UpdatedAtMS: 10}
	wb := e.db.NewWriteBatch()
	err := wb.CreateChannelMigrationTask(c17Slot, taskB)
	if err == nil {
		err = wb.Commit()
	}
	wb.Close()
	zzsym.Assert(err == nil, "a task cannot be created although the channel's only other task is terminal")
	active, found, aerr := e.store.GetActiveChannelMigrationTask(ctx, c17Ch, c17Type)
	zzsym.Assert(aerr == nil && found && active.TaskID == c17Other, "the created task is not the channel's active task")
	// one more command on the terminal task A, with A's own guard
	second := 7 + zzsym.Choice("second.cmd", 2)
	_ = c17Apply(e, second, c17GuardOf(taskA), c17RuntimeGuardOf(meta))
	zzsym.Reach("terminal-rewritten")
	active, found, aerr = e.store.GetActiveChannelMigrationTask(ctx, c17Ch, c17Type)
	zzsym.Assert(aerr == nil && found && active.TaskID == c17Other, "a command on a terminal task made the channel lose its active task")
	taskC := taskB
	taskC.TaskID = "t3"
	wb2 := e.db.NewWriteBatch()
	cerr := wb2.CreateChannelMigrationTask(c17Slot, taskC)
	if cerr == nil {
		cerr = wb2.Commit()
	}
	wb2.Close()
	zzsym.Assert(cerr != nil, "a second active migration task was created for the channel after a terminal task was rewritten")
	_, gerr := e.store.GetChannelMigrationTask(ctx, c17Ch, c17Type, "t3")
	zzsym.Assert(gerr != nil, "the refused third task is stored")
}
