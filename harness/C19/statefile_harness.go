package statefile

import (
	"context"
	"errors"
	"time"

	"github.com/WuKongIM/WuKongIM/internal/zzsym"
	"github.com/WuKongIM/WuKongIM/pkg/controller/state"
)

// ---- handles on the engine's crash-model file system (engine/intr_C19.go). The bodies are never executed:
// the executor replaces these functions, together with the os functions statefile calls, by the model.
// (Natively there is nothing to run against: the real os package cannot be made to crash half-way.)

// c19Reset empties the model; when hasOld, path holds old, durably.
func c19Reset(path string, hasOld bool, old []byte) { panic("symbolic") }

// c19SetEncoded fixes what state.Encode returns (arbitrary bytes chosen by the harness), or makes it fail.
func c19SetEncoded(data []byte, fail bool) { panic("symbolic") }

// c19Arm: the file system freezes (crash) before its crashAt-th operation (a crash at a write may leave a
// prefix); with injectErrors every operation may fail instead of taking effect.
func c19Arm(crashAt int, injectErrors bool) { panic("symbolic") }

// c19Crashed reports whether the crash point was reached; c19Ops the number of operations performed.
func c19Crashed() bool { panic("symbolic") }
func c19Ops() int      { panic("symbolic") }

// c19Recover brings the file system back: process kill keeps the volatile view, power loss keeps what was
// made durable plus any allowed subset of what was not (see the model).
func c19Recover(powerLoss bool) { panic("symbolic") }

// c19Read returns the content of path as a reader sees it now.
func c19Read(path string) ([]byte, bool) { panic("symbolic") }

// c19ForeignReads counts files other than path opened for reading since c19ResetReads.
func c19ForeignReads(path string) int { panic("symbolic") }
func c19ResetReads()                  { panic("symbolic") }

// c19LastDecoded returns the bytes last handed to state.Decode.
func c19LastDecoded() []byte { panic("symbolic") }

// c19Ctx is a plain context whose Err is fixed by the harness.
type c19Ctx struct{ err error }

func (c c19Ctx) Deadline() (time.Time, bool) { return time.Time{}, false }
func (c c19Ctx) Done() <-chan struct{}       { return nil }
func (c c19Ctx) Err() error                  { return c.err }
func (c c19Ctx) Value(key any) any           { return nil }

var _ context.Context = c19Ctx{}

var errC19 = errors.New("c19: injected failure")

const c19Path = "/data/cluster/cluster-state.json"

func c19Eq(a, b []byte) bool {
	if len(a) != len(b) {
		return false
	}
	eq := true
	for i := range a {
		if a[i] != b[i] {
			eq = false
		}
	}
	return eq
}

type c19Setup struct {
	hasOld   bool
	old, new []byte
}

func c19Prepare() c19Setup {
	s := c19Setup{hasOld: zzsym.Choice("has-old", 2) == 1}
	maxLen := 3
	if zzsym.Thorough() {
		maxLen = 5
	}
	s.old = zzsym.Bytes("old", 2)
	s.new = zzsym.Bytes("new", 1+zzsym.Choice("newlen", maxLen))
	// old and new are different files (otherwise "old or new" cannot be told apart and every state passes)
	zzsym.Assume(!c19Eq(s.old, s.new))
	c19Reset(c19Path, s.hasOld, s.old)
	c19SetEncoded(s.new, false)
	return s
}

// c19CheckMain asserts the atomic-replacement property on the recovered file system and that Load reads the
// main file only.
func c19CheckMain(s c19Setup, store *Store) {
	data, exists := c19Read(c19Path)
	if s.hasOld {
		zzsym.Assert(exists, "main state file lost")
		zzsym.Assert(c19Eq(data, s.old) || c19Eq(data, s.new), "main state file holds neither the previous nor the new complete state")
	} else {
		zzsym.Assert(!exists || c19Eq(data, s.new), "first save left a state file that is not the complete new state")
	}
	c19ResetReads()
	_, lerr := store.Load(c19Ctx{})
	zzsym.Assert(c19ForeignReads(c19Path) == 0, "Load read a file other than the main state file")
	if exists {
		zzsym.Assert(lerr == nil, "Load failed on an existing state file")
		zzsym.Assert(c19Eq(c19LastDecoded(), data), "Load decoded bytes other than the main state file's")
	} else {
		zzsym.Assert(lerr != nil, "Load succeeded without a state file")
	}
}

// Harness_C19_CrashDuringSave: a crash (process kill or power loss) before any file-system operation of Save, or
// in the middle of its write, leaves the main path with exactly the previous or exactly the new bytes.
func Harness_C19_CrashDuringSave() {
	s := c19Prepare()
	maxOps := 12
	k := zzsym.Choice("crash-before-op", maxOps)
	power := zzsym.Choice("power-loss", 2) == 1
	c19Arm(k, false)
	store := New(c19Path)
	err := store.Save(c19Ctx{}, state.ClusterState{})
	crashed := c19Crashed()
	zzsym.Assert(c19Ops() < maxOps, "Save performs more file-system operations than the crash points cover")
	if crashed {
		zzsym.Reach("crashed-during-save")
	} else {
		zzsym.Reach("save-completed")
		zzsym.Assert(err == nil, "Save failed although every operation succeeded")
	}
	c19Recover(power)
	if !crashed && !power {
		data, exists := c19Read(c19Path)
		zzsym.Assert(exists && c19Eq(data, s.new), "after a successful Save the main state file is not the new state")
	}
	c19CheckMain(s, store)
}

// Harness_C19_ErrorsDuringSave: any operation may fail (a failed write may have written a prefix); whatever Save
// then does, the main path holds the previous or the new bytes, immediately and after a power loss, and the
// new bytes whenever Save reported success.
func Harness_C19_ErrorsDuringSave() {
	s := c19Prepare()
	power := zzsym.Choice("power-loss", 2) == 1
	c19Arm(-1, true)
	store := New(c19Path)
	err := store.Save(c19Ctx{}, state.ClusterState{})
	if err != nil {
		zzsym.Reach("save-reported-error")
	} else {
		zzsym.Reach("save-reported-success")
		data, exists := c19Read(c19Path)
		zzsym.Assert(exists && c19Eq(data, s.new), "Save reported success but the main state file is not the new state")
	}
	c19Recover(power)
	c19CheckMain(s, store)
}

// Harness_C19_HookAndEncodeFailures: a failing after-temp-write hook, a failing encoder and a cancelled context
// leave the main file untouched.
func Harness_C19_HookAndEncodeFailures() {
	s := c19Prepare()
	which := zzsym.Choice("failure", 3)
	ctx := c19Ctx{}
	var store *Store
	switch which {
	case 0:
		store = New(c19Path, WithAfterTempWriteHook(func() error { return errC19 }))
	case 1:
		store = New(c19Path)
		c19SetEncoded(s.new, true)
	default:
		store = New(c19Path)
		ctx = c19Ctx{err: errC19}
	}
	c19Arm(-1, false)
	err := store.Save(ctx, state.ClusterState{})
	zzsym.Reach("refused-save")
	zzsym.Assert(err != nil, "Save succeeded although the hook/encoder/context failed")
	data, exists := c19Read(c19Path)
	zzsym.Assert(exists == s.hasOld && (!exists || c19Eq(data, s.old)), "a refused Save changed the main state file")
	c19Recover(zzsym.Choice("power-loss", 2) == 1)
	store2 := New(c19Path)
	c19CheckMain(s, store2)
}
