package state

import (
	"github.com/WuKongIM/WuKongIM/internal/zzsym"
)

func c19State(p string) ClusterState {
	st := ClusterState{
		SchemaVersion:    zzsym.U32(p + ".schema"),
		ClusterID:        zzsym.String(p+".cluster", 1),
		Revision:         zzsym.U64(p + ".revision"),
		AppliedRaftIndex: zzsym.U64(p + ".applied"),
		Config: ClusterConfig{SlotCount: zzsym.U32(p + ".slots"), HashSlotCount: zzsym.U16(p + ".hashslots"),
			ReplicaCount: zzsym.U16(p + ".replicas"), DefaultCapacityWeight: zzsym.U32(p + ".weight")},
		Controllers: []ControllerVoter{{NodeID: zzsym.U64(p + ".voter")}},
		Nodes:       []Node{{NodeID: zzsym.U64(p + ".node"), Addr: zzsym.String(p+".addr", 1)}},
		Slots:       []SlotAssignment{{SlotID: zzsym.U32(p + ".slot")}},
	}
	return st
}

// Harness_C19_ChecksumCoversEveryField (slice of the checksum clause): the value the state-file
// checksum is computed over (checksumView) determines every persisted field of the state other than
// the checksum itself, so a file whose fields were altered cannot keep a valid checksum. The JSON
// text and the CRC itself are not modelled.
func Harness_C19_ChecksumCoversEveryField() {
	a, b := c19State("a"), c19State("b")
	va, vb := checksumView(a), checksumView(b)
	sameView := va.SchemaVersion == vb.SchemaVersion && va.ClusterID == vb.ClusterID && va.Revision == vb.Revision &&
		va.AppliedRaftIndex == vb.AppliedRaftIndex && va.UpdatedAt == vb.UpdatedAt && va.Config == vb.Config &&
		len(va.Controllers) == 1 && len(vb.Controllers) == 1 && va.Controllers[0].NodeID == vb.Controllers[0].NodeID &&
		len(va.Nodes) == 1 && len(vb.Nodes) == 1 && va.Nodes[0].NodeID == vb.Nodes[0].NodeID && va.Nodes[0].Addr == vb.Nodes[0].Addr &&
		len(va.Slots) == 1 && len(vb.Slots) == 1 && va.Slots[0].SlotID == vb.Slots[0].SlotID
	sameState := a.SchemaVersion == b.SchemaVersion && a.ClusterID == b.ClusterID && a.Revision == b.Revision &&
		a.AppliedRaftIndex == b.AppliedRaftIndex && a.Config == b.Config &&
		a.Controllers[0].NodeID == b.Controllers[0].NodeID && a.Nodes[0].NodeID == b.Nodes[0].NodeID && a.Nodes[0].Addr == b.Nodes[0].Addr &&
		a.Slots[0].SlotID == b.Slots[0].SlotID
	zzsym.Reach("views-compared")
	zzsym.Assert(!sameView || sameState, "two states that differ in a persisted field have the same checksum view")
	zzsym.Assert(!sameState || sameView, "the checksum view is not a function of the persisted fields")
	zzsym.Observe("same", zzsym.B2U(sameView), zzsym.B2U(sameState))
}
