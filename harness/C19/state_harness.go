package state

import (
	"github.com/WuKongIM/WuKongIM/internal/zzsym"
)

func c19State(p string) ClusterState {
	st := ClusterState{
		SchemaVersion:    zzsym.U32(p + ".schema"),
		ClusterID:        zzsym.String(p+".cluster", 1),
		Revision:         zzsym.U64(p + ".revision"),
		AppliedRaftIndex: zzsym.U64(p + ".applied"),
		Config: ClusterConfig{SlotCount: zzsym.U32(p + ".slots"), HashSlotCount: zzsym.U16(p + ".hashslots"),
			ReplicaCount: zzsym.U16(p + ".replicas"), DefaultCapacityWeight: zzsym.U32(p + ".weight")},
		Controllers: []ControllerVoter{{NodeID: zzsym.U64(p + ".voter")}},
		Nodes:       []Node{{NodeID: zzsym.U64(p + ".node"), Addr: zzsym.String(p+".addr", 1)}},
		Slots:       []SlotAssignment{{SlotID: zzsym.U32(p + ".slot")}},
	}
	return st
}

// Harness_C19_ChecksumCoversEveryField (slice of the checksum clause): the value the state-file
// checksum is computed over (checksumView) determines every persisted field of the state other than
// the checksum itself, so a file whose fields were altered cannot keep a valid checksum. The JSON
// text and the CRC itself are not modelled.
func Harness_C19_ChecksumCoversEveryField() {
	a, b := c19State("a"), c19State("b")
	va, vb := checksumView(a), checksumView(b)
	sameView := va.SchemaVersion == vb.SchemaVersion && va.ClusterID == vb.ClusterID && va.Revision == vb.Revision &&
		va.AppliedRaftIndex == vb.AppliedRaftIndex && va.UpdatedAt == vb.UpdatedAt && va.Config == vb.Config &&
		len(va.Controllers) == 1 && len(vb.Controllers) == 1 && va.Controllers[0].NodeID == vb.Controllers[0].NodeID &&
		len(va.Nodes) == 1 && len(vb.Nodes) == 1 && va.Nodes[0].NodeID == vb.Nodes[0].NodeID && va.Nodes[0].Addr == vb.Nodes[0].Addr &&
		len(va.Slots) == 1 && len(vb.Slots) == 1 && va.Slots[0].SlotID == vb.Slots[0].SlotID
	sameState := a.SchemaVersion == b.SchemaVersion && a.ClusterID == b.ClusterID && a.Revision == b.Revision &&
		a.AppliedRaftIndex == b.AppliedRaftIndex && a.Config == b.Config &&
		a.Controllers[0].NodeID == b.Controllers[0].NodeID && a.Nodes[0].NodeID == b.Nodes[0].NodeID && a.Nodes[0].Addr == b.Nodes[0].Addr &&
		a.Slots[0].SlotID == b.Slots[0].SlotID
	zzsym.Reach("views-compared")
	zzsym.Assert(!sameView || sameState, "two states that differ in a persisted field have the same checksum view")
	zzsym.Assert(!sameState || sameView, "the checksum view is not a function of the persisted fields")
	zzsym.Observe("same", zzsym.B2U(sameView), zzsym.B2U(sameState))
}

// c19Sections: a state with EVERY optional section of the file populated (health report, hash-slot
// range, task, scheduled-backup section, MCP section with one credential), one symbolic scalar each.
func c19Sections(p string) ClusterState {
	st := c19State(p)
	st.NodeHealthReports = []NodeHealthReport{{NodeID: zzsym.U64(p + ".health.node"), ObservedControlRevision: zzsym.U64(p + ".health.rev")}}
	st.HashSlots = HashSlotTable{Version: zzsym.U32(p + ".hs.version"), SlotCount: zzsym.U16(p + ".hs.count"),
		Ranges: []HashSlotRange{{From: zzsym.U16(p + ".hs.from"), To: zzsym.U16(p + ".hs.to"), SlotID: zzsym.U32(p + ".hs.slot")}}}
	st.Tasks = []ReconcileTask{{TaskID: zzsym.String(p+".task.id", 1), SlotID: zzsym.U32(p + ".task.slot"), TargetNode: zzsym.U64(p + ".task.target")}}
	if zzsym.Bool(p + ".backup.present") {
		st.ScheduledBackup = &ScheduledBackupState{Revision: zzsym.U64(p + ".backup.rev"), ManagerSessionEpoch: zzsym.U64(p + ".backup.epoch")}
	}
	if zzsym.Bool(p + ".mcp.present") {
		st.OpsMCP = &OpsMCPState{Enabled: zzsym.Bool(p + ".mcp.enabled"), OwnerNodeID: zzsym.U64(p + ".mcp.owner"),
			Credentials: []OpsMCPCredential{{ID: zzsym.String(p+".mcp.cred", 1), DigestSHA256: zzsym.String(p+".mcp.digest", 1), CreatedAtUnixMillis: zzsym.I64(p + ".mcp.created")}}}
	}
	return st
}

// Harness_C19_ChecksumCoversEverySection: the view the checksum is computed over carries every
// section of the state - health reports, hash-slot table, tasks, the scheduled-backup section and
// the MCP section (presence and content) - so that a change confined to any one of them cannot
// keep the checksum: equal views imply equal sections.
func Harness_C19_ChecksumCoversEverySection() {
	a, b := c19Sections("a"), c19Sections("b")
	va, vb := checksumView(a), checksumView(b)
	secEq := func(x, y ClusterState) bool {
		if len(x.NodeHealthReports) != 1 || len(y.NodeHealthReports) != 1 || x.NodeHealthReports[0] != y.NodeHealthReports[0] {
			return false
		}
		if x.HashSlots.Version != y.HashSlots.Version || x.HashSlots.SlotCount != y.HashSlots.SlotCount ||
			len(x.HashSlots.Ranges) != 1 || len(y.HashSlots.Ranges) != 1 || x.HashSlots.Ranges[0] != y.HashSlots.Ranges[0] {
			return false
		}
		if len(x.Tasks) != 1 || len(y.Tasks) != 1 || x.Tasks[0].TaskID != y.Tasks[0].TaskID || x.Tasks[0].SlotID != y.Tasks[0].SlotID || x.Tasks[0].TargetNode != y.Tasks[0].TargetNode {
			return false
		}
		if (x.ScheduledBackup == nil) != (y.ScheduledBackup == nil) {
			return false
		}
		if x.ScheduledBackup != nil && (x.ScheduledBackup.Revision != y.ScheduledBackup.Revision || x.ScheduledBackup.ManagerSessionEpoch != y.ScheduledBackup.ManagerSessionEpoch) {
			return false
		}
		if (x.OpsMCP == nil) != (y.OpsMCP == nil) {
			return false
		}
		if x.OpsMCP != nil {
			if x.OpsMCP.Enabled != y.OpsMCP.Enabled || x.OpsMCP.OwnerNodeID != y.OpsMCP.OwnerNodeID ||
				len(x.OpsMCP.Credentials) != 1 || len(y.OpsMCP.Credentials) != 1 || x.OpsMCP.Credentials[0] != y.OpsMCP.Credentials[0] {
				return false
			}
		}
		return true
	}
	viewState := func(v checksumClusterState) ClusterState {
		return ClusterState{NodeHealthReports: v.NodeHealthReports, HashSlots: v.HashSlots, Tasks: v.Tasks, ScheduledBackup: v.ScheduledBackup, OpsMCP: v.OpsMCP}
	}
	sameView := secEq(viewState(va), viewState(vb))
	sameState := secEq(a, b)
	zzsym.Reach("sections-compared")
	zzsym.Assert(!sameView || sameState, "two states that differ in an optional section (health reports, hash slots, tasks, scheduled backup, MCP) have the same checksum view")
	zzsym.Assert(!sameState || sameView, "the checksum view is not a function of the optional sections")
	// each section of the view is the state's own section, not a default
	zzsym.Assert(secEq(viewState(va), a), "the checksum view drops or replaces a section of the state")
}
