package channels

import (
	"errors"

	"github.com/WuKongIM/WuKongIM/internal/zzsym"
	ch "github.com/WuKongIM/WuKongIM/pkg/channel"
	channeltransport "github.com/WuKongIM/WuKongIM/pkg/channel/transport"
)

// ---- generators ----

// c27ChGen: every varint-encoded integer is symbolic, one encoded byte wide (uvarint 0..127, zig-zag varint
// -64..63) except the field named wide, which ranges over its full 64-bit type; allWide makes every
// integer ten bytes wide.
type c27ChGen struct {
	wide    string
	allWide bool
}

func (g *c27ChGen) u64(name string) uint64 {
	if g.allWide {
		return zzsym.U64(name) | 1<<63
	}
	if name == g.wide {
		return zzsym.U64(name)
	}
	return uint64(zzsym.U8(name)) & 0x7f
}

func (g *c27ChGen) i64(name string) int64 {
	if g.allWide {
		return zzsym.I64(name) | -1<<62 // <= -2^62: ten zig-zag bytes
	}
	if name == g.wide {
		return zzsym.I64(name)
	}
	return int64(zzsym.I8(name)) >> 1
}

func (g *c27ChGen) nonNegInt(name string) int {
	if g.allWide {
		return int(zzsym.U64(name)>>1 | 1<<62)
	}
	if name == g.wide {
		return int(zzsym.U64(name) >> 1)
	}
	return int(zzsym.U8(name) & 0x7f)
}

func c27ChLen(name string) int {
	max := 2
	if zzsym.Thorough() {
		max = 3
	}
	return zzsym.Choice(name, max+1)
}

// optional byte strings travel as presence byte + bytes: nil and empty are distinct on the wire, but
// readOptionalBytes copies with append([]byte(nil), ...), so an empty non-nil payload decodes to nil.
// shape 0 = nil, 1..: that many bytes.
func c27ChPayload(name string, n int) []byte {
	if n == 0 {
		return nil
	}
	return zzsym.Bytes(name, n)
}

func (g *c27ChGen) message(p string, strLen, payloadLen int) ch.Message {
	return ch.Message{MessageID: g.u64(p + "messageID"), MessageSeq: g.u64(p + "messageSeq"), ChannelID: zzsym.String(p+"channelID", strLen), ChannelType: zzsym.U8(p + "channelType"),
		Setting: zzsym.U8(p + "setting"), FromUID: zzsym.String(p+"fromUID", strLen), ClientMsgNo: zzsym.String(p+"clientMsgNo", strLen), ServerTimestampMS: g.i64(p + "timestamp"),
		TraceID: zzsym.String(p+"traceID", strLen), ChannelKey: zzsym.String(p+"channelKey", strLen), Payload: c27ChPayload(p+"payload", payloadLen)}
}

func c27ChSameBytes(a, b []byte) bool {
	if len(a) != len(b) {
		return false
	}
	same := true
	for i := range a {
		if a[i] != b[i] {
			same = false
		}
	}
	return same
}

// c27ChSameMessage compares every field that appendMessage puts on the wire (Message.SyncOnce is not part
// of this wire format, see Harness_C27_ChMessageSyncOnce).
func c27ChSameMessage(a, b ch.Message) bool {
	return a.MessageID == b.MessageID && a.MessageSeq == b.MessageSeq && a.ChannelID == b.ChannelID && a.ChannelType == b.ChannelType && a.Setting == b.Setting &&
		a.FromUID == b.FromUID && a.ClientMsgNo == b.ClientMsgNo && a.ServerTimestampMS == b.ServerTimestampMS && a.TraceID == b.TraceID && a.ChannelKey == b.ChannelKey &&
		c27ChSameBytes(a.Payload, b.Payload) && (a.Payload == nil) == (b.Payload == nil)
}

// c27ChVersion picks one of the three wire versions the encoders accept.
func c27ChVersion() uint8 {
	return []uint8{legacyCodecVersionV5, legacyCodecVersionV6, codecVersion}[zzsym.Choice("version", 3)]
}

// c27ChCut: a prefix length in [0,n), every value explored, at most 32 alternatives per choice.
func c27ChCut(n int) int {
	hi := zzsym.Choice("cut.hi", (n+31)/32)
	lo := zzsym.Choice("cut.lo", 32)
	cut := hi*32 + lo
	zzsym.Assume(cut < n)
	return cut
}

// ---- PullRequest (exported codec) ----

func (g *c27ChGen) pullRequest(strLen int) channeltransport.PullRequest {
	return channeltransport.PullRequest{ChannelKey: ch.ChannelKey(zzsym.String("key", strLen)), ChannelID: ch.ChannelID{ID: zzsym.String("id", strLen), Type: zzsym.U8("type")},
		Epoch: g.u64("epoch"), LeaderEpoch: g.u64("leaderEpoch"), Follower: ch.NodeID(g.u64("follower")), NextOffset: g.u64("nextOffset"), AckOffset: g.u64("ackOffset"),
		MaxBytes: int(g.i64("maxBytes")), NeedMeta: zzsym.Bool("needMeta")}
}

func c27ChSamePullRequest(a, b channeltransport.PullRequest) bool {
	return a.ChannelKey == b.ChannelKey && a.ChannelID.ID == b.ChannelID.ID && a.ChannelID.Type == b.ChannelID.Type && a.Epoch == b.Epoch && a.LeaderEpoch == b.LeaderEpoch &&
		a.Follower == b.Follower && a.NextOffset == b.NextOffset && a.AckOffset == b.AckOffset && a.MaxBytes == b.MaxBytes && a.NeedMeta == b.NeedMeta
}

// Harness_C27_ChPullRequest: EncodePullRequest / DecodePullRequest and the pull batch request. Scenarios:
// 0 = strings 0..2 at each accepted version, 1 = NextOffset over all of uint64, 2 = MaxBytes over all of
// int64 (signed varint), 3 = every integer ten bytes wide, 4 = batch of 0..2 items, 5 = unsupported
// encoder version refused. Every strict prefix of the encoding is rejected.
func Harness_C27_ChPullRequest() {
	g := &c27ChGen{}
	strLen := 1
	version := codecVersion
	scenario := zzsym.Choice("scenario", 6)
	switch scenario {
	case 0:
		strLen, version = c27ChLen("str.len"), c27ChVersion()
	case 1:
		g.wide = "nextOffset"
	case 2:
		g.wide = "maxBytes"
	case 3:
		g.allWide = true
	case 4:
		n := zzsym.Choice("items", 3)
		batch := channeltransport.PullBatchRequest{Items: []channeltransport.PullRequest{}}
		for i := 0; i < n; i++ {
			batch.Items = append(batch.Items, g.pullRequest(1))
		}
		enc, err := encodePullBatchRequest(batch)
		zzsym.Assert(err == nil, "pull batch request not encoded")
		got, derr := decodePullBatchRequest(enc)
		zzsym.Reach("pull-batch-request")
		zzsym.Assert(derr == nil && len(got.Items) == n, "pull batch request rejected or resized")
		for i := range got.Items {
			zzsym.Assert(c27ChSamePullRequest(got.Items[i], batch.Items[i]), "pull batch item differs after round trip")
		}
		_, terr := decodePullBatchRequest(enc[:zzsym.Choice("cut", len(enc))])
		zzsym.Assert(terr != nil, "truncated pull batch request accepted")
		return
	case 5:
		v := zzsym.U8("badversion")
		enc, err := encodePullRequestVersion(g.pullRequest(1), v)
		zzsym.Reach("pull-request-version-gate")
		zzsym.Assert((err == nil) == (v == 5 || v == 6 || v == 7), "encoder version gate")
		zzsym.Assert(err == nil || enc == nil, "refused version returns bytes")
		return
	}
	in := g.pullRequest(strLen)
	enc, err := encodePullRequestVersion(in, version)
	zzsym.Assert(err == nil && len(enc) >= 2 && enc[0] == version && enc[1] == kindPull, "pull request frame header")
	got, derr := DecodePullRequest(enc)
	zzsym.Reach("pull-request")
	zzsym.Assert(derr == nil, "DecodePullRequest rejects EncodePullRequest output")
	zzsym.Assert(c27ChSamePullRequest(got, in), "pull request differs after round trip")
	if scenario == 0 {
		tr, terr := DecodePullRequest(enc[:zzsym.Choice("cut", len(enc))])
		zzsym.Reach("pull-request-truncated")
		zzsym.Assert(terr != nil, "truncated pull request accepted")
		zzsym.Assert(tr.ChannelKey == "" && tr.Epoch == 0 && tr.MaxBytes == 0, "rejected pull request returns values")
	}
	zzsym.Observe("pullrequest", got.NextOffset, uint64(got.MaxBytes), uint64(len(enc)))
}

// The decode*Response wrappers of codec.go are `var resp T; return resp, decodeRPCResult(data, kind, &resp)`:
// the Go specification leaves the order between reading resp and the call unspecified; gc performs the
// call first (the code relies on that), go/ssa - and therefore the symbolic executor - reads resp first.
// The harness therefore calls the real decoding function decodeRPCResult with the wrappers' arguments.
func c27ChDecodeAppendResponse(data []byte) (ch.AppendResult, error) {
	var resp ch.AppendResult
	err := decodeRPCResult(data, kindAppendResponse, &resp)
	return resp, err
}

func c27ChDecodeAppendBatchResponse(data []byte) (ch.AppendBatchResult, error) {
	var resp ch.AppendBatchResult
	err := decodeRPCResult(data, kindAppendBatchResponse, &resp)
	return resp, err
}

func c27ChDecodeLastVisibleResponse(data []byte) (LastVisibleResponse, error) {
	var resp LastVisibleResponse
	err := decodeRPCResult(data, kindLastVisibleResponse, &resp)
	return resp, err
}

func c27ChDecodeConversationHeadsResponse(data []byte) (ConversationHeadsResponse, error) {
	var resp ConversationHeadsResponse
	err := decodeRPCResult(data, kindConversationHeadsResponse, &resp)
	return resp, err
}

func c27ChDecodePullResponse(data []byte) (channeltransport.PullResponse, error) {
	var resp channeltransport.PullResponse
	err := decodeRPCResult(data, kindPullResponse, &resp)
	return resp, err
}

// ---- Ack / PullHint / PullHintBatch / Notify requests ----

func c27ChSameID(a, b ch.ChannelID) bool { return a.ID == b.ID && a.Type == b.Type }

// Harness_C27_ChSmallRequests: ack, pull hint, pull hint batch and notify requests. Scenarios: 0 = strings
// 0..2 (hint batch: 0..2 items) at the current version, 1 = legacy versions 5 and 6, 2 = Epoch over all of
// uint64, 3 = every strict prefix rejected.
func Harness_C27_ChSmallRequests() {
	g := &c27ChGen{}
	strLen, items := 1, 1
	version := codecVersion
	scenario := zzsym.Choice("scenario", 4)
	kind := zzsym.Choice("kind", 4)
	switch scenario {
	case 0:
		strLen = c27ChLen("str.len")
		if kind == 2 {
			items = zzsym.Choice("items", 3)
		}
	case 1:
		version = []uint8{legacyCodecVersionV5, legacyCodecVersionV6}[zzsym.Choice("legacy", 2)]
	case 2:
		g.wide = "epoch"
	}
	key := ch.ChannelKey(zzsym.String("key", strLen))
	id := ch.ChannelID{ID: zzsym.String("id", strLen), Type: zzsym.U8("type")}
	switch kind {
	case 0:
		in := channeltransport.AckRequest{ChannelKey: key, Epoch: g.u64("epoch"), LeaderEpoch: g.u64("leaderEpoch"), Follower: ch.NodeID(g.u64("follower")),
			MatchOffset: g.u64("matchOffset"), ActivityVersion: g.u64("activityVersion"), Stopped: zzsym.Bool("stopped")}
		enc, err := encodeAckRequestVersion(in, version)
		zzsym.Assert(err == nil, "ack request not encoded")
		if scenario == 3 {
			_, terr := decodeAckRequest(enc[:zzsym.Choice("cut", len(enc))])
			zzsym.Reach("ack-request-truncated")
			zzsym.Assert(terr != nil, "truncated ack request accepted")
			return
		}
		got, derr := decodeAckRequest(enc)
		zzsym.Reach("ack-request")
		zzsym.Assert(derr == nil, "ack request rejected")
		zzsym.Assert(got.ChannelKey == in.ChannelKey && got.Epoch == in.Epoch && got.LeaderEpoch == in.LeaderEpoch && got.Follower == in.Follower &&
			got.MatchOffset == in.MatchOffset && got.ActivityVersion == in.ActivityVersion && got.Stopped == in.Stopped, "ack request differs after round trip")
		zzsym.Observe("ack", got.Epoch, got.MatchOffset)
	case 1:
		in := channeltransport.PullHintRequest{ChannelKey: key, ChannelID: id, Epoch: g.u64("epoch"), LeaderEpoch: g.u64("leaderEpoch"), Leader: ch.NodeID(g.u64("leader")),
			LeaderLEO: g.u64("leaderLEO"), ActivityVersion: g.u64("activityVersion"), Reason: channeltransport.PullHintReason(zzsym.U8("reason"))}
		enc, err := encodePullHintRequestVersion(in, version)
		zzsym.Assert(err == nil, "pull hint request not encoded")
		if scenario == 3 {
			_, terr := decodePullHintRequest(enc[:zzsym.Choice("cut", len(enc))])
			zzsym.Reach("pull-hint-request-truncated")
			zzsym.Assert(terr != nil, "truncated pull hint request accepted")
			return
		}
		got, derr := decodePullHintRequest(enc)
		zzsym.Reach("pull-hint-request")
		zzsym.Assert(derr == nil, "pull hint request rejected")
		zzsym.Assert(got.ChannelKey == in.ChannelKey && c27ChSameID(got.ChannelID, in.ChannelID) && got.Epoch == in.Epoch && got.LeaderEpoch == in.LeaderEpoch && got.Leader == in.Leader &&
			got.LeaderLEO == in.LeaderLEO && got.ActivityVersion == in.ActivityVersion && got.Reason == in.Reason, "pull hint request differs after round trip")
	case 2:
		in := channeltransport.PullHintBatchRequest{}
		for i := 0; i < items; i++ {
			in.Items = append(in.Items, channeltransport.PullHintRequest{ChannelKey: key, ChannelID: id, Epoch: g.u64("epoch"), LeaderEpoch: g.u64("leaderEpoch"),
				Leader: ch.NodeID(g.u64("leader")), LeaderLEO: g.u64("leaderLEO"), ActivityVersion: g.u64("activityVersion"), Reason: channeltransport.PullHintReason(zzsym.U8("reason"))})
		}
		enc, err := encodePullHintBatchRequestVersion(in, version)
		zzsym.Assert(err == nil, "pull hint batch request not encoded")
		if scenario == 3 {
			_, terr := decodePullHintBatchRequest(enc[:zzsym.Choice("cut", len(enc))])
			zzsym.Reach("pull-hint-batch-request-truncated")
			zzsym.Assert(terr != nil, "truncated pull hint batch request accepted")
			return
		}
		got, derr := decodePullHintBatchRequest(enc)
		zzsym.Reach("pull-hint-batch-request")
		zzsym.Assert(derr == nil && len(got.Items) == items, "pull hint batch request rejected or resized")
		for i := range got.Items {
			a, b := got.Items[i], in.Items[i]
			zzsym.Assert(a.ChannelKey == b.ChannelKey && c27ChSameID(a.ChannelID, b.ChannelID) && a.Epoch == b.Epoch && a.LeaderEpoch == b.LeaderEpoch && a.Leader == b.Leader &&
				a.LeaderLEO == b.LeaderLEO && a.ActivityVersion == b.ActivityVersion && a.Reason == b.Reason, "pull hint batch item differs after round trip")
		}
	default:
		in := channeltransport.NotifyRequest{ChannelKey: key, ChannelID: id, Epoch: g.u64("epoch"), LeaderEpoch: g.u64("leaderEpoch"), Leader: ch.NodeID(g.u64("leader")), LeaderLEO: g.u64("leaderLEO")}
		enc, err := encodeNotifyRequestVersion(in, version)
		zzsym.Assert(err == nil, "notify request not encoded")
		if scenario == 3 {
			_, terr := decodeNotifyRequest(enc[:zzsym.Choice("cut", len(enc))])
			zzsym.Reach("notify-request-truncated")
			zzsym.Assert(terr != nil, "truncated notify request accepted")
			return
		}
		got, derr := decodeNotifyRequest(enc)
		zzsym.Reach("notify-request")
		zzsym.Assert(derr == nil, "notify request rejected")
		zzsym.Assert(got.ChannelKey == in.ChannelKey && c27ChSameID(got.ChannelID, in.ChannelID) && got.Epoch == in.Epoch && got.LeaderEpoch == in.LeaderEpoch && got.Leader == in.Leader &&
			got.LeaderLEO == in.LeaderLEO, "notify request differs after round trip")
	}
}

// ---- Append request / response / batch ----

var c27ChSentinels = []error{ch.ErrInvalidConfig, ch.ErrBackpressured, ch.ErrNotLeader, ch.ErrNotReady, ch.ErrStaleMeta, ch.ErrChannelNotFound, ch.ErrNotReplica, ch.ErrClosed, ch.ErrTooManyChannels}

// Harness_C27_ChAppend: single append request and response. Scenarios: 0 = request, strings 0..2, payload
// nil/1/2, each version; 1 = request with the message timestamp over all of int64; 2 = response (RPC result
// envelope around AppendResult), strings 0..2; 3 = request, all strict prefixes; 4 = response, all strict
// prefixes.
func Harness_C27_ChAppend() {
	g := &c27ChGen{}
	strLen, payloadLen := 1, 1
	version := codecVersion
	scenario := zzsym.Choice("scenario", 5)
	switch scenario {
	case 0:
		strLen, payloadLen, version = c27ChLen("str.len"), zzsym.Choice("payload.len", 3), c27ChVersion()
	case 1:
		g.wide = "msg.timestamp"
	case 2:
		strLen = c27ChLen("str.len")
	}
	msg := g.message("msg.", strLen, payloadLen)
	if scenario == 2 || scenario == 4 {
		in := ch.AppendResult{MessageID: g.u64("messageID"), MessageSeq: g.u64("messageSeq"), Message: msg}
		enc, err := encodeAppendResponse(in)
		zzsym.Assert(err == nil, "append response not encoded")
		if scenario == 4 {
			_, terr := c27ChDecodeAppendResponse(enc[:c27ChCut(len(enc))])
			zzsym.Reach("append-response-truncated")
			zzsym.Assert(terr != nil, "truncated append response accepted")
			return
		}
		got, derr := c27ChDecodeAppendResponse(enc)
		zzsym.Reach("append-response")
		zzsym.Assert(derr == nil, "append response rejected")
		zzsym.Assert(got.MessageID == in.MessageID && got.MessageSeq == in.MessageSeq && c27ChSameMessage(got.Message, in.Message), "append response differs after round trip")
		return
	}
	in := ch.AppendRequest{ChannelID: ch.ChannelID{ID: zzsym.String("id", strLen), Type: zzsym.U8("type")}, Message: msg, CommitMode: ch.CommitMode(zzsym.U8("commitMode")),
		ExpectedChannelEpoch: g.u64("expectedChannelEpoch"), ExpectedLeaderEpoch: g.u64("expectedLeaderEpoch")}
	enc, err := encodeAppendRequestVersion(in, version)
	zzsym.Assert(err == nil, "append request not encoded")
	if scenario == 3 {
		_, terr := decodeAppendRequest(enc[:c27ChCut(len(enc))])
		zzsym.Reach("append-request-truncated")
		zzsym.Assert(terr != nil, "truncated append request accepted")
		return
	}
	got, derr := decodeAppendRequest(enc)
	zzsym.Reach("append-request")
	zzsym.Assert(derr == nil, "append request rejected")
	zzsym.Assert(c27ChSameID(got.ChannelID, in.ChannelID) && got.CommitMode == in.CommitMode && got.ExpectedChannelEpoch == in.ExpectedChannelEpoch && got.ExpectedLeaderEpoch == in.ExpectedLeaderEpoch,
		"append request header differs after round trip")
	zzsym.Assert(c27ChSameMessage(got.Message, in.Message), "append request message differs after round trip")
	zzsym.Observe("append", got.Message.MessageID, uint64(got.Message.ServerTimestampMS), uint64(len(enc)))
}

func (g *c27ChGen) appendBatchResult(shape int, failed int) (ch.AppendBatchResult, []error) {
	var in ch.AppendBatchResult
	var want []error
	if shape == 1 {
		in.Items = []ch.AppendBatchItemResult{}
	}
	for i := 0; i+2 <= shape; i++ {
		item := ch.AppendBatchItemResult{MessageID: g.u64("messageID"), MessageSeq: g.u64("messageSeq"), Message: g.message("msg.", 1, i)}
		var sentinel error
		if i == 0 && failed >= 0 {
			sentinel = c27ChSentinels[failed]
			item.Err = sentinel
		}
		want = append(want, sentinel)
		in.Items = append(in.Items, item)
	}
	return in, want
}

func (g *c27ChGen) appendBatchRequest(shape int) ch.AppendBatchRequest {
	in := ch.AppendBatchRequest{ChannelID: ch.ChannelID{ID: zzsym.String("id", 1), Type: zzsym.U8("type")}, TraceID: zzsym.String("traceID", 1), ChannelKey: zzsym.String("channelKey", 1),
		Attempt: int(g.i64("attempt")), CommitMode: ch.CommitMode(zzsym.U8("commitMode")), ExpectedChannelEpoch: g.u64("expectedChannelEpoch"), ExpectedLeaderEpoch: g.u64("expectedLeaderEpoch"),
		OmitResultPayload: zzsym.Bool("omitResultPayload"), ServerAllocatedMessageIDs: zzsym.Bool("serverAllocated")}
	if shape == 1 {
		in.Messages = []ch.Message{}
	}
	for i := 0; i+2 <= shape; i++ {
		in.Messages = append(in.Messages, g.message("msg.", 1, i))
	}
	return in
}

// Harness_C27_ChAppendBatch: append batch request (messages nil / empty / one / two; v6 does not carry
// ServerAllocatedMessageIDs, v7 does) and append batch result (items nil / empty / one / two; first item
// error nil or one of the nine sentinel classes). Scenarios: 0 = request shapes x {v6,v7}, 1 = result
// shapes, 2 = result with a failed first item (each sentinel), 3 = request truncations, 4 = result
// truncations (one ok item / one failed item).
func Harness_C27_ChAppendBatch() {
	g := &c27ChGen{}
	switch zzsym.Choice("scenario", 5) {
	case 0:
		version := legacyCodecVersionV6
		if zzsym.Bool("current") {
			version = codecVersion
		}
		in := g.appendBatchRequest(zzsym.Choice("shape", 4))
		enc, err := encodeAppendBatchRequestVersion(in, version)
		zzsym.Assert(err == nil, "append batch request not encoded")
		got, derr := decodeAppendBatchRequest(enc)
		zzsym.Reach("append-batch-request")
		zzsym.Assert(derr == nil && len(got.Messages) == len(in.Messages) && (got.Messages == nil) == (in.Messages == nil), "append batch request rejected or resized")
		zzsym.Assert(c27ChSameID(got.ChannelID, in.ChannelID) && got.TraceID == in.TraceID && got.ChannelKey == in.ChannelKey && got.Attempt == in.Attempt && got.CommitMode == in.CommitMode &&
			got.ExpectedChannelEpoch == in.ExpectedChannelEpoch && got.ExpectedLeaderEpoch == in.ExpectedLeaderEpoch && got.OmitResultPayload == in.OmitResultPayload, "append batch request header differs after round trip")
		zzsym.Assert(got.ServerAllocatedMessageIDs == (version >= codecVersion && in.ServerAllocatedMessageIDs), "ServerAllocatedMessageIDs carried exactly from version 7")
		for i := range got.Messages {
			zzsym.Assert(c27ChSameMessage(got.Messages[i], in.Messages[i]), "append batch message differs after round trip")
		}
	case 1, 2:
		failed := -1
		shape := 2
		if zzsym.Bool("failed") {
			failed = zzsym.Choice("sentinel", len(c27ChSentinels))
		} else {
			shape = zzsym.Choice("shape", 4)
		}
		in, want := g.appendBatchResult(shape, failed)
		enc, err := encodeAppendBatchResponse(in)
		zzsym.Assert(err == nil, "append batch response not encoded")
		got, derr := c27ChDecodeAppendBatchResponse(enc)
		zzsym.Reach("append-batch-response")
		zzsym.Assert(derr == nil && len(got.Items) == len(in.Items) && (got.Items == nil) == (in.Items == nil), "append batch response rejected or resized")
		for i := range got.Items {
			a, b := got.Items[i], in.Items[i]
			zzsym.Assert(a.MessageID == b.MessageID && a.MessageSeq == b.MessageSeq && c27ChSameMessage(a.Message, b.Message), "append batch result item differs after round trip")
			zzsym.Assert((a.Err == nil) == (want[i] == nil), "append batch item error presence differs after round trip")
			if want[i] != nil {
				zzsym.Assert(errors.Is(a.Err, want[i]), "append batch item error class differs after round trip")
			}
		}
	case 3:
		enc, err := encodeAppendBatchRequestVersion(g.appendBatchRequest(2), codecVersion)
		zzsym.Assert(err == nil, "append batch request not encoded before truncation")
		_, terr := decodeAppendBatchRequest(enc[:c27ChCut(len(enc))])
		zzsym.Reach("append-batch-request-truncated")
		zzsym.Assert(terr != nil, "truncated append batch request accepted")
	default:
		failed := -1
		if zzsym.Bool("failed") {
			failed = 2
		}
		in, _ := g.appendBatchResult(2, failed)
		enc, err := encodeAppendBatchResponse(in)
		zzsym.Assert(err == nil, "append batch response not encoded before truncation")
		_, terr := c27ChDecodeAppendBatchResponse(enc[:c27ChCut(len(enc))])
		zzsym.Reach("append-batch-response-truncated")
		zzsym.Assert(terr != nil, "truncated append batch response accepted")
	}
}

// ---- LastVisible / ConversationHeads ----

// Harness_C27_ChLastVisible: last-visible request (v6 carries neither HeadUID nor ExpectedMinISR, v7 does)
// and response (message only when Found; the three sequence counters only from v7), with truncations.
func Harness_C27_ChLastVisible() {
	g := &c27ChGen{}
	strLen := c27ChLen("str.len")
	current := zzsym.Bool("current")
	version := legacyCodecVersionV6
	if current {
		version = codecVersion
	}
	if zzsym.Bool("response") {
		in := LastVisibleResponse{Found: zzsym.Bool("found"), LastCommittedSeq: g.u64("lastCommittedSeq"), RetentionThroughSeq: g.u64("retentionThroughSeq"), CurrentUserLastSendSeq: g.u64("currentUserLastSendSeq")}
		if in.Found {
			in.Message = g.message("msg.", strLen, zzsym.Choice("payload.len", 3))
		}
		enc, err := encodeRPCResultVersion(version, kindLastVisibleResponse, in, nil)
		zzsym.Assert(err == nil, "last visible response not encoded")
		got, derr := c27ChDecodeLastVisibleResponse(enc)
		zzsym.Reach("last-visible-response")
		zzsym.Assert(derr == nil, "last visible response rejected")
		zzsym.Assert(got.Found == in.Found && (!in.Found || c27ChSameMessage(got.Message, in.Message)), "last visible message differs after round trip")
		if current {
			zzsym.Assert(got.LastCommittedSeq == in.LastCommittedSeq && got.RetentionThroughSeq == in.RetentionThroughSeq && got.CurrentUserLastSendSeq == in.CurrentUserLastSendSeq, "last visible counters differ after round trip")
		} else {
			zzsym.Assert(got.LastCommittedSeq == 0 && got.RetentionThroughSeq == 0 && got.CurrentUserLastSendSeq == 0, "v6 last visible response carries counters")
		}
		_, terr := c27ChDecodeLastVisibleResponse(enc[:zzsym.Choice("cut", len(enc))])
		zzsym.Assert(terr != nil, "truncated last visible response accepted")
		return
	}
	in := LastVisibleRequest{ChannelID: ch.ChannelID{ID: zzsym.String("id", strLen), Type: zzsym.U8("type")}, VisibleAfterSeq: g.u64("visibleAfterSeq"), ExpectedLeader: ch.NodeID(g.u64("expectedLeader")),
		ExpectedChannelEpoch: g.u64("expectedChannelEpoch"), ExpectedLeaderEpoch: g.u64("expectedLeaderEpoch"), HeadUID: zzsym.String("headUID", strLen), ExpectedMinISR: g.nonNegInt("expectedMinISR")}
	enc, err := encodeLastVisibleRequestVersion(in, version)
	zzsym.Assert(err == nil, "last visible request not encoded")
	got, derr := decodeLastVisibleRequest(enc)
	zzsym.Reach("last-visible-request")
	zzsym.Assert(derr == nil, "last visible request rejected")
	zzsym.Assert(c27ChSameID(got.ChannelID, in.ChannelID) && got.VisibleAfterSeq == in.VisibleAfterSeq && got.ExpectedLeader == in.ExpectedLeader &&
		got.ExpectedChannelEpoch == in.ExpectedChannelEpoch && got.ExpectedLeaderEpoch == in.ExpectedLeaderEpoch, "last visible request differs after round trip")
	if current {
		zzsym.Assert(got.HeadUID == in.HeadUID && got.ExpectedMinISR == in.ExpectedMinISR, "v7 last visible head fields differ after round trip")
	} else {
		zzsym.Assert(got.HeadUID == "" && got.ExpectedMinISR == 0, "v6 last visible request carries head fields")
	}
	_, terr := decodeLastVisibleRequest(enc[:zzsym.Choice("cut", len(enc))])
	zzsym.Assert(terr != nil, "truncated last visible request accepted")
}

func (g *c27ChGen) headsResponse(shape, failed int) (ConversationHeadsResponse, []error) {
	var in ConversationHeadsResponse
	var want []error
	if shape == 1 {
		in.Items = []ConversationHeadResult{}
	}
	for i := 0; i+2 <= shape; i++ {
		head := ConversationHead{LastCommittedSeq: g.u64("lastCommittedSeq"), RetentionThroughSeq: g.u64("retentionThroughSeq"), CurrentUserLastSendSeq: g.u64("currentUserLastSendSeq"), Found: i == 0}
		if head.Found {
			head.Message = g.message("msg.", 1, 1)
		}
		var sentinel error
		if i == 0 && failed >= 0 {
			sentinel = c27ChSentinels[failed]
		}
		want = append(want, sentinel)
		in.Items = append(in.Items, ConversationHeadResult{Head: head, Err: sentinel})
	}
	return in, want
}

func (g *c27ChGen) headsRequest(shape, uidLen int) ConversationHeadsRequest {
	in := ConversationHeadsRequest{UID: zzsym.String("uid", uidLen)}
	if shape == 1 {
		in.Items = []ConversationHeadRequest{}
	}
	for i := 0; i+2 <= shape; i++ {
		in.Items = append(in.Items, ConversationHeadRequest{ChannelID: ch.ChannelID{ID: zzsym.String("id", 1+i), Type: zzsym.U8("type")}, RetentionThroughSeq: g.u64("retentionThroughSeq"),
			ExpectedLeader: ch.NodeID(g.u64("expectedLeader")), ExpectedChannelEpoch: g.u64("expectedChannelEpoch"), ExpectedLeaderEpoch: g.u64("expectedLeaderEpoch"), ExpectedMinISR: g.nonNegInt("expectedMinISR")})
	}
	return in
}

// Harness_C27_ChConversationHeads: conversation heads request (items nil / empty / one / two, uid 0..2)
// and response (items nil / empty / one / two; first item with a message; first item error nil or one of
// three sentinel classes). Scenarios: 0 = request shapes, 1 = response shapes, 2 = request truncations,
// 3 = response truncations.
func Harness_C27_ChConversationHeads() {
	g := &c27ChGen{}
	switch zzsym.Choice("scenario", 4) {
	case 0:
		in := g.headsRequest(zzsym.Choice("shape", 4), c27ChLen("uid.len"))
		enc, err := encodeConversationHeadsRequest(in)
		zzsym.Assert(err == nil, "conversation heads request not encoded")
		got, derr := decodeConversationHeadsRequest(enc)
		zzsym.Reach("conversation-heads-request")
		zzsym.Assert(derr == nil && got.UID == in.UID && len(got.Items) == len(in.Items) && (got.Items == nil) == (in.Items == nil), "conversation heads request rejected or resized")
		for i := range got.Items {
			a, b := got.Items[i], in.Items[i]
			zzsym.Assert(c27ChSameID(a.ChannelID, b.ChannelID) && a.RetentionThroughSeq == b.RetentionThroughSeq && a.ExpectedLeader == b.ExpectedLeader && a.ExpectedChannelEpoch == b.ExpectedChannelEpoch &&
				a.ExpectedLeaderEpoch == b.ExpectedLeaderEpoch && a.ExpectedMinISR == b.ExpectedMinISR, "conversation head request item differs after round trip")
		}
	case 1:
		failed := zzsym.Choice("failed", 4) - 1
		shape := 3
		if failed < 0 {
			shape = zzsym.Choice("shape", 4)
		}
		in, want := g.headsResponse(shape, failed)
		enc, err := encodeConversationHeadsResponse(in)
		zzsym.Assert(err == nil, "conversation heads response not encoded")
		got, derr := c27ChDecodeConversationHeadsResponse(enc)
		zzsym.Reach("conversation-heads-response")
		zzsym.Assert(derr == nil && len(got.Items) == len(in.Items) && (got.Items == nil) == (in.Items == nil), "conversation heads response rejected or resized")
		for i := range got.Items {
			a, b := got.Items[i].Head, in.Items[i].Head
			zzsym.Assert(a.LastCommittedSeq == b.LastCommittedSeq && a.RetentionThroughSeq == b.RetentionThroughSeq && a.CurrentUserLastSendSeq == b.CurrentUserLastSendSeq && a.Found == b.Found &&
				(!b.Found || c27ChSameMessage(a.Message, b.Message)), "conversation head differs after round trip")
			zzsym.Assert((got.Items[i].Err == nil) == (want[i] == nil) && (want[i] == nil || errors.Is(got.Items[i].Err, want[i])), "conversation head item error differs after round trip")
		}
	case 2:
		enc, err := encodeConversationHeadsRequest(g.headsRequest(3, 1))
		zzsym.Assert(err == nil, "conversation heads request not encoded before truncation")
		_, terr := decodeConversationHeadsRequest(enc[:zzsym.Choice("cut", len(enc))])
		zzsym.Reach("conversation-heads-request-truncated")
		zzsym.Assert(terr != nil, "truncated conversation heads request accepted")
	default:
		in, _ := g.headsResponse(3, -1)
		enc, err := encodeConversationHeadsResponse(in)
		zzsym.Assert(err == nil, "conversation heads response not encoded before truncation")
		_, terr := c27ChDecodeConversationHeadsResponse(enc[:c27ChCut(len(enc))])
		zzsym.Reach("conversation-heads-response-truncated")
		zzsym.Assert(terr != nil, "truncated conversation heads response accepted")
	}
}

// ---- RPC result envelope and pull response ----

// Harness_C27_ChRPCResult: the result envelope. Error results: each of the nine sentinel classes and an
// unclassified error survive as an error of the same class; an empty OK result decodes to nil; a status
// byte other than 0/1 and trailing bytes are rejected; truncations of an error result are rejected.
func Harness_C27_ChRPCResult() {
	version := codecVersion
	kind := zzsym.U8("kind")
	switch zzsym.Choice("case", 3) {
	case 0:
		k := zzsym.Choice("sentinel", len(c27ChSentinels)+1)
		var appErr error
		if k < len(c27ChSentinels) {
			appErr = c27ChSentinels[k]
		} else {
			appErr = errors.New("boom")
		}
		enc, err := encodeRPCResultVersion(version, kind, nil, appErr)
		zzsym.Assert(err == nil && len(enc) >= 3 && enc[0] == version && enc[1] == kind && enc[2] == rpcResultErr, "error result frame")
		got := decodeRPCResult(enc, kind, nil)
		zzsym.Reach("rpc-error-result")
		zzsym.Assert(got != nil, "error result decodes to success")
		if k < len(c27ChSentinels) {
			zzsym.Assert(errors.Is(got, c27ChSentinels[k]), "error result class differs after round trip")
		}
		if k == 2 {
			terr := decodeRPCResult(enc[:c27ChCut(len(enc))], kind, nil)
			zzsym.Assert(terr != nil, "truncated error result decodes to success")
		}
	case 1:
		version = c27ChVersion()
		enc, err := encodeRPCResultVersion(version, kind, nil, nil)
		zzsym.Assert(err == nil && len(enc) == 3, "empty ok result frame")
		zzsym.Reach("rpc-ok-result")
		zzsym.Assert(decodeRPCResult(enc, kind, nil) == nil, "empty ok result rejected")
		zzsym.Assert(decodeRPCResult(append(enc, zzsym.U8("trailing")), kind, nil) != nil, "trailing bytes after an empty ok result accepted")
		zzsym.Assert(decodeRPCResult(enc[:2], kind, nil) != nil, "missing status byte accepted")
		other := zzsym.U8("otherKind")
		zzsym.Assume(other != kind)
		zzsym.Assert(decodeRPCResult(enc, other, nil) != nil, "result of another kind accepted")
	default:
		status := zzsym.U8("status")
		zzsym.Assume(status > rpcResultErr)
		zzsym.Reach("rpc-bad-status")
		zzsym.Assert(decodeRPCResult([]byte{version, kind, status}, kind, nil) != nil, "invalid result status accepted")
		_, uerr := encodeRPCResultVersion(version, kind, struct{}{}, nil)
		zzsym.Assert(uerr != nil, "unsupported payload type encoded")
	}
}

func (g *c27ChGen) record(p string, strLen, payloadLen int) ch.Record {
	return ch.Record{ID: g.u64(p + "id"), Index: g.u64(p + "index"), Epoch: g.u64(p + "epoch"), Setting: zzsym.U8(p + "setting"), FromUID: zzsym.String(p+"fromUID", strLen),
		ClientMsgNo: zzsym.String(p+"clientMsgNo", strLen), ServerTimestampMS: g.i64(p + "timestamp"), Payload: c27ChPayload(p+"payload", payloadLen), SizeBytes: int(g.i64(p + "sizeBytes"))}
}

// Harness_C27_ChPullResponse: pull response inside the result envelope, Meta absent, records nil / empty /
// one / two (Record.SyncOnce is not part of this wire format). Scenarios: 0 = record shapes x {v6,v7},
// strings of 1; 1 = strings 0..2 with one record; 2 = all strict prefixes of a two-record response.
func Harness_C27_ChPullResponse() {
	g := &c27ChGen{}
	shape, strLen := 2, 1
	version := codecVersion
	scenario := zzsym.Choice("scenario", 3)
	switch scenario {
	case 0:
		shape = zzsym.Choice("shape", 4)
		if zzsym.Bool("legacy") {
			version = legacyCodecVersionV6
		}
	case 1:
		strLen = c27ChLen("str.len")
	default:
		shape = 3
	}
	in := channeltransport.PullResponse{ChannelKey: ch.ChannelKey(zzsym.String("key", strLen)), Epoch: g.u64("epoch"), LeaderEpoch: g.u64("leaderEpoch"), LeaderHW: g.u64("leaderHW"),
		LeaderLEO: g.u64("leaderLEO"), ActivityVersion: g.u64("activityVersion"), Control: channeltransport.PullControl(zzsym.U8("control"))}
	if shape == 1 {
		in.Records = []ch.Record{}
	}
	for i := 0; i+2 <= shape; i++ {
		in.Records = append(in.Records, g.record("record.", strLen, i))
	}
	enc, err := encodeRPCResultVersion(version, kindPullResponse, in, nil)
	zzsym.Assert(err == nil, "pull response not encoded")
	if scenario == 2 {
		_, terr := c27ChDecodePullResponse(enc[:c27ChCut(len(enc))])
		zzsym.Reach("pull-response-truncated")
		zzsym.Assert(terr != nil, "truncated pull response accepted")
		return
	}
	got, derr := c27ChDecodePullResponse(enc)
	zzsym.Reach("pull-response")
	zzsym.Assert(derr == nil, "pull response rejected")
	zzsym.Assert(got.ChannelKey == in.ChannelKey && got.Epoch == in.Epoch && got.LeaderEpoch == in.LeaderEpoch && got.LeaderHW == in.LeaderHW && got.LeaderLEO == in.LeaderLEO &&
		got.ActivityVersion == in.ActivityVersion && got.NextPullAfter == in.NextPullAfter && got.Control == in.Control && got.Meta == nil, "pull response header differs after round trip")
	zzsym.Assert(len(got.Records) == len(in.Records) && (got.Records == nil) == (in.Records == nil), "pull response records resized")
	for i := range got.Records {
		a, b := got.Records[i], in.Records[i]
		zzsym.Assert(a.ID == b.ID && a.Index == b.Index && a.Epoch == b.Epoch && a.Setting == b.Setting && a.FromUID == b.FromUID && a.ClientMsgNo == b.ClientMsgNo &&
			a.ServerTimestampMS == b.ServerTimestampMS && c27ChSameBytes(a.Payload, b.Payload) && a.SizeBytes == b.SizeBytes, "pull response record differs after round trip")
	}
	zzsym.Observe("pullresponse", got.Epoch, uint64(len(got.Records)), uint64(len(enc)))
}

// Harness_C27_ChMessageSyncOnce (not listed in check.json, see the C27 report): ch.Message.SyncOnce does not
// survive appendMessage / readMessage, so an append forwarded to a remote channel leader loses the flag.
func Harness_C27_ChMessageSyncOnce() {
	g := &c27ChGen{}
	in := ch.AppendBatchRequest{ChannelID: ch.ChannelID{ID: "c", Type: 2}, Messages: []ch.Message{g.message("msg.", 1, 1)}}
	in.Messages[0].SyncOnce = zzsym.Bool("syncOnce")
	enc, err := encodeAppendBatchRequest(in)
	zzsym.Assert(err == nil, "append batch request with SyncOnce not encoded")
	got, derr := decodeAppendBatchRequest(enc)
	zzsym.Reach("sync-once")
	zzsym.Assert(derr == nil && len(got.Messages) == 1, "append batch request with SyncOnce rejected")
	zzsym.AssertKnown(got.Messages[0].SyncOnce == in.Messages[0].SyncOnce, "Message.SyncOnce differs after round trip", "C27-F1", in.Messages[0].SyncOnce)
}

// ---- arbitrary bytes ----

// c27ChGarbageDecode feeds data to the decoder selected by which and reports (accepted, no panic).
func c27ChGarbageDecode(which int, data []byte) (uint8, error) {
	switch which {
	case 0:
		_, err := DecodePullRequest(data)
		return kindPull, err
	case 1:
		_, err := decodeAckRequest(data)
		return kindAck, err
	case 2:
		_, err := decodePullHintBatchRequest(data)
		return kindPullHintBatch, err
	case 3:
		_, err := decodeAppendBatchRequest(data)
		return kindAppendBatch, err
	case 4:
		_, err := decodeConversationHeadsRequest(data)
		return kindConversationHeads, err
	case 5:
		_, err := c27ChDecodeAppendBatchResponse(data)
		return kindAppendBatchResponse, err
	case 6:
		_, err := c27ChDecodePullResponse(data)
		return kindPullResponse, err
	case 7:
		_, err := c27ChDecodeConversationHeadsResponse(data)
		return kindConversationHeadsResponse, err
	case 8:
		_, err := decodePullBatchRequest(data)
		return kindPullBatch, err
	case 9:
		_, err := decodePullHintRequest(data)
		return kindPullHint, err
	case 10:
		_, err := decodeNotifyRequest(data)
		return kindNotify, err
	case 11:
		_, err := decodeAppendRequest(data)
		return kindAppend, err
	case 12:
		_, err := decodeLastVisibleRequest(data)
		return kindLastVisible, err
	case 13:
		_, err := c27ChDecodeAppendResponse(data)
		return kindAppendResponse, err
	case 14:
		_, err := c27ChDecodeLastVisibleResponse(data)
		return kindLastVisibleResponse, err
	case 15:
		var resp channeltransport.PullBatchResponse
		return kindPullBatchResponse, decodeRPCResult(data, kindPullBatchResponse, &resp)
	default:
		var resp channeltransport.PullHintBatchResponse
		return kindPullHintBatchResponse, decodeRPCResult(data, kindPullHintBatchResponse, &resp)
	}
}

func c27ChGarbage(decoders []int, quick, thorough int) {
	max := quick
	if zzsym.Thorough() {
		max = thorough
	}
	which := decoders[zzsym.Choice("decoder", len(decoders))]
	n := zzsym.Choice("len", max+1)
	data := zzsym.Bytes("data", n)
	// the frame kind a decoder insists on is a constant: fix it so that the body is actually parsed; the
	// version byte stays arbitrary (accepted: 3..7)
	wantKind, _ := c27ChGarbageDecode(which, nil)
	if n >= 2 {
		zzsym.Assume(data[1] == wantKind)
	}
	_, err := c27ChGarbageDecode(which, data)
	if err != nil {
		zzsym.Reach("ch-garbage-rejected")
		return
	}
	zzsym.Reach("ch-garbage-accepted")
	zzsym.Assert(n >= 2 && data[0] >= legacyCodecVersionV3 && data[0] <= codecVersion, "accepted frame with an unknown version")
}

// Harness_C27_ChGarbage: arbitrary bytes (frame kind fixed to the decoder's own, version arbitrary) into the
// covered decoders. These decoders are sequences of varints and length-prefixed strings, so the number of
// distinct parses grows combinatorially with the length: quick = 0..5 bytes into 8 representative decoders
// (pull request, pull hint batch request, append batch request, conversation heads request, append batch
// response, pull response, conversation heads response, last visible response); thorough = 0..8 bytes into
// all 17.
func Harness_C27_ChGarbage() {
	if zzsym.Thorough() {
		c27ChGarbage([]int{0, 1, 2, 3, 4, 5, 6, 7, 8, 9, 10, 11, 12, 13, 14, 15, 16}, 8, 8)
		return
	}
	c27ChGarbage([]int{0, 2, 3, 4, 5, 6, 7, 14}, 5, 5)
}

// ---- primitives at full width ----

// Harness_C27_ChPrimitives: the read* primitives on arbitrary bytes from offset 0: results stay inside the
// input, a collection length never exceeds the remaining bytes, byte strings are exactly the declared
// segment, booleans and presence bytes accept exactly 0 and 1; and append*/read* round trips at full width
// (uvarint over uint64, varint over int64, int over all ints, strings 0..2, optional bytes nil/0..2,
// slice headers nil / 0..2^40).
func Harness_C27_ChPrimitives() {
	kind := zzsym.Choice("primitive", 13)
	if kind == 12 {
		// length-prefixed readers with a FULL-WIDTH declared length (any uint64, up to ten varint bytes)
		// in front of 0..2 content bytes: never a panic, accepted exactly when the declared length fits
		length := zzsym.U64("declared")
		k := zzsym.Choice("content", 3)
		data := append(appendUvarint(nil, length), zzsym.Bytes("content.bytes", k)...)
		v, next, err := readBytes(data, 0, "bytes")
		zzsym.Reach("ch-prim-bytes-wide-length")
		zzsym.Assert((err == nil) == (length <= uint64(k)), "byte string with a declared length beyond the input accepted (or one that fits refused)")
		zzsym.Assert(err != nil || (uint64(len(v)) == length && next == len(data)-k+int(length)), "byte string is not the declared segment")
		sv, _, serr := readString(data, 0)
		zzsym.Assert((serr == nil) == (length <= uint64(k)) && (serr != nil || uint64(len(sv)) == length), "string with a declared length beyond the input accepted (or one that fits refused)")
		ov, _, oerr := readOptionalBytes(append([]byte{1}, data...), 0, "optional")
		zzsym.Assert((oerr == nil) == (length <= uint64(k)) && (oerr != nil || uint64(len(ov)) == length), "optional bytes with a declared length beyond the input accepted (or one that fits refused)")
		return
	}
	if kind >= 6 {
		switch kind {
		case 6:
			v := zzsym.U64("v")
			enc := appendUvarint(nil, v)
			got, next, err := readUvarint(enc, 0)
			zzsym.Reach("ch-rt-uvarint")
			zzsym.Assert(err == nil && got == v && next == len(enc), "uvarint differs after round trip")
			_, _, terr := readUvarint(enc[:zzsym.Choice("cut", len(enc))], 0)
			zzsym.Assert(terr != nil, "truncated uvarint accepted")
			zzsym.Observe("chuvarint", got, uint64(len(enc)))
		case 7:
			v := zzsym.I64("v")
			enc := appendVarint(nil, v)
			got, next, err := readVarint(enc, 0)
			zzsym.Reach("ch-rt-varint")
			zzsym.Assert(err == nil && got == v && next == len(enc), "varint differs after round trip")
			gi, _, ierr := readInt(enc, 0, "int")
			zzsym.Assert(ierr == nil && int64(gi) == v, "int differs after round trip")
			_, _, terr := readVarint(enc[:zzsym.Choice("cut", len(enc))], 0)
			zzsym.Assert(terr != nil, "truncated varint accepted")
		case 8:
			v := zzsym.String("v", c27ChLen("len"))
			enc := appendString(nil, v)
			got, next, err := readString(enc, 0)
			zzsym.Reach("ch-rt-string")
			zzsym.Assert(err == nil && got == v && next == len(enc), "string differs after round trip")
			_, _, terr := readString(enc[:zzsym.Choice("cut", len(enc))], 0)
			zzsym.Assert(terr != nil, "truncated string accepted")
		case 9:
			shape := zzsym.Choice("shape", 4) // nil, empty, 1, 2
			var v []byte
			if shape > 0 {
				v = zzsym.Bytes("v", shape-1)
			}
			enc := appendOptionalBytes(nil, v)
			got, next, err := readOptionalBytes(enc, 0, "optional")
			zzsym.Reach("ch-rt-optional-bytes")
			zzsym.Assert(err == nil && next == len(enc) && c27ChSameBytes(got, v), "optional bytes differ after round trip")
			zzsym.Assert((got == nil) == (len(v) == 0), "optional bytes nil-ness: nil and empty both decode to nil")
		case 10:
			count := zzsym.Int("count")
			isNil := zzsym.Bool("nil")
			zzsym.Assume(count >= 0 && count <= 1<<40)
			pad := zzsym.Choice("pad", 3)
			enc := append(appendSliceHeader(nil, count, isNil), zzsym.Bytes("pad", pad)...)
			gotNil, got, next, err := readSliceHeader(enc, 0, "slice")
			zzsym.Reach("ch-rt-slice-header")
			zzsym.Assert((err == nil) == (isNil || count <= pad), "slice header accepted iff the count fits in the remaining bytes")
			if err == nil {
				zzsym.Assert(gotNil == isNil && (isNil || got == count) && next == len(enc)-pad, "slice header differs after round trip")
			}
		default:
			v := zzsym.Bool("v")
			got, next, err := readBool(appendBool(nil, v), 0, "bool")
			zzsym.Reach("ch-rt-bool")
			zzsym.Assert(err == nil && got == v && next == 1, "bool differs after round trip")
		}
		return
	}
	max := []int{12, 12, 4, 6, 6, 2}[kind]
	if zzsym.Thorough() {
		max = 28
	}
	n := zzsym.Choice("len", max+1)
	data := zzsym.Bytes("data", n)
	switch kind {
	case 0:
		v, next, err := readUvarint(data, 0)
		zzsym.Reach("ch-prim-uvarint")
		zzsym.Assert((err == nil) == (next > 0) && next >= 0 && next <= 10 && next <= n, "uvarint consumed bytes out of range")
		zzsym.Assert(err == nil || v == 0, "failed uvarint returns a value")
	case 1:
		v, next, err := readInt(data, 0, "int")
		zzsym.Reach("ch-prim-int")
		zzsym.Assert((err == nil) == (next > 0) && next >= 0 && next <= 10 && next <= n, "int consumed bytes out of range")
		zzsym.Assert(err == nil || v == 0, "failed int returns a value")
	case 2:
		isNil, count, next, err := readSliceHeader(data, 0, "slice")
		zzsym.Reach("ch-prim-slice-header")
		if err == nil {
			zzsym.Reach("ch-prim-slice-header-ok")
			zzsym.Assert(next >= 1 && next <= n && count >= 0 && count <= n-next && (!isNil || count == 0), "collection length exceeds the remaining bytes")
		} else {
			zzsym.Assert(count == 0 && !isNil, "failed slice header returns values")
		}
	case 3:
		v, next, err := readBytes(data, 0, "bytes")
		zzsym.Reach("ch-prim-bytes")
		if err == nil {
			zzsym.Reach("ch-prim-bytes-ok")
			zzsym.Assert(next <= n && len(v) <= next-1 && c27ChSameBytes(v, data[next-len(v):next]), "byte string is not the declared input segment")
		} else {
			zzsym.Assert(v == nil, "failed byte string returns a value")
		}
	case 4:
		v, next, err := readOptionalBytes(data, 0, "optional")
		zzsym.Reach("ch-prim-optional-bytes")
		zzsym.Assert(err != nil || (n >= 1 && data[0] <= 1 && next <= n && len(v) <= n), "optional bytes presence or bounds")
		zzsym.Assert(err == nil || v == nil, "failed optional bytes return a value")
	default:
		v, next, err := readBool(data, 0, "bool")
		zzsym.Reach("ch-prim-bool")
		zzsym.Assert((err == nil) == (n >= 1 && data[0] <= 1) && (err != nil || (next == 1 && v == (data[0] == 1))), "bool accepts exactly 0 and 1")
	}
}
