package replication

import (
	"github.com/WuKongIM/WuKongIM/internal/zzsym"
	ch "github.com/WuKongIM/WuKongIM/pkg/channel"
)

// ---- value generators ----

// c27RepGen produces the integer fields of a message. Every uvarint-encoded field is symbolic; to keep
// the per-width forking of 64-bit varints bounded, all of them range over 0..127 (one encoded byte)
// except the field named wide, which ranges over all of uint64 (ten encoded widths), or - with allWide -
// every field ranges over 2^63..2^64-1 (all ten bytes wide). With concrete set, the uvarint fields are
// fixed small constants and so are all strings, digests and flags (used by the truncation entries: the
// decoder keeps reading after a failed field, so symbolic content in a truncated message would be
// re-parsed as varints at shifted offsets and fork on every byte).
type c27RepGen struct {
	wide     string
	allWide  bool
	concrete bool
	next     uint64
}

func (g *c27RepGen) u64(name string) uint64 {
	if g.concrete {
		g.next++
		return g.next%100 + 1
	}
	if g.allWide {
		return zzsym.U64(name) | 1<<63
	}
	if name == g.wide {
		return zzsym.U64(name)
	}
	return uint64(zzsym.U8(name)) & 0x7f
}

func (g *c27RepGen) u16(name string) uint16 {
	if g.concrete {
		return 1
	}
	if g.allWide || name == g.wide {
		return zzsym.U16(name)
	}
	return uint16(zzsym.U8(name)) & 0x7f
}

// nonNegInt: int fields travel as uvarint(uint64(v)) and are rejected above MaxInt.
func (g *c27RepGen) nonNegInt(name string) int {
	if g.concrete {
		return 7
	}
	if g.allWide {
		return int(zzsym.U64(name)>>1 | 1<<62)
	}
	if name == g.wide {
		return int(zzsym.U64(name) >> 1)
	}
	return int(zzsym.U8(name) & 0x7f)
}

func (g *c27RepGen) i64(name string) int64 {
	if g.concrete {
		return -3
	}
	if g.allWide || name == g.wide {
		return zzsym.I64(name)
	}
	return int64(zzsym.I8(name)) >> 1 // -64..63: one zig-zag byte
}

func (g *c27RepGen) digest(name string) [32]byte {
	var d [32]byte
	for i := range d {
		d[i] = g.u8(name)
	}
	return d
}

func (g *c27RepGen) u8(name string) uint8 {
	if g.concrete {
		g.next++
		return uint8(g.next*37 + 11)
	}
	return zzsym.U8(name)
}

func (g *c27RepGen) flag(name string) bool {
	if g.concrete {
		g.next++
		return g.next%2 == 0
	}
	return zzsym.Bool(name)
}

func (g *c27RepGen) str(name string, n int) string {
	if g.concrete {
		return "xyz"[:n]
	}
	return zzsym.String(name, n)
}

func (g *c27RepGen) bytes(name string, n int) []byte {
	if g.concrete {
		return []byte("pqr"[:n])
	}
	return zzsym.Bytes(name, n)
}

func c27RepLen(name string) int {
	max := 2
	if zzsym.Thorough() {
		max = 3
	}
	return zzsym.Choice(name, max+1)
}

func (g *c27RepGen) manifest(p string) ch.ProposalManifest {
	return ch.ProposalManifest{Version: g.u16(p + "version"), ChannelEpoch: g.u64(p + "channelEpoch"), LeaderTerm: g.u64(p + "leaderTerm"),
		FenceVersion: g.u64(p + "fenceVersion"), CommandID: g.digest(p + "commandID"), BaseOffset: g.u64(p + "baseOffset"), LastOffset: g.u64(p + "lastOffset"),
		PreviousTerm: g.u64(p + "previousTerm"), PreviousIndex: g.u64(p + "previousIndex"), PreviousDigest: g.digest(p + "previousDigest"), Digest: g.digest(p + "digest")}
}

func (g *c27RepGen) identity(p string) ch.EntryIdentity {
	return ch.EntryIdentity{Version: g.u16(p + "version"), ChannelEpoch: g.u64(p + "channelEpoch"), LeaderTerm: g.u64(p + "leaderTerm"),
		FenceVersion: g.u64(p + "fenceVersion"), Index: g.u64(p + "index"), PreviousTerm: g.u64(p + "previousTerm"), PreviousIndex: g.u64(p + "previousIndex"),
		CommandID: g.digest(p + "commandID"), PreviousDigest: g.digest(p + "previousDigest"), Digest: g.digest(p + "digest")}
}

func (g *c27RepGen) state(p string) ReplicaState {
	return ReplicaState{LEO: g.u64(p + "leo"), Committed: g.u64(p + "committed"), Manifest: g.manifest(p + "manifest."), TailIdentity: g.identity(p + "tail.")}
}

func (g *c27RepGen) record(p string, strLen, payloadLen int) ch.Record {
	r := ch.Record{ID: g.u64(p + "id"), Index: g.u64(p + "index"), Epoch: g.u64(p + "epoch"), Setting: g.u8(p + "setting"),
		FromUID: g.str(p+"fromUID", strLen), ClientMsgNo: g.str(p+"clientMsgNo", strLen), ServerTimestampMS: g.i64(p + "timestamp"),
		SyncOnce: g.flag(p + "syncOnce"), SizeBytes: g.nonNegInt(p + "sizeBytes")}
	// the codec decodes every byte string with append([]byte(nil), ...): an empty payload comes back nil
	if payloadLen > 0 {
		r.Payload = g.bytes(p+"payload", payloadLen)
	}
	return r
}

// records: shape 0 = nil slice, 1 = empty non-nil slice, 2 = one record.
func (g *c27RepGen) records(p string, shape, strLen, payloadLen int) []ch.Record {
	switch shape {
	case 0:
		return nil
	case 1:
		return []ch.Record{}
	}
	return []ch.Record{g.record(p, strLen, payloadLen)}
}

// indexes: shape 0 = nil, 1 = empty non-nil, 2 = one, 3 = two.
func (g *c27RepGen) indexes(p string, shape int) []uint64 {
	switch shape {
	case 0:
		return nil
	case 1:
		return []uint64{}
	case 2:
		return []uint64{g.u64(p)}
	}
	return []uint64{g.u64(p), g.u64(p)}
}

// ---- comparisons ----

func c27RepSameBytes(a, b []byte) bool {
	if len(a) != len(b) {
		return false
	}
	same := true
	for i := range a {
		if a[i] != b[i] {
			same = false
		}
	}
	return same
}

func c27RepSameU64s(a, b []uint64) bool {
	if len(a) != len(b) || (a == nil) != (b == nil) {
		return false
	}
	same := true
	for i := range a {
		if a[i] != b[i] {
			same = false
		}
	}
	return same
}

func c27RepSameRecord(a, b ch.Record) bool {
	return a.ID == b.ID && a.Index == b.Index && a.Epoch == b.Epoch && a.Setting == b.Setting && a.FromUID == b.FromUID && a.ClientMsgNo == b.ClientMsgNo &&
		a.ServerTimestampMS == b.ServerTimestampMS && a.SyncOnce == b.SyncOnce && c27RepSameBytes(a.Payload, b.Payload) && a.SizeBytes == b.SizeBytes
}

func c27RepSameRecords(a, b []ch.Record) bool {
	if len(a) != len(b) || (a == nil) != (b == nil) {
		return false
	}
	same := true
	for i := range a {
		if !c27RepSameRecord(a[i], b[i]) {
			same = false
		}
	}
	return same
}

func c27RepSameState(a, b ReplicaState) bool {
	return a.LEO == b.LEO && a.Committed == b.Committed && a.Manifest == b.Manifest && a.TailIdentity == b.TailIdentity
}

// ---- ExchangeBatch (top level) with probe items ----

func (g *c27RepGen) probeRequest(p string, strLen, indexShape int) ProbeRequest {
	return ProbeRequest{ChannelKey: ch.ChannelKey(g.str(p+"key", strLen)), ChannelID: ch.ChannelID{ID: g.str(p+"id", strLen), Type: g.u8(p + "type")},
		Leader: ch.NodeID(g.u64(p + "leader")), Follower: ch.NodeID(g.u64(p + "follower")), Indexes: g.indexes(p+"index", indexShape)}
}

func c27RepSameProbeRequest(a, b ProbeRequest) bool {
	return a.ChannelKey == b.ChannelKey && a.ChannelID.ID == b.ChannelID.ID && a.ChannelID.Type == b.ChannelID.Type && a.Leader == b.Leader && a.Follower == b.Follower &&
		c27RepSameU64s(a.Indexes, b.Indexes)
}

func c27RepCheckProbeBatch(batch ExchangeBatch, enc []byte) {
	got, derr := DecodeExchangeBatch(enc)
	zzsym.Assert(derr == nil, "DecodeExchangeBatch rejects EncodeExchangeBatch output")
	zzsym.Assert(got.Version == batch.Version && got.Priority == batch.Priority && len(got.Items) == len(batch.Items), "batch header differs after round trip")
	for i := range got.Items {
		a, b := got.Items[i], batch.Items[i]
		zzsym.Assert(a.RequestID == b.RequestID && a.Kind == b.Kind, "item id/kind differs after round trip")
		zzsym.Assert(a.Probe != nil && a.Replicate == nil && a.Fetch == nil, "probe item decodes to another payload")
		zzsym.Assert(c27RepSameProbeRequest(*a.Probe, *b.Probe), "probe request differs after round trip")
	}
	zzsym.Observe("probebatch", uint64(len(got.Items)), got.Items[0].RequestID, uint64(len(enc)))
}

// Harness_C27_RepProbeBatch: EncodeExchangeBatch / DecodeExchangeBatch on batches of probe items. Whatever
// the encoder accepts must decode to an equal batch. Scenarios: 0 = shapes (1..2 items, strings 0..2,
// indexes nil/empty/1/2, all integers one-byte), 1 = RequestID over all of uint64, 2 = symbolic version,
// priority and kind (the encoder must refuse everything outside the closed wire contract), 3 = every
// integer ten bytes wide.
func Harness_C27_RepProbeBatch() {
	scenario := zzsym.Choice("scenario", 4)
	g := &c27RepGen{}
	batch := ExchangeBatch{Version: ExchangeVersion, Priority: ExchangePriorityForeground}
	kind := ExchangeProbe
	strLen, indexShape, n := 1, 3, 1
	switch scenario {
	case 0:
		n = 1 + zzsym.Choice("items", 2)
		strLen, indexShape = c27RepLen("str.len"), zzsym.Choice("indexes", 4)
	case 1:
		g.wide = "requestID"
	case 2:
		batch.Version, batch.Priority, kind = zzsym.U16("version"), ExchangePriority(zzsym.U8("priority")), ExchangeKind(zzsym.U8("kind"))
	default:
		g.allWide = true
	}
	for i := 0; i < n; i++ {
		var probe ProbeRequest
		if i == 0 {
			probe = g.probeRequest("probe.", strLen, indexShape)
		} else {
			probe = g.probeRequest("probe2.", 1, 2)
		}
		batch.Items = append(batch.Items, ExchangeItem{RequestID: g.u64("requestID"), Kind: kind, Probe: &probe})
	}
	enc, err := EncodeExchangeBatch(batch)
	if err != nil {
		zzsym.Reach("probe-batch-refused")
		zzsym.Assert(enc == nil, "refused batch returns bytes")
		return
	}
	zzsym.Reach("probe-batch-encoded")
	zzsym.Assert(batch.Version == ExchangeVersion && batch.Priority == ExchangePriorityForeground && batch.Items[0].Kind == ExchangeProbe && batch.Items[0].RequestID != 0,
		"encoder accepted a batch outside the wire contract")
	c27RepCheckProbeBatch(batch, enc)
}

// Harness_C27_RepProbeBatchTruncated: every strict prefix of an encoded probe batch (one item with strings
// 1..2 and indexes nil/empty/1/2, or two items of fixed shape; concrete field values) is rejected.
func Harness_C27_RepProbeBatchTruncated() {
	g := &c27RepGen{concrete: true}
	batch := ExchangeBatch{Version: ExchangeVersion, Priority: ExchangePriorityForeground}
	if zzsym.Bool("two") {
		p1, p2 := g.probeRequest("probe.", 1, 2), g.probeRequest("probe2.", 2, 3)
		batch.Items = []ExchangeItem{{RequestID: g.u64("requestID"), Kind: ExchangeProbe, Probe: &p1}, {RequestID: g.u64("requestID"), Kind: ExchangeProbe, Probe: &p2}}
	} else {
		p1 := g.probeRequest("probe.", 1+zzsym.Choice("str.len", 2), zzsym.Choice("indexes", 4))
		batch.Items = []ExchangeItem{{RequestID: g.u64("requestID"), Kind: ExchangeProbe, Probe: &p1}}
	}
	enc, err := EncodeExchangeBatch(batch)
	zzsym.Assert(err == nil, "well-formed probe batch refused")
	cut := zzsym.Choice("cut", len(enc))
	tr, terr := DecodeExchangeBatch(enc[:cut])
	zzsym.Reach("probe-batch-truncated")
	zzsym.Assert(terr != nil, "truncated exchange batch accepted")
	zzsym.Assert(tr.Version == 0 && tr.Items == nil, "rejected exchange batch returns values")
}

// ---- request / result bodies (the encoder and decoder functions the batch codecs are made of) ----

func (g *c27RepGen) replicateRequest(strLen, recordShape, payloadLen int) ReplicateRequest {
	return ReplicateRequest{ChannelKey: ch.ChannelKey(g.str("key", strLen)), ChannelID: ch.ChannelID{ID: g.str("id", strLen), Type: g.u8("type")},
		Leader: ch.NodeID(g.u64("leader")), Follower: ch.NodeID(g.u64("follower")), Manifest: g.manifest("manifest."),
		Records: g.records("record.", recordShape, strLen, payloadLen), Committed: g.u64("committed"), ServerAllocatedMessageIDs: g.flag("serverAllocated")}
}

// c27RepCut returns a prefix length in [0,n), every value explored, at most 32 alternatives per choice.
func c27RepCut(n int) int {
	hi := zzsym.Choice("cut.hi", (n+31)/32)
	lo := zzsym.Choice("cut.lo", 32)
	cut := hi*32 + lo
	zzsym.Assume(cut < n)
	return cut
}

// c27RepLongCut: prefix lengths for the ~1 KB batch result. thorough: every length; quick: every length in
// the first and last 48 bytes and every 4th in between (the middle is a fixed sequence of one-byte varints
// and 32-byte digests).
func c27RepLongCut(n int) int {
	if zzsym.Thorough() {
		return c27RepCut(n)
	}
	if n < 96 {
		return c27RepCut(n)
	}
	mid := (n - 96 + 3) / 4
	total := 48 + mid + 48
	hi := zzsym.Choice("cut.hi", (total+31)/32)
	lo := zzsym.Choice("cut.lo", 32)
	idx := hi*32 + lo
	zzsym.Assume(idx < total)
	switch {
	case idx < 48:
		return idx
	case idx < 48+mid:
		return 48 + (idx-48)*4
	}
	return n - 48 + (idx - 48 - mid)
}

// Harness_C27_RepReplicateRequest: appendReplicateRequest / exchangeCursor.replicateRequest round trip
// (the top-level batch codec additionally demands ReplicateRequest.Valid(), i.e. a SHA-256 sealed
// manifest, which is property C05's subject; the body codec is exercised directly). Scenarios: 0 = shapes
// (strings 0..2, records nil/empty/one, payload 0..2), 1 = Manifest.ChannelEpoch over all of uint64,
// 2 = record timestamp over all of int64 (zig-zag varint), 3 (thorough only; quick has this case in
// Harness_C27_RepProbeBatch) = every integer ten bytes wide.
func Harness_C27_RepReplicateRequest() {
	g := &c27RepGen{}
	strLen, recordShape, payloadLen := 1, 2, 1
	scenarios := 3
	if zzsym.Thorough() {
		scenarios = 4
	}
	switch zzsym.Choice("scenario", scenarios) {
	case 0:
		strLen, recordShape, payloadLen = c27RepLen("str.len"), zzsym.Choice("records", 3), zzsym.Choice("payload.len", 3)
		if recordShape != 2 {
			zzsym.Assume(payloadLen == 0)
		}
	case 1:
		g.wide = "manifest.channelEpoch"
	case 2:
		g.wide = "record.timestamp"
	default:
		g.allWide = true
	}
	in := g.replicateRequest(strLen, recordShape, payloadLen)
	enc := appendReplicateRequest(nil, in)
	c := exchangeCursor{data: enc}
	got, ok := c.replicateRequest()
	zzsym.Reach("replicate-request")
	zzsym.Assert(ok && c.offset == len(enc), "replicate request body does not decode completely")
	zzsym.Assert(got.ChannelKey == in.ChannelKey && got.ChannelID.ID == in.ChannelID.ID && got.ChannelID.Type == in.ChannelID.Type, "replicate request identity differs after round trip")
	zzsym.Assert(got.Leader == in.Leader && got.Follower == in.Follower && got.Committed == in.Committed && got.ServerAllocatedMessageIDs == in.ServerAllocatedMessageIDs, "replicate request scalars differ after round trip")
	zzsym.Assert(got.Manifest == in.Manifest, "replicate request manifest differs after round trip")
	zzsym.Assert(c27RepSameRecords(got.Records, in.Records), "replicate request records differ after round trip")
	zzsym.Observe("replicate", got.Manifest.ChannelEpoch, uint64(len(got.Records)), uint64(len(enc)))
}

// Harness_C27_RepReplicateRequestTruncated: no strict prefix of a replicate request body decodes
// (concrete field values, every prefix length).
func Harness_C27_RepReplicateRequestTruncated() {
	g := &c27RepGen{concrete: true}
	in := g.replicateRequest(1, 2, 2)
	enc := appendReplicateRequest(nil, in)
	cut := c27RepCut(len(enc))
	c := exchangeCursor{data: enc[:cut]}
	_, ok := c.replicateRequest()
	zzsym.Reach("replicate-request-truncated")
	zzsym.Assert(!ok, "truncated replicate request body accepted")
}

func (g *c27RepGen) fetchRequest(strLen int) FetchRequest {
	return FetchRequest{ChannelKey: ch.ChannelKey(g.str("key", strLen)), ChannelID: ch.ChannelID{ID: g.str("id", strLen), Type: g.u8("type")},
		Leader: ch.NodeID(g.u64("leader")), Follower: ch.NodeID(g.u64("follower")), Expected: g.state("expected."), From: g.u64("from"), Through: g.u64("through"),
		Previous: g.identity("previous."), MaxBytes: g.nonNegInt("maxBytes")}
}

// Harness_C27_RepFetchRequest: appendFetchRequest / exchangeCursor.fetchRequest round trip and truncation
// (scenario 0: strings 0..2; 1: MaxBytes over all non-negative ints; 2: all strict prefixes, constants).
func Harness_C27_RepFetchRequest() {
	g := &c27RepGen{}
	strLen := 1
	scenario := zzsym.Choice("scenario", 3)
	switch scenario {
	case 0:
		strLen = c27RepLen("str.len")
	case 1:
		g.wide = "maxBytes"
	default:
		g.concrete = true
	}
	in := g.fetchRequest(strLen)
	enc := appendFetchRequest(nil, in)
	if scenario == 2 {
		c := exchangeCursor{data: enc[:c27RepCut(len(enc))]}
		_, ok := c.fetchRequest()
		zzsym.Reach("fetch-request-truncated")
		zzsym.Assert(!ok, "truncated fetch request body accepted")
		return
	}
	c := exchangeCursor{data: enc}
	got, ok := c.fetchRequest()
	zzsym.Reach("fetch-request")
	zzsym.Assert(ok && c.offset == len(enc), "fetch request body does not decode completely")
	zzsym.Assert(got.ChannelKey == in.ChannelKey && got.ChannelID.ID == in.ChannelID.ID && got.ChannelID.Type == in.ChannelID.Type && got.Leader == in.Leader && got.Follower == in.Follower, "fetch request identity differs after round trip")
	zzsym.Assert(c27RepSameState(got.Expected, in.Expected), "fetch request expected state differs after round trip")
	zzsym.Assert(got.From == in.From && got.Through == in.Through && got.MaxBytes == in.MaxBytes, "fetch request range differs after round trip")
	zzsym.Assert(got.Previous == in.Previous, "fetch request previous identity differs after round trip")
	zzsym.Observe("fetch", got.From, got.Through, uint64(got.MaxBytes))
}

// ---- ExchangeBatchResult (top level) ----

func (g *c27RepGen) itemResult(strLen, entryShape, proposalShape, recordShape int) ExchangeItemResult {
	r := ExchangeItemResult{RequestID: g.u64("requestID")}
	r.Replicate = ReplicateResult{Status: ReplicateStatus(g.u8("status")), LastOffset: g.u64("lastOffset"), NeedFrom: g.u64("needFrom"),
		Proof: ReplicateProof{ChannelKey: ch.ChannelKey(g.str("rp.key", strLen)), ChannelID: ch.ChannelID{ID: g.str("rp.id", strLen), Type: g.u8("rp.type")},
			Leader: ch.NodeID(g.u64("rp.leader")), Follower: ch.NodeID(g.u64("rp.follower")), Manifest: g.manifest("rp.manifest.")}}
	r.Probe = ProbeResult{Proof: ProbeProof{ChannelKey: ch.ChannelKey(g.str("pp.key", strLen)), ChannelID: ch.ChannelID{ID: g.str("pp.id", strLen), Type: g.u8("pp.type")},
		Leader: ch.NodeID(g.u64("pp.leader")), Follower: ch.NodeID(g.u64("pp.follower")), Indexes: g.indexes("pp.index", entryShape)}, State: g.state("ps.")}
	switch entryShape {
	case 1:
		r.Probe.Entries = []EntryProbe{}
	case 2, 3:
		r.Probe.Entries = []EntryProbe{{Index: g.u64("entry.index"), Present: g.flag("entry.present"), Identity: g.identity("entry.identity.")}}
	}
	r.Fetch = FetchResult{Proof: FetchProof{ChannelKey: ch.ChannelKey(g.str("fp.key", strLen)), ChannelID: ch.ChannelID{ID: g.str("fp.id", strLen), Type: g.u8("fp.type")},
		Leader: ch.NodeID(g.u64("fp.leader")), Follower: ch.NodeID(g.u64("fp.follower")), Expected: g.state("fp.expected."), From: g.u64("fp.from"), Through: g.u64("fp.through"),
		Previous: g.identity("fp.previous."), MaxBytes: g.nonNegInt("fp.maxBytes")}, State: g.state("fs.")}
	switch proposalShape {
	case 1:
		r.Fetch.Proposals = []RecoveryProposal{}
	case 2:
		r.Fetch.Proposals = []RecoveryProposal{{Manifest: g.manifest("proposal.manifest."), Records: g.records("proposal.record.", recordShape, strLen, strLen)}}
	}
	return r
}

func c27RepSameItemResult(a, b ExchangeItemResult) bool {
	if a.RequestID != b.RequestID {
		return false
	}
	ar, br := a.Replicate, b.Replicate
	if ar.Status != br.Status || ar.LastOffset != br.LastOffset || ar.NeedFrom != br.NeedFrom || ar.Proof.ChannelKey != br.Proof.ChannelKey || ar.Proof.ChannelID != br.Proof.ChannelID ||
		ar.Proof.Leader != br.Proof.Leader || ar.Proof.Follower != br.Proof.Follower || ar.Proof.Manifest != br.Proof.Manifest {
		return false
	}
	ap, bp := a.Probe, b.Probe
	if ap.Proof.ChannelKey != bp.Proof.ChannelKey || ap.Proof.ChannelID != bp.Proof.ChannelID || ap.Proof.Leader != bp.Proof.Leader || ap.Proof.Follower != bp.Proof.Follower ||
		!c27RepSameU64s(ap.Proof.Indexes, bp.Proof.Indexes) || !c27RepSameState(ap.State, bp.State) || len(ap.Entries) != len(bp.Entries) || (ap.Entries == nil) != (bp.Entries == nil) {
		return false
	}
	for i := range ap.Entries {
		if ap.Entries[i].Index != bp.Entries[i].Index || ap.Entries[i].Present != bp.Entries[i].Present || ap.Entries[i].Identity != bp.Entries[i].Identity {
			return false
		}
	}
	af, bf := a.Fetch, b.Fetch
	if af.Proof.ChannelKey != bf.Proof.ChannelKey || af.Proof.ChannelID != bf.Proof.ChannelID || af.Proof.Leader != bf.Proof.Leader || af.Proof.Follower != bf.Proof.Follower ||
		!c27RepSameState(af.Proof.Expected, bf.Proof.Expected) || af.Proof.From != bf.Proof.From || af.Proof.Through != bf.Proof.Through || af.Proof.Previous != bf.Proof.Previous ||
		af.Proof.MaxBytes != bf.Proof.MaxBytes || !c27RepSameState(af.State, bf.State) || len(af.Proposals) != len(bf.Proposals) || (af.Proposals == nil) != (bf.Proposals == nil) {
		return false
	}
	for i := range af.Proposals {
		if af.Proposals[i].Manifest != bf.Proposals[i].Manifest || !c27RepSameRecords(af.Proposals[i].Records, bf.Proposals[i].Records) {
			return false
		}
	}
	return true
}

// Harness_C27_RepBatchResult: EncodeExchangeBatchResult / DecodeExchangeBatchResult with one item result
// (replicate + probe + fetch result): scenario 0 = nil slices, empty strings; 1 = empty non-nil slices,
// strings of 1; 2 = one probe entry, one proposal with one record, strings of 2; 3 = RequestID over all of
// uint64; 4 = symbolic version and zero/non-zero request id (encoder refusals). All integers one byte wide
// otherwise.
func Harness_C27_RepBatchResult() {
	g := &c27RepGen{}
	version := ExchangeVersion
	strLen, entryShape, proposalShape, recordShape := 0, 0, 0, 0
	switch zzsym.Choice("scenario", 5) {
	case 1:
		strLen, entryShape, proposalShape = 1, 1, 1
	case 2:
		strLen, entryShape, proposalShape, recordShape = 2, 3, 2, 2
	case 3:
		g.wide = "requestID"
	case 4:
		version = zzsym.U16("version")
	}
	in := ExchangeBatchResult{Version: version, Items: []ExchangeItemResult{g.itemResult(strLen, entryShape, proposalShape, recordShape)}}
	enc, err := EncodeExchangeBatchResult(in)
	if err != nil {
		zzsym.Reach("batch-result-refused")
		zzsym.Assert(enc == nil && (in.Version != ExchangeVersion || in.Items[0].RequestID == 0), "well-formed batch result refused")
		return
	}
	zzsym.Reach("batch-result")
	zzsym.Assert(in.Version == ExchangeVersion && in.Items[0].RequestID != 0, "encoder accepted a batch result outside the wire contract")
	got, derr := DecodeExchangeBatchResult(enc)
	zzsym.Assert(derr == nil, "DecodeExchangeBatchResult rejects EncodeExchangeBatchResult output")
	zzsym.Assert(got.Version == in.Version && len(got.Items) == 1, "batch result header differs after round trip")
	zzsym.Assert(c27RepSameItemResult(got.Items[0], in.Items[0]), "item result differs after round trip")
	zzsym.Observe("batchresult", got.Items[0].RequestID, uint64(got.Items[0].Replicate.Status), uint64(len(enc)))
}

// Harness_C27_RepBatchResultTruncated: every strict prefix of an encoded batch result (one item with one
// probe entry and one proposal of one record; concrete field values; prefix lengths per c27RepLongCut).
func Harness_C27_RepBatchResultTruncated() {
	g := &c27RepGen{concrete: true}
	in := ExchangeBatchResult{Version: ExchangeVersion, Items: []ExchangeItemResult{g.itemResult(1, 3, 2, 2)}}
	enc, err := EncodeExchangeBatchResult(in)
	zzsym.Assert(err == nil, "well-formed batch result refused before truncation")
	tr, terr := DecodeExchangeBatchResult(enc[:c27RepLongCut(len(enc))])
	zzsym.Reach("batch-result-truncated")
	zzsym.Assert(terr != nil, "truncated batch result accepted")
	zzsym.Assert(tr.Version == 0 && tr.Items == nil, "rejected batch result returns values")
}

// ---- cursor primitives at full width ----

// Harness_C27_RepPrimitives: every exchangeCursor primitive on arbitrary bytes (fixed32 on 0/31/32/33
// bytes): a failed read returns the zero value (and, for uvarint/varint/byte/fixed32, consumes nothing), a
// successful read stays inside the input, counts never exceed their declared maximum, byte strings are
// copies of exactly the declared length.
func Harness_C27_RepPrimitives() {
	kind := zzsym.Choice("primitive", 9)
	// quick: varints up to 12 bytes (the 10-byte overflow rule is reachable), counts/bytes/booleans up to 4,
	// byte strings up to 6; thorough: 28 for all; offset 0 (thorough: 0 or 1)
	max := []int{12, 12, 4, 4, 2, 2, 6, 6, 0}[kind]
	start := 0
	if zzsym.Thorough() {
		max = 28
		start = zzsym.Choice("offset", 2)
	}
	n := 0
	if kind == 8 {
		n = []int{0, 31, 32, 33}[zzsym.Choice("len32", 4)]
	} else {
		n = zzsym.Choice("len", max+1)
	}
	data := zzsym.Bytes("data", n)
	zzsym.Assume(start <= n)
	c := exchangeCursor{data: data, offset: start}
	rest := n - start
	switch kind {
	case 0:
		v, ok := c.uvarint()
		zzsym.Reach("prim-uvarint")
		used := c.offset - start
		zzsym.Assert(ok == (used > 0) && used >= 0 && used <= 10 && used <= rest, "uvarint consumed bytes out of range")
		zzsym.Assert(ok || v == 0, "failed uvarint returns a value")
		if ok && used == 1 {
			zzsym.Assert(v == uint64(data[start]) && data[start] < 0x80, "one-byte uvarint value")
		}
		zzsym.Observe("uvarint", v, uint64(used))
	case 1:
		v, ok := c.varint()
		zzsym.Reach("prim-varint")
		used := c.offset - start
		zzsym.Assert(ok == (used > 0) && used >= 0 && used <= 10 && used <= rest, "varint consumed bytes out of range")
		zzsym.Assert(ok || v == 0, "failed varint returns a value")
	case 2:
		v, ok := c.count(MaxExchangeBatchItems)
		zzsym.Reach("prim-count")
		zzsym.Assert(v >= 0 && v <= MaxExchangeBatchItems, "count above its declared maximum")
		zzsym.Assert(ok || v == 0, "failed count returns a value")
		zzsym.Assert(c.offset-start <= rest, "count read past the input")
	case 3:
		v, isNil, ok := c.sliceCount(maxRecoveryProbeIndexes)
		zzsym.Reach("prim-slicecount")
		zzsym.Assert(v >= 0 && v <= maxRecoveryProbeIndexes, "slice count above its declared maximum")
		zzsym.Assert(ok || (v == 0 && !isNil), "failed slice count returns a value")
		zzsym.Assert(!isNil || v == 0, "nil slice with a count")
	case 4:
		v, ok := c.byte()
		zzsym.Reach("prim-byte")
		zzsym.Assert(ok == (rest > 0) && (!ok || (v == data[start] && c.offset == start+1)) && (ok || (v == 0 && c.offset == start)), "byte read")
	case 5:
		v, ok := c.boolean()
		zzsym.Reach("prim-boolean")
		zzsym.Assert(ok == (rest > 0 && data[start] <= 1), "boolean accepts exactly 0 and 1")
		zzsym.Assert(!ok || v == (data[start] == 1), "boolean value")
	case 6:
		v, ok := c.bytes()
		zzsym.Reach("prim-bytes")
		used := c.offset - start
		if ok {
			zzsym.Reach("prim-bytes-ok")
			zzsym.Assert(used >= 1 && used <= rest && len(v) <= used-1 && len(v) <= rest, "byte string longer than the remaining input")
			zzsym.Assert(c27RepSameBytes(v, data[c.offset-len(v):c.offset]), "byte string is not a copy of the input segment")
		} else {
			zzsym.Assert(v == nil, "failed byte string returns a value")
		}
	case 7:
		v, ok := c.string()
		zzsym.Reach("prim-string")
		zzsym.Assert(ok || v == "", "failed string returns a value")
		zzsym.Assert(len(v) <= rest && c.offset <= n, "string longer than the remaining input")
	default:
		v, ok := c.fixed32()
		zzsym.Reach("prim-fixed32")
		zzsym.Assert(ok == (rest >= 32), "fixed32 needs exactly 32 bytes")
		if ok {
			zzsym.Assert(c.offset == start+32 && v[0] == data[start] && v[31] == data[start+31], "fixed32 copies the next 32 bytes")
		} else {
			zzsym.Assert(c.offset == start && v == [32]byte{}, "failed fixed32 consumes or returns something")
		}
	}
}

// Harness_C27_RepPrimitiveRoundTrip: append* / cursor round trips at full width: uvarint over all of
// uint64, zig-zag varint over all of int64, slice counts over 0..2^40 with the nil flag (accepted exactly
// up to the declared maximum), booleans, strings and byte strings of 0..2 bytes; every strict prefix of a
// uvarint/varint/string encoding fails to decode.
func Harness_C27_RepPrimitiveRoundTrip() {
	switch zzsym.Choice("primitive", 5) {
	case 0:
		v := zzsym.U64("v")
		enc := appendCodecUvarint(nil, v)
		c := exchangeCursor{data: enc}
		got, ok := c.uvarint()
		zzsym.Reach("rt-uvarint")
		zzsym.Assert(ok && got == v && c.offset == len(enc), "uvarint differs after round trip")
		t := exchangeCursor{data: enc[:zzsym.Choice("cut", len(enc))]}
		_, tok := t.uvarint()
		zzsym.Assert(!tok && t.offset == 0, "truncated uvarint accepted")
		zzsym.Observe("rtuvarint", got, uint64(len(enc)))
	case 1:
		v := zzsym.I64("v")
		enc := append([]byte(nil), appendVarintForC27(v)...)
		c := exchangeCursor{data: enc}
		got, ok := c.varint()
		zzsym.Reach("rt-varint")
		zzsym.Assert(ok && got == v && c.offset == len(enc), "varint differs after round trip")
		t := exchangeCursor{data: enc[:zzsym.Choice("cut", len(enc))]}
		_, tok := t.varint()
		zzsym.Assert(!tok && t.offset == 0, "truncated varint accepted")
	case 2:
		count := zzsym.Int("count")
		isNil := zzsym.Bool("nil")
		zzsym.Assume(count >= 0 && count <= 1<<40)
		enc := appendCodecSliceCount(nil, count, isNil)
		c := exchangeCursor{data: enc}
		got, gotNil, ok := c.sliceCount(maxRecoveryProbeIndexes)
		zzsym.Reach("rt-slicecount")
		zzsym.Assert(ok == (isNil || count <= maxRecoveryProbeIndexes), "slice count accepted iff within the declared maximum")
		if ok {
			zzsym.Assert(gotNil == isNil && (isNil || got == count) && c.offset == len(enc), "slice count differs after round trip")
		}
	case 3:
		v := zzsym.Bool("v")
		c := exchangeCursor{data: appendCodecBool(nil, v)}
		got, ok := c.boolean()
		zzsym.Reach("rt-bool")
		zzsym.Assert(ok && got == v && c.offset == 1, "boolean differs after round trip")
	default:
		n := c27RepLen("len")
		v := zzsym.String("v", n)
		enc := appendCodecString(nil, v)
		zzsym.Assert(c27RepSameBytes(enc, appendCodecBytes(nil, []byte(v))), "string and byte string encodings differ")
		c := exchangeCursor{data: enc}
		got, ok := c.string()
		zzsym.Reach("rt-string")
		zzsym.Assert(ok && got == v && c.offset == len(enc), "string differs after round trip")
		t := exchangeCursor{data: enc[:zzsym.Choice("cut", len(enc))]}
		_, tok := t.string()
		zzsym.Assert(!tok, "truncated string accepted")
	}
}

// appendVarintForC27 encodes a record timestamp exactly as appendRecords does (through a one-record slice).
func appendVarintForC27(v int64) []byte {
	enc := appendRecords(nil, []ch.Record{{ServerTimestampMS: v}})
	// layout: count(1) id(1) index(1) epoch(1) setting(1) fromUID(1) clientMsgNo(1) | timestamp | syncOnce(1) payload(1) size(1)
	return enc[7 : len(enc)-3]
}

// ---- arbitrary bytes into the two top-level decoders ----

// c27RepGarbage returns n arbitrary bytes, n in 0..max, restricted so that every slice count decoded from
// them is either <= 3 or above the 256 maximum: each byte is in {0..3} or {0x80..0xff}, and a byte
// >= 0x80 is never followed by a byte <= 2 (two-byte varints 128..383). The executor forks over every
// feasible make() length, so unconstrained counts (0..256) would need 257-way forks per count; the count
// primitives themselves are decided at full width by Harness_C27_RepPrimitives.
func c27RepGarbage(quick, thorough int) []byte {
	max := quick
	if zzsym.Thorough() {
		max = thorough
	}
	n := zzsym.Choice("len", max+1)
	data := zzsym.Bytes("data", n)
	for i := 0; i < n; i++ {
		zzsym.Assume(data[i] <= 3 || data[i] >= 0x80)
		if i+1 < n {
			zzsym.Assume(!(data[i] >= 0x80 && data[i+1] <= 2))
		}
	}
	return data
}

// Harness_C27_RepGarbageBatch: DecodeExchangeBatch on arbitrary bytes: a value or an error, no panic, no
// allocation beyond the forked counts.
func Harness_C27_RepGarbageBatch() {
	data := c27RepGarbage(7, 12)
	got, err := DecodeExchangeBatch(data)
	if err != nil {
		zzsym.Reach("garbage-batch-rejected")
		zzsym.Assert(got.Version == 0 && got.Items == nil, "rejected garbage batch returns values")
		return
	}
	zzsym.Assert(len(got.Items) >= 1 && len(got.Items) <= MaxExchangeBatchItems && got.Version == ExchangeVersion, "accepted garbage batch outside the wire contract")
}

// Harness_C27_RepGarbageBatchResult: DecodeExchangeBatchResult on arbitrary bytes.
func Harness_C27_RepGarbageBatchResult() {
	data := c27RepGarbage(8, 12)
	got, err := DecodeExchangeBatchResult(data)
	if err != nil {
		zzsym.Reach("garbage-result-rejected")
		zzsym.Assert(got.Version == 0 && got.Items == nil, "rejected garbage batch result returns values")
		return
	}
	zzsym.Assert(len(got.Items) >= 1 && len(got.Items) <= MaxExchangeBatchItems && got.Version == ExchangeVersion, "accepted garbage batch result outside the wire contract")
}
