package replication

import (
	"github.com/WuKongIM/WuKongIM/internal/zzsym"
	ch "github.com/WuKongIM/WuKongIM/pkg/channel"
)

// ---- value generators ----

// c27RepGen produces the integer fields of a message. Every uvarint-encoded field is symbolic; to keep
// the per-width forking of 64-bit varints bounded, all of them range over 0..127 (one encoded byte)
// except the field named wide, which ranges over all of uint64 (ten encoded widths), or - with allWide -
// every field ranges over 2^63..2^64-1 (all ten bytes wide). With concrete set, the uvarint fields are
// fixed small constants (used by the truncation entries, where only the shape matters).
type c27RepGen struct {
	wide     string
	allWide  bool
	concrete bool
	next     uint64
}

func (g *c27RepGen) u64(name string) uint64 {
	if g.concrete {
		g.next++
		return g.next%100 + 1
	}
	if g.allWide {
		return zzsym.U64(name) | 1<<63
	}
	if name == g.wide {
		return zzsym.U64(name)
	}
	return uint64(zzsym.U8(name)) & 0x7f
}

func (g *c27RepGen) u16(name string) uint16 {
	if g.concrete {
		return 1
	}
	if g.allWide || name == g.wide {
		return zzsym.U16(name)
	}
	return uint16(zzsym.U8(name)) & 0x7f
}

// nonNegInt: int fields travel as uvarint(uint64(v)) and are rejected above MaxInt.
func (g *c27RepGen) nonNegInt(name string) int {
	if g.concrete {
		return 7
	}
	if g.allWide {
		return int(zzsym.U64(name)>>1 | 1<<62)
	}
	if name == g.wide {
		return int(zzsym.U64(name) >> 1)
	}
	return int(zzsym.U8(name) & 0x7f)
}

func (g *c27RepGen) i64(name string) int64 {
	if g.concrete {
		return -3
	}
	if g.allWide || name == g.wide {
		return zzsym.I64(name)
	}
	return int64(zzsym.I8(name)) >> 1 // -64..63: one zig-zag byte
}

func c27RepDigest(name string) [32]byte {
	var d [32]byte
	for i := range d {
		d[i] = zzsym.U8(name)
	}
	return d
}

func c27RepLen(name string) int {
	max := 2
	if zzsym.Thorough() {
		max = 3
	}
	return zzsym.Choice(name, max+1)
}

func (g *c27RepGen) manifest(p string) ch.ProposalManifest {
	return ch.ProposalManifest{Version: g.u16(p + "version"), ChannelEpoch: g.u64(p + "channelEpoch"), LeaderTerm: g.u64(p + "leaderTerm"),
		FenceVersion: g.u64(p + "fenceVersion"), CommandID: c27RepDigest(p + "commandID"), BaseOffset: g.u64(p + "baseOffset"), LastOffset: g.u64(p + "lastOffset"),
		PreviousTerm: g.u64(p + "previousTerm"), PreviousIndex: g.u64(p + "previousIndex"), PreviousDigest: c27RepDigest(p + "previousDigest"), Digest: c27RepDigest(p + "digest")}
}

func (g *c27RepGen) identity(p string) ch.EntryIdentity {
	return ch.EntryIdentity{Version: g.u16(p + "version"), ChannelEpoch: g.u64(p + "channelEpoch"), LeaderTerm: g.u64(p + "leaderTerm"),
		FenceVersion: g.u64(p + "fenceVersion"), Index: g.u64(p + "index"), PreviousTerm: g.u64(p + "previousTerm"), PreviousIndex: g.u64(p + "previousIndex"),
		CommandID: c27RepDigest(p + "commandID"), PreviousDigest: c27RepDigest(p + "previousDigest"), Digest: c27RepDigest(p + "digest")}
}

func (g *c27RepGen) state(p string) ReplicaState {
	return ReplicaState{LEO: g.u64(p + "leo"), Committed: g.u64(p + "committed"), Manifest: g.manifest(p + "manifest."), TailIdentity: g.identity(p + "tail.")}
}

func (g *c27RepGen) record(p string, strLen, payloadLen int) ch.Record {
	r := ch.Record{ID: g.u64(p + "id"), Index: g.u64(p + "index"), Epoch: g.u64(p + "epoch"), Setting: zzsym.U8(p + "setting"),
		FromUID: zzsym.String(p+"fromUID", strLen), ClientMsgNo: zzsym.String(p+"clientMsgNo", strLen), ServerTimestampMS: g.i64(p + "timestamp"),
		SyncOnce: zzsym.Bool(p + "syncOnce"), SizeBytes: g.nonNegInt(p + "sizeBytes")}
	// the codec decodes every byte string with append([]byte(nil), ...): an empty payload comes back nil
	if payloadLen > 0 {
		r.Payload = zzsym.Bytes(p+"payload", payloadLen)
	}
	return r
}

// records: shape 0 = nil slice, 1 = empty non-nil slice, 2 = one record.
func (g *c27RepGen) records(p string, shape, strLen, payloadLen int) []ch.Record {
	switch shape {
	case 0:
		return nil
	case 1:
		return []ch.Record{}
	}
	return []ch.Record{g.record(p, strLen, payloadLen)}
}

// indexes: shape 0 = nil, 1 = empty non-nil, 2 = one, 3 = two.
func (g *c27RepGen) indexes(p string, shape int) []uint64 {
	switch shape {
	case 0:
		return nil
	case 1:
		return []uint64{}
	case 2:
		return []uint64{g.u64(p)}
	}
	return []uint64{g.u64(p), g.u64(p)}
}

// ---- comparisons ----

func c27RepSameBytes(a, b []byte) bool {
	if len(a) != len(b) {
		return false
	}
	same := true
	for i := range a {
		if a[i] != b[i] {
			same = false
		}
	}
	return same
}

func c27RepSameU64s(a, b []uint64) bool {
	if len(a) != len(b) || (a == nil) != (b == nil) {
		return false
	}
	same := true
	for i := range a {
		if a[i] != b[i] {
			same = false
		}
	}
	return same
}

func c27RepSameRecord(a, b ch.Record) bool {
	return a.ID == b.ID && a.Index == b.Index && a.Epoch == b.Epoch && a.Setting == b.Setting && a.FromUID == b.FromUID && a.ClientMsgNo == b.ClientMsgNo &&
		a.ServerTimestampMS == b.ServerTimestampMS && a.SyncOnce == b.SyncOnce && c27RepSameBytes(a.Payload, b.Payload) && a.SizeBytes == b.SizeBytes
}

func c27RepSameRecords(a, b []ch.Record) bool {
	if len(a) != len(b) || (a == nil) != (b == nil) {
		return false
	}
	same := true
	for i := range a {
		if !c27RepSameRecord(a[i], b[i]) {
			same = false
		}
	}
	return same
}

func c27RepSameState(a, b ReplicaState) bool {
	return a.LEO == b.LEO && a.Committed == b.Committed && a.Manifest == b.Manifest && a.TailIdentity == b.TailIdentity
}

// ---- ExchangeBatch (top level) with probe items ----

func (g *c27RepGen) probeRequest(p string, strLen, indexShape int) ProbeRequest {
	return ProbeRequest{ChannelKey: ch.ChannelKey(zzsym.String(p+"key", strLen)), ChannelID: ch.ChannelID{ID: zzsym.String(p+"id", strLen), Type: zzsym.U8(p + "type")},
		Leader: ch.NodeID(g.u64(p + "leader")), Follower: ch.NodeID(g.u64(p + "follower")), Indexes: g.indexes(p+"index", indexShape)}
}

func c27RepSameProbeRequest(a, b ProbeRequest) bool {
	return a.ChannelKey == b.ChannelKey && a.ChannelID.ID == b.ChannelID.ID && a.ChannelID.Type == b.ChannelID.Type && a.Leader == b.Leader && a.Follower == b.Follower &&
		c27RepSameU64s(a.Indexes, b.Indexes)
}

func c27RepCheckProbeBatch(batch ExchangeBatch, enc []byte) {
	got, derr := DecodeExchangeBatch(enc)
	zzsym.Assert(derr == nil, "DecodeExchangeBatch rejects EncodeExchangeBatch output")
	zzsym.Assert(got.Version == batch.Version && got.Priority == batch.Priority && len(got.Items) == len(batch.Items), "batch header differs after round trip")
	for i := range got.Items {
		a, b := got.Items[i], batch.Items[i]
		zzsym.Assert(a.RequestID == b.RequestID && a.Kind == b.Kind, "item id/kind differs after round trip")
		zzsym.Assert(a.Probe != nil && a.Replicate == nil && a.Fetch == nil, "probe item decodes to another payload")
		zzsym.Assert(c27RepSameProbeRequest(*a.Probe, *b.Probe), "probe request differs after round trip")
	}
	zzsym.Observe("probebatch", uint64(len(got.Items)), got.Items[0].RequestID, uint64(len(enc)))
}

// Harness_C27_RepProbeBatch: EncodeExchangeBatch / DecodeExchangeBatch on batches of probe items. Whatever
// the encoder accepts must decode to an equal batch. Scenarios: 0 = shapes (1..2 items, strings 0..2,
// indexes nil/empty/1/2, all integers one-byte), 1 = RequestID over all of uint64, 2 = symbolic version,
// priority and kind (the encoder must refuse everything outside the closed wire contract), 3 = every
// integer ten bytes wide.
func Harness_C27_RepProbeBatch() {
	scenario := zzsym.Choice("scenario", 4)
	g := &c27RepGen{}
	batch := ExchangeBatch{Version: ExchangeVersion, Priority: ExchangePriorityForeground}
	kind := ExchangeProbe
	strLen, indexShape, n := 1, 3, 1
	switch scenario {
	case 0:
		n = 1 + zzsym.Choice("items", 2)
		strLen, indexShape = c27RepLen("str.len"), zzsym.Choice("indexes", 4)
	case 1:
		g.wide = "requestID"
	case 2:
		batch.Version, batch.Priority, kind = zzsym.U16("version"), ExchangePriority(zzsym.U8("priority")), ExchangeKind(zzsym.U8("kind"))
	default:
		g.allWide = true
	}
	for i := 0; i < n; i++ {
		var probe ProbeRequest
		if i == 0 {
			probe = g.probeRequest("probe.", strLen, indexShape)
		} else {
			probe = g.probeRequest("probe2.", 1, 2)
		}
		batch.Items = append(batch.Items, ExchangeItem{RequestID: g.u64("requestID"), Kind: kind, Probe: &probe})
	}
	enc, err := EncodeExchangeBatch(batch)
	if err != nil {
		zzsym.Reach("probe-batch-refused")
		zzsym.Assert(enc == nil, "refused batch returns bytes")
		return
	}
	zzsym.Reach("probe-batch-encoded")
	zzsym.Assert(batch.Version == ExchangeVersion && batch.Priority == ExchangePriorityForeground && batch.Items[0].Kind == ExchangeProbe && batch.Items[0].RequestID != 0,
		"encoder accepted a batch outside the wire contract")
	c27RepCheckProbeBatch(batch, enc)
}

// Harness_C27_RepProbeBatchTruncated: every strict prefix of an encoded probe batch (one item with strings
// 1..2 and indexes nil/empty/1/2, or two items of fixed shape; integer fields fixed one-byte constants,
// string bytes symbolic) is rejected.
func Harness_C27_RepProbeBatchTruncated() {
	g := &c27RepGen{concrete: true}
	batch := ExchangeBatch{Version: ExchangeVersion, Priority: ExchangePriorityForeground}
	if zzsym.Bool("two") {
		p1, p2 := g.probeRequest("probe.", 1, 2), g.probeRequest("probe2.", 2, 3)
		batch.Items = []ExchangeItem{{RequestID: g.u64("requestID"), Kind: ExchangeProbe, Probe: &p1}, {RequestID: g.u64("requestID"), Kind: ExchangeProbe, Probe: &p2}}
	} else {
		p1 := g.probeRequest("probe.", 1+zzsym.Choice("str.len", 2), zzsym.Choice("indexes", 4))
		batch.Items = []ExchangeItem{{RequestID: g.u64("requestID"), Kind: ExchangeProbe, Probe: &p1}}
	}
	enc, err := EncodeExchangeBatch(batch)
	zzsym.Assert(err == nil, "well-formed probe batch refused")
	cut := zzsym.Choice("cut", len(enc))
	tr, terr := DecodeExchangeBatch(enc[:cut])
	zzsym.Reach("probe-batch-truncated")
	zzsym.Assert(terr != nil, "truncated exchange batch accepted")
	zzsym.Assert(tr.Version == 0 && tr.Items == nil, "rejected exchange batch returns values")
}

// ---- request / result bodies (the encoder and decoder functions the batch codecs are made of) ----

func (g *c27RepGen) replicateRequest(strLen, recordShape, payloadLen int) ReplicateRequest {
	return ReplicateRequest{ChannelKey: ch.ChannelKey(zzsym.String("key", strLen)), ChannelID: ch.ChannelID{ID: zzsym.String("id", strLen), Type: zzsym.U8("type")},
		Leader: ch.NodeID(g.u64("leader")), Follower: ch.NodeID(g.u64("follower")), Manifest: g.manifest("manifest."),
		Records: g.records("record.", recordShape, strLen, payloadLen), Committed: g.u64("committed"), ServerAllocatedMessageIDs: zzsym.Bool("serverAllocated")}
}

// c27RepCut returns a prefix length in [0,n), every value explored, at most 32 alternatives per choice.
func c27RepCut(n int) int {
	hi := zzsym.Choice("cut.hi", (n+31)/32)
	lo := zzsym.Choice("cut.lo", 32)
	cut := hi*32 + lo
	zzsym.Assume(cut < n)
	return cut
}

// Harness_C27_RepReplicateRequest: appendReplicateRequest / exchangeCursor.replicateRequest round trip
// (the top-level batch codec additionally demands ReplicateRequest.Valid(), i.e. a SHA-256 sealed
// manifest, which is property C05's subject; the body codec is exercised directly). Scenarios: 0 = shapes
// (strings 0..2, records nil/empty/one, payload 0..2), 1 = Manifest.ChannelEpoch over all of uint64,
// 2 = record timestamp over all of int64 (zig-zag varint), 3 = every integer ten bytes wide.
func Harness_C27_RepReplicateRequest() {
	g := &c27RepGen{}
	strLen, recordShape, payloadLen := 1, 2, 1
	switch zzsym.Choice("scenario", 4) {
	case 0:
		strLen, recordShape, payloadLen = c27RepLen("str.len"), zzsym.Choice("records", 3), zzsym.Choice("payload.len", 3)
		if recordShape != 2 {
			zzsym.Assume(payloadLen == 0)
		}
	case 1:
		g.wide = "manifest.channelEpoch"
	case 2:
		g.wide = "record.timestamp"
	default:
		g.allWide = true
	}
	in := g.replicateRequest(strLen, recordShape, payloadLen)
	enc := appendReplicateRequest(nil, in)
	c := exchangeCursor{data: enc}
	got, ok := c.replicateRequest()
	zzsym.Reach("replicate-request")
	zzsym.Assert(ok && c.offset == len(enc), "replicate request body does not decode completely")
	zzsym.Assert(got.ChannelKey == in.ChannelKey && got.ChannelID.ID == in.ChannelID.ID && got.ChannelID.Type == in.ChannelID.Type, "replicate request identity differs after round trip")
	zzsym.Assert(got.Leader == in.Leader && got.Follower == in.Follower && got.Committed == in.Committed && got.ServerAllocatedMessageIDs == in.ServerAllocatedMessageIDs, "replicate request scalars differ after round trip")
	zzsym.Assert(got.Manifest == in.Manifest, "replicate request manifest differs after round trip")
	zzsym.Assert(c27RepSameRecords(got.Records, in.Records), "replicate request records differ after round trip")
	zzsym.Observe("replicate", got.Manifest.ChannelEpoch, uint64(len(got.Records)), uint64(len(enc)))
}

// Harness_C27_RepReplicateRequestTruncated: no strict prefix of a replicate request body decodes
// (integer fields fixed constants; strings, digests, flags symbolic).
func Harness_C27_RepReplicateRequestTruncated() {
	g := &c27RepGen{concrete: true}
	in := g.replicateRequest(1, 2, 2)
	enc := appendReplicateRequest(nil, in)
	cut := c27RepCut(len(enc))
	c := exchangeCursor{data: enc[:cut]}
	_, ok := c.replicateRequest()
	zzsym.Reach("replicate-request-truncated")
	zzsym.Assert(!ok, "truncated replicate request body accepted")
}

func (g *c27RepGen) fetchRequest(strLen int) FetchRequest {
	return FetchRequest{ChannelKey: ch.ChannelKey(zzsym.String("key", strLen)), ChannelID: ch.ChannelID{ID: zzsym.String("id", strLen), Type: zzsym.U8("type")},
		Leader: ch.NodeID(g.u64("leader")), Follower: ch.NodeID(g.u64("follower")), Expected: g.state("expected."), From: g.u64("from"), Through: g.u64("through"),
		Previous: g.identity("previous."), MaxBytes: g.nonNegInt("maxBytes")}
}

// Harness_C27_RepFetchRequest: appendFetchRequest / exchangeCursor.fetchRequest round trip and truncation
// (scenario 0: strings 0..2; 1: MaxBytes over all non-negative ints; 2: all strict prefixes, constants).
func Harness_C27_RepFetchRequest() {
	g := &c27RepGen{}
	strLen := 1
	scenario := zzsym.Choice("scenario", 3)
	switch scenario {
	case 0:
		strLen = c27RepLen("str.len")
	case 1:
		g.wide = "maxBytes"
	default:
		g.concrete = true
	}
	in := g.fetchRequest(strLen)
	enc := appendFetchRequest(nil, in)
	if scenario == 2 {
		c := exchangeCursor{data: enc[:c27RepCut(len(enc))]}
		_, ok := c.fetchRequest()
		zzsym.Reach("fetch-request-truncated")
		zzsym.Assert(!ok, "truncated fetch request body accepted")
		return
	}
	c := exchangeCursor{data: enc}
	got, ok := c.fetchRequest()
	zzsym.Reach("fetch-request")
	zzsym.Assert(ok && c.offset == len(enc), "fetch request body does not decode completely")
	zzsym.Assert(got.ChannelKey == in.ChannelKey && got.ChannelID.ID == in.ChannelID.ID && got.ChannelID.Type == in.ChannelID.Type && got.Leader == in.Leader && got.Follower == in.Follower, "fetch request identity differs after round trip")
	zzsym.Assert(c27RepSameState(got.Expected, in.Expected), "fetch request expected state differs after round trip")
	zzsym.Assert(got.From == in.From && got.Through == in.Through && got.MaxBytes == in.MaxBytes, "fetch request range differs after round trip")
	zzsym.Assert(got.Previous == in.Previous, "fetch request previous identity differs after round trip")
	zzsym.Observe("fetch", got.From, got.Through, uint64(got.MaxBytes))
}

// ---- ExchangeBatchResult (top level) ----

func (g *c27RepGen) itemResult(strLen, entryShape, proposalShape, recordShape int) ExchangeItemResult {
	r := ExchangeItemResult{RequestID: g.u64("requestID")}
	r.Replicate = ReplicateResult{Status: ReplicateStatus(zzsym.U8("status")), LastOffset: g.u64("lastOffset"), NeedFrom: g.u64("needFrom"),
		Proof: ReplicateProof{ChannelKey: ch.ChannelKey(zzsym.String("rp.key", strLen)), ChannelID: ch.ChannelID{ID: zzsym.String("rp.id", strLen), Type: zzsym.U8("rp.type")},
			Leader: ch.NodeID(g.u64("rp.leader")), Follower: ch.NodeID(g.u64("rp.follower")), Manifest: g.manifest("rp.manifest.")}}
	r.Probe = ProbeResult{Proof: ProbeProof{ChannelKey: ch.ChannelKey(zzsym.String("pp.key", strLen)), ChannelID: ch.ChannelID{ID: zzsym.String("pp.id", strLen), Type: zzsym.U8("pp.type")},
		Leader: ch.NodeID(g.u64("pp.leader")), Follower: ch.NodeID(g.u64("pp.follower")), Indexes: g.indexes("pp.index", entryShape)}, State: g.state("ps.")}
	switch entryShape {
	case 1:
		r.Probe.Entries = []EntryProbe{}
	case 2, 3:
		r.Probe.Entries = []EntryProbe{{Index: g.u64("entry.index"), Present: zzsym.Bool("entry.present"), Identity: g.identity("entry.identity.")}}
	}
	r.Fetch = FetchResult{Proof: FetchProof{ChannelKey: ch.ChannelKey(zzsym.String("fp.key", strLen)), ChannelID: ch.ChannelID{ID: zzsym.String("fp.id", strLen), Type: zzsym.U8("fp.type")},
		Leader: ch.NodeID(g.u64("fp.leader")), Follower: ch.NodeID(g.u64("fp.follower")), Expected: g.state("fp.expected."), From: g.u64("fp.from"), Through: g.u64("fp.through"),
		Previous: g.identity("fp.previous."), MaxBytes: g.nonNegInt("fp.maxBytes")}, State: g.state("fs.")}
	switch proposalShape {
	case 1:
		r.Fetch.Proposals = []RecoveryProposal{}
	case 2:
		r.Fetch.Proposals = []RecoveryProposal{{Manifest: g.manifest("proposal.manifest."), Records: g.records("proposal.record.", recordShape, strLen, strLen)}}
	}
	return r
}

func c27RepSameItemResult(a, b ExchangeItemResult) bool {
	if a.RequestID != b.RequestID {
		return false
	}
	ar, br := a.Replicate, b.Replicate
	if ar.Status != br.Status || ar.LastOffset != br.LastOffset || ar.NeedFrom != br.NeedFrom || ar.Proof.ChannelKey != br.Proof.ChannelKey || ar.Proof.ChannelID != br.Proof.ChannelID ||
		ar.Proof.Leader != br.Proof.Leader || ar.Proof.Follower != br.Proof.Follower || ar.Proof.Manifest != br.Proof.Manifest {
		return false
	}
	ap, bp := a.Probe, b.Probe
	if ap.Proof.ChannelKey != bp.Proof.ChannelKey || ap.Proof.ChannelID != bp.Proof.ChannelID || ap.Proof.Leader != bp.Proof.Leader || ap.Proof.Follower != bp.Proof.Follower ||
		!c27RepSameU64s(ap.Proof.Indexes, bp.Proof.Indexes) || !c27RepSameState(ap.State, bp.State) || len(ap.Entries) != len(bp.Entries) || (ap.Entries == nil) != (bp.Entries == nil) {
		return false
	}
	for i := range ap.Entries {
		if ap.Entries[i].Index != bp.Entries[i].Index || ap.Entries[i].Present != bp.Entries[i].Present || ap.Entries[i].Identity != bp.Entries[i].Identity {
			return false
		}
	}
	af, bf := a.Fetch, b.Fetch
	if af.Proof.ChannelKey != bf.Proof.ChannelKey || af.Proof.ChannelID != bf.Proof.ChannelID || af.Proof.Leader != bf.Proof.Leader || af.Proof.Follower != bf.Proof.Follower ||
		!c27RepSameState(af.Proof.Expected, bf.Proof.Expected) || af.Proof.From != bf.Proof.From || af.Proof.Through != bf.Proof.Through || af.Proof.Previous != bf.Proof.Previous ||
		af.Proof.MaxBytes != bf.Proof.MaxBytes || !c27RepSameState(af.State, bf.State) || len(af.Proposals) != len(bf.Proposals) || (af.Proposals == nil) != (bf.Proposals == nil) {
		return false
	}
	for i := range af.Proposals {
		if af.Proposals[i].Manifest != bf.Proposals[i].Manifest || !c27RepSameRecords(af.Proposals[i].Records, bf.Proposals[i].Records) {
			return false
		}
	}
	return true
}

// Harness_C27_RepBatchResult: EncodeExchangeBatchResult / DecodeExchangeBatchResult with one item result
// (replicate + probe + fetch result): scenario 0 = nil slices, empty strings; 1 = empty non-nil slices,
// strings of 1; 2 = one probe entry, one proposal with one record, strings of 2; 3 = RequestID over all of
// uint64; 4 = symbolic version and zero/non-zero request id (encoder refusals). All integers one byte wide
// otherwise.
func Harness_C27_RepBatchResult() {
	g := &c27RepGen{}
	version := ExchangeVersion
	strLen, entryShape, proposalShape, recordShape := 0, 0, 0, 0
	switch zzsym.Choice("scenario", 5) {
	case 1:
		strLen, entryShape, proposalShape = 1, 1, 1
	case 2:
		strLen, entryShape, proposalShape, recordShape = 2, 3, 2, 2
	case 3:
		g.wide = "requestID"
	case 4:
		version = zzsym.U16("version")
	}
	in := ExchangeBatchResult{Version: version, Items: []ExchangeItemResult{g.itemResult(strLen, entryShape, proposalShape, recordShape)}}
	enc, err := EncodeExchangeBatchResult(in)
	if err != nil {
		zzsym.Reach("batch-result-refused")
		zzsym.Assert(enc == nil && (in.Version != ExchangeVersion || in.Items[0].RequestID == 0), "well-formed batch result refused")
		return
	}
	zzsym.Reach("batch-result")
	zzsym.Assert(in.Version == ExchangeVersion && in.Items[0].RequestID != 0, "encoder accepted a batch result outside the wire contract")
	got, derr := DecodeExchangeBatchResult(enc)
	zzsym.Assert(derr == nil, "DecodeExchangeBatchResult rejects EncodeExchangeBatchResult output")
	zzsym.Assert(got.Version == in.Version && len(got.Items) == 1, "batch result header differs after round trip")
	zzsym.Assert(c27RepSameItemResult(got.Items[0], in.Items[0]), "item result differs after round trip")
	zzsym.Observe("batchresult", got.Items[0].RequestID, uint64(got.Items[0].Replicate.Status), uint64(len(enc)))
}

// Harness_C27_RepBatchResultTruncated: every strict prefix of an encoded batch result (one item with one
// probe entry and one proposal of one record; integers fixed constants; strings, digests, flags symbolic).
func Harness_C27_RepBatchResultTruncated() {
	g := &c27RepGen{concrete: true}
	in := ExchangeBatchResult{Version: ExchangeVersion, Items: []ExchangeItemResult{g.itemResult(1, 3, 2, 2)}}
	enc, err := EncodeExchangeBatchResult(in)
	zzsym.Assert(err == nil, "well-formed batch result refused before truncation")
	tr, terr := DecodeExchangeBatchResult(enc[:c27RepCut(len(enc))])
	zzsym.Reach("batch-result-truncated")
	zzsym.Assert(terr != nil, "truncated batch result accepted")
	zzsym.Assert(tr.Version == 0 && tr.Items == nil, "rejected batch result returns values")
}
