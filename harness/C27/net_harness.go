package clusternet

import (
	"errors"

	"github.com/WuKongIM/WuKongIM/internal/zzsym"
)

func c27NetLen(name string, quick, thorough int) int {
	max := quick
	if zzsym.Thorough() {
		max = thorough
	}
	return zzsym.Choice(name, max+1)
}

// Harness_C27_NetRoundTrip: CheckHeader(PutHeader(prefix, v, k) ++ body, v, k) returns exactly body,
// every strict prefix of the 2-byte header is rejected with ErrInvalidFrame.
func Harness_C27_NetRoundTrip() {
	version := zzsym.U8("version")
	kind := zzsym.U8("kind")
	n := c27NetLen("bodylen", 2, 6)
	body := zzsym.Bytes("body", n)
	frame := PutHeader(nil, version, kind)
	zzsym.Assert(len(frame) == 2 && frame[0] == version && frame[1] == kind, "PutHeader layout")
	frame = append(frame, body...)
	got, err := CheckHeader(frame, version, kind)
	zzsym.Reach("net-roundtrip")
	zzsym.Assert(err == nil, "CheckHeader rejects its own header")
	zzsym.Assert(len(got) == n, "CheckHeader payload length")
	same := true
	for i := 0; i < n && i < len(got); i++ {
		if got[i] != body[i] {
			same = false
		}
	}
	zzsym.Assert(same, "CheckHeader payload bytes differ")
	// PutHeader appends, it must keep an existing prefix.
	pre := zzsym.Bytes("pre", 1)
	framed := PutHeader(pre, version, kind)
	zzsym.Assert(len(framed) == 3 && framed[0] == pre[0] && framed[1] == version && framed[2] == kind, "PutHeader does not append")
	// truncations of the header
	cut := zzsym.Choice("cut", 2)
	_, terr := CheckHeader(frame[:cut], version, kind)
	zzsym.Reach("net-truncated")
	zzsym.Assert(terr != nil && errors.Is(terr, ErrInvalidFrame), "truncated header accepted")
	zzsym.Observe("net", uint64(len(got)), uint64(frame[0]), uint64(frame[1]))
}

// Harness_C27_NetGarbage: arbitrary bytes against arbitrary expected version/kind: accepted iff
// len>=2 and the two header bytes match, the result aliases data[2:], otherwise ErrInvalidFrame.
func Harness_C27_NetGarbage() {
	n := c27NetLen("len", 16, 28)
	data := zzsym.Bytes("data", n)
	wantVersion := zzsym.U8("wantVersion")
	wantKind := zzsym.U8("wantKind")
	got, err := CheckHeader(data, wantVersion, wantKind)
	ok := n >= 2 && data[0] == wantVersion && data[1] == wantKind
	if err != nil {
		zzsym.Reach("net-garbage-rejected")
		zzsym.Assert(!ok, "well-formed header rejected")
		zzsym.Assert(errors.Is(err, ErrInvalidFrame), "rejection is not ErrInvalidFrame")
		zzsym.Assert(got == nil, "rejected frame returns a payload")
		return
	}
	zzsym.Reach("net-garbage-accepted")
	zzsym.Assert(ok, "malformed header accepted")
	zzsym.Assert(len(got) == n-2, "payload length after header")
	zzsym.Observe("netg", uint64(len(got)))
}
