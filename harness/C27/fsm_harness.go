package fsm

import (
	"github.com/WuKongIM/WuKongIM/internal/zzsym"
	metadb "github.com/WuKongIM/WuKongIM/pkg/db/meta"
)

// ---- helpers ----

func c27FsmLen(name string) int {
	max := 2
	if zzsym.Thorough() {
		max = 3
	}
	return zzsym.Choice(name, max+1)
}

func c27FsmStr(name string) string { return zzsym.String(name, c27FsmLen(name+".len")) }

func c27FsmSameBytes(a, b []byte) bool {
	if len(a) != len(b) {
		return false
	}
	same := true
	for i := range a {
		if a[i] != b[i] {
			same = false
		}
	}
	return same
}

func c27FsmSameU64s(a, b []uint64) bool {
	if len(a) != len(b) {
		return false
	}
	same := true
	for i := range a {
		if a[i] != b[i] {
			same = false
		}
	}
	return same
}

func c27FsmSameStrings(a, b []string) bool {
	if len(a) != len(b) {
		return false
	}
	same := true
	for i := range a {
		if a[i] != b[i] {
			same = false
		}
	}
	return same
}

// c27FsmCut returns a prefix length in [0,n); every value is explored (two-level choice so that
// no single choice has more than 32 alternatives).
func c27FsmCut(n int) int {
	hi := zzsym.Choice("cut.hi", (n+31)/32)
	lo := zzsym.Choice("cut.lo", 32)
	cut := hi*32 + lo
	zzsym.Assume(cut < n)
	return cut
}

// c27FsmBoundaryAfter returns the offset in enc just after the k-th top-level TLV field
// (k == 0: just after the 2-byte command header), walking with the real readTLV.
func c27FsmBoundaryAfter(enc []byte, k int) int {
	off := headerSize
	for i := 0; i < k; i++ {
		_, _, n, err := readTLV(enc[off:])
		if err != nil {
			panic("c27: own encoding is not a TLV sequence")
		}
		off += n
	}
	return off
}

func c27FsmIsBoundary(enc []byte, cut int) bool {
	off := headerSize
	for off < len(enc) {
		if off == cut {
			return true
		}
		_, _, n, err := readTLV(enc[off:])
		if err != nil {
			panic("c27: own encoding is not a TLV sequence")
		}
		off += n
	}
	return off == cut
}

// c27FsmTruncations decodes one strict prefix of enc (every prefix length is explored).
// The TLV command format has optional fields and no total length, so a prefix that ends exactly on
// a top-level field boundary at or after minOK (the offset at which every required field of the
// command has been seen) is itself a well-formed older-writer encoding and must decode; every other
// prefix must be rejected with an error. Nothing may panic.
func c27FsmTruncations(enc []byte, minOK int) {
	cut := c27FsmCut(len(enc))
	cmd, err := decodeCommand(enc[:cut])
	if cut >= minOK && c27FsmIsBoundary(enc, cut) {
		zzsym.Reach("prefix-on-field-boundary")
		zzsym.Assert(err == nil && cmd != nil, "prefix ending on a field boundary after all required fields was rejected")
		return
	}
	zzsym.Reach("prefix-rejected")
	zzsym.Assert(err != nil, "truncated command accepted")
	zzsym.Assert(cmd == nil, "rejected command returns a value")
}

// c27FsmShape is one shared length (0..1, thorough 0..3) for every variable-length field of a
// truncation entry, so that the number of explored prefixes stays linear in the encoding size.
func c27FsmShape() int {
	if zzsym.Thorough() {
		return zzsym.Choice("shape", 4)
	}
	return zzsym.Choice("shape", 2)
}

// c27FsmBigShape: the long encodings (runtime meta, membership and channel-latest batches) are truncated
// at one shape (all variable-length fields 1 byte) in quick, 0..3 in thorough.
func c27FsmBigShape() int {
	if zzsym.Thorough() {
		return zzsym.Choice("shape", 4)
	}
	return 1
}

func c27FsmU64s(name string, n int) []uint64 {
	if n == 0 {
		return nil
	}
	out := make([]uint64, n)
	for i := range out {
		out[i] = zzsym.U64(name)
	}
	return out
}

// c27FsmAllPrefixesRejected: for commands whose last encoded field is required, every strict prefix
// must be rejected with an error (and must not panic).
func c27FsmAllPrefixesRejected(enc []byte) {
	cut := c27FsmCut(len(enc))
	cmd, err := decodeCommand(enc[:cut])
	zzsym.Reach("every-prefix-rejected")
	zzsym.Assert(err != nil, "strict prefix of a command with a required last field accepted")
	zzsym.Assert(cmd == nil, "rejected prefix returns a value")
}

// ---- User / Device ----

func c27FsmUser(uidLen, tokenLen int) metadb.User {
	return metadb.User{UID: zzsym.String("uid", uidLen), Token: zzsym.String("token", tokenLen), DeviceFlag: zzsym.I64("deviceFlag"), DeviceLevel: zzsym.I64("deviceLevel")}
}

// Harness_C27_FsmUser: upsert/create user commands round trip.
func Harness_C27_FsmUser() {
	u := c27FsmUser(c27FsmLen("uid.len"), c27FsmLen("token.len"))
	var got metadb.User
	if zzsym.Bool("create") {
		cmd, err := decodeCommand(EncodeCreateUserCommand(u))
		zzsym.Reach("create-user")
		zzsym.Assert(err == nil, "create user command rejected")
		c, ok := cmd.(*createUserCmd)
		zzsym.Assert(ok, "create user command decodes to another type")
		got = c.user
	} else {
		cmd, err := decodeCommand(EncodeUpsertUserCommand(u))
		zzsym.Reach("upsert-user")
		zzsym.Assert(err == nil, "upsert user command rejected")
		c, ok := cmd.(*upsertUserCmd)
		zzsym.Assert(ok, "upsert user command decodes to another type")
		got = c.user
	}
	zzsym.Assert(got.UID == u.UID && got.Token == u.Token, "user strings differ after round trip")
	zzsym.Assert(got.DeviceFlag == u.DeviceFlag && got.DeviceLevel == u.DeviceLevel, "user integers differ after round trip")
	zzsym.Observe("user", uint64(got.DeviceFlag), uint64(got.DeviceLevel), uint64(len(got.UID)), uint64(len(got.Token)))
}

// Harness_C27_FsmDevice: upsert device round trip.
func Harness_C27_FsmDevice() {
	d := metadb.Device{UID: c27FsmStr("uid"), DeviceFlag: zzsym.I64("deviceFlag"), Token: c27FsmStr("token"), DeviceLevel: zzsym.I64("deviceLevel")}
	enc := EncodeUpsertDeviceCommand(d)
	cmd, err := decodeCommand(enc)
	zzsym.Reach("upsert-device")
	zzsym.Assert(err == nil, "upsert device command rejected")
	c, ok := cmd.(*upsertDeviceCmd)
	zzsym.Assert(ok, "upsert device command decodes to another type")
	got := c.device
	zzsym.Assert(got.UID == d.UID && got.Token == d.Token, "device strings differ after round trip")
	zzsym.Assert(got.DeviceFlag == d.DeviceFlag && got.DeviceLevel == d.DeviceLevel, "device integers differ after round trip")
	zzsym.Observe("device", uint64(got.DeviceFlag), uint64(got.DeviceLevel))
}

// ---- Channel ----

func c27FsmChannel(idLen int) metadb.Channel {
	return metadb.Channel{ChannelID: zzsym.String("channelID", idLen), ChannelType: zzsym.I64("channelType"), Ban: zzsym.I64("ban"),
		Disband: zzsym.I64("disband"), SendBan: zzsym.I64("sendBan"), AllowStranger: zzsym.I64("allowStranger"), Large: zzsym.I64("large")}
}

// Harness_C27_FsmChannel: upsert / create / patch-flags / delete channel commands round trip.
func Harness_C27_FsmChannel() {
	ch := c27FsmChannel(c27FsmLen("channelID.len"))
	switch zzsym.Choice("kind", 4) {
	case 0:
		cmd, err := decodeCommand(EncodeUpsertChannelCommand(ch))
		zzsym.Reach("upsert-channel")
		zzsym.Assert(err == nil, "upsert channel command rejected")
		c, ok := cmd.(*upsertChannelCmd)
		zzsym.Assert(ok, "upsert channel command decodes to another type")
		got := c.channel
		zzsym.Assert(got.ChannelID == ch.ChannelID && got.ChannelType == ch.ChannelType, "upsert channel key differs after round trip")
		zzsym.Assert(got.Ban == ch.Ban && got.Disband == ch.Disband && got.SendBan == ch.SendBan && got.AllowStranger == ch.AllowStranger && got.Large == ch.Large, "upsert channel flags differ after round trip")
		zzsym.Observe("channel", uint64(got.ChannelType), uint64(got.Large))
	case 1:
		cmd, err := decodeCommand(EncodeCreateChannelCommand(ch))
		zzsym.Reach("create-channel")
		zzsym.Assert(err == nil, "create channel command rejected")
		c, ok := cmd.(*createChannelCmd)
		zzsym.Assert(ok, "create channel command decodes to another type")
		got := c.channel
		zzsym.Assert(got.ChannelID == ch.ChannelID && got.ChannelType == ch.ChannelType, "create channel key differs after round trip")
		zzsym.Assert(got.Ban == ch.Ban && got.Disband == ch.Disband && got.SendBan == ch.SendBan && got.AllowStranger == ch.AllowStranger && got.Large == ch.Large, "create channel flags differ after round trip")
		zzsym.Assert(c.result == nil, "create channel command decodes with a result")
	case 2:
		flags := metadb.ChannelBusinessFlags{Ban: ch.Ban, Disband: ch.Disband, SendBan: ch.SendBan}
		cmd, err := decodeCommand(EncodePatchChannelBusinessFlagsCommand(ch.ChannelID, ch.ChannelType, flags))
		zzsym.Reach("patch-channel-flags")
		zzsym.Assert(err == nil, "patch channel flags command rejected")
		c, ok := cmd.(*patchChannelBusinessFlagsCmd)
		zzsym.Assert(ok, "patch channel flags command decodes to another type")
		zzsym.Assert(c.channelID == ch.ChannelID && c.channelType == ch.ChannelType, "patch channel key differs after round trip")
		zzsym.Assert(c.flags.Ban == ch.Ban && c.flags.Disband == ch.Disband && c.flags.SendBan == ch.SendBan, "patch channel flags differ after round trip")
	default:
		cmd, err := decodeCommand(EncodeDeleteChannelCommand(ch.ChannelID, ch.ChannelType))
		zzsym.Reach("delete-channel")
		zzsym.Assert(err == nil, "delete channel command rejected")
		c, ok := cmd.(*deleteChannelCmd)
		zzsym.Assert(ok, "delete channel command decodes to another type")
		zzsym.Assert(c.channelID == ch.ChannelID && c.channelType == ch.ChannelType, "delete channel key differs after round trip")
	}
}

// Harness_C27_FsmSimpleTruncated: every strict prefix of user / device / channel / delete-channel / noop
// commands. None of these decoders has required fields, so every prefix that ends on a field boundary
// decodes (to a value with the remaining fields zero) and every other prefix is rejected.
func Harness_C27_FsmSimpleTruncated() {
	s := c27FsmShape()
	var enc []byte
	switch zzsym.Choice("kind", 5) {
	case 0:
		enc = EncodeUpsertUserCommand(c27FsmUser(s, s))
	case 1:
		enc = EncodeUpsertDeviceCommand(metadb.Device{UID: zzsym.String("uid", s), DeviceFlag: zzsym.I64("deviceFlag"), Token: zzsym.String("token", s), DeviceLevel: zzsym.I64("deviceLevel")})
	case 2:
		enc = EncodeCreateChannelCommand(c27FsmChannel(s))
	case 3:
		enc = EncodeDeleteChannelCommand(zzsym.String("channelID", s), zzsym.I64("channelType"))
	default:
		enc = EncodeNoopCommand()
		cmd, err := decodeCommand(enc)
		_, isNoop := cmd.(*noopCmd)
		zzsym.Reach("noop")
		zzsym.Assert(err == nil && isNoop, "noop command does not round trip")
	}
	c27FsmTruncations(enc, headerSize)
}

// ---- Channel runtime metadata ----

func c27FsmRuntimeMeta(idLen, replicas, isr, tokenLen int) metadb.ChannelRuntimeMeta {
	return metadb.ChannelRuntimeMeta{
		ChannelID: zzsym.String("channelID", idLen), ChannelType: zzsym.I64("channelType"),
		ChannelEpoch: zzsym.U64("channelEpoch"), LeaderEpoch: zzsym.U64("leaderEpoch"), RouteGeneration: zzsym.U64("routeGeneration"),
		Replicas: c27FsmU64s("replica", replicas), ISR: c27FsmU64s("isr", isr),
		Leader: zzsym.U64("leader"), MinISR: zzsym.I64("minISR"), Status: zzsym.U8("status"), Features: zzsym.U64("features"),
		LeaseUntilMS: zzsym.I64("leaseUntilMS"), RetentionThroughSeq: zzsym.U64("retentionThroughSeq"), RetentionUpdatedAtMS: zzsym.I64("retentionUpdatedAtMS"),
		WriteFenceToken: zzsym.String("writeFenceToken", tokenLen), WriteFenceVersion: zzsym.U64("writeFenceVersion"),
		WriteFenceReason: zzsym.U8("writeFenceReason"), WriteFenceUntilMS: zzsym.I64("writeFenceUntilMS"),
	}
}

// Harness_C27_FsmRuntimeMeta: upsert runtime metadata round trip. The command canonicalises on both
// sides (replica sets sorted and de-duplicated, RouteGeneration 0 -> max(epochs, fence version, 1)), so
// the decoded value is compared with the canonical form of the input. DirectoryGeneration is not a
// field of this command's wire format and is not compared.
func Harness_C27_FsmRuntimeMeta() {
	// quick: either the strings vary (ChannelID and WriteFenceToken share one length 0..2; one replica, one
	// ISR member) or the sets vary (replicas 0..2, ISR 0..1; strings of 1); thorough: all independent
	strLen, tokenLen, replicas, isr := 1, 1, 1, 1
	if zzsym.Thorough() {
		strLen, tokenLen, replicas, isr = c27FsmLen("str.len"), c27FsmLen("token.len"), c27FsmLen("replicas.len"), zzsym.Choice("isr.len", 4)
	} else if zzsym.Bool("sets") {
		replicas, isr = zzsym.Choice("replicas.len", 3), zzsym.Choice("isr.len", 2)
	} else {
		strLen = zzsym.Choice("str.len", 3)
		tokenLen = strLen
	}
	in := c27FsmRuntimeMeta(strLen, replicas, isr, tokenLen)
	want := metadb.NormalizeChannelRuntimeMeta(in)
	cmd, err := decodeCommand(EncodeUpsertChannelRuntimeMetaCommand(in))
	zzsym.Reach("upsert-runtime-meta")
	zzsym.Assert(err == nil, "upsert runtime meta command rejected")
	c, ok := cmd.(*upsertChannelRuntimeMetaCmd)
	zzsym.Assert(ok, "upsert runtime meta command decodes to another type")
	got := c.meta
	zzsym.Assert(got.ChannelID == in.ChannelID && got.ChannelType == in.ChannelType, "runtime meta key differs after round trip")
	zzsym.Assert(got.ChannelEpoch == in.ChannelEpoch && got.LeaderEpoch == in.LeaderEpoch && got.Leader == in.Leader, "runtime meta epochs/leader differ after round trip")
	zzsym.Assert(got.MinISR == in.MinISR && got.Status == in.Status && got.Features == in.Features && got.LeaseUntilMS == in.LeaseUntilMS, "runtime meta minISR/status/features/lease differ after round trip")
	zzsym.Assert(got.RetentionThroughSeq == in.RetentionThroughSeq && got.RetentionUpdatedAtMS == in.RetentionUpdatedAtMS, "runtime meta retention differs after round trip")
	zzsym.Assert(got.WriteFenceToken == in.WriteFenceToken && got.WriteFenceVersion == in.WriteFenceVersion && got.WriteFenceReason == in.WriteFenceReason && got.WriteFenceUntilMS == in.WriteFenceUntilMS, "runtime meta write fence differs after round trip")
	zzsym.Assert(in.RouteGeneration == 0 || got.RouteGeneration == in.RouteGeneration, "explicit RouteGeneration differs after round trip")
	zzsym.Assert(got.RouteGeneration == want.RouteGeneration, "defaulted RouteGeneration differs from the canonical form")
	zzsym.Assert(c27FsmSameU64s(got.Replicas, want.Replicas), "Replicas differ from the canonical set after round trip")
	zzsym.Assert(c27FsmSameU64s(got.ISR, want.ISR), "ISR differs from the canonical set after round trip")
	for i := 1; i < len(got.Replicas); i++ {
		zzsym.Assert(got.Replicas[i-1] < got.Replicas[i], "decoded Replicas are not strictly increasing")
	}
	for i := 1; i < len(got.ISR); i++ {
		zzsym.Assert(got.ISR[i-1] < got.ISR[i], "decoded ISR is not strictly increasing")
	}
	zzsym.Observe("runtimemeta", got.ChannelEpoch, got.RouteGeneration, uint64(len(got.Replicas)), uint64(len(got.ISR)), uint64(got.Status))
}

// Harness_C27_FsmRuntimeMetaTruncated: strict prefixes of upsert / delete runtime meta and retention
// advance commands. Upsert: required fields are the first 11 (through LeaseUntilMS), the later ones are
// optional; delete and retention advance: every field is required, so every strict prefix is rejected.
func Harness_C27_FsmRuntimeMetaTruncated() {
	s := c27FsmBigShape()
	switch zzsym.Choice("kind", 3) {
	case 0:
		n := s
		if n > 2 {
			n = 2
		}
		in := c27FsmRuntimeMeta(s, n, n, s)
		if n == 2 {
			// keep the two-element sets canonical so that the encoding size is fixed
			zzsym.Assume(in.Replicas[0] < in.Replicas[1] && in.ISR[0] < in.ISR[1])
		}
		// value-dependent canonicalisation (RouteGeneration defaulting, person-channel directory
		// generation) is covered by Harness_C27_FsmRuntimeMeta; it does not change the encoding shape.
		zzsym.Assume(in.RouteGeneration != 0 && in.ChannelType != 1)
		enc := EncodeUpsertChannelRuntimeMetaCommand(in)
		c27FsmTruncations(enc, c27FsmBoundaryAfter(enc, 11))
	case 1:
		enc := EncodeDeleteChannelRuntimeMetaCommand(zzsym.String("channelID", s), zzsym.I64("channelType"))
		cmd, err := decodeCommand(enc)
		zzsym.Reach("delete-runtime-meta")
		zzsym.Assert(err == nil, "delete runtime meta command rejected")
		c, ok := cmd.(*deleteChannelRuntimeMetaCmd)
		zzsym.Assert(ok && len(c.channelID) == s, "delete runtime meta command decodes to another type")
		c27FsmAllPrefixesRejected(enc)
	default:
		enc := EncodeAdvanceChannelRetentionThroughSeqCommand(c27FsmRetentionAdvance(s))
		c27FsmAllPrefixesRejected(enc)
	}
}

func c27FsmRetentionAdvance(idLen int) metadb.ChannelRetentionAdvance {
	return metadb.ChannelRetentionAdvance{ChannelID: zzsym.String("channelID", idLen), ChannelType: zzsym.I64("channelType"),
		ExpectedChannelEpoch: zzsym.U64("expectedChannelEpoch"), ExpectedLeaderEpoch: zzsym.U64("expectedLeaderEpoch"),
		ExpectedLeader: zzsym.U64("expectedLeader"), ExpectedLeaseUntilMS: zzsym.I64("expectedLeaseUntilMS"),
		RetentionThroughSeq: zzsym.U64("retentionThroughSeq"), RetentionUpdatedAtMS: zzsym.I64("retentionUpdatedAtMS")}
}

// Harness_C27_FsmRetentionAndDelete: retention advance and delete-runtime-meta round trips.
func Harness_C27_FsmRetentionAndDelete() {
	req := c27FsmRetentionAdvance(c27FsmLen("channelID.len"))
	if zzsym.Bool("delete") {
		cmd, err := decodeCommand(EncodeDeleteChannelRuntimeMetaCommand(req.ChannelID, req.ChannelType))
		zzsym.Reach("delete-runtime-meta-roundtrip")
		zzsym.Assert(err == nil, "delete runtime meta rejected")
		c, ok := cmd.(*deleteChannelRuntimeMetaCmd)
		zzsym.Assert(ok, "delete runtime meta decodes to another type")
		zzsym.Assert(c.channelID == req.ChannelID && c.channelType == req.ChannelType, "delete runtime meta key differs after round trip")
		return
	}
	cmd, err := decodeCommand(EncodeAdvanceChannelRetentionThroughSeqCommand(req))
	zzsym.Reach("retention-advance")
	zzsym.Assert(err == nil, "retention advance command rejected")
	c, ok := cmd.(*advanceChannelRetentionThroughSeqCmd)
	zzsym.Assert(ok, "retention advance command decodes to another type")
	got := c.req
	zzsym.Assert(got.ChannelID == req.ChannelID && got.ChannelType == req.ChannelType, "retention advance key differs after round trip")
	zzsym.Assert(got.ExpectedChannelEpoch == req.ExpectedChannelEpoch && got.ExpectedLeaderEpoch == req.ExpectedLeaderEpoch && got.ExpectedLeader == req.ExpectedLeader && got.ExpectedLeaseUntilMS == req.ExpectedLeaseUntilMS, "retention advance guards differ after round trip")
	zzsym.Assert(got.RetentionThroughSeq == req.RetentionThroughSeq && got.RetentionUpdatedAtMS == req.RetentionUpdatedAtMS, "retention advance values differ after round trip")
	zzsym.Observe("retention", got.RetentionThroughSeq, uint64(got.RetentionUpdatedAtMS))
}

// ---- Subscribers ----

func c27FsmNoNUL(s string) bool {
	ok := true
	for i := 0; i < len(s); i++ {
		if s[i] == 0 {
			ok = false
		}
	}
	return ok
}

// c27FsmUIDs returns n symbolic uids inside the domain of the NUL-separated string-set encoding
// (non-empty, no NUL byte).
func c27FsmUIDs(n int, lenOf func(i int) int) []string {
	if n == 0 {
		return nil
	}
	uids := make([]string, n)
	for i := range uids {
		uids[i] = zzsym.String("uid", lenOf(i))
		zzsym.Assume(len(uids[i]) > 0 && c27FsmNoNUL(uids[i]))
	}
	return uids
}

// Harness_C27_FsmSubscribers: add / remove subscribers round trip: the uid list travels as a sorted,
// de-duplicated NUL-separated set.
func Harness_C27_FsmSubscribers() {
	channelID := c27FsmStr("channelID")
	channelType := zzsym.I64("channelType")
	version := zzsym.U64("version")
	n := zzsym.Choice("uids", 3)
	uids := c27FsmUIDs(n, func(int) int { return 1 + zzsym.Choice("uid.len", 2) })
	var want []string
	switch {
	case n == 1:
		want = []string{uids[0]}
	case n == 2 && uids[0] == uids[1]:
		want = []string{uids[0]}
	case n == 2 && uids[0] < uids[1]:
		want = []string{uids[0], uids[1]}
	case n == 2:
		want = []string{uids[1], uids[0]}
	}
	var gotID string
	var gotType int64
	var gotUIDs []string
	var gotVersion uint64
	if zzsym.Bool("remove") {
		enc, eerr := EncodeRemoveSubscribersCommandChecked(channelID, channelType, uids, version)
		zzsym.Assert(eerr == nil, "bounded remove subscribers command not encoded")
		cmd, err := decodeCommand(enc)
		zzsym.Reach("remove-subscribers")
		zzsym.Assert(err == nil, "remove subscribers command rejected")
		c, ok := cmd.(*removeSubscribersCmd)
		zzsym.Assert(ok, "remove subscribers command decodes to another type")
		gotID, gotType, gotUIDs, gotVersion = c.channelID, c.channelType, c.uids, c.subscriberMutationVersion
	} else {
		enc, eerr := EncodeAddSubscribersCommandChecked(channelID, channelType, uids, version)
		zzsym.Assert(eerr == nil, "bounded add subscribers command not encoded")
		cmd, err := decodeCommand(enc)
		zzsym.Reach("add-subscribers")
		zzsym.Assert(err == nil, "add subscribers command rejected")
		c, ok := cmd.(*addSubscribersCmd)
		zzsym.Assert(ok, "add subscribers command decodes to another type")
		gotID, gotType, gotUIDs, gotVersion = c.channelID, c.channelType, c.uids, c.subscriberMutationVersion
	}
	zzsym.Assert(gotID == channelID && gotType == channelType, "subscriber command key differs after round trip")
	zzsym.Assert(gotVersion == version, "subscriber mutation version differs after round trip")
	zzsym.Assert(c27FsmSameStrings(gotUIDs, want), "subscriber uids differ from the sorted set after round trip")
	zzsym.Observe("subscribers", uint64(len(gotUIDs)), gotVersion)
}

// Harness_C27_FsmSubscribersTruncated: the uid set is the last and a required field: every strict
// prefix is rejected.
func Harness_C27_FsmSubscribersTruncated() {
	s := c27FsmShape()
	n := s
	if n > 2 {
		n = 2
	}
	uids := c27FsmUIDs(n, func(int) int { return 1 })
	if n == 2 {
		zzsym.Assume(uids[0] != uids[1])
	}
	enc := EncodeAddSubscribersCommand(zzsym.String("channelID", s), zzsym.I64("channelType"), uids, zzsym.U64("version"))
	c27FsmAllPrefixesRejected(enc)
}

// ---- Mutation results ----

// Harness_C27_FsmMutationResults: the two apply-result codecs.
func Harness_C27_FsmMutationResults() {
	if zzsym.Bool("conditional") {
		var res *metadb.ChannelConditionalMutationResult
		applied := zzsym.Bool("applied")
		if zzsym.Bool("nonnil") {
			res = &metadb.ChannelConditionalMutationResult{Applied: applied}
		}
		enc := EncodeChannelConditionalMutationResult(res)
		got, err := DecodeChannelConditionalMutationResult(enc)
		zzsym.Reach("conditional-result")
		zzsym.Assert(err == nil, "conditional mutation result rejected")
		zzsym.Assert(got == (res != nil && applied), "conditional mutation result differs after round trip")
		cut := zzsym.Choice("cut", len(enc))
		_, terr := DecodeChannelConditionalMutationResult(enc[:cut])
		zzsym.Assert(terr != nil, "truncated conditional mutation result accepted")
		return
	}
	// counts are non-negative ints; one of them ranges over the full non-negative int range
	res := metadb.SubscriberMutationResult{RequestedCount: zzsym.Int("requested"), ChangedCount: zzsym.Int("changed")}
	zzsym.Assume(res.RequestedCount >= 0 && res.ChangedCount >= 0 && res.ChangedCount < 128)
	enc := EncodeSubscriberMutationResult(&res)
	got, err := DecodeSubscriberMutationResult(enc)
	zzsym.Reach("subscriber-result")
	zzsym.Assert(err == nil, "subscriber mutation result rejected")
	zzsym.Assert(got.RequestedCount == res.RequestedCount && got.ChangedCount == res.ChangedCount, "subscriber mutation result differs after round trip")
	cut := zzsym.Choice("cut", len(enc))
	_, terr := DecodeSubscriberMutationResult(enc[:cut])
	zzsym.Reach("subscriber-result-truncated")
	zzsym.Assert(terr != nil, "truncated subscriber mutation result accepted")
	nilEnc := EncodeSubscriberMutationResult(nil)
	nilGot, nilErr := DecodeSubscriberMutationResult(nilEnc)
	zzsym.Assert(nilErr == nil && nilGot.RequestedCount == 0 && nilGot.ChangedCount == 0, "nil subscriber mutation result does not decode to zero")
	zzsym.Observe("subresult", uint64(got.RequestedCount), uint64(got.ChangedCount))
}

// Harness_C27_FsmMutationResultsGarbage: arbitrary bytes into the two result decoders.
func Harness_C27_FsmMutationResultsGarbage() {
	max := 16
	if zzsym.Thorough() {
		max = 28
	}
	data := zzsym.Bytes("data", zzsym.Choice("len", max+1))
	if zzsym.Bool("conditional") {
		got, err := DecodeChannelConditionalMutationResult(data)
		zzsym.Reach("conditional-result-garbage")
		zzsym.Assert(err == nil || !got, "rejected conditional result returns true")
		if err == nil {
			zzsym.Reach("conditional-result-garbage-accepted")
			zzsym.Assert(len(data) == 6 && data[4] == 1 && data[5] <= 1 && got == (data[5] == 1), "accepted conditional result is not magic+0/1")
		}
		return
	}
	got, err := DecodeSubscriberMutationResult(data)
	zzsym.Reach("subscriber-result-garbage")
	if err != nil {
		zzsym.Assert(got.RequestedCount == 0 && got.ChangedCount == 0, "rejected subscriber result returns values")
	} else {
		zzsym.Reach("subscriber-result-garbage-accepted")
		zzsym.Assert(len(data) >= 7, "accepted subscriber result shorter than magic + two varints")
	}
}

// ---- User channel memberships ----

func c27FsmMembership(uidLen, idLen int) metadb.UserChannelMembership {
	return metadb.UserChannelMembership{UID: zzsym.String("uid", uidLen), ChannelID: zzsym.String("channelID", idLen), ChannelType: zzsym.I64("channelType"),
		JoinSeq: zzsym.U64("joinSeq"), ReadSeq: zzsym.U64("readSeq"), DeletedToSeq: zzsym.U64("deletedToSeq"), ActivatedAt: zzsym.I64("activatedAt"),
		Tombstone: zzsym.Bool("tombstone"), TombstoneAt: zzsym.I64("tombstoneAt"), SourceVersion: zzsym.U64("sourceVersion"), UpdatedAt: zzsym.I64("updatedAt")}
}

func c27FsmSameMembership(a, b metadb.UserChannelMembership) bool {
	return a.UID == b.UID && a.ChannelID == b.ChannelID && a.ChannelType == b.ChannelType && a.JoinSeq == b.JoinSeq && a.ReadSeq == b.ReadSeq &&
		a.DeletedToSeq == b.DeletedToSeq && a.ActivatedAt == b.ActivatedAt && a.Tombstone == b.Tombstone && a.TombstoneAt == b.TombstoneAt &&
		a.SourceVersion == b.SourceVersion && a.UpdatedAt == b.UpdatedAt
}

func c27FsmEncodeMemberships(kind int, ms []metadb.UserChannelMembership) []byte {
	switch kind {
	case 0:
		return EncodeUpsertUserChannelMembershipsCommand(ms)
	case 1:
		return EncodeDeleteUserChannelMembershipsCommand(ms)
	case 2:
		return EncodeAdvanceUserChannelMembershipReadSeqCommand(ms)
	case 3:
		return EncodeHideUserChannelMembershipCommand(ms)
	}
	return EncodeActivateUserChannelMembershipCommand(ms)
}

func c27FsmDecodedMemberships(kind int, cmd command) ([]metadb.UserChannelMembership, bool) {
	switch kind {
	case 0:
		c, ok := cmd.(*upsertUserChannelMembershipsCmd)
		if !ok {
			return nil, false
		}
		return c.memberships, true
	case 1:
		c, ok := cmd.(*deleteUserChannelMembershipsCmd)
		if !ok {
			return nil, false
		}
		return c.memberships, true
	case 2:
		c, ok := cmd.(*advanceUserChannelMembershipReadSeqCmd)
		if !ok {
			return nil, false
		}
		return c.memberships, true
	case 3:
		c, ok := cmd.(*hideUserChannelMembershipCmd)
		if !ok {
			return nil, false
		}
		return c.memberships, true
	}
	c, ok := cmd.(*activateUserChannelMembershipCmd)
	if !ok {
		return nil, false
	}
	return c.memberships, true
}

// Harness_C27_FsmMemberships: the five user-channel-membership batch commands, 0..2 entries (an empty
// batch is rejected by every decoder).
func Harness_C27_FsmMemberships() {
	kind := zzsym.Choice("kind", 5)
	n := zzsym.Choice("entries", 3)
	var ms []metadb.UserChannelMembership
	for i := 0; i < n; i++ {
		s := c27FsmLen("entry.shape") // UID and ChannelID of one entry share a length
		ms = append(ms, c27FsmMembership(s, s))
	}
	cmd, err := decodeCommand(c27FsmEncodeMemberships(kind, ms))
	if n == 0 {
		zzsym.Reach("empty-membership-batch")
		zzsym.Assert(err != nil && cmd == nil, "empty membership batch accepted")
		return
	}
	zzsym.Reach("membership-batch")
	zzsym.Assert(err == nil, "membership batch rejected")
	got, ok := c27FsmDecodedMemberships(kind, cmd)
	zzsym.Assert(ok, "membership batch decodes to another command type")
	zzsym.Assert(len(got) == n, "membership batch length differs after round trip")
	for i := range got {
		zzsym.Assert(c27FsmSameMembership(got[i], ms[i]), "membership entry differs after round trip")
	}
	zzsym.Observe("memberships", uint64(len(got)), got[0].JoinSeq, uint64(got[0].UpdatedAt), zzsym.B2U(got[0].Tombstone))
}

// Harness_C27_FsmMembershipsTruncated: strict prefixes of membership batches (upsert: state fields
// required; delete: state fields optional; CMD upsert): one entry: every strict prefix is rejected (for
// delete: accepted only at a field boundary after UID, ChannelID, ChannelType - there is none before the
// end of the single entry TLV); two entries: accepted exactly at the boundary after the first entry.
// The Tombstone flags are fixed per case (they only select the encoded 0/1 value).
func Harness_C27_FsmMembershipsTruncated() {
	s := c27FsmBigShape()
	switch zzsym.Choice("case", 4) {
	case 0:
		m := c27FsmMembership(s, s)
		m.Tombstone = false
		c27FsmAllPrefixesRejected(c27FsmEncodeMemberships(0, []metadb.UserChannelMembership{m}))
	case 1:
		m := c27FsmMembership(s, s)
		m.Tombstone = true
		c27FsmAllPrefixesRejected(c27FsmEncodeMemberships(1, []metadb.UserChannelMembership{m}))
	case 2:
		m1, m2 := c27FsmMembership(s, s), c27FsmMembership(s, s)
		m1.Tombstone, m2.Tombstone = true, false
		enc := c27FsmEncodeMemberships(0, []metadb.UserChannelMembership{m1, m2})
		c27FsmTruncations(enc, c27FsmBoundaryAfter(enc, 1))
	default:
		m := c27FsmCMDMembership(s, s)
		m.Tombstone = true
		c27FsmAllPrefixesRejected(c27FsmEncodeCMDMemberships(0, []metadb.UserCMDChannelMembership{m}))
	}
}

// ---- User CMD channel memberships ----

func c27FsmCMDMembership(uidLen, idLen int) metadb.UserCMDChannelMembership {
	return metadb.UserCMDChannelMembership{UID: zzsym.String("uid", uidLen), CommandChannelID: zzsym.String("channelID", idLen), ChannelType: zzsym.I64("channelType"),
		StartSeq: zzsym.U64("startSeq"), AckSeq: zzsym.U64("ackSeq"), Tombstone: zzsym.Bool("tombstone"), TombstoneAt: zzsym.I64("tombstoneAt"), UpdatedAt: zzsym.I64("updatedAt")}
}

func c27FsmEncodeCMDMemberships(kind int, ms []metadb.UserCMDChannelMembership) []byte {
	switch kind {
	case 0:
		return EncodeUpsertUserCMDChannelMembershipsCommand(ms)
	case 1:
		return EncodeAdvanceUserCMDChannelMembershipAcksCommand(ms)
	}
	return EncodeTombstoneUserCMDChannelMembershipsCommand(ms)
}

// Harness_C27_FsmCMDMemberships: the three CMD-channel-membership batch commands, 0..2 entries.
func Harness_C27_FsmCMDMemberships() {
	kind := zzsym.Choice("kind", 3)
	n := zzsym.Choice("entries", 3)
	var ms []metadb.UserCMDChannelMembership
	for i := 0; i < n; i++ {
		s := c27FsmLen("entry.shape") // UID and CommandChannelID of one entry share a length
		ms = append(ms, c27FsmCMDMembership(s, s))
	}
	cmd, err := decodeCommand(c27FsmEncodeCMDMemberships(kind, ms))
	if n == 0 {
		zzsym.Reach("empty-cmd-membership-batch")
		zzsym.Assert(err != nil && cmd == nil, "empty CMD membership batch accepted")
		return
	}
	zzsym.Reach("cmd-membership-batch")
	zzsym.Assert(err == nil, "CMD membership batch rejected")
	var got []metadb.UserCMDChannelMembership
	switch kind {
	case 0:
		c, ok := cmd.(*upsertUserCMDChannelMembershipsCmd)
		zzsym.Assert(ok, "upsert CMD membership batch decodes to another type")
		got = c.memberships
	case 1:
		c, ok := cmd.(*advanceUserCMDChannelMembershipAcksCmd)
		zzsym.Assert(ok, "ack CMD membership batch decodes to another type")
		got = c.memberships
	default:
		c, ok := cmd.(*tombstoneUserCMDChannelMembershipsCmd)
		zzsym.Assert(ok, "tombstone CMD membership batch decodes to another type")
		got = c.memberships
	}
	zzsym.Assert(len(got) == n, "CMD membership batch length differs after round trip")
	for i := range got {
		a, b := got[i], ms[i]
		zzsym.Assert(a.UID == b.UID && a.CommandChannelID == b.CommandChannelID && a.ChannelType == b.ChannelType && a.StartSeq == b.StartSeq &&
			a.AckSeq == b.AckSeq && a.Tombstone == b.Tombstone && a.TombstoneAt == b.TombstoneAt && a.UpdatedAt == b.UpdatedAt, "CMD membership entry differs after round trip")
	}
	zzsym.Observe("cmdmemberships", uint64(len(got)), got[0].StartSeq, got[0].AckSeq)
}

// ---- Channel latest ----

func c27FsmLatest(idLen, fromLen, noLen, payloadLen int) metadb.ChannelLatest {
	l := metadb.ChannelLatest{ChannelID: zzsym.String("channelID", idLen), ChannelType: zzsym.I64("channelType"), LastMessageID: zzsym.U64("lastMessageID"),
		LastMessageSeq: zzsym.U64("lastMessageSeq"), LastAt: zzsym.I64("lastAt"), FromUID: zzsym.String("fromUID", fromLen), ClientMsgNo: zzsym.String("clientMsgNo", noLen),
		UpdatedAt: zzsym.I64("updatedAt")}
	if payloadLen > 0 {
		l.Payload = zzsym.Bytes("payload", payloadLen)
	}
	return l
}

func c27FsmSameLatest(a, b metadb.ChannelLatest) bool {
	return a.ChannelID == b.ChannelID && a.ChannelType == b.ChannelType && a.LastMessageID == b.LastMessageID && a.LastMessageSeq == b.LastMessageSeq &&
		a.LastAt == b.LastAt && a.FromUID == b.FromUID && a.ClientMsgNo == b.ClientMsgNo && c27FsmSameBytes(a.Payload, b.Payload) && a.UpdatedAt == b.UpdatedAt
}

// Harness_C27_FsmChannelLatest: single channel-latest upsert round trip.
func Harness_C27_FsmChannelLatest() {
	in := c27FsmLatest(c27FsmLen("channelID.len"), c27FsmLen("fromUID.len"), c27FsmLen("clientMsgNo.len"), c27FsmLen("payload.len"))
	enc := EncodeUpsertChannelLatestCommand(in)
	cmd, err := decodeCommand(enc)
	zzsym.Reach("latest")
	zzsym.Assert(err == nil, "channel latest command rejected")
	c, ok := cmd.(*upsertChannelLatestCmd)
	zzsym.Assert(ok, "channel latest command decodes to another type")
	zzsym.Assert(c27FsmSameLatest(c.latest, in), "channel latest differs after round trip")
	zzsym.Observe("latest", c.latest.LastMessageID, c.latest.LastMessageSeq, uint64(len(c.latest.Payload)))
}

// Harness_C27_FsmChannelLatestBatch: batch of 0..2 (hash slot, latest) items; each item uses one
// shared length for its four variable-length fields.
func Harness_C27_FsmChannelLatestBatch() {
	n := zzsym.Choice("items", 3)
	var items []ChannelLatestBatchItem
	for i := 0; i < n; i++ {
		s := c27FsmLen("item.shape")
		items = append(items, ChannelLatestBatchItem{HashSlot: zzsym.U16("hashSlot"), Latest: c27FsmLatest(s, s, s, s)})
	}
	cmd, err := decodeCommand(EncodeUpsertChannelLatestBatchCommand(items))
	if n == 0 {
		zzsym.Reach("empty-latest-batch")
		zzsym.Assert(err != nil && cmd == nil, "empty channel latest batch accepted")
		return
	}
	zzsym.Reach("latest-batch")
	zzsym.Assert(err == nil, "channel latest batch rejected")
	c, ok := cmd.(*upsertChannelLatestBatchCmd)
	zzsym.Assert(ok, "channel latest batch decodes to another type")
	zzsym.Assert(len(c.items) == n, "channel latest batch length differs after round trip")
	for i := range c.items {
		zzsym.Assert(c.items[i].HashSlot == items[i].HashSlot, "channel latest batch hash slot differs after round trip")
		zzsym.Assert(c27FsmSameLatest(c.items[i].Latest, items[i].Latest), "channel latest batch row differs after round trip")
	}
	zzsym.Observe("latestbatch", uint64(len(c.items)), uint64(c.items[0].HashSlot))
}

// Harness_C27_FsmChannelLatestTruncated: strict prefixes of a single latest command (all rejected) and
// of 1..2 item batches (accepted exactly after a complete item).
func Harness_C27_FsmChannelLatestTruncated() {
	s := c27FsmBigShape()
	if zzsym.Bool("batch") {
		n := 1 + zzsym.Choice("items", 2)
		var items []ChannelLatestBatchItem
		for i := 0; i < n; i++ {
			items = append(items, ChannelLatestBatchItem{HashSlot: zzsym.U16("hashSlot"), Latest: c27FsmLatest(s, s, s, s)})
		}
		enc := EncodeUpsertChannelLatestBatchCommand(items)
		c27FsmTruncations(enc, c27FsmBoundaryAfter(enc, 1))
		return
	}
	c27FsmAllPrefixesRejected(EncodeUpsertChannelLatestCommand(c27FsmLatest(s, s, s, s)))
}

// ---- arbitrary bytes ----

func c27FsmGarbage(types []uint8, quick, thorough int) {
	max := quick
	if zzsym.Thorough() {
		max = thorough
	}
	k := zzsym.Choice("type", len(types))
	if !zzsym.Thorough() && k > 0 {
		max = 12 // quick: only the first listed decoder gets inputs long enough for an 8-byte value field
	}
	n := zzsym.Choice("len", max+1)
	data := zzsym.Bytes("data", n)
	if n >= 2 {
		// the decoder under test; the version byte stays arbitrary
		zzsym.Assume(data[1] == types[k])
	}
	cmd, err := decodeCommand(data)
	if err != nil {
		zzsym.Reach("garbage-rejected")
		zzsym.Assert(cmd == nil, "rejected bytes return a command")
		return
	}
	zzsym.Reach("garbage-accepted")
	zzsym.Assert(cmd != nil && n >= 2 && data[0] == commandVersion, "accepted bytes without a valid header")
	// whatever decodes must be a TLV sequence that the generic walker accepts too
	hashSlots, herr := DecodeCommandHashSlots(data, 7)
	zzsym.Assert(herr == nil && len(hashSlots) >= 1, "accepted command has no hash slots")
}

// Harness_C27_FsmGarbage: arbitrary bytes into representative decoders of command.go: user (no required
// fields), channel-latest batch (required fields, two nesting levels), noop (pure TLV walk); thorough adds
// every other decoder registered from command.go except the subscriber pair.
func Harness_C27_FsmGarbage() {
	if zzsym.Thorough() {
		c27FsmGarbage([]uint8{cmdTypeUpsertUser, cmdTypeDeleteChannelRuntimeMeta, cmdTypeUpsertChannelLatestBatch, cmdTypeNoop,
			cmdTypeCreateUser, cmdTypeUpsertDevice, cmdTypeUpsertChannel, cmdTypeCreateChannel, cmdTypePatchChannelBusinessFlags, cmdTypeDeleteChannel,
			cmdTypeUpsertChannelRuntimeMeta, cmdTypeAdvanceChannelRetention, cmdTypeUpsertUserChannelMemberships, cmdTypeDeleteUserChannelMemberships,
			cmdTypeAdvanceUserChannelMembershipReadSeq, cmdTypeHideUserChannelMembership, cmdTypeActivateUserChannelMembership,
			cmdTypeUpsertUserCMDChannelMemberships, cmdTypeAdvanceUserCMDChannelMembershipAcks, cmdTypeTombstoneUserCMDChannelMemberships,
			cmdTypeUpsertChannelLatest}, 16, 20)
		return
	}
	c27FsmGarbage([]uint8{cmdTypeUpsertUser, cmdTypeUpsertChannelLatestBatch, cmdTypeNoop}, 16, 28)
}

// Harness_C27_FsmGarbageSubscribers: the add/remove subscribers decoders on (a) arbitrary short bytes
// (a complete subscriber command needs 25 bytes, so these are all rejected) and (b) a well-framed command
// whose uid-set value is arbitrary bytes (NULs, empty members, unsorted, duplicates): it decodes, the
// members are the NUL-separated pieces, nothing panics. The uid set is split on NUL with symbolic content,
// which is expensive: short inputs.
func Harness_C27_FsmGarbageSubscribers() {
	cmdType := cmdTypeAddSubscribers
	if zzsym.Bool("remove") {
		cmdType = cmdTypeRemoveSubscribers
	}
	if zzsym.Bool("framed") {
		max := 3
		if zzsym.Thorough() {
			max = 5
		}
		raw := zzsym.Bytes("uidset", zzsym.Choice("uidset.len", max+1))
		data := []byte{commandVersion, cmdType}
		data = appendStringTLVField(data, tagSubscriberChannelID, "c")
		data = appendInt64TLVField(data, tagSubscriberChannelType, zzsym.I64("channelType"))
		data = appendBytesTLVField(data, tagSubscriberUIDs, raw)
		cmd, err := decodeCommand(data)
		zzsym.Reach("subscribers-arbitrary-uidset")
		zzsym.Assert(err == nil && cmd != nil, "well-framed subscriber command with arbitrary uid bytes rejected")
		var uids []string
		if c, ok := cmd.(*addSubscribersCmd); ok {
			uids = c.uids
		} else {
			uids = cmd.(*removeSubscribersCmd).uids
		}
		nul := 0
		for _, b := range raw {
			if b == 0 {
				nul++
			}
		}
		total := 0
		for _, u := range uids {
			total += len(u)
		}
		if len(raw) == 0 {
			zzsym.Assert(len(uids) == 0, "empty uid set decodes to members")
		} else {
			zzsym.Assert(len(uids) == nul+1 && total+nul == len(raw), "uid set members are not the NUL-separated pieces")
		}
		return
	}
	max := 11
	if zzsym.Thorough() {
		max = 16
	}
	n := zzsym.Choice("len", max+1)
	data := zzsym.Bytes("data", n)
	if n >= 2 {
		zzsym.Assume(data[1] == cmdType)
	}
	cmd, err := decodeCommand(data)
	zzsym.Reach("subscribers-short-garbage")
	zzsym.Assert(err != nil && cmd == nil, "subscriber command shorter than its required fields accepted")
}

// Harness_C27_FsmReadTLV: the TLV primitive on arbitrary bytes at full width of the 32-bit length.
func Harness_C27_FsmReadTLV() {
	max := 16
	if zzsym.Thorough() {
		max = 28
	}
	n := zzsym.Choice("len", max+1)
	data := zzsym.Bytes("data", n)
	tag, value, used, err := readTLV(data)
	if err != nil {
		zzsym.Reach("tlv-rejected")
		zzsym.Assert(value == nil && used == 0 && tag == 0, "rejected TLV returns values")
		zzsym.Assert(n < tlvOverhead || uint64(data[1])<<24|uint64(data[2])<<16|uint64(data[3])<<8|uint64(data[4]) > uint64(n-tlvOverhead), "well-formed TLV rejected")
		return
	}
	zzsym.Reach("tlv-accepted")
	zzsym.Assert(n >= tlvOverhead && tag == data[0], "accepted TLV tag")
	zzsym.Assert(used == tlvOverhead+len(value) && used <= n, "accepted TLV consumes more than the input")
	zzsym.Assert(uint64(len(value)) == uint64(data[1])<<24|uint64(data[2])<<16|uint64(data[3])<<8|uint64(data[4]), "accepted TLV value length differs from the declared length")
	zzsym.Observe("tlv", uint64(tag), uint64(used))
}

// Harness_C27_FsmSimple: the user, device, channel and retention/delete round trips as one entry.
func Harness_C27_FsmSimple() {
	switch zzsym.Choice("which", 4) {
	case 0:
		Harness_C27_FsmUser()
	case 1:
		Harness_C27_FsmDevice()
	case 2:
		Harness_C27_FsmChannel()
	default:
		Harness_C27_FsmRetentionAndDelete()
	}
}
