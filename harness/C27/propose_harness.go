package propose

import (
	"errors"

	"github.com/WuKongIM/WuKongIM/internal/zzsym"
)

func c27ProposeLen(name string, quick, thorough int) int {
	max := quick
	if zzsym.Thorough() {
		max = thorough
	}
	return zzsym.Choice(name, max+1)
}

func c27ProposeSame(a, b []byte) bool {
	if len(a) != len(b) {
		return false
	}
	same := true
	for i := range a {
		if a[i] != b[i] {
			same = false
		}
	}
	return same
}

// Harness_C27_ProposePayloadRoundTrip: DecodePayload(EncodePayload(h, c)) == (h, c); the envelope has no
// length field of its own (the command is "the rest"), so a prefix of >= 3 bytes is a valid shorter
// envelope with the same hash slot; prefixes shorter than the 3-byte head are rejected.
func Harness_C27_ProposePayloadRoundTrip() {
	hashSlot := zzsym.U16("hashSlot")
	n := c27ProposeLen("cmdlen", 2, 6)
	cmd := zzsym.Bytes("cmd", n)
	enc := EncodePayload(hashSlot, cmd)
	zzsym.Assert(len(enc) == 3+n, "EncodePayload length")
	gotSlot, gotCmd, err := DecodePayload(enc)
	zzsym.Reach("payload-roundtrip")
	zzsym.Assert(err == nil, "DecodePayload rejects EncodePayload output")
	zzsym.Assert(gotSlot == hashSlot, "hash slot differs after round trip")
	zzsym.Assert(c27ProposeSame(gotCmd, cmd), "command differs after round trip")
	cut := zzsym.Choice("cut", len(enc))
	pSlot, pCmd, perr := DecodePayload(enc[:cut])
	if cut < 3 {
		zzsym.Reach("payload-truncated-head")
		zzsym.Assert(perr != nil && errors.Is(perr, ErrInvalidPayload), "truncated payload head accepted")
		zzsym.Assert(pSlot == 0 && pCmd == nil, "rejected payload returns values")
	} else {
		zzsym.Reach("payload-truncated-body")
		zzsym.Assert(perr == nil && pSlot == hashSlot && c27ProposeSame(pCmd, cmd[:cut-3]), "prefix envelope decodes to something else")
	}
	zzsym.Observe("payload", uint64(gotSlot), uint64(len(gotCmd)), uint64(enc[0]))
}

// Harness_C27_ProposePayloadGarbage: arbitrary bytes: accepted iff len >= 3 and version byte == 1.
func Harness_C27_ProposePayloadGarbage() {
	n := c27ProposeLen("len", 16, 28)
	data := zzsym.Bytes("data", n)
	slot, cmd, err := DecodePayload(data)
	ok := n >= 3 && data[0] == payloadVersion
	if err != nil {
		zzsym.Reach("payload-garbage-rejected")
		zzsym.Assert(!ok, "well-formed payload rejected")
		zzsym.Assert(errors.Is(err, ErrInvalidPayload), "payload rejection is not ErrInvalidPayload")
		zzsym.Assert(slot == 0 && cmd == nil, "rejected payload returns values")
		return
	}
	zzsym.Reach("payload-garbage-accepted")
	zzsym.Assert(ok, "malformed payload accepted")
	zzsym.Assert(slot == uint16(data[1])<<8|uint16(data[2]), "hash slot is not big endian bytes 1..2")
	zzsym.Assert(c27ProposeSame(cmd, data[3:]), "command is not the rest of the envelope")
	// re-encoding reproduces the input
	zzsym.Assert(c27ProposeSame(EncodePayload(slot, cmd), data), "EncodePayload(DecodePayload(b)) != b")
	zzsym.Observe("payloadg", uint64(slot), uint64(len(cmd)))
}

// Harness_C27_ProposeForwardRoundTrip: current-version forward request round trip, encoder precondition,
// all truncations rejected.
func Harness_C27_ProposeForwardRoundTrip() {
	n := c27ProposeLen("payloadlen", 2, 6)
	req := ForwardRequest{
		SlotID:     zzsym.U32("slotID"),
		HashSlot:   zzsym.U16("hashSlot"),
		Class:      ProposalClass(zzsym.U8("class")),
		WantResult: zzsym.Bool("wantResult"),
		Payload:    zzsym.Bytes("payload", n),
	}
	enc, err := EncodeForwardRequest(req)
	if req.SlotID == 0 || n == 0 {
		zzsym.Reach("forward-invalid-request")
		zzsym.Assert(err != nil && errors.Is(err, ErrInvalidRequest) && enc == nil, "invalid forward request encoded")
		return
	}
	zzsym.Reach("forward-roundtrip")
	zzsym.Assert(err == nil, "valid forward request not encoded")
	zzsym.Assert(len(enc) == 13+n, "forward request encoding length")
	got, derr := DecodeForwardRequest(enc)
	zzsym.Assert(derr == nil, "DecodeForwardRequest rejects EncodeForwardRequest output")
	zzsym.Assert(got.SlotID == req.SlotID, "SlotID differs after round trip")
	zzsym.Assert(got.HashSlot == req.HashSlot, "HashSlot differs after round trip")
	zzsym.Assert(got.Class == normalizeProposalClass(req.Class), "Class differs after round trip")
	zzsym.Assert(got.WantResult == req.WantResult, "WantResult differs after round trip")
	zzsym.Assert(c27ProposeSame(got.Payload, req.Payload), "Payload differs after round trip")
	cut := zzsym.Choice("cut", len(enc))
	tr, terr := DecodeForwardRequest(enc[:cut])
	zzsym.Reach("forward-truncated")
	zzsym.Assert(terr != nil && errors.Is(terr, ErrInvalidPayload), "truncated forward request accepted")
	zzsym.Assert(tr.SlotID == 0 && tr.HashSlot == 0 && tr.Class == 0 && !tr.WantResult && tr.Payload == nil, "rejected forward request returns values")
	zzsym.Observe("forward", uint64(got.SlotID), uint64(got.HashSlot), uint64(got.Class), zzsym.B2U(got.WantResult), uint64(len(got.Payload)))
}

// c27ProposeBE32/16 read big endian integers (oracle side, independent of encoding/binary).
func c27ProposeBE32(b []byte) uint32 {
	return uint32(b[0])<<24 | uint32(b[1])<<16 | uint32(b[2])<<8 | uint32(b[3])
}

func c27ProposeBE16(b []byte) uint16 { return uint16(b[0])<<8 | uint16(b[1]) }

// Harness_C27_ProposeForwardGarbage: arbitrary bytes against all three wire versions: accepted iff the
// version is 1, 2 or 3, the fixed head of that version is present and the declared payload length equals
// the remaining bytes exactly; accepted values are the fields at the version's offsets; the payload
// buffer is a copy of exactly the remaining bytes (no allocation from the declared length).
func Harness_C27_ProposeForwardGarbage() {
	n := c27ProposeLen("len", 16, 28)
	data := zzsym.Bytes("data", n)
	got, err := DecodeForwardRequest(data)
	head := 0
	if n >= 1 {
		switch data[0] {
		case 1:
			head = 11
		case 2:
			head = 12
		case 3:
			head = 13
		}
	}
	ok := head != 0 && n >= head && uint64(c27ProposeBE32(data[head-4:head])) == uint64(n-head)
	if err != nil {
		zzsym.Reach("forward-garbage-rejected")
		zzsym.Assert(!ok, "well-formed forward request rejected")
		zzsym.Assert(errors.Is(err, ErrInvalidPayload), "forward rejection is not ErrInvalidPayload")
		zzsym.Assert(got.SlotID == 0 && got.HashSlot == 0 && got.Class == 0 && !got.WantResult && got.Payload == nil, "rejected forward request returns values")
		return
	}
	zzsym.Assert(ok, "malformed forward request accepted")
	zzsym.Assert(c27ProposeSame(got.Payload, data[head:]), "forward payload is not the declared remainder")
	switch data[0] {
	case 1:
		zzsym.Reach("forward-garbage-v1")
		zzsym.Assert(got.SlotID == c27ProposeBE32(data[1:5]) && got.HashSlot == c27ProposeBE16(data[5:7]), "v1 fields")
		zzsym.Assert(got.Class == ProposalClassForeground && !got.WantResult, "v1 defaults")
	case 2:
		zzsym.Reach("forward-garbage-v2")
		zzsym.Assert(got.SlotID == c27ProposeBE32(data[2:6]) && got.HashSlot == c27ProposeBE16(data[6:8]), "v2 fields")
		zzsym.Assert(got.Class == normalizeProposalClass(ProposalClass(data[1])) && !got.WantResult, "v2 class/defaults")
	case 3:
		zzsym.Reach("forward-garbage-v3")
		zzsym.Assert(got.SlotID == c27ProposeBE32(data[3:7]) && got.HashSlot == c27ProposeBE16(data[7:9]), "v3 fields")
		zzsym.Assert(got.Class == normalizeProposalClass(ProposalClass(data[1])) && got.WantResult == (data[2]&1 != 0), "v3 class/flags")
		// a decoded v3 request that the encoder accepts re-encodes to the canonical form of the input
		if got.SlotID != 0 && len(got.Payload) > 0 {
			re, rerr := EncodeForwardRequest(got)
			zzsym.Assert(rerr == nil && len(re) == n, "re-encode of decoded v3 request failed")
			zzsym.Assert(c27ProposeSame(re[3:], data[3:]), "re-encode of decoded v3 request differs after the class/flag bytes")
		}
	}
	zzsym.Observe("forwardg", uint64(got.SlotID), uint64(got.HashSlot), uint64(got.Class), uint64(len(got.Payload)))
}
