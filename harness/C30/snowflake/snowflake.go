// Package snowflake provides a very simple Twitter snowflake generator and parser.
package snowflake

import (
	"encoding/base64"
	"encoding/binary"
	"errors"
	"fmt"
	"strconv"
	"sync"
	"time"
)

var (
	// Epoch is set to the twitter snowflake epoch of Nov 04 2010 01:42:54 UTC in milliseconds
	// You may customize this to set a different epoch for your application.
	Epoch int64 = 1288834974657

	// NodeBits holds the number of bits to use for Node
	// Remember, you have a total 22 bits to share between Node/Step
	NodeBits uint8 = 10

	// StepBits holds the number of bits to use for Step
	// Remember, you have a total 22 bits to share between Node/Step
	StepBits uint8 = 12

	// DEPRECATED: the below four variables will be removed in a future release.
	mu        sync.Mutex
	nodeMax   int64 = -1 ^ (-1 << NodeBits)
	nodeMask        = nodeMax << StepBits
	stepMask  int64 = -1 ^ (-1 << StepBits)
	timeShift       = NodeBits + StepBits
	nodeShift       = StepBits
)

const encodeBase32Map = "ybndrfg8ejkmcpqxot1uwisza345h769"

var decodeBase32Map [256]byte

const encodeBase58Map = "123456789abcdefghijkmnopqrstuvwxyzABCDEFGHJKLMNPQRSTUVWXYZ"

var decodeBase58Map [256]byte

// A JSONSyntaxError is returned from UnmarshalJSON if an invalid ID is provided.
type JSONSyntaxError struct{ original []byte }

func (j JSONSyntaxError) Error() string {
	return fmt.Sprintf("invalid snowflake ID %q", string(j.original))
}

// ErrInvalidBase58 is returned by ParseBase58 when given an invalid []byte
var ErrInvalidBase58 = errors.New("invalid base58")

// ErrInvalidBase32 is returned by ParseBase32 when given an invalid []byte
var ErrInvalidBase32 = errors.New("invalid base32")

// Create maps for decoding Base58/Base32.
// This speeds up the process tremendously.
func init() {

	for i := 0; i < len(encodeBase58Map); i++ {
		decodeBase58Map[i] = 0xFF
	}

	for i := 0; i < len(encodeBase58Map); i++ {
		decodeBase58Map[encodeBase58Map[i]] = byte(i)
	}

	for i := 0; i < len(encodeBase32Map); i++ {
		decodeBase32Map[i] = 0xFF
	}

	for i := 0; i < len(encodeBase32Map); i++ {
		decodeBase32Map[encodeBase32Map[i]] = byte(i)
	}
}

// A Node struct holds the basic information needed for a snowflake generator
// node
type Node struct {
	mu    sync.Mutex
	epoch time.Time
	time  int64
	node  int64
	step  int64

	nodeMax   int64
	nodeMask  int64
	stepMask  int64
	timeShift uint8
	nodeShift uint8
}

// An ID is a custom type used for a snowflake ID.  This is used so we can
// attach methods onto the ID.
type ID int64

// NewNode returns a new snowflake node that can be used to generate snowflake
// IDs
func NewNode(node int64) (*Node, error) {

	// re-calc in case custom NodeBits or StepBits were set
	// DEPRECATED: the below block will be removed in a future release.
	mu.Lock()
	nodeMax = -1 ^ (-1 << NodeBits)
	nodeMask = nodeMax << StepBits
	stepMask = -1 ^ (-1 << StepBits)
	timeShift = NodeBits + StepBits
	nodeShift = StepBits
	mu.Unlock()

	n := Node{}
	n.node = node
	n.nodeMax = -1 ^ (-1 << NodeBits)
	n.nodeMask = n.nodeMax << StepBits
	n.stepMask = -1 ^ (-1 << StepBits)
	n.timeShift = NodeBits + StepBits
	n.nodeShift = StepBits

	if n.node < 0 || n.node > n.nodeMax {
		return nil, errors.New("Node number must be between 0 and " + strconv.FormatInt(n.nodeMax, 10))
	}

	var curTime = time.Now()
	// add time.Duration to curTime to make sure we use the monotonic clock if available
	n.epoch = curTime.Add(time.Unix(Epoch/1000, (Epoch%1000)*1000000).Sub(curTime))

	return &n, nil
}

// Generate creates and returns a unique snowflake ID
// To help guarantee uniqueness
// - Make sure your system is keeping accurate system time
// - Make sure you never have multiple nodes running with the same node ID
func (n *Node) Generate() ID {
	if ZZGenerateHook != nil {
		return ZZGenerateHook()
	}

	n.mu.Lock()

	now := time.Since(n.epoch).Nanoseconds() / 1000000

	if now == n.time {
		n.step = (n.step + 1) & n.stepMask

		if n.step == 0 {
			for now <= n.time {
				now = time.Since(n.epoch).Nanoseconds() / 1000000
			}
		}
	} else {
		n.step = 0
	}

	n.time = now

	r := ID((now)<<n.timeShift |
		(n.node << n.nodeShift) |
		(n.step),
	)

	n.mu.Unlock()
	return r
}

// Int64 returns an int64 of the snowflake ID
func (f ID) Int64() int64 {
	return int64(f)
}

// ParseInt64 converts an int64 into a snowflake ID
func ParseInt64(id int64) ID {
	return ID(id)
}

// String returns a string of the snowflake ID
func (f ID) String() string {
	return strconv.FormatInt(int64(f), 10)
}

// ParseString converts a string into a snowflake ID
func ParseString(id string) (ID, error) {
	i, err := strconv.ParseInt(id, 10, 64)
	return ID(i), err

}

// Base2 returns a string base2 of the snowflake ID
func (f ID) Base2() string {
	return strconv.FormatInt(int64(f), 2)
}

// ParseBase2 converts a Base2 string into a snowflake ID
func ParseBase2(id string) (ID, error) {
	i, err := strconv.ParseInt(id, 2, 64)
	return ID(i), err
}

// Base32 uses the z-base-32 character set but encodes and decodes similar
// to base58, allowing it to create an even smaller result string.
// NOTE: There are many different base32 implementations so becareful when
// doing any interoperation.
func (f ID) Base32() string {

	if f < 32 {
		return string(encodeBase32Map[f])
	}

	b := make([]byte, 0, 12)
	for f >= 32 {
		b = append(b, encodeBase32Map[f%32])
		f /= 32
	}
	b = append(b, encodeBase32Map[f])

	for x, y := 0, len(b)-1; x < y; x, y = x+1, y-1 {
		b[x], b[y] = b[y], b[x]
	}

	return string(b)
}

// ParseBase32 parses a base32 []byte into a snowflake ID
// NOTE: There are many different base32 implementations so becareful when
// doing any interoperation.
func ParseBase32(b []byte) (ID, error) {

	var id int64

	for i := range b {
		if decodeBase32Map[b[i]] == 0xFF {
			return -1, ErrInvalidBase32
		}
		id = id*32 + int64(decodeBase32Map[b[i]])
	}

	return ID(id), nil
}

// Base36 returns a base36 string of the snowflake ID
func (f ID) Base36() string {
	return strconv.FormatInt(int64(f), 36)
}

// ParseBase36 converts a Base36 string into a snowflake ID
func ParseBase36(id string) (ID, error) {
	i, err := strconv.ParseInt(id, 36, 64)
	return ID(i), err
}

// Base58 returns a base58 string of the snowflake ID
func (f ID) Base58() string {

	if f < 58 {
		return string(encodeBase58Map[f])
	}

	b := make([]byte, 0, 11)
	for f >= 58 {
		b = append(b, encodeBase58Map[f%58])
		f /= 58
	}
	b = append(b, encodeBase58Map[f])

	for x, y := 0, len(b)-1; x < y; x, y = x+1, y-1 {
		b[x], b[y] = b[y], b[x]
	}

	return string(b)
}

// ParseBase58 parses a base58 []byte into a snowflake ID
func ParseBase58(b []byte) (ID, error) {

	var id int64

	for i := range b {
		if decodeBase58Map[b[i]] == 0xFF {
			return -1, ErrInvalidBase58
		}
		id = id*58 + int64(decodeBase58Map[b[i]])
	}

	return ID(id), nil
}

// Base64 returns a base64 string of the snowflake ID
func (f ID) Base64() string {
	return base64.StdEncoding.EncodeToString(f.Bytes())
}

// ParseBase64 converts a base64 string into a snowflake ID
func ParseBase64(id string) (ID, error) {
	b, err := base64.StdEncoding.DecodeString(id)
	if err != nil {
		return -1, err
	}
	return ParseBytes(b)

}

// Bytes returns a byte slice of the snowflake ID
func (f ID) Bytes() []byte {
	return []byte(f.String())
}

// ParseBytes converts a byte slice into a snowflake ID
func ParseBytes(id []byte) (ID, error) {
	i, err := strconv.ParseInt(string(id), 10, 64)
	return ID(i), err
}

// IntBytes returns an array of bytes of the snowflake ID, encoded as a
// big endian integer.
func (f ID) IntBytes() [8]byte {
	var b [8]byte
	binary.BigEndian.PutUint64(b[:], uint64(f))
	return b
}

// ParseIntBytes converts an array of bytes encoded as big endian integer as
// a snowflake ID
func ParseIntBytes(id [8]byte) ID {
	return ID(int64(binary.BigEndian.Uint64(id[:])))
}

// Time returns an int64 unix timestamp in milliseconds of the snowflake ID time
// DEPRECATED: the below function will be removed in a future release.
func (f ID) Time() int64 {
	return (int64(f) >> timeShift) + Epoch
}

// Node returns an int64 of the snowflake ID node number
// DEPRECATED: the below function will be removed in a future release.
func (f ID) Node() int64 {
	return int64(f) & nodeMask >> nodeShift
}

// Step returns an int64 of the snowflake step (or sequence) number
// DEPRECATED: the below function will be removed in a future release.
func (f ID) Step() int64 {
	return int64(f) & stepMask
}

// MarshalJSON returns a json byte array string of the snowflake ID.
func (f ID) MarshalJSON() ([]byte, error) {
	buff := make([]byte, 0, 22)
	buff = append(buff, '"')
	buff = strconv.AppendInt(buff, int64(f), 10)
	buff = append(buff, '"')
	return buff, nil
}

// UnmarshalJSON converts a json byte array of a snowflake ID into an ID type.
func (f *ID) UnmarshalJSON(b []byte) error {
	if len(b) < 3 || b[0] != '"' || b[len(b)-1] != '"' {
		return JSONSyntaxError{b}
	}

	i, err := strconv.ParseInt(string(b[1:len(b)-1]), 10, 64)
	if err != nil {
		return err
	}

	*f = ID(i)
	return nil
}

// ZZGenerateHook (verification overlay only): when set, Generate returns its result, so that the
// clock-derived id becomes a nondeterministic value of the harness. The rest of this file is the
// unmodified github.com/bwmarrin/snowflake v0.3.0 source.
var ZZGenerateHook func() ID
