module github.com/bwmarrin/snowflake

go 1.12
