package app

import (
	"github.com/WuKongIM/WuKongIM/internal/zzsym"
	"github.com/bwmarrin/snowflake"
)

// c30Install makes snowflake.Node.Generate return arbitrary positive ids (the environment:
// a clock-derived value this code does not control). At most `max` draws per harness.
func c30Install(max int) (*nodeMessageIDs, *uint64) {
	calls := 0
	last := new(uint64)
	snowflake.ZZGenerateHook = func() snowflake.ID {
		calls++
		zzsym.Assume(calls <= max)
		v := zzsym.I64("raw")
		zzsym.Assume(v > 0)
		*last = uint64(v)
		return snowflake.ID(v)
	}
	return &nodeMessageIDs{node: &snowflake.Node{}}, last
}

// Harness_C30_Sequential: ids returned by consecutive calls strictly increase, and no id at or
// below a floor accepted by SetFloor is issued afterwards (single thread, arbitrary clock values).
func Harness_C30_Sequential() {
	g, _ := c30Install(6)
	start := zzsym.U64("start")
	g.floor.Store(start)
	id1 := g.Next()
	zzsym.Assert(id1 > start, "Next returned an id not above the current floor")
	f := zzsym.U64("floor")
	err := g.SetFloor(f)
	after := g.floor.Load()
	zzsym.Assert(after >= id1, "SetFloor lowered the allocator floor")
	if err != nil {
		zzsym.Reach("setfloor-refused")
		zzsym.Assert(after == id1, "a refused SetFloor changed the floor")
		return
	}
	zzsym.Reach("setfloor-accepted")
	zzsym.Assert(after >= f, "SetFloor returned nil but the floor is below the restored maximum")
	id2 := g.Next()
	zzsym.Assert(id2 > id1, "ids are not strictly increasing")
	zzsym.Assert(id2 > f, "an id at or below the restored maximum was issued")
	zzsym.Assert(g.floor.Load() == id2, "returned id is not the installed floor")
	zzsym.Observe("ids", id1, id2)
}

// Harness_C30_NextConcurrent: thread-modular. Other threads may raise the floor at any moment
// (rely); the executor checks at every write/CAS of the floor that this thread strictly increases
// it (guarantee), and the harness checks that the returned id is the value this thread installed
// and is above every floor value it observed.
func Harness_C30_NextConcurrent() {
	g, last := c30Install(3)
	start := zzsym.U64("start")
	g.floor.Store(start)
	zzsym.InterfereMonotonicU64(&g.floor)
	id := g.Next()
	zzsym.Reach("next-returned")
	zzsym.Assert(id == *last, "returned id is not the generated value that was installed")
	zzsym.Assert(id > start, "returned id not above the floor seen at entry")
}

// Harness_C30_SetFloorConcurrent: thread-modular SetFloor followed by Next.
func Harness_C30_SetFloorConcurrent() {
	g, _ := c30Install(4)
	start := zzsym.U64("start")
	g.floor.Store(start)
	zzsym.InterfereMonotonicU64(&g.floor)
	f := zzsym.U64("floor")
	if err := g.SetFloor(f); err != nil {
		zzsym.Reach("refused")
		return
	}
	zzsym.Reach("accepted")
	zzsym.Assert(g.floor.Load() >= f, "SetFloor returned nil but the floor is below the restored maximum")
	id := g.Next()
	zzsym.Assert(id > f, "an id at or below the restored maximum was issued")
}
