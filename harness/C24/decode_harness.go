package jsonrpc

import (
	"bytes"
	"encoding/json"

	"github.com/WuKongIM/WuKongIM/internal/zzsym"
)

// Second clause of C24 (slice): decoding JSON input never panics and yields either a well-formed
// message or an error. The JSON text cannot be symbolic (encoding/json is executed by the real
// library on concrete text, engine/intr_C38.go), so the inputs are an enumerated catalogue of
// documents: every request / notification method with and without params, every response shape
// (result, error, null members, both, neither), every id shape, version variants, junk.

var c24Docs = []string{
	// responses
	`{"jsonrpc":"2.0","id":"r1","result":{}}`,
	`{"jsonrpc":"2.0","id":"r1","result":null}`,
	`{"jsonrpc":"2.0","id":"r1","error":{"code":1,"message":"m"}}`,
	`{"jsonrpc":"2.0","id":"r1","error":null}`,
	`{"jsonrpc":"2.0","id":"r1","error":{}}`,
	`{"jsonrpc":"2.0","id":"r1","error":"x"}`,
	`{"jsonrpc":"2.0","id":"r1","error":[1]}`,
	`{"jsonrpc":"2.0","id":"r1","result":1,"error":{"code":1,"message":"m"}}`,
	`{"jsonrpc":"2.0","id":"r1","result":null,"error":null}`,
	`{"jsonrpc":"2.0","id":"r1"}`,
	`{"jsonrpc":"2.0","id":null,"result":1}`,
	`{"jsonrpc":"2.0","id":7,"result":1}`,
	`{"jsonrpc":"2.0","id":"","result":1}`,
	`{"id":"r1","result":"ok"}`,
	`{"jsonrpc":"1.0","id":"r1","result":1}`,
	`{"jsonrpc":2,"id":"r1","result":1}`,
	// requests
	`{"jsonrpc":"2.0","id":"q1","method":"connect","params":{"uid":"u","token":"t"}}`,
	`{"jsonrpc":"2.0","id":"q1","method":"connect"}`,
	`{"jsonrpc":"2.0","id":"q1","method":"connect","params":null}`,
	`{"jsonrpc":"2.0","id":"q1","method":"connect","params":7}`,
	`{"jsonrpc":"2.0","id":"q1","method":"send","params":{"channelId":"c","channelType":2,"payload":"aGk="}}`,
	`{"jsonrpc":"2.0","id":"q1","method":"send","params":{"channelType":"x"}}`,
	`{"jsonrpc":"2.0","id":"q1","method":"subscribe","params":{}}`,
	`{"jsonrpc":"2.0","id":"q1","method":"unsubscribe","params":{}}`,
	`{"jsonrpc":"2.0","id":"q1","method":"ping"}`,
	`{"jsonrpc":"2.0","id":"q1","method":"ping","params":{}}`,
	`{"jsonrpc":"2.0","id":"q1","method":"ping","params":[1]}`,
	`{"jsonrpc":"2.0","id":"q1","method":"disconnect","params":{"reasonCode":1}}`,
	`{"jsonrpc":"2.0","id":"q1","method":"nosuch","params":{}}`,
	`{"jsonrpc":"2.0","id":"q1","method":"recv","params":{}}`,
	`{"jsonrpc":"2.0","id":null,"method":"connect","params":{}}`,
	`{"jsonrpc":"2.0","id":5,"method":"ping"}`,
	`{"jsonrpc":"2.0","id":"q1","method":"ping","result":1}`,
	// notifications
	`{"jsonrpc":"2.0","method":"recv","params":{"messageId":"1","messageSeq":2,"payload":"aGk="}}`,
	`{"jsonrpc":"2.0","method":"recv"}`,
	`{"jsonrpc":"2.0","method":"recvack","params":{"messageId":"1","messageSeq":2}}`,
	`{"jsonrpc":"2.0","method":"disconnect","params":{"reasonCode":2,"reason":"r"}}`,
	`{"jsonrpc":"2.0","method":"event","params":{"id":"e","type":"t"}}`,
	`{"jsonrpc":"2.0","method":"event","params":"x"}`,
	`{"jsonrpc":"2.0","method":"connect","params":{}}`,
	`{"jsonrpc":"2.0","method":"nosuch"}`,
	// junk
	``, ` `, `null`, `7`, `"s"`, `[]`, `[{"jsonrpc":"2.0","id":"r1","result":1}]`, `{}`, `{"jsonrpc":"2.0"}`,
	`{"method":7}`, `{"id":"r1","result":1`, `{"id":"r1","result":1}}`, `{"id":"r1","result":1} {"x":1}`,
	`{"ID":"r1","RESULT":1}`, `{"id":"r1","result":1,"id":"r2"}`, "\xff\xfe", `{"params":{"a":{"b":{"c":[[[[1]]]]}}},"method":"send","id":"q"}`,
}

func c24KnownNotification(m string) bool {
	return m == MethodRecv || m == MethodRecvAck || m == MethodDisconnect || m == MethodEvent
}

// Harness_C24_DecodeLiterals: Decode on every catalogue document: no panic; a message xor an error;
// a returned message is well formed for its kind; and it survives Encode + Decode unchanged on the wire.
func Harness_C24_DecodeLiterals() {
	doc := c24Docs[zzsym.Choice("doc", len(c24Docs))]
	msg, _, err := Decode(json.NewDecoder(bytes.NewReader([]byte(doc))))
	zzsym.Reach("decoded")
	zzsym.Assert((msg == nil) == (err != nil), "Decode returned neither a message nor an error (or both)")
	if err != nil {
		zzsym.Reach("decode-error")
		return
	}
	zzsym.Reach("decode-message")
	wellFormed := false
	idText := "-" // requests and responses: the decoded id; notifications have none
	switch m := msg.(type) {
	case GenericResponse:
		zzsym.Reach("decode-response")
		hasResult, hasError := len(m.Result) > 0, m.Error != nil
		wellFormed = m.Jsonrpc == "2.0" && hasResult != hasError
		idText = m.ID
	case ConnectRequest:
		wellFormed = m.Method == MethodConnect && m.Jsonrpc == "2.0"
		idText = m.ID
	case SendRequest:
		wellFormed = m.Method == MethodSend && m.Jsonrpc == "2.0"
		idText = m.ID
	case SubscribeRequest:
		wellFormed = m.Method == MethodSubscribe
		idText = m.ID
	case UnsubscribeRequest:
		wellFormed = m.Method == MethodUnsubscribe
		idText = m.ID
	case PingRequest:
		wellFormed = m.Method == MethodPing
		idText = m.ID
	case DisconnectRequest:
		wellFormed = m.Method == MethodDisconnect
		idText = m.ID
	case RecvNotification:
		wellFormed = m.Method == MethodRecv
	case RecvAckNotification:
		wellFormed = m.Method == MethodRecvAck
	case DisconnectNotification:
		wellFormed = m.Method == MethodDisconnect
	case EventNotification:
		wellFormed = m.Method == MethodEvent
	}
	zzsym.Assert(wellFormed, "Decode returned a message that is not well formed for its kind (response without exactly one of result / error, wrong method or version)")
	// wire round trip: what Decode accepted re-encodes to a document Decode accepts as the same message.
	// Observation, not asserted: an id that is the EMPTY STRING ("id":"") is accepted by Decode but dropped
	// by Encode (omitempty), so such a message does not survive re-encoding; the property does not say
	// whether an empty-string id is well formed, so the round trip is asserted for non-empty ids only.
	if idText == "" {
		zzsym.Reach("decode-empty-id")
		return
	}
	enc, eerr := Encode(msg)
	zzsym.Assert(eerr == nil && len(enc) > 0, "a decoded message cannot be encoded")
	again, _, derr := Decode(json.NewDecoder(bytes.NewReader(enc)))
	zzsym.Assert(derr == nil && again != nil, "the encoding of a decoded message is not decodable")
	if derr == nil && again != nil {
		enc2, _ := Encode(again)
		zzsym.Assert(string(enc2) == string(enc), "Encode(Decode(Encode(m))) differs from Encode(m)")
	}
}
