package jsonrpc

// C24 — JSON-RPC protocol is a faithful frame bridge (slice: the conversion layer).
//
// encoding/json (reflection) cannot be executed, so Encode/Decode/DecodeID/EncodeErrorResponse are
// outside. Everything between a decoded JSON-RPC message struct and a frame.Frame is executed for
// real: ToFrame, FromFrame, the *Params.ToProto / *Request.ToProto methods, FromProto*,
// SettingFlags.ToProto, Header.ToProto, fromProtoHeader, fromProtoSetting, IsJSONObjectPrefix.
//
// Deliberate narrowings in the code (message field is a Go int, frame field a uint8): Version,
// DeviceFlag, ChannelType, ReasonCode. The harness ASSUMES the value fits (0..255) and then demands
// equality. ConnectParams.Version == 0 means "latest" (documented default in ToProto).
// Message ids are decimal strings on the JSON side and int64 on the frame side; StreamId likewise
// (uint64).

import (
	"github.com/WuKongIM/WuKongIM/internal/zzsym"
	"github.com/WuKongIM/WuKongIM/pkg/protocol/frame"
)

// ---------------------------------------------------------------- inputs

// c24Lens chooses the lengths (0..2 quick) of n (<= 8) variable-length fields. The conversion code
// never branches on a length, so the quick tier uses a strength-2 orthogonal array (27 rows, every
// pair of fields takes all 9 length combinations); thorough uses the full product of 0..2 for up to
// 5 fields and a 125-row strength-2 array over 0..4 otherwise.
func c24Lens(n int) []int {
	out := make([]int, n)
	q := 3
	if zzsym.Thorough() {
		if n <= 5 {
			for i := range out {
				out[i] = zzsym.Choice("lens.len", 3)
			}
			return out
		}
		q = 5
	}
	a, b, c := zzsym.Choice("lens.a", q), zzsym.Choice("lens.b", q), zzsym.Choice("lens.c", q)
	coef := [8][3]int{{1, 0, 0}, {0, 1, 0}, {0, 0, 1}, {1, 1, 0}, {1, 0, 1}, {0, 1, 1}, {1, 1, 1}, {1, 2, 0}}
	for i := range out {
		out[i] = (coef[i][0]*a + coef[i][1]*b + coef[i][2]*c) % q
	}
	return out
}

func c24Header() Header {
	return Header{
		NoPersist: zzsym.Bool("hdr.noPersist"),
		RedDot:    zzsym.Bool("hdr.redDot"),
		SyncOnce:  zzsym.Bool("hdr.syncOnce"),
		Dup:       zzsym.Bool("hdr.dup"),
		End:       zzsym.Bool("hdr.end"),
	}
}

func c24Setting() SettingFlags {
	return SettingFlags{
		Receipt: zzsym.Bool("set.receipt"),
		Signal:  zzsym.Bool("set.signal"),
		Stream:  zzsym.Bool("set.stream"),
		Topic:   zzsym.Bool("set.topic"),
	}
}

// c24Framer: every Framer field symbolic (FrameType, RemainingLength, HasServerVersion, FrameSize
// have no JSON counterpart and must simply be ignored by FromFrame).
func c24Framer() frame.Framer {
	return frame.Framer{
		FrameType:        frame.FrameType(zzsym.U8("fr.frameType")),
		RemainingLength:  zzsym.U32("fr.remainingLength"),
		NoPersist:        zzsym.Bool("fr.noPersist"),
		RedDot:           zzsym.Bool("fr.redDot"),
		SyncOnce:         zzsym.Bool("fr.syncOnce"),
		DUP:              zzsym.Bool("fr.dup"),
		HasServerVersion: zzsym.Bool("fr.hasServerVersion"),
		End:              zzsym.Bool("fr.end"),
		FrameSize:        zzsym.I64("fr.frameSize"),
	}
}

// c24FramerIsHeader: the frame carries exactly the five JSON header flags.
func c24FramerIsHeader(f frame.Framer, h Header) bool {
	return f.NoPersist == h.NoPersist && f.RedDot == h.RedDot && f.SyncOnce == h.SyncOnce &&
		f.DUP == h.Dup && f.End == h.End
}

// c24HeaderIsFramer: frame -> JSON. The JSON header is omitted (nil) exactly when no flag is set,
// otherwise it carries the five flags.
func c24HeaderIsFramer(h *Header, f frame.Framer) bool {
	any := f.NoPersist || f.RedDot || f.SyncOnce || f.DUP || f.End
	if h == nil {
		return !any
	}
	return any && h.NoPersist == f.NoPersist && h.RedDot == f.RedDot && h.SyncOnce == f.SyncOnce &&
		h.Dup == f.DUP && h.End == f.End
}

func c24SettingIsFlags(s frame.Setting, sf SettingFlags) bool {
	const four = frame.SettingReceiptEnabled | frame.SettingSignal | frame.SettingStream | frame.SettingTopic
	return s.IsSet(frame.SettingReceiptEnabled) == sf.Receipt &&
		s.IsSet(frame.SettingSignal) == sf.Signal &&
		s.IsSet(frame.SettingStream) == sf.Stream &&
		s.IsSet(frame.SettingTopic) == sf.Topic &&
		s&^four == 0
}

func c24BytesEq(a, b []byte) bool {
	if len(a) != len(b) {
		return false
	}
	eq := true
	for i := range a {
		if a[i] != b[i] {
			eq = false
		}
	}
	return eq
}

// c24Decimal reads s as a canonical base-10 integer: optional '-', then digits without a leading
// zero (except "0" itself), never "-0". Returns magnitude, sign and whether s is canonical.
func c24Decimal(s string) (mag uint64, neg bool, ok bool) {
	ok = len(s) > 0
	i := 0
	if len(s) > 0 && s[0] == '-' {
		neg = true
		i = 1
	}
	ok = ok && len(s) > i
	if len(s) > i+1 && s[i] == '0' {
		ok = false
	}
	if neg && len(s) == 2 && s[1] == '0' {
		ok = false
	}
	for ; i < len(s); i++ {
		c := s[i]
		if c < '0' || c > '9' {
			ok = false
		}
		mag = mag*10 + uint64(c-'0')
	}
	return mag, neg, ok
}

// c24IsDecimalOfInt64: s is the canonical decimal text of v.
func c24IsDecimalOfInt64(s string, v int64) bool {
	mag, neg, ok := c24Decimal(s)
	want := uint64(v)
	if v < 0 {
		want = -uint64(v)
	}
	return ok && neg == (v < 0) && mag == want
}

// c24IDKinds: number of concrete id classes used in the per-frame entries: one and two digits, the
// int64/uint64 extremes, a snowflake-sized id and 2^53+1 (not representable as a float64). Symbolic
// ids are exercised separately in Harness_C24_IDText: strconv's digit loop divides by 100 per two
// digits and 64-bit division is expensive for the solver, so it is kept out of the entries that
// carry many other obligations.
const c24IDKinds = 7

func c24IDKind(name string) int { return zzsym.Choice(name+".kind", c24IDKinds) }

func c24MessageID(kind int) int64 {
	switch kind {
	case 0:
		return 0
	case 1:
		return 7
	case 2:
		return -90
	case 3:
		return 9223372036854775807
	case 4:
		return -9223372036854775808
	case 5:
		return 1234567890123456789
	default:
		return 9007199254740993
	}
}

func c24StreamID(kind int) uint64 {
	switch kind {
	case 0:
		return 0
	case 1:
		return 5
	case 2:
		return 37
	case 3:
		return 18446744073709551615
	case 4:
		return 9223372036854775808
	case 5:
		return 12345678901234567890
	default:
		return 9007199254740993
	}
}

// c24SymbolicID: a symbolic id in a narrow window. [0,100) is excluded: strconv slices a 200-byte
// digit table at a value-dependent offset there, which the executor would enumerate value by value
// (those values are covered by the concrete classes).
func c24SymbolicID(name string) int64 {
	v := zzsym.I64(name)
	// same window in both tiers: beyond four digits z3 no longer decides the digit loop's 64-bit
	// divisions within the assertion timeout
	hi := int64(10000)
	if zzsym.Choice(name+".sign", 2) == 0 {
		zzsym.Assume(v >= 100 && v < hi)
	} else {
		zzsym.Assume(v > -hi && v < 0)
	}
	return v
}

// ---------------------------------------------------------------- JSON-RPC -> frame

// Harness_C24_Connect: ConnectRequest -> ToFrame -> *frame.ConnectPacket.
func Harness_C24_Connect() {
	l := c24Lens(5)
	req := ConnectRequest{
		BaseRequest: BaseRequest{Jsonrpc: "2.0", Method: MethodConnect, ID: zzsym.String("id", l[0])},
		Params: ConnectParams{
			Header:          c24Header(),
			Version:         zzsym.Int("version"),
			ClientKey:       zzsym.String("clientKey", l[1]),
			DeviceID:        zzsym.String("deviceId", l[2]),
			DeviceFlag:      DeviceFlagEnum(zzsym.Int("deviceFlag")),
			ClientTimestamp: zzsym.I64("clientTimestamp"),
			UID:             zzsym.String("uid", l[3]),
			Token:           zzsym.String("token", l[4]),
		},
	}
	p := req.Params
	// deliberate int -> uint8 narrowing in ToProto: the value is assumed to fit
	zzsym.Assume(p.Version >= 0 && p.Version <= 255)
	zzsym.Assume(p.DeviceFlag >= 0 && p.DeviceFlag <= 255)

	f, id, err := ToFrame(req)
	zzsym.Reach("connect")
	zzsym.Assert(err == nil && f != nil, "ToFrame(ConnectRequest) failed")
	zzsym.Assert(id == req.ID, "ToFrame(ConnectRequest): returned request id is not the message id")
	pkt, ok := f.(*frame.ConnectPacket)
	zzsym.Assert(ok && pkt != nil, "ToFrame(ConnectRequest) is not a *frame.ConnectPacket")
	if !ok || pkt == nil {
		return
	}
	zzsym.Assert(f.GetFrameType() == frame.CONNECT, "connect frame type")
	wantVersion := uint8(p.Version)
	if p.Version == 0 {
		zzsym.Reach("connect-default-version")
		wantVersion = frame.LatestVersion
	}
	zzsym.Assert(pkt.Version == wantVersion, "connect: Version not carried (0 means latest)")
	zzsym.Assert(int(pkt.DeviceFlag) == int(p.DeviceFlag), "connect: DeviceFlag not carried")
	zzsym.Assert(pkt.ClientKey == p.ClientKey, "connect: ClientKey not carried")
	zzsym.Assert(pkt.DeviceID == p.DeviceID, "connect: DeviceID not carried")
	zzsym.Assert(pkt.ClientTimestamp == p.ClientTimestamp, "connect: ClientTimestamp not carried")
	zzsym.Assert(pkt.UID == p.UID, "connect: UID not carried")
	zzsym.Assert(pkt.Token == p.Token, "connect: Token not carried")
	zzsym.Assert(c24FramerIsHeader(pkt.Framer, p.Header), "connect: header flags not carried")

	// the exported per-message conversions agree with ToFrame
	q := req.ToProto()
	zzsym.Assert(q != nil && q.Version == pkt.Version && q.DeviceFlag == pkt.DeviceFlag && q.ClientKey == pkt.ClientKey &&
		q.DeviceID == pkt.DeviceID && q.ClientTimestamp == pkt.ClientTimestamp && q.UID == pkt.UID && q.Token == pkt.Token &&
		c24FramerIsHeader(q.Framer, p.Header), "ConnectRequest.ToProto differs from ToFrame")
	zzsym.Observe("connect", uint64(pkt.Version), uint64(pkt.DeviceFlag), uint64(pkt.ClientTimestamp), uint64(len(id)), zzsym.B2U(pkt.NoPersist))
}

// Harness_C24_Send: SendRequest -> ToFrame -> *frame.SendPacket, and SendParams.ToProto.
func Harness_C24_Send() {
	l := c24Lens(7)
	req := SendRequest{
		BaseRequest: BaseRequest{Jsonrpc: "2.0", Method: MethodSend, ID: zzsym.String("id", l[0])},
		Params: SendParams{
			Header:      c24Header(),
			Setting:     c24Setting(),
			MsgKey:      zzsym.String("msgKey", l[1]),
			Expire:      zzsym.U32("expire"),
			ClientMsgNo: zzsym.String("clientMsgNo", l[2]),
			StreamNo:    zzsym.String("streamNo", l[3]),
			ChannelID:   zzsym.String("channelId", l[4]),
			ChannelType: zzsym.Int("channelType"),
			Topic:       zzsym.String("topic", l[5]),
			Payload:     zzsym.Bytes("payload", l[6]),
		},
	}
	p := req.Params
	zzsym.Assume(p.ChannelType >= 0 && p.ChannelType <= 255) // deliberate int -> uint8 narrowing

	f, id, err := ToFrame(req)
	zzsym.Reach("send")
	zzsym.Assert(err == nil && f != nil, "ToFrame(SendRequest) failed")
	zzsym.Assert(id == req.ID, "ToFrame(SendRequest): returned request id is not the message id")
	pkt, ok := f.(*frame.SendPacket)
	zzsym.Assert(ok && pkt != nil, "ToFrame(SendRequest) is not a *frame.SendPacket")
	if !ok || pkt == nil {
		return
	}
	zzsym.Assert(f.GetFrameType() == frame.SEND, "send frame type")
	c24SendEq(pkt, p)

	viaParams := p.ToProto()
	zzsym.Assert(viaParams != nil, "SendParams.ToProto returned nil")
	if viaParams != nil {
		c24SendEq(viaParams, p)
	}
	zzsym.Observe("send", uint64(pkt.Setting), uint64(pkt.Expire), uint64(pkt.ChannelType), uint64(len(pkt.Payload)), uint64(len(id)))
}

func c24SendEq(pkt *frame.SendPacket, p SendParams) {
	zzsym.Assert(c24FramerIsHeader(pkt.Framer, p.Header), "send: header flags not carried")
	zzsym.Assert(c24SettingIsFlags(pkt.Setting, p.Setting), "send: setting flags not carried bit for bit")
	zzsym.Assert(pkt.MsgKey == p.MsgKey, "send: MsgKey not carried")
	zzsym.Assert(pkt.Expire == p.Expire, "send: Expire not carried")
	zzsym.Assert(pkt.ClientMsgNo == p.ClientMsgNo, "send: ClientMsgNo not carried")
	zzsym.Assert(pkt.StreamNo == p.StreamNo, "send: StreamNo not carried")
	zzsym.Assert(pkt.ChannelID == p.ChannelID, "send: ChannelID not carried")
	zzsym.Assert(int(pkt.ChannelType) == p.ChannelType, "send: ChannelType not carried")
	zzsym.Assert(pkt.Topic == p.Topic, "send: Topic not carried")
	zzsym.Assert(c24BytesEq(pkt.Payload, p.Payload), "send: Payload not carried")
}

// Harness_C24_RecvAck: RecvAckNotification -> ToFrame -> *frame.RecvackPacket. A notification has
// no request id. messageId is a decimal string: for every decimal text the frame carries its value.
func Harness_C24_RecvAck() {
	var msgID string
	var want int64
	decimal := true
	if zzsym.Choice("id.mode", 2) == 0 {
		// arbitrary short text: decimal or not
		n := 3
		if zzsym.Thorough() {
			n = 5
		}
		msgID = zzsym.String("messageId", zzsym.Choice("messageId.len", n+1))
		// reference reading: optional sign, then at least one digit, digits only
		i := 0
		neg := false
		if len(msgID) > 0 && (msgID[0] == '-' || msgID[0] == '+') {
			neg = msgID[0] == '-'
			i = 1
		}
		decimal = len(msgID) > i
		var mag int64
		for ; i < len(msgID); i++ {
			c := msgID[i]
			if c < '0' || c > '9' {
				decimal = false
			}
			mag = mag*10 + int64(c-'0')
		}
		want = mag
		if neg {
			want = -mag
		}
	} else {
		// the text the bridge itself produces for an int64 id (FromProtoSendAck / FromProtoRecvPacket)
		want = c24MessageID(c24IDKind("messageId.value"))
		msgID = FromProtoSendAck(&frame.SendackPacket{MessageID: want}).MessageID
	}
	n := RecvAckNotification{
		BaseNotification: BaseNotification{Jsonrpc: "2.0", Method: MethodRecvAck},
		Params:           RecvAckParams{Header: c24Header(), MessageID: msgID, MessageSeq: zzsym.U64("messageSeq")},
	}
	f, id, err := ToFrame(n)
	zzsym.Assert(err == nil && f != nil, "ToFrame(RecvAckNotification) failed")
	zzsym.Assert(id == "", "ToFrame(RecvAckNotification): a notification has no request id")
	pkt, ok := f.(*frame.RecvackPacket)
	zzsym.Assert(ok && pkt != nil, "ToFrame(RecvAckNotification) is not a *frame.RecvackPacket")
	if !ok || pkt == nil {
		return
	}
	zzsym.Assert(f.GetFrameType() == frame.RECVACK, "recvack frame type")
	zzsym.Assert(pkt.MessageSeq == n.Params.MessageSeq, "recvack: MessageSeq not carried")
	zzsym.Assert(c24FramerIsHeader(pkt.Framer, n.Params.Header), "recvack: header flags not carried")
	if decimal {
		zzsym.Reach("recvack-decimal")
		zzsym.Assert(pkt.MessageID == want, "recvack: MessageID is not the value of the decimal messageId")
	} else {
		// The code ignores the strconv error; what a non-decimal messageId becomes is not claimed.
		zzsym.Reach("recvack-not-decimal")
	}
	zzsym.Observe("recvack", uint64(pkt.MessageID), pkt.MessageSeq, zzsym.B2U(decimal))
}

// Harness_C24_PingDisconnectSubscribe: PingRequest, DisconnectRequest through ToFrame;
// SubscribeParams.ToProto; message kinds the bridge does not convert yield an error, not a frame.
func Harness_C24_PingDisconnectSubscribe() {
	l := c24Lens(5)
	base := BaseRequest{Jsonrpc: "2.0", ID: zzsym.String("id", l[0])}
	switch zzsym.Choice("kind", 4) {
	case 0:
		base.Method = MethodPing
		req := PingRequest{BaseRequest: base}
		if zzsym.Choice("ping.params", 2) == 1 {
			req.Params = &PingParams{}
		}
		f, id, err := ToFrame(req)
		zzsym.Reach("ping")
		zzsym.Assert(err == nil && f != nil, "ToFrame(PingRequest) failed")
		zzsym.Assert(id == base.ID, "ToFrame(PingRequest): returned request id is not the message id")
		_, ok := f.(*frame.PingPacket)
		zzsym.Assert(ok && f.GetFrameType() == frame.PING, "ToFrame(PingRequest) is not a PING frame")
		zzsym.Assert(PingParams{}.ToProto() != nil, "PingParams.ToProto returned nil")
	case 1:
		base.Method = MethodDisconnect
		req := DisconnectRequest{BaseRequest: base, Params: DisconnectParams{
			ReasonCode: ReasonCodeEnum(zzsym.Int("reasonCode")), Reason: zzsym.String("reason", l[1])}}
		zzsym.Assume(req.Params.ReasonCode >= 0 && req.Params.ReasonCode <= 255) // deliberate int -> uint8 narrowing
		f, id, err := ToFrame(req)
		zzsym.Reach("disconnect")
		zzsym.Assert(err == nil && f != nil, "ToFrame(DisconnectRequest) failed")
		zzsym.Assert(id == base.ID, "ToFrame(DisconnectRequest): returned request id is not the message id")
		pkt, ok := f.(*frame.DisconnectPacket)
		zzsym.Assert(ok && pkt != nil, "ToFrame(DisconnectRequest) is not a *frame.DisconnectPacket")
		if !ok || pkt == nil {
			return
		}
		zzsym.Assert(f.GetFrameType() == frame.DISCONNECT, "disconnect frame type")
		zzsym.Assert(int(pkt.ReasonCode) == int(req.Params.ReasonCode), "disconnect: ReasonCode not carried")
		zzsym.Assert(pkt.Reason == req.Params.Reason, "disconnect: Reason not carried")
		// frame -> message -> frame: DISCONNECT is the one type bridged in both directions
		back, berr := FromFrame(zzsym.String("reqId", l[2]), pkt)
		zzsym.Assert(berr == nil, "FromFrame(DisconnectPacket) failed")
		notif, nok := back.(DisconnectNotification)
		zzsym.Assert(nok, "FromFrame(DisconnectPacket) is not a DisconnectNotification")
		if nok {
			again := DisconnectParams(notif.Params).ToProto()
			zzsym.Assert(again != nil && again.ReasonCode == pkt.ReasonCode && again.Reason == pkt.Reason,
				"disconnect frame -> message -> frame is not the same frame")
		}
		zzsym.Observe("disconnect", uint64(pkt.ReasonCode), uint64(len(pkt.Reason)), uint64(len(id)))
	case 2:
		p := SubscribeParams{SubNo: zzsym.String("subNo", l[1]), ChannelID: zzsym.String("channelId", l[2]),
			ChannelType: zzsym.Int("channelType"), Param: zzsym.String("param", l[3])}
		zzsym.Assume(p.ChannelType >= 0 && p.ChannelType <= 255) // deliberate int -> uint8 narrowing
		pkt := p.ToProto()
		zzsym.Reach("subscribe")
		zzsym.Assert(pkt != nil, "SubscribeParams.ToProto returned nil")
		if pkt == nil {
			return
		}
		zzsym.Assert(pkt.SubNo == p.SubNo, "subscribe: SubNo not carried")
		zzsym.Assert(pkt.ChannelID == p.ChannelID, "subscribe: ChannelID not carried")
		zzsym.Assert(int(pkt.ChannelType) == p.ChannelType, "subscribe: ChannelType not carried")
		zzsym.Assert(pkt.Param == p.Param, "subscribe: Param not carried")
		zzsym.Observe("subscribe", uint64(pkt.ChannelType), uint64(len(pkt.SubNo)))
	default:
		// kinds without a frame conversion: an error, no frame, no request id
		var msg interface{}
		switch zzsym.Choice("unsupported", 4) {
		case 0:
			base.Method = MethodSubscribe
			msg = SubscribeRequest{BaseRequest: base}
		case 1:
			base.Method = MethodUnsubscribe
			msg = UnsubscribeRequest{BaseRequest: base}
		case 2:
			msg = GenericResponse{BaseResponse: BaseResponse{Jsonrpc: "2.0", ID: base.ID}}
		default:
			msg = nil
		}
		f, id, err := ToFrame(msg)
		zzsym.Reach("unsupported-message")
		zzsym.Assert(err != nil && f == nil && id == "", "ToFrame of a message kind without a frame must fail cleanly")
	}
}

// ---------------------------------------------------------------- frame -> JSON-RPC

// Harness_C24_Connack: *frame.ConnackPacket -> FromFrame -> ConnectResponse.
func Harness_C24_Connack() {
	l := c24Lens(3)
	reqID := zzsym.String("reqId", l[0])
	pkt := &frame.ConnackPacket{
		Framer:        c24Framer(),
		ServerVersion: zzsym.U8("serverVersion"),
		ServerKey:     zzsym.String("serverKey", l[1]),
		Salt:          zzsym.String("salt", l[2]),
		TimeDiff:      zzsym.I64("timeDiff"),
		ReasonCode:    frame.ReasonCode(zzsym.U8("reasonCode")),
		NodeId:        zzsym.U64("nodeId"),
	}
	msg, err := FromFrame(reqID, pkt)
	zzsym.Reach("connack")
	zzsym.Assert(err == nil, "FromFrame(ConnackPacket) failed")
	resp, ok := msg.(ConnectResponse)
	zzsym.Assert(ok, "FromFrame(ConnackPacket) is not a ConnectResponse")
	if !ok {
		return
	}
	zzsym.Assert(resp.ID == reqID, "connack: FromFrame did not stamp the given request id")
	zzsym.Assert(resp.Jsonrpc == "2.0", "connack: jsonrpc version")
	r := resp.Result
	zzsym.Assert(r != nil, "connack: no result")
	if r == nil {
		return
	}
	zzsym.Assert(r.ServerVersion == int(pkt.ServerVersion), "connack: ServerVersion not carried")
	zzsym.Assert(r.ServerKey == pkt.ServerKey, "connack: ServerKey not carried")
	zzsym.Assert(r.Salt == pkt.Salt, "connack: Salt not carried")
	zzsym.Assert(r.TimeDiff == pkt.TimeDiff, "connack: TimeDiff not carried")
	zzsym.Assert(int(r.ReasonCode) == int(pkt.ReasonCode), "connack: ReasonCode not carried")
	zzsym.Assert(r.NodeID == pkt.NodeId, "connack: NodeID not carried")
	zzsym.Assert(c24HeaderIsFramer(r.Header, pkt.Framer), "connack: header flags not carried")
	zzsym.Observe("connack", uint64(r.ServerVersion), uint64(r.TimeDiff), uint64(r.ReasonCode), r.NodeID, uint64(len(resp.ID)))
}

// Harness_C24_Sendack: *frame.SendackPacket -> FromFrame -> SendResponse.
func Harness_C24_Sendack() {
	l := c24Lens(2)
	reqID := zzsym.String("reqId", l[0])
	pkt := &frame.SendackPacket{
		Framer:      c24Framer(),
		MessageID:   c24MessageID(c24IDKind("messageId")),
		MessageSeq:  zzsym.U64("messageSeq"),
		ClientSeq:   zzsym.U64("clientSeq"),
		ClientMsgNo: zzsym.String("clientMsgNo", l[1]),
		ReasonCode:  frame.ReasonCode(zzsym.U8("reasonCode")),
	}
	msg, err := FromFrame(reqID, pkt)
	zzsym.Reach("sendack")
	zzsym.Assert(err == nil, "FromFrame(SendackPacket) failed")
	resp, ok := msg.(SendResponse)
	zzsym.Assert(ok, "FromFrame(SendackPacket) is not a SendResponse")
	if !ok {
		return
	}
	zzsym.Assert(resp.ID == reqID, "sendack: FromFrame did not stamp the given request id")
	zzsym.Assert(resp.Jsonrpc == "2.0", "sendack: jsonrpc version")
	r := resp.Result
	zzsym.Assert(r != nil, "sendack: no result")
	if r == nil {
		return
	}
	zzsym.Assert(c24IsDecimalOfInt64(r.MessageID, pkt.MessageID), "sendack: messageId is not the decimal text of MessageID")
	zzsym.Assert(r.MessageSeq == pkt.MessageSeq, "sendack: MessageSeq not carried")
	zzsym.Assert(int(r.ReasonCode) == int(pkt.ReasonCode), "sendack: ReasonCode not carried")
	zzsym.Assert(c24HeaderIsFramer(r.Header, pkt.Framer), "sendack: header flags not carried")
	zzsym.Observe("sendack", uint64(len(r.MessageID)), r.MessageSeq, uint64(r.ReasonCode), uint64(len(resp.ID)))
}

// Harness_C24_Recv: *frame.RecvPacket -> FromFrame -> RecvNotification.
func Harness_C24_Recv() {
	l := c24Lens(8)
	// one class choice for both decimal-text fields (different classes for the two fields)
	kind := c24IDKind("ids")
	pkt := &frame.RecvPacket{
		Framer:      c24Framer(),
		Setting:     frame.Setting(zzsym.U8("setting")),
		MsgKey:      zzsym.String("msgKey", l[0]),
		Expire:      zzsym.U32("expire"),
		MessageID:   c24MessageID(kind),
		MessageSeq:  zzsym.U64("messageSeq"),
		ClientMsgNo: zzsym.String("clientMsgNo", l[1]),
		StreamNo:    zzsym.String("streamNo", l[2]),
		StreamId:    c24StreamID((kind + 3) % c24IDKinds),
		StreamFlag:  frame.StreamFlag(zzsym.U8("streamFlag")),
		Timestamp:   zzsym.I32("timestamp"),
		ChannelID:   zzsym.String("channelId", l[3]),
		ChannelType: zzsym.U8("channelType"),
		Topic:       zzsym.String("topic", l[4]),
		FromUID:     zzsym.String("fromUid", l[5]),
		Payload:     zzsym.Bytes("payload", l[6]),
		ClientSeq:   zzsym.U64("clientSeq"),
	}
	msg, err := FromFrame(zzsym.String("reqId", l[7]), pkt)
	zzsym.Reach("recv")
	zzsym.Assert(err == nil, "FromFrame(RecvPacket) failed")
	n, ok := msg.(RecvNotification)
	zzsym.Assert(ok, "FromFrame(RecvPacket) is not a RecvNotification")
	if !ok {
		return
	}
	zzsym.Assert(n.Method == MethodRecv && n.Jsonrpc == "2.0", "recv: notification method/version")
	p := n.Params
	zzsym.Assert(c24HeaderIsFramer(p.Header, pkt.Framer), "recv: header flags not carried")
	if pkt.Setting == 0 {
		zzsym.Reach("recv-no-setting")
		zzsym.Assert(p.Setting == nil, "recv: a zero setting byte must omit the setting object")
	} else {
		zzsym.Assert(p.Setting != nil, "recv: non-zero setting byte lost")
		if p.Setting != nil {
			zzsym.Assert(p.Setting.Receipt == pkt.Setting.IsSet(frame.SettingReceiptEnabled) &&
				p.Setting.Signal == pkt.Setting.IsSet(frame.SettingSignal) &&
				p.Setting.Stream == pkt.Setting.IsSet(frame.SettingStream) &&
				p.Setting.Topic == pkt.Setting.IsSet(frame.SettingTopic), "recv: setting flags do not mirror the setting bits")
		}
	}
	zzsym.Assert(p.MsgKey == pkt.MsgKey, "recv: MsgKey not carried")
	zzsym.Assert(p.Expire == pkt.Expire, "recv: Expire not carried")
	zzsym.Assert(c24IsDecimalOfInt64(p.MessageID, pkt.MessageID), "recv: messageId is not the decimal text of MessageID")
	zzsym.Assert(p.MessageSeq == pkt.MessageSeq, "recv: MessageSeq not carried")
	zzsym.Assert(p.ClientMsgNo == pkt.ClientMsgNo, "recv: ClientMsgNo not carried")
	zzsym.Assert(p.StreamNo == pkt.StreamNo, "recv: StreamNo not carried")
	smag, sneg, sok := c24Decimal(p.StreamID)
	zzsym.Assert(sok && !sneg && smag == pkt.StreamId, "recv: streamId is not the decimal text of StreamId")
	zzsym.Assert(int(p.StreamFlag) == int(pkt.StreamFlag), "recv: StreamFlag not carried")
	zzsym.Assert(p.Timestamp == pkt.Timestamp, "recv: Timestamp not carried")
	zzsym.Assert(p.ChannelID == pkt.ChannelID, "recv: ChannelID not carried")
	zzsym.Assert(p.ChannelType == int(pkt.ChannelType), "recv: ChannelType not carried")
	zzsym.Assert(p.Topic == pkt.Topic, "recv: Topic not carried")
	zzsym.Assert(p.FromUID == pkt.FromUID, "recv: FromUID not carried")
	zzsym.Assert(c24BytesEq(p.Payload, pkt.Payload), "recv: Payload not carried")
	zzsym.Observe("recv", uint64(len(p.MessageID)), p.MessageSeq, uint64(len(p.StreamID)), uint64(p.ChannelType), uint64(uint32(p.Timestamp)))
}

// Harness_C24_EventDisconnectPong: EVENT, DISCONNECT, PONG through FromFrame; frame types the
// bridge does not convert yield an error.
func Harness_C24_EventDisconnectPong() {
	l := c24Lens(4)
	reqID := zzsym.String("reqId", l[0])
	switch zzsym.Choice("kind", 4) {
	case 0:
		pkt := &frame.EventPacket{Framer: c24Framer(), Id: zzsym.String("event.id", l[1]), Type: zzsym.String("event.type", l[2]),
			Timestamp: zzsym.I64("event.timestamp"), Data: zzsym.Bytes("event.data", l[3])}
		msg, err := FromFrame(reqID, pkt)
		zzsym.Reach("event")
		zzsym.Assert(err == nil, "FromFrame(EventPacket) failed")
		n, ok := msg.(EventNotification)
		zzsym.Assert(ok, "FromFrame(EventPacket) is not an EventNotification")
		if !ok {
			return
		}
		zzsym.Assert(n.Method == MethodEvent && n.Jsonrpc == "2.0", "event: notification method/version")
		zzsym.Assert(n.Params.ID == pkt.Id, "event: Id not carried")
		zzsym.Assert(n.Params.Type == pkt.Type, "event: Type not carried")
		zzsym.Assert(n.Params.Timestamp == pkt.Timestamp, "event: Timestamp not carried")
		zzsym.Assert(c24BytesEq([]byte(n.Params.Data), pkt.Data), "event: Data not carried")
		zzsym.Assert(c24HeaderIsFramer(n.Params.Header, pkt.Framer), "event: header flags not carried")
		zzsym.Observe("event", uint64(n.Params.Timestamp), uint64(len(n.Params.Data)))
	case 1:
		pkt := &frame.DisconnectPacket{Framer: c24Framer(), ReasonCode: frame.ReasonCode(zzsym.U8("reasonCode")), Reason: zzsym.String("reason", l[1])}
		msg, err := FromFrame(reqID, pkt)
		zzsym.Reach("disconnect")
		zzsym.Assert(err == nil, "FromFrame(DisconnectPacket) failed")
		n, ok := msg.(DisconnectNotification)
		zzsym.Assert(ok, "FromFrame(DisconnectPacket) is not a DisconnectNotification")
		if !ok {
			return
		}
		zzsym.Assert(n.Method == MethodDisconnect && n.Jsonrpc == "2.0", "disconnect: notification method/version")
		zzsym.Assert(int(n.Params.ReasonCode) == int(pkt.ReasonCode), "disconnect: ReasonCode not carried")
		zzsym.Assert(n.Params.Reason == pkt.Reason, "disconnect: Reason not carried")
		zzsym.Assert(FromProtoDisconnectPacket(nil) == DisconnectNotificationParams{}, "FromProtoDisconnectPacket(nil)")
		zzsym.Observe("disconnect", uint64(n.Params.ReasonCode), uint64(len(n.Params.Reason)))
	case 2:
		msg, err := FromFrame(reqID, &frame.PongPacket{Framer: c24Framer()})
		zzsym.Reach("pong")
		zzsym.Assert(err == nil, "FromFrame(PongPacket) failed")
		resp, ok := msg.(PongResponse)
		zzsym.Assert(ok, "FromFrame(PongPacket) is not a PongResponse")
		if ok {
			zzsym.Assert(resp.ID == reqID && resp.Jsonrpc == "2.0", "pong: FromFrame did not stamp the given request id")
		}
	default:
		var f frame.Frame
		switch zzsym.Choice("unsupported", 5) {
		case 0:
			f = &frame.ConnectPacket{}
		case 1:
			f = &frame.SendPacket{}
		case 2:
			f = &frame.RecvackPacket{}
		case 3:
			f = &frame.PingPacket{}
		default:
			f = &frame.SubackPacket{}
		}
		msg, err := FromFrame(reqID, f)
		zzsym.Reach("unsupported-frame")
		zzsym.Assert(err != nil && msg == nil, "FromFrame of a frame type without a message must fail cleanly")
	}
}

// Harness_C24_IDText: the decimal text of a symbolic message id / stream id, and the way back
// through RecvAckParams.ToProto (the id a client acknowledges is the id it was sent).
func Harness_C24_IDText() {
	v := c24SymbolicID("id")
	switch zzsym.Choice("via", 3) {
	case 0:
		r := FromProtoSendAck(&frame.SendackPacket{MessageID: v})
		zzsym.Reach("sendack-text")
		zzsym.Assert(r != nil && c24IsDecimalOfInt64(r.MessageID, v), "FromProtoSendAck: messageId is not the decimal text of MessageID")
		zzsym.Assert(FromProtoSendAck(nil) == nil && FromProtoConnectAck(nil) == nil, "FromProto*(nil) must be nil")
	case 1:
		p := FromProtoRecvPacket(&frame.RecvPacket{MessageID: v, StreamId: uint64(v)})
		zzsym.Reach("recv-text")
		zzsym.Assert(c24IsDecimalOfInt64(p.MessageID, v), "FromProtoRecvPacket: messageId is not the decimal text of MessageID")
		if v > 0 {
			mag, neg, ok := c24Decimal(p.StreamID)
			zzsym.Assert(ok && !neg && mag == uint64(v), "FromProtoRecvPacket: streamId is not the decimal text of StreamId")
		}
	default:
		p := FromProtoRecvPacket(&frame.RecvPacket{MessageID: v, MessageSeq: zzsym.U64("seq")})
		ack := RecvAckParams{MessageID: p.MessageID, MessageSeq: p.MessageSeq}.ToProto()
		zzsym.Reach("recv-then-recvack")
		zzsym.Assert(ack != nil && ack.MessageID == v && ack.MessageSeq == p.MessageSeq, "recv -> recvack does not return the same message id and sequence")
	}
	zzsym.Observe("idtext", uint64(v))
}

// ---------------------------------------------------------------- flag mappings

// Harness_C24_Flags: SettingFlags.ToProto and Header.ToProto are faithful and injective; the reverse
// helpers invert them.
func Harness_C24_Flags() {
	a, b := c24Setting(), c24Setting()
	sa, sb := a.ToProto(), b.ToProto()
	zzsym.Reach("flags")
	zzsym.Assert(c24SettingIsFlags(sa, a), "SettingFlags.ToProto: wrong bit for a flag, or a stray bit")
	if sa == sb {
		zzsym.Reach("same-setting-byte")
		zzsym.Assert(a == b, "two different setting flag sets map to the same setting byte")
	} else {
		zzsym.Assert(a != b, "equal setting flag sets map to different bytes")
	}
	back := fromProtoSetting(sa)
	if a == (SettingFlags{}) {
		zzsym.Assert(sa == 0 && back == nil, "empty setting flags must map to 0 and back to an omitted object")
	} else {
		zzsym.Assert(sa != 0 && back != nil && *back == a, "fromProtoSetting(SettingFlags.ToProto(x)) != x")
	}

	h, g := c24Header(), c24Header()
	fh, fg := h.ToProto(), g.ToProto()
	zzsym.Assert(fh != nil && fg != nil, "Header.ToProto returned nil")
	if fh == nil || fg == nil {
		return
	}
	zzsym.Assert(c24FramerIsHeader(*fh, h), "Header.ToProto: flag dropped or swapped")
	if c24FramerIsHeader(*fh, g) {
		zzsym.Assert(h == g, "two different headers map to the same frame flags")
	}
	zzsym.Assert(headerToFramer(h) == *fh, "headerToFramer and Header.ToProto disagree")
	hb := fromProtoHeader(*fh)
	if h == (Header{}) {
		zzsym.Assert(hb == nil, "an all-false header must be omitted on the way back")
	} else {
		zzsym.Assert(hb != nil && *hb == h, "fromProtoHeader(Header.ToProto(x)) != x")
	}
	zzsym.Observe("flags", uint64(sa), uint64(sb), zzsym.B2U(fh.NoPersist), zzsym.B2U(fh.End))
}

// ---------------------------------------------------------------- prefix sniffer

// Harness_C24_Prefix: IsJSONObjectPrefix on arbitrary bytes never panics and is exactly "the first
// byte that is not JSON whitespace is '{'".
func Harness_C24_Prefix() {
	max := 5
	if zzsym.Thorough() {
		max = 8
	}
	var data []byte
	if zzsym.Choice("mode", 2) == 0 {
		// every byte string of length 0..max (each JSON whitespace byte is its own path in the scanner,
		// so the cost is 4^length)
		data = zzsym.Bytes("data", zzsym.Choice("len", max+1))
	} else {
		// longer inputs: four concrete whitespace bytes, then 1..4 arbitrary bytes (length 5..8)
		data = append([]byte{' ', '\t', '\n', '\r'}, zzsym.Bytes("tail", 1+zzsym.Choice("taillen", 4))...)
	}
	got := IsJSONObjectPrefix(data)
	// reference, written branch-free: the first byte that is not JSON whitespace decides
	want := false
	done := false
	for _, c := range data {
		ws := c == ' ' || c == '\t' || c == '\n' || c == '\r'
		want = want || (!done && !ws && c == '{')
		done = done || !ws
	}
	zzsym.Reach("prefix")
	if got {
		zzsym.Reach("prefix-true")
	}
	zzsym.Assert(got == want, "IsJSONObjectPrefix differs from: first non-whitespace byte is '{'")
	zzsym.Assert(!IsJSONObjectPrefix(nil), "IsJSONObjectPrefix(nil)")
	zzsym.Observe("prefix", zzsym.B2U(got), uint64(len(data)))
}
