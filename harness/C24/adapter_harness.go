package jsonrpc

// C24 (adapter part): the gateway adapter remembers the request id ToFrame returned (the "reply
// token") in a per-session FIFO and hands it back for the reply frame, which FromFrame stamps with
// it. The queue must return exactly the pushed non-empty ids, in order, without loss or duplication.

import (
	"github.com/WuKongIM/WuKongIM/internal/zzsym"
)

func Harness_C24_ReplyTokenQueue() {
	q := &replyTokenQueue{}
	n, maxLen := 3, 1
	if zzsym.Thorough() {
		n, maxLen = 4, 2
	}
	var want []string
	for i := 0; i < n; i++ {
		tok := zzsym.String("token", zzsym.Choice("token.len", maxLen+1))
		q.push(tok)
		if tok != "" { // requests without an id expect no reply token
			want = append(want, tok)
		}
	}
	// two takes with arbitrary counts, then everything that is left
	pos := 0
	for round := 0; round < 3; round++ {
		count := zzsym.Choice("count", n+2) - 1 // -1 .. n
		if round == 2 {
			count = n
		}
		got := q.take(count)
		exp := count
		if exp < 0 {
			exp = 0
		}
		if exp > len(want)-pos {
			exp = len(want) - pos
		}
		zzsym.Assert(len(got) == exp, "take(count) must return min(count, queued) reply tokens")
		if len(got) != exp {
			return
		}
		for i := range got {
			zzsym.Assert(got[i] == want[pos+i], "reply tokens must come back in request order")
		}
		pos += len(got)
	}
	zzsym.Reach("queue-drained")
	zzsym.Assert(pos == len(want), "a reply token was lost")
	zzsym.Assert(q.take(1) == nil, "drained queue must be empty")
	q.push(zzsym.String("late", 1))
	q.clear()
	zzsym.Assert(q.take(1) == nil, "clear must drop pending reply tokens")
	var nilq *replyTokenQueue
	nilq.push("x")
	nilq.clear()
	zzsym.Assert(nilq.take(1) == nil, "nil queue is inert")
	zzsym.Observe("queue", uint64(len(want)), uint64(pos))
}
