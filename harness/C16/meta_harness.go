package meta

import (
	"context"
	"errors"

	"github.com/WuKongIM/WuKongIM/internal/zzsym"
	"github.com/WuKongIM/WuKongIM/pkg/db/internal/dberrors"
	"github.com/WuKongIM/WuKongIM/pkg/db/internal/engine"
)

// ---------------------------------------------------------------------------
// C16 — Per-user conversation cursors are monotonic (pure resolvers).
//
// Boundary steps (DESIGN §3): (a) revival of a tombstoned row, (b) a strictly newer
// SourceVersion on a fenced row (SourceVersion != 0) in the Ensure projection. On a
// boundary only what the code documents is asserted (which floors are installed);
// on every other step the cursors must not move backwards.
// ---------------------------------------------------------------------------

// c16Row: one membership row; identity fixed (rows of one step share the primary key), every
// other field fully symbolic.
func c16Row(tag string) UserChannelMembership {
	return UserChannelMembership{
		UID:           "u",
		ChannelID:     "c",
		ChannelType:   2,
		JoinSeq:       zzsym.U64(tag + ".joinSeq"),
		ReadSeq:       zzsym.U64(tag + ".readSeq"),
		DeletedToSeq:  zzsym.U64(tag + ".deletedToSeq"),
		ActivatedAt:   zzsym.I64(tag + ".activatedAt"),
		Tombstone:     zzsym.Bool(tag + ".tombstone"),
		TombstoneAt:   zzsym.I64(tag + ".tombstoneAt"),
		SourceVersion: zzsym.U64(tag + ".sourceVersion"),
		UpdatedAt:     zzsym.I64(tag + ".updatedAt"),
	}
}

func c16CMDRow(tag string) UserCMDChannelMembership {
	return UserCMDChannelMembership{
		UID:              "u",
		CommandChannelID: "c____cmd",
		ChannelType:      2,
		StartSeq:         zzsym.U64(tag + ".startSeq"),
		AckSeq:           zzsym.U64(tag + ".ackSeq"),
		Tombstone:        zzsym.Bool(tag + ".tombstone"),
		TombstoneAt:      zzsym.I64(tag + ".tombstoneAt"),
		UpdatedAt:        zzsym.I64(tag + ".updatedAt"),
	}
}

// c16CursorsNotBackwards: the monotone fields of an ordinary membership.
func c16CursorsNotBackwards(before, after UserChannelMembership) bool {
	return after.ReadSeq >= before.ReadSeq &&
		after.DeletedToSeq >= before.DeletedToSeq &&
		after.ActivatedAt >= before.ActivatedAt &&
		after.UpdatedAt >= before.UpdatedAt
}

func c16ObserveRow(name string, r UserChannelMembership) {
	zzsym.Observe(name, r.JoinSeq, r.ReadSeq, r.DeletedToSeq, uint64(r.ActivatedAt), zzsym.B2U(r.Tombstone),
		uint64(r.TombstoneAt), r.SourceVersion, uint64(r.UpdatedAt))
}

// Harness_C16_Upsert: resolveUserChannelMembership on an existing row.
func Harness_C16_Upsert() {
	existing := c16Row("existing")
	next := c16Row("incoming")
	got := resolveUserChannelMembership(existing, true, next)

	older := next.SourceVersion < existing.SourceVersion
	sameVersion := next.SourceVersion == existing.SourceVersion
	newer := next.SourceVersion > existing.SourceVersion
	revival := existing.Tombstone && !next.Tombstone && !older

	// an incoming write with an older source version is refused: the row is unchanged
	zzsym.Assert(!older || got == existing, "C16: upsert with an older source version changed the row")
	// a replay (same version) that is not a revival changes nothing
	zzsym.Assert(!(sameVersion && !revival) || got == existing, "C16: same-version replay changed the row")
	// the source-version fence itself never moves backwards
	zzsym.Assert(got.SourceVersion >= existing.SourceVersion, "C16: source version decreased")
	zzsym.Assert(got.UID == existing.UID && got.ChannelID == existing.ChannelID && got.ChannelType == existing.ChannelType,
		"C16: upsert changed the row identity")

	// every step except the delete/re-create boundary (revival by a strictly newer version, which
	// installs the incoming row) keeps the cursors from moving backwards
	boundary := revival && newer
	zzsym.Assert(boundary || c16CursorsNotBackwards(existing, got), "C16: upsert moved a cursor backwards on a non-boundary step")
	zzsym.Assert(boundary || got.JoinSeq == existing.JoinSeq, "C16: upsert changed JoinSeq on a non-boundary step")
	// boundary: documented behaviour is to install the incoming row
	zzsym.Assert(!boundary || got == next, "C16: newer-version revival did not install the incoming row")
	// same-version revival: documented behaviour is to clear the tombstone and keep all floors
	zzsym.Assert(!(revival && sameVersion) || (!got.Tombstone && got.TombstoneAt == 0 &&
		got.ReadSeq == existing.ReadSeq && got.DeletedToSeq == existing.DeletedToSeq && got.ActivatedAt == existing.ActivatedAt),
		"C16: same-version revival did not keep the floors / clear the tombstone")

	// TombstoneAt: never decreases unless the step is a revival or carries a strictly newer source
	// version (a newer tombstone replaces the stamp; see report: DESIGN restricts this to fenced rows)
	zzsym.Assert(revival || newer || got.TombstoneAt >= existing.TombstoneAt, "C16: TombstoneAt decreased without revival/newer version")
	zzsym.Assert(!(newer && next.Tombstone) || (got.Tombstone && got.TombstoneAt == next.TombstoneAt &&
		got.ReadSeq == existing.ReadSeq && got.DeletedToSeq == existing.DeletedToSeq),
		"C16: newer-version tombstone did not keep the cursors / install the tombstone stamp")
	// a live row is tombstoned only by a strictly newer source version
	zzsym.Assert(existing.Tombstone || !got.Tombstone || newer, "C16: live row tombstoned without a newer source version")

	c16ObserveRow("c16.upsert", got)
	if older {
		zzsym.Reach("older-version")
	} else if boundary {
		zzsym.Reach("newer-revival")
	} else if revival {
		zzsym.Reach("same-version-revival")
	} else if newer && next.Tombstone {
		zzsym.Reach("newer-tombstone")
	} else if newer {
		zzsym.Reach("newer-live")
	} else {
		zzsym.Reach("replay")
	}
}

// Harness_C16_Create: both resolvers install the incoming row when none exists (the "existing"
// argument is meaningless then and must be ignored).
func Harness_C16_Create() {
	garbage := c16Row("existing")
	next := c16Row("incoming")
	zzsym.Reach("create")
	zzsym.Assert(resolveUserChannelMembership(garbage, false, next) == next, "C16: upsert-create is not the incoming row")
	zzsym.Assert(resolveEnsuredUserChannelMembership(garbage, false, next) == next, "C16: ensure-create is not the incoming row")
	cmdGarbage := c16CMDRow("existing")
	cmdNext := c16CMDRow("incoming")
	zzsym.Assert(resolveUserCMDChannelMembership(cmdGarbage, false, cmdNext) == cmdNext, "C16: cmd upsert-create is not the incoming row")
}

// Harness_C16_Ensure: resolveEnsuredUserChannelMembership on an existing row.
func Harness_C16_Ensure() {
	existing := c16Row("existing")
	incoming := c16Row("incoming")
	got := resolveEnsuredUserChannelMembership(existing, true, incoming)

	notNewer := incoming.SourceVersion <= existing.SourceVersion
	fenced := existing.SourceVersion != 0
	boundary := !notNewer && fenced

	// an older (or equal) source version is refused: nothing changes
	zzsym.Assert(!notNewer || got == existing, "C16: ensure with an older or equal source version changed the row")
	zzsym.Assert(got.SourceVersion >= existing.SourceVersion, "C16: ensure decreased the source version")
	// user-owned state, including tombstones, is never overwritten by the projection
	zzsym.Assert(got.ActivatedAt == existing.ActivatedAt && got.Tombstone == existing.Tombstone && got.TombstoneAt == existing.TombstoneAt,
		"C16: ensure overwrote user-owned state (activation/tombstone)")
	zzsym.Assert(got.UpdatedAt >= existing.UpdatedAt, "C16: ensure moved UpdatedAt backwards")
	zzsym.Assert(got.UID == existing.UID && got.ChannelID == existing.ChannelID && got.ChannelType == existing.ChannelType,
		"C16: ensure changed the row identity")
	// non-boundary steps (refused, or first fencing of an unfenced row) never move a cursor backwards
	zzsym.Assert(boundary || c16CursorsNotBackwards(existing, got), "C16: ensure moved a cursor backwards on a non-boundary step")
	// first projection onto an unfenced row: floors are merged, never regressed, and cover the incoming floors
	zzsym.Assert(!(!notNewer && !fenced) || (got.ReadSeq >= incoming.ReadSeq && got.DeletedToSeq >= incoming.DeletedToSeq &&
		(got.ReadSeq == incoming.ReadSeq || got.ReadSeq == existing.ReadSeq) &&
		(got.DeletedToSeq == incoming.DeletedToSeq || got.DeletedToSeq == existing.DeletedToSeq)),
		"C16: ensure on an unfenced row did not merge the floors")
	// boundary: documented behaviour is exact replacement of the source-derived floors
	zzsym.Assert(!boundary || (got.ReadSeq == incoming.ReadSeq && got.DeletedToSeq == incoming.DeletedToSeq),
		"C16: ensure on a fenced row did not install the incoming floors")
	zzsym.Assert(notNewer || (got.JoinSeq == incoming.JoinSeq && got.SourceVersion == incoming.SourceVersion),
		"C16: accepted ensure did not install JoinSeq/SourceVersion")

	c16ObserveRow("c16.ensure", got)
	if notNewer {
		zzsym.Reach("refused")
	} else if fenced {
		zzsym.Reach("boundary")
	} else {
		zzsym.Reach("first-fence")
	}
}

// Harness_C16_CMDUpsert: resolveUserCMDChannelMembership on an existing row.
func Harness_C16_CMDUpsert() {
	existing := c16CMDRow("existing")
	next := c16CMDRow("incoming")
	got := resolveUserCMDChannelMembership(existing, true, next)

	rebind := existing.Tombstone && !next.Tombstone
	// tombstoned CMD rows are not mutated (anything but a rebind leaves them as they are)
	zzsym.Assert(!(existing.Tombstone && !rebind) || got == existing, "C16: tombstoned CMD row was mutated")
	// rebind is the delete/re-create boundary: documented behaviour is to install the incoming row
	zzsym.Assert(!rebind || got == next, "C16: CMD rebind did not install the incoming row")
	// live row: ack and timestamps never move backwards, the binding itself is untouched
	zzsym.Assert(existing.Tombstone || (got.AckSeq >= existing.AckSeq && got.UpdatedAt >= existing.UpdatedAt &&
		got.TombstoneAt >= existing.TombstoneAt), "C16: CMD upsert moved ack/timestamps backwards")
	zzsym.Assert(existing.Tombstone || (got.AckSeq == existing.AckSeq || got.AckSeq == next.AckSeq), "C16: CMD ack is neither the old nor the incoming value")
	zzsym.Assert(existing.Tombstone || (got.StartSeq == existing.StartSeq && !got.Tombstone && got.TombstoneAt == existing.TombstoneAt),
		"C16: CMD upsert changed the binding of a live row")
	zzsym.Assert(got.UID == existing.UID && got.CommandChannelID == existing.CommandChannelID && got.ChannelType == existing.ChannelType,
		"C16: CMD upsert changed the row identity")
	zzsym.Observe("c16.cmd", got.StartSeq, got.AckSeq, zzsym.B2U(got.Tombstone), uint64(got.TombstoneAt), uint64(got.UpdatedAt))
	if rebind {
		zzsym.Reach("rebind")
	} else if existing.Tombstone {
		zzsym.Reach("tombstoned")
	} else {
		zzsym.Reach("live")
	}
}

// ---------------------------------------------------------------------------
// Batch-staged operations: the real Batch.* methods stage their real op closure (which
// captures the real mutate closure); the harness runs that op the way Batch.Commit's Build
// callback does, on a commit state whose row overlay already holds the symbolic existing row
// (so no DB read happens) and with a detached engine batch (writes are accepted and dropped).
// The outcome is read back from the same commit-state overlay the op itself maintains.
// ---------------------------------------------------------------------------

const c16HashSlot HashSlot = 7

type c16Env struct {
	batch *Batch
	state *batchCommitState
	key   []byte
}

func c16NewEnv() *c16Env {
	db := &MetaDB{}
	return &c16Env{
		batch: &Batch{db: db},
		state: &batchCommitState{
			db:               db,
			tableRows:        make(map[string]tableRowOverlay),
			tableCreates:     make(map[string]struct{}),
			runtimeMeta:      make(map[string]runtimeMetaOverlay),
			migrationTasks:   make(map[string]migrationTaskOverlay),
			subscriberRows:   make(map[string]bool),
			channelPublishes: make(map[string]Channel),
			channelDeletes:   make(map[string]struct{}),
		},
	}
}

// apply runs the single staged op like Batch.Commit's Build callback does.
func (env *c16Env) apply() error {
	zzsym.Assert(len(env.batch.ops) == 1, "C16: expected exactly one staged operation")
	return env.batch.ops[0].apply(context.Background(), env.state, engine.ZZC16DetachedBatch())
}

func (env *c16Env) seedMembership(row UserChannelMembership, exists bool) {
	key, err := userChannelMembershipRowKey(c16HashSlot, row.UID, row.ChannelID, row.ChannelType)
	zzsym.Assert(err == nil, "C16: membership row key")
	env.key = key
	if exists {
		env.state.tableRows[string(key)] = tableRowOverlay{value: encodeUserChannelMembershipValue(row), exists: true}
	} else {
		env.state.tableRows[string(key)] = tableRowOverlay{exists: false}
	}
}

func (env *c16Env) storedMembership() (UserChannelMembership, bool) {
	o, ok := env.state.tableRows[string(env.key)]
	if !ok || !o.exists {
		return UserChannelMembership{}, false
	}
	row, err := decodeUserChannelMembershipValue("u", "c", 2, o.value)
	zzsym.Assert(err == nil, "C16: stored membership value does not decode")
	return row, true
}

func (env *c16Env) seedCMD(row UserCMDChannelMembership, exists bool) {
	key, err := userCMDChannelMembershipTable.primaryRowKey(c16HashSlot, userCMDChannelMembershipPrimaryKey(row.UID, row.CommandChannelID, row.ChannelType))
	zzsym.Assert(err == nil, "C16: cmd row key")
	env.key = key
	if exists {
		env.state.tableRows[string(key)] = tableRowOverlay{value: encodeUserCMDChannelMembershipValue(row), exists: true}
	} else {
		env.state.tableRows[string(key)] = tableRowOverlay{exists: false}
	}
}

func (env *c16Env) storedCMD() (UserCMDChannelMembership, bool) {
	o, ok := env.state.tableRows[string(env.key)]
	if !ok || !o.exists {
		return UserCMDChannelMembership{}, false
	}
	row, err := decodeUserCMDChannelMembershipValue("u", "c____cmd", 2, o.value)
	zzsym.Assert(err == nil, "C16: stored cmd value does not decode")
	return row, true
}

var c16Key = ChannelKey{ChannelID: "c", ChannelType: 2}

// c16PersonalStep: common obligations of the three personal-state commands on an existing row.
func c16PersonalStep(env *c16Env, existing UserChannelMembership, stageErr error, hide bool) (UserChannelMembership, bool) {
	if stageErr != nil {
		zzsym.Reach("rejected-argument")
		zzsym.Assert(errors.Is(stageErr, dberrors.ErrInvalidArgument), "C16: unexpected staging error")
		zzsym.Assert(len(env.batch.ops) == 0, "C16: rejected command staged an operation")
		return existing, false
	}
	err := env.apply()
	zzsym.Assert(err == nil, "C16: personal-state command failed on an existing row")
	got, ok := env.storedMembership()
	zzsym.Assert(ok, "C16: row disappeared")
	// a tombstone ignores personal-state commands
	zzsym.Assert(!existing.Tombstone || got == existing, "C16: personal-state command mutated a tombstoned membership")
	// cursors never move backwards (ActivatedAt excepted for Hide, which clears it by design)
	zzsym.Assert(got.ReadSeq >= existing.ReadSeq, "C16: ReadSeq moved backwards")
	zzsym.Assert(got.DeletedToSeq >= existing.DeletedToSeq, "C16: DeletedToSeq moved backwards")
	zzsym.Assert(got.UpdatedAt >= existing.UpdatedAt, "C16: UpdatedAt moved backwards")
	zzsym.Assert(hide || got.ActivatedAt >= existing.ActivatedAt, "C16: ActivatedAt moved backwards")
	// membership structure and the source fence are not touched by personal-state commands
	zzsym.Assert(got.JoinSeq == existing.JoinSeq && got.Tombstone == existing.Tombstone && got.TombstoneAt == existing.TombstoneAt &&
		got.SourceVersion == existing.SourceVersion && got.UID == existing.UID && got.ChannelID == existing.ChannelID && got.ChannelType == existing.ChannelType,
		"C16: personal-state command changed membership structure")
	c16ObserveRow("c16.personal", got)
	return got, true
}

// Harness_C16_BatchAdvanceRead: Batch.AdvanceUserChannelMembershipReadSeq.
func Harness_C16_BatchAdvanceRead() {
	env := c16NewEnv()
	existing := c16Row("existing")
	env.seedMembership(existing, true)
	readSeq, updatedAt := zzsym.U64("readSeq"), zzsym.I64("updatedAt")
	got, ran := c16PersonalStep(env, existing, env.batch.AdvanceUserChannelMembershipReadSeq(c16HashSlot, "u", c16Key, readSeq, updatedAt), false)
	if !ran {
		return
	}
	zzsym.Reach("applied")
	zzsym.Assert(got.DeletedToSeq == existing.DeletedToSeq && got.ActivatedAt == existing.ActivatedAt, "C16: read advance changed another cursor")
	zzsym.Assert(existing.Tombstone || got.ReadSeq >= readSeq, "C16: read advance not applied to a live row")
	zzsym.Assert(got.ReadSeq == existing.ReadSeq || got.ReadSeq == readSeq, "C16: ReadSeq is neither the old nor the requested value")
}

// Harness_C16_BatchActivate: Batch.ActivateUserChannelMembership.
func Harness_C16_BatchActivate() {
	env := c16NewEnv()
	existing := c16Row("existing")
	env.seedMembership(existing, true)
	activatedAt, updatedAt := zzsym.I64("activatedAt"), zzsym.I64("updatedAt")
	got, ran := c16PersonalStep(env, existing, env.batch.ActivateUserChannelMembership(c16HashSlot, "u", c16Key, activatedAt, updatedAt), false)
	if !ran {
		return
	}
	zzsym.Reach("applied")
	zzsym.Assert(got.ReadSeq == existing.ReadSeq && got.DeletedToSeq == existing.DeletedToSeq, "C16: activate changed another cursor")
	zzsym.Assert(existing.Tombstone || got.ActivatedAt >= activatedAt, "C16: activation not applied to a live row")
	zzsym.Assert(got.ActivatedAt == existing.ActivatedAt || got.ActivatedAt == activatedAt, "C16: ActivatedAt is neither the old nor the requested value")
}

// Harness_C16_BatchHide: Batch.HideUserChannelMembership (clears ActivatedAt by design).
func Harness_C16_BatchHide() {
	env := c16NewEnv()
	existing := c16Row("existing")
	env.seedMembership(existing, true)
	deletedToSeq, updatedAt := zzsym.U64("deletedToSeq"), zzsym.I64("updatedAt")
	got, ran := c16PersonalStep(env, existing, env.batch.HideUserChannelMembership(c16HashSlot, "u", c16Key, deletedToSeq, updatedAt), true)
	if !ran {
		return
	}
	zzsym.Reach("applied")
	zzsym.Assert(got.ReadSeq == existing.ReadSeq, "C16: hide changed ReadSeq")
	zzsym.Assert(existing.Tombstone || (got.DeletedToSeq >= deletedToSeq && got.ActivatedAt == 0), "C16: hide not applied to a live row")
	zzsym.Assert(got.DeletedToSeq == existing.DeletedToSeq || got.DeletedToSeq == deletedToSeq, "C16: DeletedToSeq is neither the old nor the requested value")
}

// Harness_C16_BatchMissing: the personal-state commands report a missing row and write nothing.
func Harness_C16_BatchMissing() {
	env := c16NewEnv()
	env.seedMembership(c16Row("unused"), false)
	var stageErr error
	switch zzsym.Choice("command", 3) {
	case 0:
		stageErr = env.batch.AdvanceUserChannelMembershipReadSeq(c16HashSlot, "u", c16Key, zzsym.U64("readSeq"), 1)
	case 1:
		stageErr = env.batch.ActivateUserChannelMembership(c16HashSlot, "u", c16Key, 1, 1)
	default:
		stageErr = env.batch.HideUserChannelMembership(c16HashSlot, "u", c16Key, zzsym.U64("deletedToSeq"), 1)
	}
	zzsym.Assert(stageErr == nil, "C16: staging failed")
	err := env.apply()
	zzsym.Reach("missing")
	zzsym.Assert(errors.Is(err, dberrors.ErrNotFound), "C16: command on a missing row did not report not-found")
	_, ok := env.storedMembership()
	zzsym.Assert(!ok, "C16: command on a missing row created it")
}

// Harness_C16_BatchUpsert: Batch.UpsertUserChannelMembership end to end (same oracle as the pure entry).
func Harness_C16_BatchUpsert() {
	env := c16NewEnv()
	existing := c16Row("existing")
	next := c16Row("incoming")
	env.seedMembership(existing, true)
	zzsym.Assert(env.batch.UpsertUserChannelMembership(c16HashSlot, next) == nil, "C16: staging upsert failed")
	zzsym.Assert(env.apply() == nil, "C16: upsert op failed")
	got, ok := env.storedMembership()
	zzsym.Reach("upserted")
	zzsym.Assert(ok, "C16: row disappeared")
	older := next.SourceVersion < existing.SourceVersion
	boundary := existing.Tombstone && !next.Tombstone && next.SourceVersion > existing.SourceVersion
	zzsym.Assert(!older || got == existing, "C16: batch upsert with an older source version changed the row")
	zzsym.Assert(boundary || c16CursorsNotBackwards(existing, got), "C16: batch upsert moved a cursor backwards on a non-boundary step")
	zzsym.Assert(!boundary || got == next, "C16: batch newer-version revival did not install the incoming row")
	zzsym.Assert(got.SourceVersion >= existing.SourceVersion, "C16: batch upsert decreased the source version")
	c16ObserveRow("c16.batchupsert", got)
}

// Harness_C16_BatchEnsure: Batch.EnsureUserChannelMembership end to end.
func Harness_C16_BatchEnsure() {
	env := c16NewEnv()
	existing := c16Row("existing")
	incoming := c16Row("incoming")
	env.seedMembership(existing, true)
	zzsym.Assert(env.batch.EnsureUserChannelMembership(c16HashSlot, incoming) == nil, "C16: staging ensure failed")
	zzsym.Assert(env.apply() == nil, "C16: ensure op failed")
	got, ok := env.storedMembership()
	zzsym.Reach("ensured")
	zzsym.Assert(ok, "C16: row disappeared")
	notNewer := incoming.SourceVersion <= existing.SourceVersion
	boundary := !notNewer && existing.SourceVersion != 0
	zzsym.Assert(!notNewer || got == existing, "C16: batch ensure with an older or equal source version changed the row")
	zzsym.Assert(boundary || c16CursorsNotBackwards(existing, got), "C16: batch ensure moved a cursor backwards on a non-boundary step")
	zzsym.Assert(!boundary || (got.ReadSeq == incoming.ReadSeq && got.DeletedToSeq == incoming.DeletedToSeq), "C16: batch ensure on a fenced row did not install the incoming floors")
	zzsym.Assert(got.ActivatedAt == existing.ActivatedAt && got.Tombstone == existing.Tombstone && got.TombstoneAt == existing.TombstoneAt && got.UpdatedAt >= existing.UpdatedAt,
		"C16: batch ensure overwrote user-owned state")
	c16ObserveRow("c16.batchensure", got)
}

// Harness_C16_BatchCMD: the three staged CMD-membership commands on an existing row.
func Harness_C16_BatchCMD() {
	env := c16NewEnv()
	existing := c16CMDRow("existing")
	req := c16CMDRow("request")
	env.seedCMD(existing, true)
	command := zzsym.Choice("command", 3)
	var stageErr error
	switch command {
	case 0:
		stageErr = env.batch.AdvanceUserCMDChannelMembershipAckSeq(c16HashSlot, req)
	case 1:
		stageErr = env.batch.TombstoneUserCMDChannelMembership(c16HashSlot, req)
	default:
		stageErr = env.batch.UpsertUserCMDChannelMembership(c16HashSlot, req)
	}
	if stageErr != nil {
		// only the upsert validates its timestamps
		zzsym.Reach("rejected-argument")
		zzsym.Assert(command == 2 && (req.TombstoneAt < 0 || req.UpdatedAt < 0), "C16: CMD command rejected valid arguments")
		zzsym.Assert(len(env.batch.ops) == 0, "C16: rejected CMD command staged an operation")
		return
	}
	zzsym.Assert(env.apply() == nil, "C16: CMD op failed")
	got, ok := env.storedCMD()
	zzsym.Assert(ok, "C16: CMD row disappeared")
	rebind := command == 2 && existing.Tombstone && !req.Tombstone
	// tombstoned CMD rows are not mutated (only an upsert may rebind them)
	zzsym.Assert(!existing.Tombstone || rebind || got == existing, "C16: tombstoned CMD row was mutated")
	zzsym.Assert(!rebind || got == req, "C16: CMD rebind did not install the incoming row")
	// live rows: ack, tombstone stamp and update stamp never move backwards; the start floor is kept
	zzsym.Assert(existing.Tombstone || (got.AckSeq >= existing.AckSeq && got.TombstoneAt >= existing.TombstoneAt &&
		got.UpdatedAt >= existing.UpdatedAt && got.StartSeq == existing.StartSeq), "C16: CMD command moved ack/timestamps backwards")
	zzsym.Assert(existing.Tombstone || got.AckSeq == existing.AckSeq || (command != 1 && got.AckSeq == req.AckSeq), "C16: CMD ack is neither the old nor the requested value")
	zzsym.Assert(existing.Tombstone || got.Tombstone == (command == 1), "C16: CMD tombstone flag wrong after command")
	zzsym.Assert(existing.Tombstone || command != 0 || got.AckSeq >= req.AckSeq, "C16: CMD ack advance not applied to a live row")
	zzsym.Observe("c16.batchcmd", got.StartSeq, got.AckSeq, zzsym.B2U(got.Tombstone), uint64(got.TombstoneAt), uint64(got.UpdatedAt))
	switch command {
	case 0:
		zzsym.Reach("ack")
	case 1:
		zzsym.Reach("tombstone")
	default:
		zzsym.Reach("upsert")
	}
}

// c16StageAny stages one of the five membership commands with symbolic arguments and reports
// whether the step is a delete/re-create boundary for the row `before`, and whether it is a Hide.
func c16StageAny(env *c16Env, tag string, before UserChannelMembership) (staged, boundary, hide bool) {
	var err error
	switch zzsym.Choice(tag+".command", 5) {
	case 0:
		err = env.batch.AdvanceUserChannelMembershipReadSeq(c16HashSlot, "u", c16Key, zzsym.U64(tag+".readSeq"), zzsym.I64(tag+".updatedAt"))
	case 1:
		err = env.batch.ActivateUserChannelMembership(c16HashSlot, "u", c16Key, zzsym.I64(tag+".activatedAt"), zzsym.I64(tag+".updatedAt"))
	case 2:
		err = env.batch.HideUserChannelMembership(c16HashSlot, "u", c16Key, zzsym.U64(tag+".deletedToSeq"), zzsym.I64(tag+".updatedAt"))
		hide = true
	case 3:
		next := c16Row(tag + ".upsert")
		err = env.batch.UpsertUserChannelMembership(c16HashSlot, next)
		boundary = before.Tombstone && !next.Tombstone && next.SourceVersion > before.SourceVersion
	default:
		incoming := c16Row(tag + ".ensure")
		err = env.batch.EnsureUserChannelMembership(c16HashSlot, incoming)
		boundary = incoming.SourceVersion > before.SourceVersion && before.SourceVersion != 0
	}
	return err == nil, boundary, hide
}

// Harness_C16_BatchHistory: two (thorough: three) arbitrary membership commands staged in one
// batch and applied in order on one commit state (a later op sees what an earlier one wrote
// through the overlay). Unless a step is a boundary, no cursor ends up below where it started.
func Harness_C16_BatchHistory() {
	env := c16NewEnv()
	start := c16Row("existing")
	env.seedMembership(start, true)
	steps := 2
	if zzsym.Thorough() {
		steps = 3
	}
	tags := [3]string{"step1", "step2", "step3"}
	prev := start
	anyBoundary := false
	for i := 0; i < steps; i++ {
		before := len(env.batch.ops)
		staged, boundary, hide := c16StageAny(env, tags[i], prev)
		if staged {
			zzsym.Assert(len(env.batch.ops) == before+1, "C16: a command staged a wrong number of ops")
			zzsym.Assert(env.batch.ops[before].apply(context.Background(), env.state, engine.ZZC16DetachedBatch()) == nil, "C16: staged op failed")
		} else {
			zzsym.Assert(len(env.batch.ops) == before, "C16: a rejected command staged an op")
		}
		cur, ok := env.storedMembership()
		zzsym.Assert(ok, "C16: row disappeared")
		anyBoundary = anyBoundary || boundary
		// per-step statement; the history-level one (end >= start) follows by transitivity
		zzsym.Assert(anyBoundary || (cur.ReadSeq >= prev.ReadSeq && cur.DeletedToSeq >= prev.DeletedToSeq && cur.UpdatedAt >= prev.UpdatedAt),
			"C16: ReadSeq/DeletedToSeq/UpdatedAt moved backwards in a boundary-free history")
		zzsym.Assert(anyBoundary || hide || cur.ActivatedAt >= prev.ActivatedAt, "C16: ActivatedAt moved backwards in a history step that is neither boundary nor Hide")
		zzsym.Assert(cur.SourceVersion >= prev.SourceVersion, "C16: source version moved backwards")
		prev = cur
	}
	zzsym.Reach("history")
	c16ObserveRow("c16.history", prev)
}
